/-
  C15 — deduplicate_namespaces only removes redundant declarations (as of /repo d434a2d: passes of
  `deduplicate_namespaces_pass` until one removes nothing).
  Property theorems only; for every tree, every path (call node), every environment.

    C15_subset            per node (raw document order, namespace nodes themselves not counted) the
                          declarations after are a sublist of the declarations before: nothing is
                          added, altered or reordered
    C15_frame             the tree without its namespace nodes is unchanged: element names,
                          attributes (names, values, order), text, comments, PIs, shape
    C15_same_nodes        the per-node comparison of C15_subset is between the same nodes
    C15_keeps_undeclarations   no binding to the no-namespace id (xmlns="", xmlns:p="") is ever removed, node
                          by node, any call node, given unique prefixes per element in the call's subtree
                          (C15_keeps_undeclarations_unique_needed: closed witness without it)
    C15_terminates        every pass that reports a removal makes the tree strictly smaller: the
                          `while` loop of the Rust ends
    C15_fuel_suffices     the loop of the model (fuel `t.size + 1`) stops because a pass removed nothing,
                          never because the fuel ran out; more fuel gives the same tree
    C15_idem              a second call removes nothing: deduplicate_namespaces(node) on the result is
                          the identity (full strength, every tree, every call node)
    C15_recursive_form    one pass on ANY node = the recursive rebuild `dpWalk` of the subtree, started
                          from an EMPTY kept stack, put back at the node's place
    C15_serialises        "a tree that serialised before still serialises": for every start node that
                          is not strictly inside the call's subtree (the root, the ancestors of the call
                          node, the call node itself, everything beside it) — `namesWritable` = to_string
                          does not fail with MissingPrefix —, given unique prefixes per element in the
                          call's subtree (C15_serialises_unique_needed: closed witness without it)
    C15_serialises_root / _call_node   the two instances the property names
    C15_serialises_inside for EVERY start node strictly inside the call's subtree too (its raw path
                          shifts when namespace nodes before it go: the nodes are matched by position
                          in `startPaths`, the raw-order list of non-namespace nodes)
    C15_serialises_everywhere   … hence every start node of every tree in the C01 domain, any call node;
                          C15_serialises_inside_only_elements_needed: closed witness without the second guard
    C15_representable     the call keeps a tree inside the C01 domain (`Representable`, decidable)
    C15_reparses_deep_equal   "… to text that reparses deep-equal to the original": whenever the tree
                          after the call serialises, the text parses back to exactly that tree, which
                          is deep_equal to the tree before the call (corollary of C01_roundtrip)
    C15_roundtrip         the whole sentence: a representable document every name of which `to_string`
                          could write before deduplicate_namespaces(node) — any node — serialises
                          afterwards, and the text parses back to the tree after the call, which is
                          deep_equal to the original (`C15_roundtrip_text`: with "serialised before" as
                          "to_string returned a text")
  An INNER start node (last section; Lemmas/DedupInnerStart.lean):
    C15_same_start_nodes  the i-th start node (startPaths) before and after: same value, same skeleton
    C15_serialises_from_every_start   to_string(start) returned a text before => it returns one after, EVERY
                          start node of a tree in the C01 domain (inside, above, beside the call node)
    C15_serialises_from_start_same_path   ... a start node not strictly inside keeps its raw path (nodeOK only)
    C15_roundtrip_inner (+ _text, _at)   deduplicate_namespaces(node), to_string(element p), parse: deep_equal
                          to the standalone document of p BEFORE the call; p anywhere, by position
    C15_roundtrip_inner_same_path, _call_node   p not strictly inside the call's subtree: same raw path
    C15_reachable_dedup_inner_full   the same for the erased tree of any store reached by parses and API calls
-/
import XotModel.Lemmas.ScopeDedup
import XotModel.Lemmas.DedupFuel
import XotModel.Lemmas.DedupUnique
import XotModel.Lemmas.DedupSerialise
import XotModel.Lemmas.DedupInside
import XotModel.Lemmas.DedupRoundTrip
import XotModel.Lemmas.DedupInnerStart
import XotModel.Props.C01

namespace XotModel.Props
open XotModel

/-- Declarations after ⊆ before, node by node; none added, none altered, order kept. -/
theorem C15_subset (env : Env) (t t' : Tree) (path : Path)
    (h : deduplicateNamespaces env t path = some t') : AllSub (declsOfTree t') (declsOfTree t) :=
  (NsShrink.deduplicateNamespaces env t t' path h).decls

/-- The node lists compared by `C15_subset` have the same length (they are the same nodes: see
    `C15_frame`). -/
theorem C15_same_nodes (env : Env) (t t' : Tree) (path : Path)
    (h : deduplicateNamespaces env t path = some t') : (declsOfTree t').length = (declsOfTree t).length :=
  (C15_subset env t t' path h).length_eq

/-- Names, attributes and content untouched: only namespace-node children are deleted. -/
theorem C15_frame (env : Env) (t t' : Tree) (path : Path)
    (h : deduplicateNamespaces env t path = some t') : stripNs t' = stripNs t ∧ t'.value = t.value :=
  ⟨(NsShrink.deduplicateNamespaces env t t' path h).strip,
   (NsShrink.deduplicateNamespaces env t t' path h).value⟩

/-! ### Undeclarations are never removed -/

/-- For every tree and every call node: node by node (the nodes are the same before and after:
    `C15_frame`, `C15_same_nodes`; `declsOfTree` lists the declarations of every non-namespace node in
    raw document order), every binding to the no-namespace id — `xmlns=""`, and `xmlns:p=""`
    which `Xot` accepts — that was there before is there afterwards (`is_redundant_declaration`
    returns `false` first thing).
    Hypothesis: no element of the call's subtree declares a prefix twice (the removal loop goes by
    prefix and deletes the FIRST namespace node with that key). -/
theorem C15_keeps_undeclarations (env : Env) (t t' : Tree) (path : Path) (sub : Tree)
    (hs : t.at? path = some sub) (hu : UniqueDeclsBelow sub)
    (h : deduplicateNamespaces env t path = some t') : AllKeep (declsOfTree t') (declsOfTree t) :=
  dedup_keeps_undeclarations env t t' path sub hs hu h

/-- `AllKeep` read at the `i`-th node: each pair `(p, no-namespace)` declared there before is
    declared there after. -/
theorem C15_keeps_undeclarations_at (env : Env) (t t' : Tree) (path : Path) (sub : Tree)
    (hs : t.at? path = some sub) (hu : UniqueDeclsBelow sub)
    (h : deduplicateNamespaces env t path = some t') (i : Nat) (before after : List (Nat × Nat))
    (hb : (declsOfTree t)[i]? = some before) (ha : (declsOfTree t')[i]? = some after) (p : Nat)
    (hm : (p, Env.noNamespace) ∈ before) : (p, Env.noNamespace) ∈ after :=
  (C15_keeps_undeclarations env t t' path sub hs hu h).get i after before ha hb _ hm rfl

def c15UndeclWitness : Tree :=
  .node (.element 0) [.node (.namespace 3 2) [],
    .node (.element 0) [.node (.namespace 2 0) [], .node (.namespace 2 2) []]]

/-- The hypothesis is needed: `<a xmlns:q="A"><b xmlns:p="" xmlns:p="A"/></a>` (a prefix declared
    twice on `b`; not constructible through the namespace map of the API): `xmlns:p="A"` is redundant
    on `b`, the loop removes "the declaration of `p`", which is `xmlns:p=""` (and the next pass
    removes `xmlns:p="A"`, still redundant). -/
theorem C15_keeps_undeclarations_unique_needed :
    ¬ ∀ (env : Env) (t t' : Tree), deduplicateNamespaces env t [] = some t' →
        AllKeep (declsOfTree t') (declsOfTree t) := by
  intro h
  have hd : (deduplicateNamespaces {} c15UndeclWitness []).map declsOfTree = some [[(3, 2)], []] := by
    decide
  cases hx : deduplicateNamespaces {} c15UndeclWitness [] with
  | none => simp [hx] at hd
  | some t' =>
    have hk := h {} c15UndeclWitness t' hx
    simp only [hx, Option.map_some, Option.some.injEq] at hd
    have := hk.get 1 [] [(2, 0), (2, 2)] (by rw [hd]; rfl) (by decide) (2, 0) (by simp) rfl
    simp at this

/-! ### Termination and idempotence -/

/-- **The `while` loop ends**: a pass that returns `true` ("removed something") has removed a node —
    each entry of `to_remove` names an existing element and a prefix among its declarations. -/
theorem C15_terminates (env : Env) (t : Tree) (path : Path) (sub : Tree) (hs : t.at? path = some sub)
    (h : (dedupPass env t path sub).2 = true) : (dedupPass env t path sub).1.size < t.size :=
  dedupPass_size_lt env t path sub hs h

/-- … and a pass that returns `false` has changed nothing. -/
theorem C15_pass_false (env : Env) (t : Tree) (path : Path) (sub : Tree)
    (h : (dedupPass env t path sub).2 = false) : (dedupPass env t path sub).1 = t :=
  dedupPass_of_no_removal env t path sub h

/-- **The fuel of the model suffices** (`dedupLoop_fuel_suffices`): the tree `deduplicate_namespaces`
    returns is one on which a pass from the call node finds nothing to remove — the loop ended because a
    pass returned `false`, not because `t.size + 1` rounds were used up — and any greater fuel gives the
    same tree. -/
theorem C15_fuel_suffices (env : Env) (t t' : Tree) (path : Path)
    (h : deduplicateNamespaces env t path = some t') :
    (∃ sub', t'.at? path = some sub' ∧ dedupToRemove env path sub' = []) ∧
    ∀ extra, dedupLoop env path (t.size + 1 + extra) t = t' := by
  refine ⟨deduplicateNamespaces_fixpoint env t t' path h, fun extra => ?_⟩
  obtain ⟨sub, hs⟩ := deduplicateNamespaces_isSome env t t' path h
  simp only [deduplicateNamespaces, hs, Option.some.injEq] at h
  rw [dedupLoop_fuel_irrelevant env path (t.size + 1) extra t (by omega), h]

/-- **A second call removes nothing**, as the property states it: for every tree, every call node. -/
theorem C15_idem (env : Env) (t t1 : Tree) (path : Path)
    (h : deduplicateNamespaces env t path = some t1) : deduplicateNamespaces env t1 path = some t1 :=
  deduplicateNamespaces_idem env t t1 path h

/-- The three loops of one pass (edge traversal with the kept stack, `to_remove`, removal by prefix) on
    ANY node amount to one recursive rebuild of the subtree — the kept stack starts EMPTY at the node, no
    declaration above it is looked at — put back in place; the flag says whether `to_remove` was
    non-empty. -/
theorem C15_recursive_form (env : Env) (t : Tree) (path : Path) (sub : Tree)
    (hs : t.at? path = some sub) :
    dedupPass env t path sub = (scopeModifyAt (dpWalk env []) t path, !(dpRem env [] sub).isEmpty) :=
  dedupPass_eq env t path sub hs

/-! ### A tree that serialised before still serialises -/

/-- **C15_serialises**: if `to_string(start)` found a prefix for every element and attribute name before
    `deduplicate_namespaces(node)`, it does afterwards — for every start node that is not strictly
    inside the subtree of `node` (`q = path ++ r` only with `r = []`): the root, every ancestor of
    `node`, `node` itself, every node outside its subtree.  Such a node has the same raw path before and
    after the call.  (Start nodes strictly inside: `C15_serialises_inside`.)
    Hypothesis: no element of the call's subtree declares a prefix twice
    (`C15_serialises_unique_needed`). -/
theorem C15_serialises (env : Env) (t t' : Tree) (path : Path) (sub : Tree)
    (hs : t.at? path = some sub) (hu : UniqueDeclsBelow sub)
    (hd : deduplicateNamespaces env t path = some t') (q : Path)
    (hq : ∀ r, q = path ++ r → r = [])
    (hw : namesWritable env t q = some true) : namesWritable env t' q = some true :=
  namesWritable_dedup env t t' path sub hs hu hd q hq hw

/-- `to_string(root)` after a call on any node. -/
theorem C15_serialises_root (env : Env) (t t' : Tree) (path : Path) (sub : Tree)
    (hs : t.at? path = some sub) (hu : UniqueDeclsBelow sub)
    (hd : deduplicateNamespaces env t path = some t')
    (hw : namesWritable env t [] = some true) : namesWritable env t' [] = some true :=
  C15_serialises env t t' path sub hs hu hd [] (fun _ h => (List.append_eq_nil_iff.1 h.symm).2) hw

/-- `to_string(node)` after the call on `node`. -/
theorem C15_serialises_call_node (env : Env) (t t' : Tree) (path : Path) (sub : Tree)
    (hs : t.at? path = some sub) (hu : UniqueDeclsBelow sub)
    (hd : deduplicateNamespaces env t path = some t')
    (hw : namesWritable env t path = some true) : namesWritable env t' path = some true :=
  C15_serialises env t t' path sub hs hu hd path (fun _ h => List.self_eq_append_right.1 h) hw

/-- **Every start node strictly inside the call's subtree.**  Its raw path may differ before and after
    (namespace nodes before it or before one of its ancestors may be gone), so the nodes are matched by
    their position in `startPaths`: the paths of all nodes that are not namespace nodes (nor inside
    one), in raw document order — the enumeration `declsOfTree` / `C15_subset` use; `C15_frame` says
    the nodes are the same.  For every position `i`: if `to_string` of the `i`-th node found every
    prefix before the call, `to_string` of the `i`-th node finds every prefix after it.
    Hypotheses (on the call's subtree): no element declares a prefix twice, and only elements carry
    namespace nodes (`OnlyElementsDeclare`; the call looks at the declarations of elements only,
    `namespaces_in_scope` at those of every ancestor). -/
theorem C15_serialises_inside (env : Env) (t t' : Tree) (path : Path) (sub : Tree)
    (hs : t.at? path = some sub) (hu : UniqueDeclsBelow sub) (ho : OnlyElementsDeclare sub)
    (hd : deduplicateNamespaces env t path = some t') :
    (startPaths t').length = (startPaths t).length ∧
    ∀ (i : Nat) (q q' : Path), (startPaths t)[i]? = some q → (startPaths t')[i]? = some q' →
      namesWritable env t q = some true → namesWritable env t' q' = some true :=
  namesWritable_dedup_everywhere env t t' path sub hs hu ho hd

def c15OnlyElWitness : Tree :=
  .node (.element 0) [.node (.namespace 3 2) [],
    .node (.comment []) [.node (.namespace 3 3) [],
      .node (.element 1) [.node (.namespace 2 2) []]]]

def c15OnlyElEnv : Env := { namespaces := [], prefixes := [], names := [(['a'], 0), (['a'], 2)] }

/-- `OnlyElementsDeclare` is needed for the start nodes inside: a COMMENT node with children (not
    constructible through the API) `xmlns:q="M"` and `<p:a xmlns:p="N"/>` below `<r xmlns:q="N">`:
    the call does not see the comment's declaration and removes `xmlns:p="N"` (witness `q`), but
    `namespaces_in_scope(p:a)` does see it: started at `p:a`, `to_string` finds a prefix for `N` before
    and none after.  (Started at the root it fails neither before nor after.) -/
theorem C15_serialises_inside_only_elements_needed :
    ¬ ∀ (env : Env) (t t' : Tree), UniqueDeclsBelow t → deduplicateNamespaces env t [] = some t' →
        ∀ (i : Nat) (q q' : Path), (startPaths t)[i]? = some q → (startPaths t')[i]? = some q' →
          namesWritable env t q = some true → namesWritable env t' q' = some true := by
  intro h
  have hu : UniqueDeclsBelow c15OnlyElWitness := uniqueDeclsB_sound _ (by decide)
  have key : ((deduplicateNamespaces c15OnlyElEnv c15OnlyElWitness []).bind fun t' =>
      ((startPaths t')[2]?).bind fun q' => namesWritable c15OnlyElEnv t' q') = some false := by decide
  cases hd : deduplicateNamespaces c15OnlyElEnv c15OnlyElWitness [] with
  | none => simp [hd] at key
  | some t' =>
    simp only [hd, Option.bind_some] at key
    cases hq' : (startPaths t')[2]? with
    | none => simp [hq'] at key
    | some q' =>
      have := h c15OnlyElEnv c15OnlyElWitness t' hu hd 2 [1, 1] q' (by decide) hq' (by decide)
      simp [hq', this] at key

/-- In the C01 domain (`RepresentableFragment`: every node `nodeOK`, hence unique prefixes per element
    and namespace nodes under elements only) both hypotheses hold for every call node: every start
    node of a representable tree keeps serialising. -/
theorem C15_serialises_everywhere (env : Env) (t t' : Tree) (path : Path)
    (hr : RepresentableFragment env t = true) (hd : deduplicateNamespaces env t path = some t') :
    (startPaths t').length = (startPaths t).length ∧
    ∀ (i : Nat) (q q' : Path), (startPaths t)[i]? = some q → (startPaths t')[i]? = some q' →
      namesWritable env t q = some true → namesWritable env t' q' = some true := by
  obtain ⟨sub, hs⟩ := deduplicateNamespaces_isSome env t t' path hd
  exact C15_serialises_inside env t t' path sub hs
    ((uniqueDeclsBelow_of_representableFragment hr).at hs)
    (OnlyElementsDeclare.at path t sub (onlyElementsDeclare_of_representableFragment hr) hs) hd

def c15DupWitness : Tree :=
  .node (.element 0) [.node (.namespace 3 2) [],
    .node (.element 0) [.node (.namespace 2 3) [], .node (.namespace 2 2) [],
      .node (.element 1) []]]

def c15DupEnv : Env := { namespaces := [], prefixes := [], names := [(['a'], 0), (['a'], 3)] }

/-- The hypothesis is needed: `<a xmlns:q="A"><b xmlns:p="B" xmlns:p="A"><p:a/></b></a>` (`p` declared
    twice on `b`, the serialiser's frame holds both; not constructible through the namespace map of the
    API): `xmlns:p="A"` is redundant (`q`), the loop removes "the declaration of `p`", which is
    `xmlns:p="B"`, and `{B}a` is left without a prefix. -/
theorem C15_serialises_unique_needed :
    ¬ ∀ (env : Env) (t t' : Tree), deduplicateNamespaces env t [] = some t' →
        namesWritable env t [] = some true → namesWritable env t' [] = some true := by
  intro h
  have key : ((deduplicateNamespaces c15DupEnv c15DupWitness []).bind fun t' =>
      namesWritable c15DupEnv t' []) = some false := by decide
  have hw : namesWritable c15DupEnv c15DupWitness [] = some true := by decide
  cases hd : deduplicateNamespaces c15DupEnv c15DupWitness [] with
  | none => simp [hd] at key
  | some t' =>
    have := h c15DupEnv c15DupWitness t' hd hw
    simp [hd, this] at key

/-! ### Non-vacuity: the three trees on which the code before d434a2d violated the property -/

/-- `<a xmlns:q="A"><b xmlns:p="A" xmlns:q="B"><p:a/></b></a>` (was `C15_serialises_false`): `q` is
    bound to `A` above but re-bound on `b` itself, so `xmlns:p="A"` is KEPT and `{A}a` stays writable. -/
def c15SerWitness : Tree :=
  .node (.element 0) [.node (.namespace 3 2) [],
    .node (.element 0) [.node (.namespace 2 2) [], .node (.namespace 3 3) [],
      .node (.element 1) []]]

def c15SerEnv : Env := { namespaces := [], prefixes := [], names := [(['a'], 0), (['a'], 2)] }

example : namesWritable c15SerEnv c15SerWitness [] = some true ∧
    (deduplicateNamespaces c15SerEnv c15SerWitness []).map declsOfTree =
      some [[(3, 2)], [(2, 2), (3, 3)], []] ∧
    ((deduplicateNamespaces c15SerEnv c15SerWitness []).bind fun t' =>
      namesWritable c15SerEnv t' []) = some true := by decide

example : UniqueDeclsBelow c15SerWitness := uniqueDeclsB_sound _ (by decide)

/-- `<r xmlns:q="C" xmlns:p="A"><m xmlns:q="A"><n xmlns:r="C"/></m></r>` (was `C15_idem_false`): the
    first call removes `xmlns:q="A"` from `m` (witness `p`) AND `xmlns:r="C"` from `n` (witness `q`: the
    kept stack no longer holds `q ↦ A`); the second call removes nothing. -/
def c15IdemWitness : Tree :=
  .node (.element 0) [.node (.namespace 3 4) [], .node (.namespace 2 2) [],
    .node (.element 0) [.node (.namespace 3 2) [],
      .node (.element 0) [.node (.namespace 4 4) []]]]

example : (deduplicateNamespaces {} c15IdemWitness []).map declsOfTree = some [[(3, 4), (2, 2)], [], []] ∧
    ((deduplicateNamespaces {} c15IdemWitness []).bind fun t1 =>
      (deduplicateNamespaces {} t1 []).map declsOfTree) =
      (deduplicateNamespaces {} c15IdemWitness []).map declsOfTree := by decide

/-- A tree on which the loop needs MORE than one pass:
    `<r xmlns:q="N" xmlns:r="M"><e xmlns:p="N"><x xmlns:q="M"/></e></r>`.  Pass 1 cannot remove
    `xmlns:p="N"` (the only other prefix for `N`, `q`, is re-bound to `M` below `e`) but removes
    `xmlns:q="M"` (witness `r`); pass 2 removes `xmlns:p="N"` (witness `q`, no longer re-bound); pass 3
    removes nothing. -/
def c15TwoPassWitness : Tree :=
  .node (.element 0) [.node (.namespace 2 2) [], .node (.namespace 3 3) [],
    .node (.element 0) [.node (.namespace 4 2) [],
      .node (.element 0) [.node (.namespace 2 3) []]]]

example : declsOfTree (dedupPass {} c15TwoPassWitness [] c15TwoPassWitness).1 =
      [[(2, 2), (3, 3)], [(4, 2)], []] ∧
    (dedupPass {} c15TwoPassWitness [] c15TwoPassWitness).2 = true ∧
    (deduplicateNamespaces {} c15TwoPassWitness []).map declsOfTree =
      some [[(2, 2), (3, 3)], [], []] := by decide

/-- The raw path of the innermost element of `c15TwoPassWitness` changes (`[2, 1]` before, `[2, 0]`
    after: the namespace node before it is gone); `startPaths` matches the two by position. -/
example : startPaths c15TwoPassWitness = [[], [2], [2, 1]] ∧
    (deduplicateNamespaces {} c15TwoPassWitness []).map startPaths = some [[], [2], [2, 0]] ∧
    namesWritable {} c15TwoPassWitness [2, 1] = some true := by decide

example : UniqueDeclsBelow c15TwoPassWitness := uniqueDeclsB_sound _ (by decide)

example : OnlyElementsDeclare c15TwoPassWitness := by
  simp [OnlyElementsDeclare, c15TwoPassWitness, Tree.Forall, Tree.Forall.forallList, Value.isElement,
    nsDecls_node, declsOfKids]

/-- `<a xmlns="A" xmlns:p="B"><b xmlns:q="A" q:x=""><c xmlns:r="B"/></b></a>` (a, b in A; x in A;
    c in B): writable, and dedup removes `r` but must keep `q` (the attribute needs a non-empty prefix). -/
def c15AttrWitness : Tree :=
  .node (.element 0) [.node (.namespace 0 2) [], .node (.namespace 2 3) [],
    .node (.element 0) [.node (.namespace 3 2) [], .node (.attribute 1 []) [],
      .node (.element 2) [.node (.namespace 4 3) []]]]

def c15AttrEnv : Env := { namespaces := [], prefixes := [], names := [(['a'], 2), (['x'], 2), (['c'], 3)] }

example : namesWritable c15AttrEnv c15AttrWitness [] = some true ∧
    (deduplicateNamespaces c15AttrEnv c15AttrWitness []).map declsOfTree =
      some [[(0, 2), (2, 3)], [(3, 2)], [], []] := by decide

example : UniqueDeclsBelow c15AttrWitness := uniqueDeclsB_sound _ (by decide)

/-- `<a xmlns:p="A"><b xmlns:p="A"/></a>`: the redundant declaration on `b` goes, nothing else. -/
example : (deduplicateNamespaces {} (.node (.element 0) [.node (.namespace 2 2) [],
      .node (.element 0) [.node (.namespace 2 2) []]]) []).map declsOfTree = some [[(2, 2)], []] := by decide

/-- Inner call on `b` (path `[2]`) of `c15AttrWitness`: `xmlns:r="B"` stays (B is not bound inside
    `b`'s subtree), and `xmlns:q` stays; `to_string(b)` still finds every prefix. -/
example : (deduplicateNamespaces c15AttrEnv c15AttrWitness [2]).map declsOfTree =
      some [[(0, 2), (2, 3)], [(3, 2)], [], [(4, 3)]] ∧
    namesWritable c15AttrEnv c15AttrWitness [2] = some true := by decide

/-- `<a xmlns:p="A"><b><c xmlns:q="A"/><d xmlns=""/></b></a>`, call on `b` (path `[1]`): nothing
    is known inside `b`, nothing goes; call on the root: `xmlns:q` goes, `xmlns=""` stays. -/
def c15InnerWitness : Tree :=
  .node (.element 0) [.node (.namespace 2 2) [],
    .node (.element 0) [.node (.element 0) [.node (.namespace 3 2) []],
      .node (.element 0) [.node (.namespace 0 0) []]]]

example : (deduplicateNamespaces {} c15InnerWitness [1]).map declsOfTree =
    some [[(2, 2)], [], [(3, 2)], [(0, 0)]] := by decide
example : (deduplicateNamespaces {} c15InnerWitness []).map declsOfTree =
    some [[(2, 2)], [], [], [(0, 0)]] := by decide
example : UniqueDeclsBelow c15InnerWitness := uniqueDeclsB_sound _ (by decide)

/-! ### "… to text that reparses deep-equal to the original" (corollaries of C01_roundtrip) -/

/-- The call keeps a tree inside the C01 domain: removing namespace nodes keeps every clause of
    `Representable` (structure, lexical conditions, unique `xml:id`s, one top-level element). -/
theorem C15_representable (env : Env) (t t' : Tree) (path : Path) (hr : Representable env t = true)
    (h : deduplicateNamespaces env t path = some t') : Representable env t' = true :=
  representable_deduplicateNamespaces t t' path hr h

/-- … and the fragment domain (`parse_fragment`). -/
theorem C15_representable_fragment (env : Env) (t t' : Tree) (path : Path)
    (hr : RepresentableFragment env t = true) (h : deduplicateNamespaces env t path = some t') :
    RepresentableFragment env t' = true :=
  representableFragment_deduplicateNamespaces t t' path hr h

/-- The second half of the sentence: for a representable document and a call on ANY node, whenever the
    tree after the call serialises, the text parses back (same `Xot`) to exactly the tree after the
    call, interning nothing, and that tree is `deep_equal` to the tree BEFORE the call. -/
theorem C15_reparses_deep_equal (env : Env) (t t' : Tree) (path : Path) (hr : Representable env t = true)
    (h : deduplicateNamespaces env t path = some t') (s : Str) (hs : toXmlString env t' [] = .ok s) :
    ∃ p, parseString .document env s = .ok p ∧ p.tree = t' ∧ p.env = env ∧ deepEqual p.tree t = true := by
  have hr' := C15_representable env t t' path hr h
  obtain ⟨p, h1, h2, h3, _⟩ := C01_roundtrip_identical env t' hr' s hs
  refine ⟨p, h1, h2, h3, ?_⟩
  have ok : ∀ x, Representable env x = true → x.allNodes (nodeOK env) = true := by
    intro x hx
    simp only [Representable, Bool.and_eq_true] at hx
    exact ((representableFragment_iff env x).mp hx.1).2.2.1
  rw [h2]
  exact deepEqual_of_stripNs (ok t' hr') (ok t hr) (C15_frame env t t' path h).1

/-- **C15_roundtrip**: the whole sentence, full strength: a representable document every name of which
    `to_string` could write before `deduplicate_namespaces(node)` — any node — serialises afterwards,
    and the text parses back to the tree after the call, which is `deep_equal` to the original.
    (`Representable` includes that no element declares a prefix twice.) -/
theorem C15_roundtrip (env : Env) (t t' : Tree) (path : Path) (hr : Representable env t = true)
    (hd : deduplicateNamespaces env t path = some t')
    (hw : namesWritable env t [] = some true) :
    ∃ s p, toXmlString env t' [] = .ok s ∧ parseString .document env s = .ok p ∧ p.tree = t' ∧
      p.env = env ∧ deepEqual p.tree t = true := by
  have hr' := C15_representable env t t' path hr hd
  obtain ⟨sub, hsub⟩ := deduplicateNamespaces_isSome env t t' path hd
  have hw' := C15_serialises_root env t t' path sub hsub
    ((uniqueDeclsBelow_of_representable hr).at hsub) hd hw
  have hfrag : RepresentableFragment env t' = true := by
    simp only [Representable, Bool.and_eq_true] at hr'; exact hr'.1
  obtain ⟨s, hs⟩ := (C01_serialises env t' hfrag).mpr hw'
  obtain ⟨p, h1, h2, h3, h4⟩ := C15_reparses_deep_equal env t t' path hr hd s hs
  exact ⟨s, p, hs, h1, h2, h3, h4⟩

/-- With "serialised before" as the property words it (`to_string` returned a text). -/
theorem C15_roundtrip_text (env : Env) (t t' : Tree) (path : Path) (hr : Representable env t = true)
    (hd : deduplicateNamespaces env t path = some t') (s0 : Str)
    (hs0 : toXmlString env t [] = .ok s0) :
    ∃ s p, toXmlString env t' [] = .ok s ∧ parseString .document env s = .ok p ∧ p.tree = t' ∧
      p.env = env ∧ deepEqual p.tree t = true := by
  have hfrag : RepresentableFragment env t = true := by
    simp only [Representable, Bool.and_eq_true] at hr; exact hr.1
  exact C15_roundtrip env t t' path hr hd ((C01_serialises env t hfrag).mp ⟨s0, hs0⟩)

/-- Non-vacuity, closed: `<r xmlns="urn:a" xmlns:p="urn:b"><p:c xmlns:q="urn:b"/></r>` — `xmlns:q` is
    redundant and removed; the hypotheses hold, the result serialises to
    `<r xmlns="urn:a" xmlns:p="urn:b"><p:c/></r>`. -/
def c15RtEnv : Env where
  namespaces := [[], xmlNamespaceUri, ['u', 'r', 'n', ':', 'a'], ['u', 'r', 'n', ':', 'b']]
  prefixes := [[], ['x', 'm', 'l'], ['p'], ['q']]
  names := [(['s', 'p', 'a', 'c', 'e'], 1), (['i', 'd'], 1), (['r'], 2), (['c'], 3)]

def c15RtDoc : Tree :=
  .node .document [.node (.element 2) [.node (.namespace 0 2) [], .node (.namespace 2 3) [],
    .node (.element 3) [.node (.namespace 3 3) []]]]

example : Representable c15RtEnv c15RtDoc = true ∧ namesWritable c15RtEnv c15RtDoc [] = some true ∧
    (deduplicateNamespaces c15RtEnv c15RtDoc []).map (fun t' => (declsOfTree t', toXmlString c15RtEnv t' [])) =
      some ([[], [(0, 2), (2, 3)], []],
        .ok "<r xmlns=\"urn:a\" xmlns:p=\"urn:b\"><p:c/></r>".toList) := by decide

example : ∃ t' s p, deduplicateNamespaces c15RtEnv c15RtDoc [] = some t' ∧
    toXmlString c15RtEnv t' [] = .ok s ∧ parseString .document c15RtEnv s = .ok p ∧ p.tree = t' ∧
    deepEqual p.tree c15RtDoc = true := by
  cases hd : deduplicateNamespaces c15RtEnv c15RtDoc [] with
  | none =>
    have : (deduplicateNamespaces c15RtEnv c15RtDoc []).isSome = true := by decide
    rw [hd] at this; cases this
  | some t' =>
    obtain ⟨s, p, h1, h2, h3, _, h5⟩ := C15_roundtrip c15RtEnv c15RtDoc t' [] (by decide) hd (by decide)
    exact ⟨t', s, p, rfl, h1, h2, h3, h5⟩

/-! ## END TO END: `deduplicate_namespaces` as a step of an API history, then serialise, then parse

`C15_roundtrip` above is about the tree-level model on a `Representable` tree.  Props/C04.lean shows that the
forest-level model (handles; what a history of API calls runs) refines it on every forest with the
invariant (`C15_forest_dedup_refines_tree`), that a second forest-level call changes nothing
(`C15_forest_dedup_idem`), that every reachable forest has the invariant (`C04_reach_ext`) and that
`Representable` of a reachable tree is a condition on its values (`C01_reachable_representable`).
Composed (the two lemma families can be imported together since the helper names were made unique;
Props/C04 comes in through Props/C01): -/

section EndToEnd

/-- ⟦C15_reachable_dedup⟧ **`deduplicate_namespaces(node)` as a step of an API history keeps
    serialisability, is idempotent, and the text reparses deep-equal.**  `S` is the store after any
    extended history `cs` from the empty store (well-kinded steps, consolidation never switched off), `r`
    a parentless tree of it whose root is a document node, whose VALUES are in the XML domain for the
    tables of the store (`envOK`, `valueOK` everywhere, distinct `xml:id`s, one top-level element and no
    top-level text) and every name of which `to_string` can write (`namesWritable`); `node` is ANY node of
    `r` (the document, an element, a leaf).  `S'` is the store after the history extended by
    `deduplicate_namespaces(node)`.  Then
      * the call answers `Ok`, the tables are untouched, `S'` has the invariant;
      * the SAME call once more changes nothing at all (store equality) and answers `Ok`;
      * the tree `r'` that `r` has become (`node` at the same path; it is the tree model's answer on the
        erased tree) is still `Representable`, every name is still writable, `to_string` succeeds, and
        `parse` of the text gives back exactly `r'` erased — tables unchanged — which is `deep_equal`
        to the tree BEFORE the call. -/
theorem C15_reachable_dedup (env : Env) (cs : List Forest.XCall) (hw : ∀ c ∈ cs, c.wellKinded)
    (S : Store) (hS : S = (⟨Forest.init, env⟩ : Store).xrun cs) (hoff : S.forest.everOff = false)
    (r : HTree) (hr : r ∈ S.forest.roots) (hdoc : r.value.isDocument = true) (henv : envOK S.env = true)
    (hval : r.erase.allNodes (fun v _ => valueOK S.env v) = true)
    (hid : (xmlIdValues S.env r.erase).Nodup) (hone : singleRoot r.erase = true)
    (hwr : namesWritable S.env r.erase [] = some true)
    (node : Nat) (hn : node ∈ r.handles)
    (S' : Store) (hS' : S' = (⟨Forest.init, env⟩ : Store).xrun (cs ++ [.deduplicateNamespaces node])) :
    ((Forest.XCall.deduplicateNamespaces node).run S).2 = .ok ∧ S'.env = S.env ∧ S'.forest.Inv ∧
    (Forest.XCall.deduplicateNamespaces node).run S' = (S', .ok) ∧
    ∃ (r' : HTree) (path : Path), r.pathOf node = some path ∧ r'.pathOf node = some path ∧
      S'.forest.roots = S.forest.roots.map (fun y => if (y.pathOf node).isSome then r' else y) ∧
      S'.forest.rootOf? node = some r' ∧
      deduplicateNamespaces S.env r.erase path = some r'.erase ∧
      Representable S.env r'.erase = true ∧ namesWritable S.env r'.erase [] = some true ∧
      ∃ s p, toXmlString S.env r'.erase [] = .ok s ∧ parseString .document S.env s = .ok p ∧
        p.tree = r'.erase ∧ p.env = S.env ∧ deepEqual p.tree r.erase = true := by
  have hi' : S'.forest.Inv := by
    rw [hS']
    refine C04_reach_ext env _ (fun c hc => ?_)
    rcases List.mem_append.mp hc with hc | hc
    · exact hw c hc
    · rw [List.mem_singleton.mp hc]; trivial
  have hstep : S' = ⟨(S.forest.deduplicateNamespaces S.env node).1, S.env⟩ := by
    rw [hS', hS]; simp [Store.xrun, List.foldl_append, Store.xstep, Forest.XCall.run]
  subst hS
  have hi := C04_reach_ext env cs hw
  have hrep : Representable ((⟨Forest.init, env⟩ : Store).xrun cs).env r.erase = true := by
    rw [(C01_reachable_representable env cs hw hoff r hr _).2]
    simp [henv, hdoc, hval, hid, hone]
  have h1 := Forest.fpxr_rootOf_of_mem hi.nodup hr hn
  obtain ⟨path, h2⟩ := Forest.fpxd_rootOf_path h1
  obtain ⟨r', a1, a2, a3, a4, a5, _, _, _, _⟩ := C15_forest_dedup_refines_tree _ hi
    ((⟨Forest.init, env⟩ : Store).xrun cs).env node r h1 path h2
  have hrep' := C15_representable _ r.erase r'.erase path hrep a2
  obtain ⟨s, p, k1, k2, k3, k4, k5⟩ := C15_roundtrip _ r.erase r'.erase path hrep a2 hwr
  have hwr' : namesWritable ((⟨Forest.init, env⟩ : Store).xrun cs).env r'.erase [] = some true := by
    have hfrag : RepresentableFragment ((⟨Forest.init, env⟩ : Store).xrun cs).env r'.erase = true := by
      simp only [Representable, Bool.and_eq_true] at hrep'; exact hrep'.1
    exact (C01_serialises _ r'.erase hfrag).mp ⟨s, k1⟩
  have hidem := C15_forest_dedup_idem _ hi ((⟨Forest.init, env⟩ : Store).xrun cs).env node
  subst hstep
  refine ⟨a1, rfl, hi', ?_, r', path, h2, a4, a5, a3, a2, hrep', hwr', s, p, k1, k2, k3, k4, k5⟩
  simp only [Forest.XCall.run]
  rw [hidem]

/-! Non-vacuity, closed: an 8-step history (three node creations, two `append`s, three
    `namespaces_mut().insert`) builds the document `c15RtDoc` above,
    `<r xmlns="urn:a" xmlns:p="urn:b"><p:c xmlns:q="urn:b"/></r>`, with handles; every hypothesis holds by
    evaluation; after the step `deduplicate_namespaces(doc)` the redundant `xmlns:q` is gone (handle 5) and
    the document serialises to `<r xmlns="urn:a" xmlns:p="urn:b"><p:c/></r>`. -/

def c15ReachCalls : List Forest.XCall :=
  [.newNode .document, .newNode (.element 2), .newNode (.element 3), .call (.append 0 1), .call (.append 1 2),
   .call (.mapInsert .namespaces 1 (.namespace 0 2)), .call (.mapInsert .namespaces 1 (.namespace 2 3)),
   .call (.mapInsert .namespaces 2 (.namespace 3 3))]
def c15ReachRoot : HTree :=
  .node 0 .document [.node 1 (.element 2) [.node 3 (.namespace 0 2) [], .node 4 (.namespace 2 3) [],
    .node 2 (.element 3) [.node 5 (.namespace 3 3) []]]]

example : (∀ c ∈ c15ReachCalls, c.wellKinded) ∧
    ((⟨Forest.init, c15RtEnv⟩ : Store).xrun c15ReachCalls).forest.everOff = false ∧
    ((⟨Forest.init, c15RtEnv⟩ : Store).xrun c15ReachCalls).forest.roots = [c15ReachRoot] ∧
    c15ReachRoot.erase = c15RtDoc ∧
    c15ReachRoot.value.isDocument = true ∧ envOK c15RtEnv = true ∧
    c15ReachRoot.erase.allNodes (fun v _ => valueOK c15RtEnv v) = true ∧
    (xmlIdValues c15RtEnv c15ReachRoot.erase).Nodup ∧ singleRoot c15ReachRoot.erase = true ∧
    namesWritable c15RtEnv c15ReachRoot.erase [] = some true ∧ 0 ∈ c15ReachRoot.handles := by
  decide +kernel

example :
    let S' := (⟨Forest.init, c15RtEnv⟩ : Store).xrun (c15ReachCalls ++ [.deduplicateNamespaces 0])
    S'.forest.allHandles = [0, 1, 3, 4, 2] ∧
    S'.forest.roots.map (fun r' => toXmlString c15RtEnv r'.erase []) =
      [.ok "<r xmlns=\"urn:a\" xmlns:p=\"urn:b\"><p:c/></r>".toList] := by decide +kernel

example : ∃ r' s p,
    let S' := (⟨Forest.init, c15RtEnv⟩ : Store).xrun (c15ReachCalls ++ [.deduplicateNamespaces 0])
    (Forest.XCall.deduplicateNamespaces 0).run S' = (S', .ok) ∧
    S'.forest.rootOf? 0 = some r' ∧ toXmlString c15RtEnv r'.erase [] = .ok s ∧
      parseString .document c15RtEnv s = .ok p ∧ p.tree = r'.erase ∧ deepEqual p.tree c15RtDoc = true := by
  obtain ⟨_, _, _, hidem, r', _, _, _, _, h3, _, _, _, s, p, k1, k2, k3, _, k5⟩ :=
    C15_reachable_dedup c15RtEnv c15ReachCalls (by decide) _ rfl (by decide +kernel)
      c15ReachRoot (by decide +kernel) rfl (by decide +kernel) (by decide +kernel) (by decide +kernel)
      (by decide +kernel) (by decide +kernel) 0 (by decide) _ rfl
  exact ⟨r', s, p, hidem, h3, k1, k2, k3, k5⟩

end EndToEnd

/-! ## END TO END over histories that parse: parse ∘ API edits ∘ `deduplicate_namespaces` ∘ serialise ∘ parse

The same composition with the bridges for FULL histories (`C04_reach_full`,
`C01_reachable_representable_full`, Props/C04.lean): the history may contain `parse` / `parse_fragment` steps
of arbitrary texts anywhere. -/

section EndToEndFull

/-- ⟦C15_reachable_dedup_full⟧ **… over histories that PARSE and edit.**  The statement of `C15_reachable_dedup`
    with `S` the store after any FULL history `cs` from `Xot::new()` with the tables `env` (`PCall`,
    Model/FparseHist.lean: `parse` / `parse_fragment` of ARBITRARY texts, accepted or rejected, and well-kinded
    extended API calls in any order; consolidation never switched off), `r` any parentless tree of it whose
    root is a document node — a parsed document, edited or not, or one built by hand — in the value-level
    domain for the tables of the store and writable, `node` ANY node of `r`, `S'` the store after the history
    extended by the step `deduplicate_namespaces(node)`.  Same conclusion (the step answers `Ok`, tables
    untouched, invariant, the same step once more changes nothing — store equality, index included —, `r'`
    is the tree model's answer, `Representable`, writable, `to_string` ∘ `parse` gives back `r'` erased,
    `deep_equal` to the tree before the call); moreover the xml:id index of the store is untouched. -/
theorem C15_reachable_dedup_full (env : Env) (cs : List PCall) (hw : ∀ c ∈ cs, c.wellKinded)
    (S : PStore) (hS : S = (PStore.init env).run cs) (hoff : S.forest.everOff = false)
    (r : HTree) (hr : r ∈ S.forest.roots) (hdoc : r.value.isDocument = true) (henv : envOK S.env = true)
    (hval : r.erase.allNodes (fun v _ => valueOK S.env v) = true)
    (hid : (xmlIdValues S.env r.erase).Nodup) (hone : singleRoot r.erase = true)
    (hwr : namesWritable S.env r.erase [] = some true)
    (node : Nat) (hn : node ∈ r.handles)
    (S' : PStore) (hS' : S' = (PStore.init env).run (cs ++ [.api (.deduplicateNamespaces node)])) :
    ((PCall.api (.deduplicateNamespaces node)).run S).2 = .api .ok ∧ S'.env = S.env ∧ S'.index = S.index ∧
    S'.forest.Inv ∧
    (PCall.api (.deduplicateNamespaces node)).run S' = (S', .api .ok) ∧
    ∃ (r' : HTree) (path : Path), r.pathOf node = some path ∧ r'.pathOf node = some path ∧
      S'.forest.roots = S.forest.roots.map (fun y => if (y.pathOf node).isSome then r' else y) ∧
      S'.forest.rootOf? node = some r' ∧
      deduplicateNamespaces S.env r.erase path = some r'.erase ∧
      Representable S.env r'.erase = true ∧ namesWritable S.env r'.erase [] = some true ∧
      ∃ s p, toXmlString S.env r'.erase [] = .ok s ∧ parseString .document S.env s = .ok p ∧
        p.tree = r'.erase ∧ p.env = S.env ∧ deepEqual p.tree r.erase = true := by
  have hi' : S'.forest.Inv := by
    rw [hS']
    refine (C04_reach_full env _ (fun c hc => ?_)).1
    rcases List.mem_append.mp hc with hc | hc
    · exact hw c hc
    · rw [List.mem_singleton.mp hc]; trivial
  have hstep : S' = ⟨(S.forest.deduplicateNamespaces S.env node).1, S.env, S.index⟩ := by
    rw [hS', hS]; simp [PStore.run, List.foldl_append, PStore.step, PCall.run, Forest.XCall.run, PStore.store]
  subst hS
  have hi := (C04_reach_full env cs hw).1
  have hrep : Representable ((PStore.init env).run cs).env r.erase = true := by
    rw [(C01_reachable_representable_full env cs hw hoff r hr _).2]
    simp [henv, hdoc, hval, hid, hone]
  have h1 := Forest.fpxr_rootOf_of_mem hi.nodup hr hn
  obtain ⟨path, h2⟩ := Forest.fpxd_rootOf_path h1
  obtain ⟨r', a1, a2, a3, a4, a5, _, _, _, _⟩ := C15_forest_dedup_refines_tree _ hi
    ((PStore.init env).run cs).env node r h1 path h2
  have hrep' := C15_representable _ r.erase r'.erase path hrep a2
  obtain ⟨s, p, k1, k2, k3, k4, k5⟩ := C15_roundtrip _ r.erase r'.erase path hrep a2 hwr
  have hwr' : namesWritable ((PStore.init env).run cs).env r'.erase [] = some true := by
    have hfrag : RepresentableFragment ((PStore.init env).run cs).env r'.erase = true := by
      simp only [Representable, Bool.and_eq_true] at hrep'; exact hrep'.1
    exact (C01_serialises _ r'.erase hfrag).mp ⟨s, k1⟩
  have hidem := C15_forest_dedup_idem _ hi ((PStore.init env).run cs).env node
  subst hstep
  refine ⟨?_, rfl, rfl, hi', ?_, r', path, h2, a4, a5, a3, a2, hrep', hwr', s, p, k1, k2, k3, k4, k5⟩
  · simp only [PCall.run, Forest.XCall.run, PStore.store]
    rw [a1]
  · simp only [PCall.run, Forest.XCall.run, PStore.store]
    rw [hidem]

/-! Non-vacuity, closed, from the tables of `Xot::new()` (`Env.fresh`): PARSE `fullText` of Props/C04.lean,
    `<r xmlns:p="urn:a"><p:a>t</p:a></r>`, then EDIT: `namespaces_mut(p:a).insert(p, urn:a)` — a redundant
    declaration (new handle 5); the document serialises with it.  Every hypothesis holds by evaluation; after
    the step `deduplicate_namespaces(doc)` handle 5 is gone and the document serialises to `fullText` again,
    which reparses to it, `deep_equal` to the tree before the call. -/

def c15FullCalls : List PCall :=
  [.parse .document fullText, .api (.call (.mapInsert .namespaces 3 (.namespace 2 2)))]
def c15FullRoot : HTree :=
  .node 0 .document [.node 1 (.element 2) [.node 2 (.namespace 2 2) [],
    .node 3 (.element 3) [.node 5 (.namespace 2 2) [], .node 4 (.text ['t']) []]]]

example :
    let S := (PStore.init Env.fresh).run c15FullCalls
    (∀ c ∈ c15FullCalls, c.wellKinded) ∧ S.forest.everOff = false ∧ S.forest.roots = [c15FullRoot] ∧
    c15FullRoot.value.isDocument = true ∧ envOK S.env = true ∧
    c15FullRoot.erase.allNodes (fun v _ => valueOK S.env v) = true ∧
    (xmlIdValues S.env c15FullRoot.erase).Nodup ∧ singleRoot c15FullRoot.erase = true ∧
    namesWritable S.env c15FullRoot.erase [] = some true ∧ 0 ∈ c15FullRoot.handles ∧
    toXmlString S.env c15FullRoot.erase [] = .ok "<r xmlns:p=\"urn:a\"><p:a xmlns:p=\"urn:a\">t</p:a></r>".toList := by
  decide +kernel

example :
    let S' := (PStore.init Env.fresh).run (c15FullCalls ++ [.api (.deduplicateNamespaces 0)])
    S'.forest.allHandles = [0, 1, 2, 3, 4] ∧
    S'.forest.roots.map (fun r' => toXmlString S'.env r'.erase []) = [.ok fullText] := by decide +kernel

example : ∃ r' s p,
    let S := (PStore.init Env.fresh).run c15FullCalls
    let S' := (PStore.init Env.fresh).run (c15FullCalls ++ [.api (.deduplicateNamespaces 0)])
    (PCall.api (.deduplicateNamespaces 0)).run S' = (S', .api .ok) ∧
    S'.forest.rootOf? 0 = some r' ∧ toXmlString S.env r'.erase [] = .ok s ∧
      parseString .document S.env s = .ok p ∧ p.tree = r'.erase ∧ deepEqual p.tree c15FullRoot.erase = true := by
  obtain ⟨_, _, _, _, hidem, r', _, _, _, _, h3, _, _, _, s, p, k1, k2, k3, _, k5⟩ :=
    C15_reachable_dedup_full Env.fresh c15FullCalls (by decide) _ rfl (by decide +kernel)
      c15FullRoot (by decide +kernel) rfl (by decide +kernel) (by decide +kernel) (by decide +kernel)
      (by decide +kernel) (by decide +kernel) 0 (by decide) _ rfl
  exact ⟨r', s, p, hidem, h3, k1, k2, k3, k5⟩

end EndToEndFull

/-! ## An INNER start node: `deduplicate_namespaces(node)` then `to_string(element p)` then `parse`

`to_string(p)` for an element `p` that has ancestors writes the declarations in scope at `p` on its start tag
and parses back to the STANDALONE document of `p` (`standalone`, Model/InnerStartSpec.lean; `C01_roundtrip_inner`).
The call may delete namespace nodes before `p` or before an ancestor of `p`, so the raw path of `p` may differ
before (`q`) and after (`q'`): as in `C15_serialises_inside` the node is named by its position `i` in `startPaths`
(raw document order of the nodes that are not namespace nodes; `C15_frame`: the same nodes before and after).
WHERE `p` is relative to `node`: ANYWHERE — the root, an ancestor of `node`, `node` itself, a node strictly
inside its subtree, a node beside it; for the positions that are not strictly inside, `q' = q`
(`C15_roundtrip_inner_same_path`). -/

section InnerStart

/-- The `i`-th start nodes before and after the call are the same node: same value, same skeleton (the subtrees
    differ in namespace nodes only) — every tree, every call node. -/
theorem C15_same_start_nodes (env : Env) (t t' : Tree) (path : Path)
    (hd : deduplicateNamespaces env t path = some t') (i : Nat) (q q' : Path)
    (hq : (startPaths t)[i]? = some q) (hq' : (startPaths t')[i]? = some q') :
    ∃ s s', t.at? q = some s ∧ t'.at? q' = some s' ∧ s'.value = s.value ∧ stripNs s' = stripNs s := by
  obtain ⟨s, s', h1, h2, h3⟩ := startPaths_match (C15_frame env t t' path hd).1 i q q' hq hq'
  refine ⟨s, s', h1, h2, ?_, h3⟩
  rw [← dis_stripNs_value s', h3, dis_stripNs_value]

/-- ⟦C15_serialises_from_every_start⟧ **After the call `to_string` succeeds from every start node from which it
    succeeded before** — with "serialises" as the property words it (`to_string` returned a text): `t` in the
    C01 domain (document or fragment), `node` ANY node, the start node ANY node that is not a namespace node
    (element or not; inside the call's subtree, above it, beside it), matched by position in `startPaths`.  No
    `MissingPrefix` appears anywhere.  (`C15_serialises_inside` is this statement with `namesWritable` and
    already ranges over the start nodes of the WHOLE tree, not only those inside the call's subtree; its two
    hypotheses are about the call's subtree and hold in the C01 domain.) -/
theorem C15_serialises_from_every_start (env : Env) (t t' : Tree) (path : Path)
    (hr : RepresentableFragment env t = true) (hd : deduplicateNamespaces env t path = some t') :
    (startPaths t').length = (startPaths t).length ∧
    ∀ (i : Nat) (q q' : Path), (startPaths t)[i]? = some q → (startPaths t')[i]? = some q' →
      ∀ s0, toXmlString env t q = .ok s0 → ∃ s, toXmlString env t' q' = .ok s := by
  obtain ⟨hlen, hall⟩ := C15_serialises_everywhere env t t' path hr hd
  refine ⟨hlen, fun i q q' hq hq' s0 hs0 => ?_⟩
  obtain ⟨sub, sub', h1, h2, _, _⟩ := C15_same_start_nodes env t t' path hd i q q' hq hq'
  obtain ⟨henv, _, hn, _⟩ := (representableFragment_iff env t).mp hr
  have hr' := C15_representable_fragment env t t' path hr hd
  obtain ⟨_, _, hn', _⟩ := (representableFragment_iff env t').mp hr'
  exact (C01_inner_serialises env t' q' sub' henv hn' h2).mpr
    (hall i q q' hq hq' ((C01_inner_serialises env t q sub henv hn h1).mp ⟨s0, hs0⟩))

/-- … for a start node that is not strictly inside the call's subtree (root, ancestors of `node`, `node`
    itself, everything beside it) the path is the same before and after; hypotheses on the tables and the
    nodes only (`nodeOK` everywhere: no document root, no distinct `xml:id`s needed). -/
theorem C15_serialises_from_start_same_path (env : Env) (t t' : Tree) (path : Path) (henv : envOK env = true)
    (hok : t.allNodes (nodeOK env) = true) (hd : deduplicateNamespaces env t path = some t') (q : Path)
    (hq : ∀ r, q = path ++ r → r = []) (sub : Tree) (hat : t.at? q = some sub)
    (s0 : Str) (hs0 : toXmlString env t q = .ok s0) :
    ∃ sub' s, t'.at? q = some sub' ∧ sub'.value = sub.value ∧ stripNs sub' = stripNs sub ∧
      toXmlString env t' q = .ok s := by
  obtain ⟨csub, hcs⟩ := deduplicateNamespaces_isSome env t t' path hd
  have hok' := (keeps_deduplicateNamespaces t t' path hok hd).ok
  obtain ⟨sub', hat', hsh⟩ := deduplicateNamespaces_at?_outside env t t' path hd q hq sub hat
  obtain ⟨s, hs⟩ := (C01_inner_serialises env t' q sub' henv hok' hat').mpr
    (C15_serialises env t t' path csub hcs ((uniqueDeclsBelow_of_allNodes t hok).at hcs) hd q hq
      ((C01_inner_serialises env t q sub henv hok hat).mp ⟨s0, hs0⟩))
  exact ⟨sub', s, hat', hsh.value, hsh.strip, hs⟩

/-- The general form, whatever the paths: `q` an element before the call, `q'` a path after the call at which
    an element with the same name and the same skeleton sits and from which every name is writable. -/
theorem C15_roundtrip_inner_at (env : Env) (t t' : Tree) (path : Path) (hr : RepresentableFragment env t = true)
    (hd : deduplicateNamespaces env t path = some t') (q q' : Path)
    (name : Nat) (ks ks' : List Tree) (hat : t.at? q = some (.node (.element name) ks))
    (hat' : t'.at? q' = some (.node (.element name) ks'))
    (hst : stripNs (.node (.element name) ks') = stripNs (.node (.element name) ks))
    (hw' : namesWritable env t' q' = some true) :
    ∃ s p X X', toXmlString env t' q' = .ok s ∧
      standalone t q = some (.node .document [.node (.element name) (nsLeaves X ++ ks)]) ∧
      standalone t' q' = some (.node .document [.node (.element name) (nsLeaves X' ++ ks')]) ∧
      parseString .document env s = .ok p ∧
      p.tree = .node .document [.node (.element name) (nsLeaves X' ++ ks')] ∧ p.env = env ∧
      deepEqual p.tree (.node .document [.node (.element name) (nsLeaves X ++ ks)]) = true ∧
      deepEqual (.node (.element name) (nsLeaves X' ++ ks')) (.node (.element name) ks) = true := by
  have hr' := C15_representable_fragment env t t' path hr hd
  obtain ⟨henv, _, hn, hid⟩ := (representableFragment_iff env t).mp hr
  obtain ⟨s, p, X', k1, k2, k3, k4, k5, k6, _⟩ := C01_roundtrip_inner_writable env t' hr' q' name ks' hat' hw'
  obtain ⟨X, j1, j2⟩ := C01_inner_standalone_representable env t q name ks henv hn hat
    (hid.sublist (xmlIdValues_at?_sublist q t _ hat))
  have ok : ∀ x, Representable env x = true → x.allNodes (nodeOK env) = true := by
    intro x hx
    simp only [Representable, Bool.and_eq_true] at hx
    exact ((representableFragment_iff env x).mp hx.1).2.2.1
  refine ⟨s, p, X, X', k1, j1, k2, k4, k5, k6, ?_, ?_⟩
  · rw [k5]
    apply deepEqual_of_stripNs (ok _ k3) (ok _ j2)
    rw [stripNs_standalone_doc, stripNs_standalone_doc, hst]
  · apply deepEqual_of_stripNs (allNodes_kid (ok _ k3) (by simp)) (ist_allNodes_at? q t _ hn hat)
    have e1 := stripNs_standalone_doc name X' ks'
    have e2 := stripNs_standalone_doc name [] ks'
    simp only [nsLeaves, List.map_nil, List.nil_append] at e2
    rw [← hst]
    have := e1.trans e2.symm
    simp only [stripNs, stripNs.stripNsList] at this
    simpa [stripNs, Value.category, Tree.value] using this

/-- ⟦C15_roundtrip_inner⟧ **`deduplicate_namespaces(node)`, then `to_string(element p)`, then `parse`: deep-equal
    to the standalone document of `p` BEFORE the call.**  `t` in the C01 domain (document or fragment), `node`
    ANY node (`path`), `p` ANY element of the tree — at, below, above or beside `node` —: the `i`-th start node,
    at `q` before the call and at `q'` after it.  If `to_string(p)` found every prefix before the call
    (`namesWritable`), then after the call the `i`-th start node is the same element (same name, same skeleton),
    `to_string` of it succeeds, and parsing the text — same `Xot`, nothing interned — gives exactly the
    standalone document of `p` in the tree AFTER the call, which is `deep_equal` to the standalone document of
    `p` in the tree BEFORE the call (and its document element to the element `p` before the call). -/
theorem C15_roundtrip_inner (env : Env) (t t' : Tree) (path : Path) (hr : RepresentableFragment env t = true)
    (hd : deduplicateNamespaces env t path = some t') (i : Nat) (q q' : Path)
    (hq : (startPaths t)[i]? = some q) (hq' : (startPaths t')[i]? = some q')
    (name : Nat) (ks : List Tree) (hat : t.at? q = some (.node (.element name) ks))
    (hw : namesWritable env t q = some true) :
    ∃ ks' s p X X', t'.at? q' = some (.node (.element name) ks') ∧
      stripNs (.node (.element name) ks') = stripNs (.node (.element name) ks) ∧
      toXmlString env t' q' = .ok s ∧
      standalone t q = some (.node .document [.node (.element name) (nsLeaves X ++ ks)]) ∧
      standalone t' q' = some (.node .document [.node (.element name) (nsLeaves X' ++ ks')]) ∧
      parseString .document env s = .ok p ∧
      p.tree = .node .document [.node (.element name) (nsLeaves X' ++ ks')] ∧ p.env = env ∧
      deepEqual p.tree (.node .document [.node (.element name) (nsLeaves X ++ ks)]) = true ∧
      deepEqual (.node (.element name) (nsLeaves X' ++ ks')) (.node (.element name) ks) = true := by
  obtain ⟨_, hall⟩ := C15_serialises_everywhere env t t' path hr hd
  have hw' := hall i q q' hq hq' hw
  obtain ⟨sub, sub', h1, h2, hv, hst⟩ := C15_same_start_nodes env t t' path hd i q q' hq hq'
  rw [hat, Option.some.injEq] at h1
  subst h1
  obtain ⟨v', ks'⟩ := sub'
  simp only [Tree.value] at hv
  subst hv
  obtain ⟨s, p, X, X', k⟩ := C15_roundtrip_inner_at env t t' path hr hd q q' name ks ks' hat h2 hst hw'
  exact ⟨ks', s, p, X, X', h2, hst, k⟩

/-- ⟦C15_roundtrip_inner_same_path⟧ The element `p` NOT strictly inside the subtree of `node` — the document
    element when `node` is below it, any ancestor of `node`, `node` itself (`q = path`), an element beside it —:
    it keeps its raw path `q`, no enumeration needed. -/
theorem C15_roundtrip_inner_same_path (env : Env) (t t' : Tree) (path : Path)
    (hr : RepresentableFragment env t = true) (hd : deduplicateNamespaces env t path = some t') (q : Path)
    (hq : ∀ r, q = path ++ r → r = [])
    (name : Nat) (ks : List Tree) (hat : t.at? q = some (.node (.element name) ks))
    (hw : namesWritable env t q = some true) :
    ∃ ks' s p X X', t'.at? q = some (.node (.element name) ks') ∧
      stripNs (.node (.element name) ks') = stripNs (.node (.element name) ks) ∧
      toXmlString env t' q = .ok s ∧
      standalone t q = some (.node .document [.node (.element name) (nsLeaves X ++ ks)]) ∧
      standalone t' q = some (.node .document [.node (.element name) (nsLeaves X' ++ ks')]) ∧
      parseString .document env s = .ok p ∧
      p.tree = .node .document [.node (.element name) (nsLeaves X' ++ ks')] ∧ p.env = env ∧
      deepEqual p.tree (.node .document [.node (.element name) (nsLeaves X ++ ks)]) = true ∧
      deepEqual (.node (.element name) (nsLeaves X' ++ ks')) (.node (.element name) ks) = true := by
  obtain ⟨csub, hcs⟩ := deduplicateNamespaces_isSome env t t' path hd
  have hw' := C15_serialises env t t' path csub hcs ((uniqueDeclsBelow_of_representableFragment hr).at hcs) hd q hq hw
  obtain ⟨sub', h2, hsh⟩ := deduplicateNamespaces_at?_outside env t t' path hd q hq _ hat
  obtain ⟨v', ks'⟩ := sub'
  have hv := hsh.value
  simp only [Tree.value] at hv
  subst hv
  obtain ⟨s, p, X, X', k⟩ := C15_roundtrip_inner_at env t t' path hr hd q q name ks ks' hat h2 hsh.strip hw'
  exact ⟨ks', s, p, X, X', h2, hsh.strip, k⟩

/-- `to_string(node)` after the call on the element `node` itself. -/
theorem C15_roundtrip_inner_call_node (env : Env) (t t' : Tree) (path : Path)
    (hr : RepresentableFragment env t = true) (hd : deduplicateNamespaces env t path = some t')
    (name : Nat) (ks : List Tree) (hat : t.at? path = some (.node (.element name) ks))
    (hw : namesWritable env t path = some true) :
    ∃ ks' s p X X', t'.at? path = some (.node (.element name) ks') ∧
      stripNs (.node (.element name) ks') = stripNs (.node (.element name) ks) ∧
      toXmlString env t' path = .ok s ∧
      standalone t path = some (.node .document [.node (.element name) (nsLeaves X ++ ks)]) ∧
      standalone t' path = some (.node .document [.node (.element name) (nsLeaves X' ++ ks')]) ∧
      parseString .document env s = .ok p ∧
      p.tree = .node .document [.node (.element name) (nsLeaves X' ++ ks')] ∧ p.env = env ∧
      deepEqual p.tree (.node .document [.node (.element name) (nsLeaves X ++ ks)]) = true ∧
      deepEqual (.node (.element name) (nsLeaves X' ++ ks')) (.node (.element name) ks) = true :=
  C15_roundtrip_inner_same_path env t t' path hr hd path (fun _ h => List.self_eq_append_right.1 h) name ks hat hw

/-- With "serialised before" as the property words it (`to_string(p)` returned a text). -/
theorem C15_roundtrip_inner_text (env : Env) (t t' : Tree) (path : Path) (hr : RepresentableFragment env t = true)
    (hd : deduplicateNamespaces env t path = some t') (i : Nat) (q q' : Path)
    (hq : (startPaths t)[i]? = some q) (hq' : (startPaths t')[i]? = some q')
    (name : Nat) (ks : List Tree) (hat : t.at? q = some (.node (.element name) ks))
    (s0 : Str) (hs0 : toXmlString env t q = .ok s0) :
    ∃ ks' s p X X', t'.at? q' = some (.node (.element name) ks') ∧
      stripNs (.node (.element name) ks') = stripNs (.node (.element name) ks) ∧
      toXmlString env t' q' = .ok s ∧
      standalone t q = some (.node .document [.node (.element name) (nsLeaves X ++ ks)]) ∧
      standalone t' q' = some (.node .document [.node (.element name) (nsLeaves X' ++ ks')]) ∧
      parseString .document env s = .ok p ∧
      p.tree = .node .document [.node (.element name) (nsLeaves X' ++ ks')] ∧ p.env = env ∧
      deepEqual p.tree (.node .document [.node (.element name) (nsLeaves X ++ ks)]) = true ∧
      deepEqual (.node (.element name) (nsLeaves X' ++ ks')) (.node (.element name) ks) = true := by
  obtain ⟨henv, _, hn, _⟩ := (representableFragment_iff env t).mp hr
  exact C15_roundtrip_inner env t t' path hr hd i q q' hq hq' name ks hat
    ((C01_inner_serialises env t q _ henv hn hat).mp ⟨s0, hs0⟩)

/-! Non-vacuity, closed (tables `c15RtEnv`): `<r xmlns="urn:a" xmlns:p="urn:b"><q:c xmlns:q="urn:b"><q:c/></q:c></r>`;
    the call on the document removes the redundant `xmlns:q`.  The INNERMOST element is the start node: position
    3 of `startPaths`, raw path `[0, 2, 1]` before the call and `[0, 2, 0]` after it (the namespace node before it
    is gone).  Before the call `to_string` of it writes three inherited declarations, after the call two; both
    texts stand for deep-equal standalone documents. -/

def c15InnerDoc : Tree :=
  .node .document [.node (.element 2) [.node (.namespace 0 2) [], .node (.namespace 2 3) [],
    .node (.element 3) [.node (.namespace 3 3) [], .node (.element 3) []]]]

example : RepresentableFragment c15RtEnv c15InnerDoc = true ∧
    startPaths c15InnerDoc = [[], [0], [0, 2], [0, 2, 1]] ∧
    (deduplicateNamespaces c15RtEnv c15InnerDoc []).map startPaths = some [[], [0], [0, 2], [0, 2, 0]] ∧
    namesWritable c15RtEnv c15InnerDoc [0, 2, 1] = some true ∧
    toXmlString c15RtEnv c15InnerDoc [0, 2, 1] =
      .ok "<p:c xmlns:q=\"urn:b\" xmlns=\"urn:a\" xmlns:p=\"urn:b\"/>".toList ∧
    (deduplicateNamespaces c15RtEnv c15InnerDoc []).map (fun t' => toXmlString c15RtEnv t' [0, 2, 0]) =
      some (.ok "<p:c xmlns=\"urn:a\" xmlns:p=\"urn:b\"/>".toList) ∧
    standalone c15InnerDoc [0, 2, 1] = some (.node .document [.node (.element 3)
      [.node (.namespace 3 3) [], .node (.namespace 0 2) [], .node (.namespace 2 3) []]]) ∧
    (deduplicateNamespaces c15RtEnv c15InnerDoc []).bind (fun t' => standalone t' [0, 2, 0]) =
      some (.node .document [.node (.element 3) [.node (.namespace 0 2) [], .node (.namespace 2 3) []]]) := by
  decide

/-- The call node itself as start node (`q:c`, path `[0, 2]`, call on it: nothing is known inside, nothing goes)
    and as a start node above the removal (call on the document: `xmlns:q` goes, `to_string(q:c)` switches to
    `p`). -/
example : namesWritable c15RtEnv c15InnerDoc [0, 2] = some true ∧
    toXmlString c15RtEnv c15InnerDoc [0, 2] =
      .ok "<q:c xmlns=\"urn:a\" xmlns:p=\"urn:b\" xmlns:q=\"urn:b\"><q:c/></q:c>".toList ∧
    (deduplicateNamespaces c15RtEnv c15InnerDoc [0, 2]).map (fun t' => toXmlString c15RtEnv t' [0, 2]) =
      some (.ok "<q:c xmlns=\"urn:a\" xmlns:p=\"urn:b\" xmlns:q=\"urn:b\"><q:c/></q:c>".toList) ∧
    (deduplicateNamespaces c15RtEnv c15InnerDoc []).map (fun t' => toXmlString c15RtEnv t' [0, 2]) =
      some (.ok "<p:c xmlns=\"urn:a\" xmlns:p=\"urn:b\"><p:c/></p:c>".toList) := by
  decide

/-- `C15_roundtrip_inner` applied, closed: the text of the innermost element after the call parses to a
    document that is `deep_equal` to its standalone document before the call. -/
example : ∃ t' s p, deduplicateNamespaces c15RtEnv c15InnerDoc [] = some t' ∧
    toXmlString c15RtEnv t' [0, 2, 0] = .ok s ∧ parseString .document c15RtEnv s = .ok p ∧
    p.env = c15RtEnv ∧
    deepEqual p.tree (.node .document [.node (.element 3)
      [.node (.namespace 3 3) [], .node (.namespace 0 2) [], .node (.namespace 2 3) []]]) = true := by
  cases hd : deduplicateNamespaces c15RtEnv c15InnerDoc [] with
  | none =>
    have : (deduplicateNamespaces c15RtEnv c15InnerDoc []).isSome = true := by decide
    rw [hd] at this; cases this
  | some t' =>
    have hp : (deduplicateNamespaces c15RtEnv c15InnerDoc []).map startPaths = some [[], [0], [0, 2], [0, 2, 0]] := by
      decide
    rw [hd, Option.map_some, Option.some.injEq] at hp
    obtain ⟨ks', s, p, X, X', _, _, k3, k4, _, k6, _, k8, k9, _⟩ :=
      C15_roundtrip_inner c15RtEnv c15InnerDoc t' [] (by decide) hd 3 [0, 2, 1] [0, 2, 0] (by decide)
        (by rw [hp]; rfl) 3 [] (by decide) (by decide)
    have hX : standalone c15InnerDoc [0, 2, 1] = some (.node .document [.node (.element 3)
      [.node (.namespace 3 3) [], .node (.namespace 0 2) [], .node (.namespace 2 3) []]]) := by decide
    rw [hX, Option.some.injEq] at k4
    rw [← k4] at k9
    exact ⟨t', s, p, rfl, k3, k6, k8, k9⟩

/-- `C15_roundtrip_inner_call_node` applied, closed: call on `q:c` (path `[0, 2]`), start node `q:c`. -/
example : ∃ t' ks' s p, deduplicateNamespaces c15RtEnv c15InnerDoc [0, 2] = some t' ∧
    t'.at? [0, 2] = some (.node (.element 3) ks') ∧
    toXmlString c15RtEnv t' [0, 2] = .ok s ∧ parseString .document c15RtEnv s = .ok p ∧
    deepEqual p.tree.kids.head! (.node (.element 3) [.node (.namespace 3 3) [], .node (.element 3) []]) = true := by
  cases hd : deduplicateNamespaces c15RtEnv c15InnerDoc [0, 2] with
  | none =>
    have : (deduplicateNamespaces c15RtEnv c15InnerDoc [0, 2]).isSome = true := by decide
    rw [hd] at this; cases this
  | some t' =>
    obtain ⟨ks', s, p, X, X', k1, _, k3, _, _, k6, k7, _, _, k10⟩ :=
      C15_roundtrip_inner_call_node c15RtEnv c15InnerDoc t' [0, 2] (by decide) hd 3 _ rfl (by decide)
    refine ⟨t', ks', s, p, rfl, k1, k3, k6, ?_⟩
    rw [k7]
    exact k10

end InnerStart

/-! ## END TO END for an inner start node: parse ∘ API edits ∘ `deduplicate_namespaces(node)` ∘ `to_string(element)` ∘ parse

`C15_roundtrip_inner` on the erased tree of a store reached by parses and API calls: `C15_forest_dedup_refines_tree`
∘ `C15_roundtrip_inner` ∘ `C01_reachable_representable_full` ∘ `C04_reach_full`.  (Fragments allowed: the C01
domain needed is `RepresentableFragment`, no condition on the number of top-level elements.) -/

section InnerStartFull

/-- ⟦C15_reachable_dedup_inner_full⟧ `S` the store after any FULL history `cs` from `Xot::new()` with the tables
    `env` (`parse` / `parse_fragment` of ARBITRARY texts and well-kinded extended API calls in any order;
    consolidation never switched off), `r` any parentless tree of it with a document root and VALUES in the XML
    domain for the tables of the store (`envOK`, `valueOK` everywhere, distinct `xml:id`s), `node` ANY node of `r`,
    `S'` the store after the history extended by the step `deduplicate_namespaces(node)`.  The step answers `Ok`,
    tables and xml:id index untouched, invariant; the tree `r'` that `r` has become is the tree model's answer on
    the erased tree and stays in the C01 domain; and for EVERY element `p` of `r` (the `i`-th start node of the
    erased tree: at, below, above or beside `node`) from which `to_string` found every prefix before the step:
    after the step the `i`-th start node is the same element, `to_string` of it succeeds and `parse` of the text
    — tables unchanged — gives its standalone document, `deep_equal` to the standalone document of `p` BEFORE the
    step. -/
theorem C15_reachable_dedup_inner_full (env : Env) (cs : List PCall) (hw : ∀ c ∈ cs, c.wellKinded)
    (S : PStore) (hS : S = (PStore.init env).run cs) (hoff : S.forest.everOff = false)
    (r : HTree) (hr : r ∈ S.forest.roots) (hdoc : r.value.isDocument = true) (henv : envOK S.env = true)
    (hval : r.erase.allNodes (fun v _ => valueOK S.env v) = true)
    (hid : (xmlIdValues S.env r.erase).Nodup)
    (node : Nat) (hn : node ∈ r.handles)
    (S' : PStore) (hS' : S' = (PStore.init env).run (cs ++ [.api (.deduplicateNamespaces node)])) :
    ((PCall.api (.deduplicateNamespaces node)).run S).2 = .api .ok ∧ S'.env = S.env ∧ S'.index = S.index ∧
    S'.forest.Inv ∧
    ∃ (r' : HTree) (path : Path), r.pathOf node = some path ∧ r'.pathOf node = some path ∧
      S'.forest.roots = S.forest.roots.map (fun y => if (y.pathOf node).isSome then r' else y) ∧
      S'.forest.rootOf? node = some r' ∧
      deduplicateNamespaces S.env r.erase path = some r'.erase ∧
      RepresentableFragment S.env r'.erase = true ∧
      (startPaths r'.erase).length = (startPaths r.erase).length ∧
      ∀ (i : Nat) (q q' : Path) (name : Nat) (ks : List Tree),
        (startPaths r.erase)[i]? = some q → (startPaths r'.erase)[i]? = some q' →
        r.erase.at? q = some (.node (.element name) ks) → namesWritable S.env r.erase q = some true →
        ∃ ks' s p X X', r'.erase.at? q' = some (.node (.element name) ks') ∧
          stripNs (.node (.element name) ks') = stripNs (.node (.element name) ks) ∧
          toXmlString S.env r'.erase q' = .ok s ∧
          standalone r.erase q = some (.node .document [.node (.element name) (nsLeaves X ++ ks)]) ∧
          standalone r'.erase q' = some (.node .document [.node (.element name) (nsLeaves X' ++ ks')]) ∧
          parseString .document S.env s = .ok p ∧
          p.tree = .node .document [.node (.element name) (nsLeaves X' ++ ks')] ∧ p.env = S.env ∧
          deepEqual p.tree (.node .document [.node (.element name) (nsLeaves X ++ ks)]) = true ∧
          deepEqual (.node (.element name) (nsLeaves X' ++ ks')) (.node (.element name) ks) = true := by
  have hi' : S'.forest.Inv := by
    rw [hS']
    refine (C04_reach_full env _ (fun c hc => ?_)).1
    rcases List.mem_append.mp hc with hc | hc
    · exact hw c hc
    · rw [List.mem_singleton.mp hc]; trivial
  have hstep : S' = ⟨(S.forest.deduplicateNamespaces S.env node).1, S.env, S.index⟩ := by
    rw [hS', hS]; simp [PStore.run, List.foldl_append, PStore.step, PCall.run, Forest.XCall.run, PStore.store]
  subst hS
  have hi := (C04_reach_full env cs hw).1
  have hfrag : RepresentableFragment ((PStore.init env).run cs).env r.erase = true := by
    rw [(C01_reachable_representable_full env cs hw hoff r hr _).1]
    simp [henv, hdoc, hval, hid]
  have h1 := Forest.fpxr_rootOf_of_mem hi.nodup hr hn
  obtain ⟨path, h2⟩ := Forest.fpxd_rootOf_path h1
  obtain ⟨r', a1, a2, a3, a4, a5, _, _, _, _⟩ := C15_forest_dedup_refines_tree _ hi
    ((PStore.init env).run cs).env node r h1 path h2
  have hfrag' := C15_representable_fragment _ r.erase r'.erase path hfrag a2
  have hlen := (C15_serialises_everywhere _ r.erase r'.erase path hfrag a2).1
  subst hstep
  refine ⟨?_, rfl, rfl, hi', r', path, h2, a4, a5, a3, a2, hfrag', hlen, ?_⟩
  · simp only [PCall.run, Forest.XCall.run, PStore.store]
    rw [a1]
  · intro i q q' name ks hq hq' hat hwq
    exact C15_roundtrip_inner _ r.erase r'.erase path hfrag a2 i q q' hq hq' name ks hat hwq

/-! Non-vacuity, closed: the history `c15FullCalls` of section EndToEndFull (parse `<r xmlns:p="urn:a"><p:a>t</p:a></r>`,
    then `namespaces_mut(p:a).insert(p, urn:a)`: redundant declaration, handle 5).  Start node: the inner element
    `p:a` (handle 3), position 2 of `startPaths`, path `[0, 1]` before and after; `to_string(p:a)` is
    `<p:a xmlns:p="urn:a">t</p:a>` before and after the step `deduplicate_namespaces(doc)` (before: its own
    declaration; after: the inherited one). -/

example :
    let S := (PStore.init Env.fresh).run c15FullCalls
    let S' := (PStore.init Env.fresh).run (c15FullCalls ++ [.api (.deduplicateNamespaces 0)])
    startPaths c15FullRoot.erase = [[], [0], [0, 1], [0, 1, 1]] ∧
    S'.forest.roots.map (fun r' => startPaths r'.erase) = [[[], [0], [0, 1], [0, 1, 0]]] ∧
    c15FullRoot.erase.at? [0, 1] = some (.node (.element 3) [.node (.namespace 2 2) [], .node (.text ['t']) []]) ∧
    namesWritable S.env c15FullRoot.erase [0, 1] = some true ∧
    toXmlString S.env c15FullRoot.erase [0, 1] = .ok "<p:a xmlns:p=\"urn:a\">t</p:a>".toList ∧
    S'.forest.roots.map (fun r' => toXmlString S'.env r'.erase [0, 1]) =
      [.ok "<p:a xmlns:p=\"urn:a\">t</p:a>".toList] := by decide +kernel

example : ∃ r' ks' s p,
    let S := (PStore.init Env.fresh).run c15FullCalls
    let S' := (PStore.init Env.fresh).run (c15FullCalls ++ [.api (.deduplicateNamespaces 0)])
    S'.forest.rootOf? 0 = some r' ∧ r'.erase.at? [0, 1] = some (.node (.element 3) ks') ∧
      toXmlString S.env r'.erase [0, 1] = .ok s ∧ parseString .document S.env s = .ok p ∧ p.env = S.env ∧
      deepEqual p.tree.kids.head! (.node (.element 3) [.node (.namespace 2 2) [], .node (.text ['t']) []]) = true := by
  obtain ⟨_, _, _, _, r', path, _, _, b3, b4, _, _, _, hall⟩ :=
    C15_reachable_dedup_inner_full Env.fresh c15FullCalls (by decide) _ rfl (by decide +kernel)
      c15FullRoot (by decide +kernel) rfl (by decide +kernel) (by decide +kernel) (by decide +kernel)
      0 (by decide) _ rfl
  have hroots : ((PStore.init Env.fresh).run (c15FullCalls ++ [.api (.deduplicateNamespaces 0)])).forest.roots.map
      (fun r' => startPaths r'.erase) = [[[], [0], [0, 1], [0, 1, 0]]] := by decide +kernel
  have hr0 : ((PStore.init Env.fresh).run c15FullCalls).forest.roots = [c15FullRoot] := by decide +kernel
  rw [b3, hr0] at hroots
  have hp0 : (c15FullRoot.pathOf 0).isSome = true := by decide
  simp only [List.map_cons, List.map_nil, hp0, if_true, List.cons.injEq, and_true] at hroots
  obtain ⟨ks', s, p, X, X', k1, _, k3, _, _, k6, k7, k8, _, k10⟩ :=
    hall 2 [0, 1] [0, 1] 3 [.node (.namespace 2 2) [], .node (.text ['t']) []] (by decide) (by rw [hroots]; rfl)
      (by decide) (by decide +kernel)
  refine ⟨r', ks', s, p, b4, k1, k3, k6, k8, ?_⟩
  rw [k7]
  exact k10

end InnerStartFull

/-- ⟦C15_inv_dedup⟧ **`C15_reachable_dedup` from the invariant alone**: for ANY forest with the invariant (however it
    was reached), consolidation never switched off, any tables `E`, any writable document root `r` in the
    value-level domain and any node of it: `deduplicate_namespaces(node)` answers Ok, replaces exactly the tree of
    `r` by `r'` (same path of `node`), erases to the tree-level deduplication, and the result is in the domain,
    writable, and round-trips to a tree `deep_equal` to the one before the call. -/
theorem C15_inv_dedup (f : Forest) (E : Env) (hi : f.Inv) (hoff : f.everOff = false)
    (r : HTree) (hr : r ∈ f.roots) (hdoc : r.value.isDocument = true) (henv : envOK E = true)
    (hval : r.erase.allNodes (fun v _ => valueOK E v) = true)
    (hid : (xmlIdValues E r.erase).Nodup) (hone : singleRoot r.erase = true)
    (hwr : namesWritable E r.erase [] = some true)
    (node : Nat) (hn : node ∈ r.handles) :
    ((Forest.XCall.deduplicateNamespaces node).run ⟨f, E⟩).2 = .ok ∧
    ∃ (r' : HTree) (path : Path), r.pathOf node = some path ∧ r'.pathOf node = some path ∧
      (f.deduplicateNamespaces E node).1.roots = f.roots.map (fun y => if (y.pathOf node).isSome then r' else y) ∧
      (f.deduplicateNamespaces E node).1.rootOf? node = some r' ∧
      deduplicateNamespaces E r.erase path = some r'.erase ∧
      Representable E r'.erase = true ∧ namesWritable E r'.erase [] = some true ∧
      ∃ s p, toXmlString E r'.erase [] = .ok s ∧ parseString .document E s = .ok p ∧
        p.tree = r'.erase ∧ p.env = E ∧ deepEqual p.tree r.erase = true := by
  have hrep : Representable E r.erase = true := by
    rw [(Reach.representable_root hi hoff hr E).2]
    simp [henv, hdoc, hval, hid, hone]
  have h1 := Forest.fpxr_rootOf_of_mem hi.nodup hr hn
  obtain ⟨path, h2⟩ := Forest.fpxd_rootOf_path h1
  obtain ⟨r', a1, a2, a3, a4, a5, _, _, _, _⟩ := C15_forest_dedup_refines_tree f hi E node r h1 path h2
  have hrep' := C15_representable _ r.erase r'.erase path hrep a2
  obtain ⟨s, p, k1, k2, k3, k4, k5⟩ := C15_roundtrip _ r.erase r'.erase path hrep a2 hwr
  have hwr' : namesWritable E r'.erase [] = some true := by
    have hfrag : RepresentableFragment E r'.erase = true := by
      simp only [Representable, Bool.and_eq_true] at hrep'; exact hrep'.1
    exact (C01_serialises _ r'.erase hfrag).mp ⟨s, k1⟩
  exact ⟨a1, r', path, h2, a4, a5, a3, a2, hrep', hwr', s, p, k1, k2, k3, k4, k5⟩

/-- ⟦C15_reachable_creation_dedup⟧ … in particular for the documents built by histories mixing the calls of `Op`
    with the convenience calls (`creationRun`, `C04_reach_creation`): no side condition on the history. -/
theorem C15_reachable_creation_dedup (ops : List (Op ⊕ Forest.COp)) (E : Env)
    (hoff : (creationRun ops).everOff = false)
    (r : HTree) (hr : r ∈ (creationRun ops).roots) (hdoc : r.value.isDocument = true) (henv : envOK E = true)
    (hval : r.erase.allNodes (fun v _ => valueOK E v) = true)
    (hid : (xmlIdValues E r.erase).Nodup) (hone : singleRoot r.erase = true)
    (hwr : namesWritable E r.erase [] = some true)
    (node : Nat) (hn : node ∈ r.handles) :
    ∃ (r' : HTree) (path : Path), r.pathOf node = some path ∧
      ((creationRun ops).deduplicateNamespaces E node).1.rootOf? node = some r' ∧
      deduplicateNamespaces E r.erase path = some r'.erase ∧
      ∃ s p, toXmlString E r'.erase [] = .ok s ∧ parseString .document E s = .ok p ∧
        p.tree = r'.erase ∧ p.env = E ∧ deepEqual p.tree r.erase = true := by
  obtain ⟨_, r', path, b1, _, _, b4, b5, _, _, s, p, c1, c2, c3, c4, c5⟩ :=
    C15_inv_dedup (creationRun ops) E (C04_reach_creation ops) hoff r hr hdoc henv hval hid hone hwr node hn
  exact ⟨r', path, b1, b4, b5, s, p, c1, c2, c3, c4, c5⟩

end XotModel.Props
