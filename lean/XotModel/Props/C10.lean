/-
  C10 — Serialisation never changes a name's meaning (first sentence of the property).
  Property theorems only.

  The serialiser chooses prefixes from the top frame of the `FullnameSerializer` stack.  The
  theorems show that this frame is the nearest-declaration-wins scope of the declarations pushed
  (`C10_stack_*`), hence the chosen prefix, looked up by XML-Namespaces rules in the scope built
  from the same declarations, gives back the name's namespace (`C10_sound_*`), and that an error
  is returned exactly when no usable prefix is in scope (`C10_error_*`).
  `C10_stack_traversal` / `C10_sound_tree_*` carry this to the serialisation run itself: before
  every event of `genOutputs` the stack stands for the declaration lists of the open elements between
  the start node and the event's node on top of `namespaces_in_scope(start)`, so every start tag,
  end tag and attribute name the run renders resolves, in exactly those declarations, to the
  node's name (for every tree whose elements declare no prefix twice, every start node).
  Names in the XML namespace are always written with the reserved `xml` prefix (/repo 061eba4).
  Element names hold at full strength since /repo a32c6f4: `render_output` refuses
  (`MissingPrefix("")`) a no-namespace element inside the scope of a default-namespace declaration
  instead of writing it unprefixed (`C10_sound`, `C10_sound_refused`).

  Second and third sentence (`C10_repair_*`, `C10_iter`): `create_missing_prefixes` (Model/Repair, as
  rewritten in /repo afee7b1) on an element of any tree whose elements declare no prefix twice: only
  namespace nodes change (`_frame`), every name of the subtree is then writable by the serialiser
  (`_writable`, via the serialiser's own check `namesWritable`), the prefixes added are bound nowhere
  in scope of the element nor declared in its subtree (`_fresh_prefixes`), a second call is the
  identity (`_idem`).

  Last section (`C10_repair_representable`, `C10_repair_roundtrip`, `_total`, `_fragment`): the clause
  "serialisation succeeds and reparses deep-equal" as a corollary of the closed loop C01_roundtrip: the
  call keeps a document inside the C01 domain `Representable` (of the grown tables), so the text the
  repaired document serialises to parses back to exactly the repaired tree, which is deep_equal to the
  tree before the call.

  Section InnerFull (end of file): `C10_repair_roundtrip_inner_full`, the call on an ELEMENT anywhere inside a
  document of a store reached by parses and API calls, then `to_string(element)`, then `parse`: the standalone
  document of the repaired element, deep_equal to the element before the call.
-/
import XotModel.Lemmas.FStack
import XotModel.Lemmas.Scope10
import XotModel.Lemmas.Scope10Sound
import XotModel.Lemmas.TraceInv
import XotModel.Lemmas.RepairDoc
import XotModel.Lemmas.RepairFuel
import XotModel.Lemmas.RepairKeepTop
import XotModel.Lemmas.RepairValid
import XotModel.Lemmas.SerResolveTop
import XotModel.Lemmas.RepairRoundTripDoc
import XotModel.Lemmas.RepairRoundTripElement
import XotModel.Lemmas.RepairDocKeep
import XotModel.Lemmas.RepairRun
import XotModel.Lemmas.RepairDeclsOk
import XotModel.Props.C01

namespace XotModel.Props
open XotModel


/-! ### The stack invariant -/

/-- The serialiser starts from the scope of the start node: one frame, its own flattening. -/
theorem C10_stack_base (d : List (Nat × Nat)) (hu : UniquePrefixes d) : StackInv (FStack.new d) [d] :=
  StackInv.base d hu

/-- `namespaces_in_scope` never yields a prefix twice, so `XmlSerializer::new` meets the hypothesis
    of `C10_stack_base` for every tree and start node. -/
theorem C10_stack_base_inScope (t : Tree) (start : Path) (d : List (Nat × Nat))
    (h : namespacesInScope t start = some d) : UniquePrefixes d :=
  namespacesInScope_unique t start d h

/-- Entries of `top` = nearest-declaration-wins scope of the frames pushed. -/
theorem C10_stack_invariant (s : FStack) (fs : Frames) (h : StackInv s fs) :
    UniquePrefixes s.top ∧ ∀ p n, (p, n) ∈ s.top ↔ lookupFrames fs p = some n :=
  h.flat

/-- `push` (StartTagOpen) keeps the invariant when the element declares no prefix twice. -/
theorem C10_stack_push (s : FStack) (fs : Frames) (decls : List (Nat × Nat)) (h : StackInv s fs)
    (hu : UniquePrefixes decls) : StackInv (s.push decls) (decls :: fs) :=
  h.push' hu

/-- `pop` (EndTag) restores the stack of before the element's `push`. -/
theorem C10_stack_pop (s : FStack) (decls : List (Nat × Nat)) :
    (s.push decls).pop (!decls.isEmpty) = s :=
  FStack.pop_push s decls

/-! ### Soundness of the chosen prefix -/

/-- Under the reserved-prefix constraint, XML-Namespaces resolution of a prefix is its nearest
    declaration.  (`resolvePrefix`, `resolveElementName`, `resolveAttributeName`, `XmlPrefixReserved`:
    Lemmas/Scope10Sound.lean.) -/
theorem C10_resolve_lookup {fs : Frames} (hx : XmlPrefixReserved fs) {q ns : Nat}
    (hl : lookupFrames fs q = some ns) : resolvePrefix fs q = some ns :=
  resolve_lookup hx hl

/-- The prefix `element_prefix` answers resolves to the name's namespace whenever the check of the
    `StartTagOpen` arm passes (the name is not a no-namespace name while `has_default_namespace`).
    Names in the XML namespace get the reserved `xml` prefix whatever the stack holds. -/
theorem C10_sound_prefix (env : Env) (s : FStack) (fs : Frames) (name : Nat) (p : Option Nat)
    (hinv : StackInv s fs) (hx : XmlPrefixReserved fs) (h : s.elementPrefix env name = .ok p)
    (hcheck : ¬ (env.nsOfName name = Env.noNamespace ∧ s.hasDefaultNamespace = true)) :
    resolveElementName fs p = some (env.nsOfName name) :=
  sound_prefix env s fs name p hinv hx h hcheck

/-- Element names, FULL strength (no guard): whenever `render_output` renders a `StartTagOpen`, the
    token is `<` + the qualified name built from a prefix that resolves — in the declarations of the
    open elements, the element's own included — to the element's namespace.  In particular a name
    in no namespace is written unprefixed only where no default namespace is in scope. -/
theorem C10_sound (esc : Escapers) (env : Env) (pr : TokenParams) (s s' : FStack) (fs : Frames)
    (node : Tree) (parent : Option Tree) (name : Nat) (tok : OutputToken)
    (hinv : StackInv (s.push node.nsDecls) fs) (hx : XmlPrefixReserved fs)
    (h : renderXmlWith esc env pr s node parent (.startTagOpen name) = .ok (s', tok)) :
    ∃ p, (s.push node.nsDecls).elementPrefix env name = .ok p ∧ s' = s.push node.nsDecls ∧
      tok = ⟨false, fmt Gen.fmtStartTagOpen [qname env p name]⟩ ∧
      resolveElementName fs p = some (env.nsOfName name) := by
  simp only [renderXmlWith] at h
  split at h
  · cases h
  · rename_i hc
    have hcheck : ¬ (env.nsOfName name = Env.noNamespace ∧
        (s.push node.nsDecls).hasDefaultNamespace = true) := by
      intro hh; apply hc; simp [hh.1, hh.2]
    unfold FStack.elementFullname at h
    cases hp : (s.push node.nsDecls).elementPrefix env name with
    | error e => simp [hp] at h
    | ok p =>
      simp only [hp, Outcome.ok.injEq, Prod.mk.injEq] at h
      exact ⟨p, rfl, h.1.symm, h.2.symm, C10_sound_prefix env _ fs name p hinv hx hp hcheck⟩

/-- The other half: an element in no namespace whose scope (its own declarations included) binds
    the empty prefix to a namespace is refused with `MissingPrefix("")`, not written. -/
theorem C10_sound_refused (esc : Escapers) (env : Env) (pr : TokenParams) (s : FStack) (fs : Frames)
    (node : Tree) (parent : Option Tree) (name n : Nat)
    (hinv : StackInv (s.push node.nsDecls) fs) (hname : env.nsOfName name = Env.noNamespace)
    (hl : lookupFrames fs Env.emptyPrefix = some n) (hn : n ≠ Env.noNamespace) :
    renderXmlWith esc env pr s node parent (.startTagOpen name) =
      .err (.missingPrefix Env.noNamespace) := by
  have hd : (s.push node.nsDecls).hasDefaultNamespace = true :=
    (hasDefaultNamespace_iff hinv.flat).mpr ⟨n, hl, hn⟩
  simp [renderXmlWith, hname, hd]

/-- Attribute names: full strength, no guard — the chosen prefix resolves to the attribute's
    namespace, and an attribute is written unprefixed only when it is in no namespace. -/
theorem C10_sound_attribute (env : Env) (s : FStack) (fs : Frames) (name : Nat) (p : Option Nat)
    (hinv : StackInv s fs) (hx : XmlPrefixReserved fs) (h : s.attributePrefix env name = .ok p) :
    resolveAttributeName fs p = some (env.nsOfName name) ∧ p ≠ some Env.emptyPrefix :=
  sound_attribute env s fs name p hinv hx h

/-! ### Errors: exactly when no usable prefix is in scope -/

/-- `element_prefix` fails (always with `MissingPrefix` of the name's namespace) iff the name is in
    a namespace other than the XML namespace that no prefix in scope — empty or not — is bound to. -/
theorem C10_error_element (env : Env) (s : FStack) (fs : Frames) (name : Nat) (hinv : StackInv s fs) :
    (∃ e, s.elementPrefix env name = .error e) ↔
      (env.nsOfName name ≠ Env.noNamespace ∧ env.nsOfName name ≠ Env.xmlNamespace ∧
        ∀ p, lookupFrames fs p ≠ some (env.nsOfName name)) := by
  obtain ⟨_, hflat⟩ := hinv.flat
  unfold FStack.elementPrefix
  by_cases hns : (env.nsOfName name == Env.noNamespace) = true
  · have hz : env.nsOfName name = Env.noNamespace := by simpa using hns
    simp [hz]
  · have hz : env.nsOfName name ≠ Env.noNamespace := by simpa using hns
    by_cases hxml : (env.nsOfName name == Env.xmlNamespace) = true
    · have hz2 : env.nsOfName name = Env.xmlNamespace := by simpa using hxml
      constructor
      · rintro ⟨e, he⟩; simp [hns, hxml] at he
      · intro h; exact absurd hz2 h.2.1
    · have hz2 : env.nsOfName name ≠ Env.xmlNamespace := by simpa using hxml
      simp only [hns, hxml, hz, hz2, ne_eq, not_false_eq_true, true_and, Bool.false_eq_true, if_false]
      cases hp : elementPrefixByNamespace s.top (env.nsOfName name) with
      | none =>
        refine ⟨fun _ p hl => ?_, fun _ => ⟨_, rfl⟩⟩
        exact elementPrefixByNamespace_none hp p ((hflat p _).mpr hl)
      | some q =>
        have hl := (hflat q _).mp (elementPrefixByNamespace_mem hp)
        simp only []
        constructor
        · rintro ⟨e, he⟩
          by_cases hq : (q == Env.emptyPrefix) = true <;> simp [hq] at he
        · intro hall; exact absurd hl (hall q)

/-- `attribute_prefix` fails iff the name is in a namespace other than the XML namespace that no
    non-empty prefix in scope is bound to (a default-namespace declaration does not help an
    attribute). -/
theorem C10_error_attribute (env : Env) (s : FStack) (fs : Frames) (name : Nat) (hinv : StackInv s fs) :
    (∃ e, s.attributePrefix env name = .error e) ↔
      (env.nsOfName name ≠ Env.noNamespace ∧ env.nsOfName name ≠ Env.xmlNamespace ∧
        ∀ p, p ≠ Env.emptyPrefix → lookupFrames fs p ≠ some (env.nsOfName name)) := by
  obtain ⟨_, hflat⟩ := hinv.flat
  unfold FStack.attributePrefix
  by_cases hns : (env.nsOfName name == Env.noNamespace) = true
  · have hz : env.nsOfName name = Env.noNamespace := by simpa using hns
    simp [hz]
  · have hz : env.nsOfName name ≠ Env.noNamespace := by simpa using hns
    by_cases hxml : (env.nsOfName name == Env.xmlNamespace) = true
    · have hz2 : env.nsOfName name = Env.xmlNamespace := by simpa using hxml
      constructor
      · rintro ⟨e, he⟩; simp [hns, hxml] at he
      · intro h; exact absurd hz2 h.2.1
    · have hz2 : env.nsOfName name ≠ Env.xmlNamespace := by simpa using hxml
      simp only [hns, hxml, hz, hz2, ne_eq, not_false_eq_true, true_and, Bool.false_eq_true, if_false]
      cases hp : attributePrefixByNamespace s.top (env.nsOfName name) with
      | none =>
        refine ⟨fun _ p hpe hl => ?_, fun _ => ⟨_, rfl⟩⟩
        exact attributePrefixByNamespace_none hp p hpe ((hflat p _).mpr hl)
      | some q =>
        obtain ⟨hmem, hne⟩ := attributePrefixByNamespace_mem hp
        have hl := (hflat q _).mp hmem
        simp only []
        constructor
        · rintro ⟨e, he⟩; cases he
        · intro hall; exact absurd hl (hall q hne)

/-! ### The serialisation run -/

/-- Traversal invariant: whenever the run reaches an event of node `p = start ++ rel` holding the
    stack `s`, then `s` stands for the frames of the open nodes from the start node down to `p`
    (without `p`'s own frame before its `StartTagOpen`), on top of the scope in force at the start
    node — for every tree whose elements declare no prefix twice. -/
theorem C10_stack_traversal (esc : Escapers) (env : Env) (pr : TokenParams) (t : Tree) (start : Path)
    (n : Tree) (inScope : List (Nat × Nat)) (hat : t.at? start = some n)
    (hs : namespacesInScope t start = some inScope) (hu : UniqueBelow n)
    (s : FStack) (p : Path) (o : Output)
    (hx : (s, p, o) ∈ stackTrace esc env pr t (initStack t start) (genOutputs t start)) :
    ∃ rel, p = start ++ rel ∧ StackInv s (framesFor o (framesAlong n rel) ++ [inScope]) :=
  (genOutputs_trace esc env pr t start n inScope hat hs hu (s, p, o) hx).1

/-- Start tags of the run, full strength: every `StartTagOpen` event the run renders is written
    with a prefix that resolves, in the declarations of the open elements (the element's own
    included), to the element's namespace. -/
theorem C10_sound_tree (esc : Escapers) (env : Env) (pr : TokenParams) (t : Tree) (start : Path)
    (n : Tree) (inScope : List (Nat × Nat)) (hat : t.at? start = some n)
    (hs : namespacesInScope t start = some inScope) (hu : UniqueBelow n)
    (s s' : FStack) (p : Path) (name : Nat) (node : Tree)
    (hx : (s, p, .startTagOpen name) ∈ stackTrace esc env pr t (initStack t start) (genOutputs t start))
    (hnode : t.at? p = some node)
    (hstep : stepStack esc env pr t s (p, .startTagOpen name) = some s') :
    ∃ rel pfx, p = start ++ rel ∧ (s.push node.nsDecls).elementPrefix env name = .ok pfx ∧
      (XmlPrefixReserved (framesAlong n rel ++ [inScope]) →
        resolveElementName (framesAlong n rel ++ [inScope]) pfx = some (env.nsOfName name)) := by
  obtain ⟨⟨rel, hp, hinv⟩, _⟩ := genOutputs_trace esc env pr t start n inScope hat hs hu _ hx
  simp only at hp hinv
  have hrel : n.at? rel = some node := by
    have := hnode
    rw [hp, at?_append, hat] at this
    exact this
  -- the node is an element named `name`
  have hev := stackTrace_mem_events esc env pr t _ _ _ hx
  simp only at hev
  have hg : genOutputs t start = genNode inScope true start n := by simp [genOutputs, hat, hs]
  rw [hg] at hev
  obtain ⟨rel', n', hp', hat', _, hown⟩ := genNode_tagged inScope true start n p _ hev
  have hrr : rel' = rel := List.append_cancel_left (hp'.symm.trans hp)
  rw [hrr, hrel] at hat'
  cases hat'
  have hval := ownEvent_startTagOpen hown
  have hframe : frameOf node = node.nsDecls := by simp [frameOf, hval]
  obtain ⟨rest, hfr⟩ := framesAlong_head n rel node hrel
  have hun : UniquePrefixes node.nsDecls := by rw [← hframe]; exact hu rel node hrel
  rw [hfr, hframe] at hinv
  simp only [framesFor, List.tail_cons] at hinv
  have hinv' := hinv.push' hun
  obtain ⟨node', tok, hn', hr⟩ := stepStack_some esc env pr t s s' p _ hstep
  rw [hnode] at hn'
  cases hn'
  -- without the reserved-prefix hypothesis the prefix is still the one `element_prefix` answers
  have hpre : ∃ pfx, (s.push node.nsDecls).elementPrefix env name = .ok pfx ∧
      ¬ (env.nsOfName name = Env.noNamespace ∧ (s.push node.nsDecls).hasDefaultNamespace = true) := by
    simp only [renderXmlWith] at hr
    split at hr
    · cases hr
    · rename_i hc
      unfold FStack.elementFullname at hr
      cases hpq : (s.push node.nsDecls).elementPrefix env name with
      | error e => simp [hpq] at hr
      | ok q => exact ⟨q, rfl, fun hh => hc (by simp [hh.1, hh.2])⟩
  obtain ⟨pfx, hpfx, hcheck⟩ := hpre
  refine ⟨rel, pfx, hp, hpfx, fun hxr => ?_⟩
  rw [hfr, hframe] at hxr ⊢
  exact C10_sound_prefix env _ _ name pfx hinv' (by simpa using hxr) hpfx hcheck

/-- End tags of the run, full strength: an `EndTag` event is only reached after the element's
    `StartTagOpen` was rendered with the same stack, so the name it writes resolves the same way. -/
theorem C10_sound_tree_endtag (esc : Escapers) (env : Env) (pr : TokenParams) (t : Tree)
    (start : Path) (n : Tree) (inScope : List (Nat × Nat)) (hat : t.at? start = some n)
    (hs : namespacesInScope t start = some inScope) (hu : UniqueBelow n)
    (s : FStack) (p : Path) (name : Nat) (pfx : Option Nat)
    (hx : (s, p, .endTag name) ∈ stackTrace esc env pr t (initStack t start) (genOutputs t start))
    (hpfx : s.elementPrefix env name = .ok pfx) :
    ∃ rel, p = start ++ rel ∧
      (XmlPrefixReserved (framesAlong n rel ++ [inScope]) →
        resolveElementName (framesAlong n rel ++ [inScope]) pfx = some (env.nsOfName name)) := by
  obtain ⟨⟨rel, hp, hinv⟩, hend⟩ := genOutputs_trace esc env pr t start n inScope hat hs hu _ hx
  simp only [framesFor] at hp hinv
  exact ⟨rel, hp, fun hxr => C10_sound_prefix env _ _ name pfx hinv hxr hpfx (hend name rfl)⟩

/-- Attribute names of the run: full strength — the prefix used resolves to the attribute's
    namespace in the declarations of the open elements (its own element included). -/
theorem C10_sound_tree_attribute (esc : Escapers) (env : Env) (pr : TokenParams) (t : Tree)
    (start : Path) (n : Tree) (inScope : List (Nat × Nat)) (hat : t.at? start = some n)
    (hs : namespacesInScope t start = some inScope) (hu : UniqueBelow n)
    (s : FStack) (p : Path) (name : Nat) (v : Str) (pfx : Option Nat)
    (hx : (s, p, .attribute name v) ∈ stackTrace esc env pr t (initStack t start) (genOutputs t start))
    (hpfx : s.attributePrefix env name = .ok pfx) :
    ∃ rel, p = start ++ rel ∧
      (XmlPrefixReserved (framesAlong n rel ++ [inScope]) →
        resolveAttributeName (framesAlong n rel ++ [inScope]) pfx = some (env.nsOfName name)) := by
  obtain ⟨⟨rel, hp, hinv⟩, _⟩ := genOutputs_trace esc env pr t start n inScope hat hs hu _ hx
  simp only [framesFor] at hp hinv
  exact ⟨rel, hp, fun hxr => (C10_sound_attribute env _ _ name pfx hinv hxr hpfx).1⟩

/-! ## `create_missing_prefixes` (second and third sentence of the property) -/

section Repair
open XotModel.Repair

/-- On an element the call is `create_missing_prefixes_for_element`. -/
theorem C10_repair_element (env : Env) (t : Tree) (path : Path) (name : Nat) (ks : List Tree)
    (hat : t.at? path = some (.node (.element name) ks)) :
    createMissingPrefixes env t path = repairElement env t path := by
  simp [createMissingPrefixes, hat, Tree.value, Value.isDocument, Value.isElement]

/-- Anything that is neither a document nor an element is refused, a document without element
    child too, and nothing changes (the result carries no tree). -/
theorem C10_repair_refused (env : Env) (t : Tree) (path : Path) (node : Tree) (hat : t.at? path = some node) :
    (node.value.isDocument = false → node.value.isElement = false →
      createMissingPrefixes env t path = .err .notElement) ∧
    (node.value.isDocument = true → elementKidIndices node.kids = [] →
      createMissingPrefixes env t path = .err .noElementAtTopLevel) := by
  constructor
  · intro h1 h2; simp [createMissingPrefixes, hat, h1, h2]
  · intro h1 h2; simp [createMissingPrefixes, hat, h1, h2]

/-- FRAME: the call changes namespace nodes only — the tree without its namespace nodes (every
    node's value, i.e. element names, attribute names and values, text, comments, PIs, and the
    order of everything) is the same before and after; names and namespaces keep their ids. -/
theorem C10_repair_frame (env : Env) (hok : EnvOk env) (t : Tree) (path : Path) (name : Nat)
    (ks : List Tree) (hat : t.at? path = some (.node (.element name) ks))
    (hu : UniqueBelow (.node (.element name) ks)) (env' : Env) (t' : Tree)
    (h : createMissingPrefixes env t path = .ok (env', t')) :
    Repair.stripNs t' = Repair.stripNs t ∧ env'.names = env.names ∧ env'.namespaces = env.namespaces := by
  rw [C10_repair_element env t path name ks hat] at h
  have hf := repairElement_facts env hok t path name ks hat hu env' t' h
  exact ⟨facts_frame hat hf, hf.names, hf.namespaces⟩

/-- WRITABLE: after the call the serialiser finds a usable prefix for every element and attribute
    name of the subtree, and meets no no-namespace element under a default namespace:
    `namesWritable` — the `MissingPrefix` checks of `render_output` run over the subtree with the
    name stack `XmlSerializer::new` builds — answers `true`. -/
theorem C10_repair_writable (env : Env) (hok : EnvOk env) (t : Tree) (path : Path) (name : Nat)
    (ks : List Tree) (hat : t.at? path = some (.node (.element name) ks))
    (hu : UniqueBelow (.node (.element name) ks)) (env' : Env) (t' : Tree)
    (h : createMissingPrefixes env t path = .ok (env', t')) :
    namesWritable env' t' path = some true := by
  rw [C10_repair_element env t path name ks hat] at h
  exact facts_writable hat (repairElement_facts env hok t path name ks hat hu env' t' h)

/-- FRESH PREFIXES: the declarations of the repaired element after the call are its old ones plus
    a list `nd` of new `(prefix, namespace)` pairs (plus `xmlns=""`, replacing its own default
    declaration, when the element is in no namespace under a default namespace); the new prefixes
    are pairwise different, not the empty prefix, bound NOWHERE in scope of the element and declared
    NOWHERE in its subtree — so no binding that a name depends on is overridden or shadowed. -/
theorem C10_repair_fresh_prefixes (env : Env) (hok : EnvOk env) (t : Tree) (path : Path) (name : Nat)
    (ks : List Tree) (hat : t.at? path = some (.node (.element name) ks))
    (hu : UniqueBelow (.node (.element name) ks)) (env' : Env) (t' : Tree)
    (h : createMissingPrefixes env t path = .ok (env', t')) :
    ∃ (nd : List (Nat × Nat)) (E' : Tree), t'.at? path = some E' ∧
      (∀ q m, (q, m) ∈ E'.nsDecls ↔
        if needsUndeclare env.nsOfName (inheritedDecls t path) (.node (.element name) ks) name = true then
          (q ≠ Env.emptyPrefix ∧ ((q, m) ∈ (Tree.node (.element name) ks).nsDecls ∨ (q, m) ∈ nd)) ∨
            (q = Env.emptyPrefix ∧ m = Env.noNamespace)
        else (q, m) ∈ (Tree.node (.element name) ks).nsDecls ∨ (q, m) ∈ nd) ∧
      (nd.map Prod.fst).Nodup ∧ (∀ d ∈ nd, d.1 ≠ Env.emptyPrefix) ∧
      (∀ p ∈ nd.map Prod.fst, ∀ scope, namespacesInScope t path = some scope → p ∉ scope.map Prod.fst) ∧
      (∀ p ∈ nd.map Prod.fst, ∀ rel y nm, (Tree.node (.element name) ks).at? rel = some y →
        y.value = .element nm → p ∉ y.nsDecls.map Prod.fst) := by
  rw [C10_repair_element env t path name ks hat] at h
  have hf := repairElement_facts env hok t path name ks hat hu env' t' h
  obtain ⟨nd, hat', _, h2, h3, h4, h5, _⟩ := hf.nd
  refine ⟨nd, _, hat', ?_, h2, h3, ?_, h5⟩
  · intro q m
    exact mem_nsDecls_rebuild_top env.nsOfName nd name ks _ (uniqueBelow_self hu) h2
      (fun p hp => h5 p hp [] _ name rfl rfl) q m
  · intro p hp scope hs
    have := h4 p hp
    rwa [hs] at this

/-- IDEMPOTENT: a second call returns the same tree and registers no prefix. -/
theorem C10_repair_idem (env : Env) (hok : EnvOk env) (t : Tree) (path : Path) (name : Nat)
    (ks : List Tree) (hat : t.at? path = some (.node (.element name) ks))
    (hu : UniqueBelow (.node (.element name) ks)) (env' : Env) (t' : Tree)
    (h : createMissingPrefixes env t path = .ok (env', t')) :
    createMissingPrefixes env' t' path = .ok (env', t') := by
  rw [C10_repair_element env t path name ks hat] at h
  have hf := repairElement_facts env hok t path name ks hat hu env' t' h
  obtain ⟨nd, hat', _⟩ := hf.nd
  have hv : (rebuild env.nsOfName nd true (inheritedDecls t path) (.node (.element name) ks)).value =
      .element name := by rw [value_rebuild]; rfl
  generalize rebuild env.nsOfName nd true (inheritedDecls t path) (.node (.element name) ks) = E' at hat' hv
  cases E' with
  | node v' ks' =>
    simp only [Tree.value] at hv
    subst hv
    rw [C10_repair_element env' t' path name ks' hat']
    exact facts_idem hat hf

/-- The call keeps the hypothesis of all these theorems: no element of the tree declares a prefix
    twice, and the empty prefix keeps id 0 — so the call can be repeated, anywhere. -/
theorem C10_repair_keeps_unique (env : Env) (hok : EnvOk env) (t : Tree) (path : Path) (name : Nat)
    (ks : List Tree) (hat : t.at? path = some (.node (.element name) ks)) (hu : UniqueBelow t)
    (env' : Env) (t' : Tree) (h : createMissingPrefixes env t path = .ok (env', t')) :
    EnvOk env' ∧ UniqueBelow t' := by
  rw [C10_repair_element env t path name ks hat] at h
  have hsub : UniqueBelow (.node (.element name) ks) := by
    intro rel n' hn
    exact hu (path ++ rel) n' (by rw [at?_append, hat]; exact hn)
  have hf := repairElement_facts env hok t path name ks hat hsub env' t' h
  exact ⟨hf.envOk, facts_unique hat hf hu⟩

/-! ### Documents and fragments: every element child is repaired, in order -/

/-- FRAME for a document or fragment (any number of top-level elements): only namespace nodes
    change; the hypotheses of the theorems are kept. -/
theorem C10_repair_document_frame (env : Env) (hok : EnvOk env) (t : Tree) (path : Path) (doc : Tree)
    (hat : t.at? path = some doc) (hdoc : doc.value.isDocument = true)
    (hu : ∀ (i : Nat) (k : Tree), doc.kids[i]? = some k → k.value.isElement = true → UniqueBelow k)
    (env' : Env) (t' : Tree) (h : createMissingPrefixes env t path = .ok (env', t')) :
    Repair.stripNs t' = Repair.stripNs t ∧ env'.names = env.names ∧ env'.namespaces = env.namespaces ∧
      EnvOk env' ∧ (UniqueBelow t → UniqueBelow t') := by
  have hf := document_facts env hok t path doc hat hdoc hu env' t' h
  exact ⟨hf.frame, hf.names, hf.namespaces, hf.envOk, hf.unique⟩

/-- WRITABLE for a document or fragment whose children other than elements are leaves (text,
    comments, processing instructions): after the call `namesWritable` answers `true` for the
    document node — every top-level element was repaired and stays repaired while its siblings are. -/
theorem C10_repair_document_writable (env : Env) (hok : EnvOk env) (t : Tree) (path : Path) (doc : Tree)
    (hat : t.at? path = some doc) (hdoc : doc.value.isDocument = true)
    (hu : ∀ (i : Nat) (k : Tree), doc.kids[i]? = some k → k.value.isElement = true → UniqueBelow k)
    (hleaf : ∀ (i : Nat) (k : Tree), doc.kids[i]? = some k → k.value.isElement = false → k.kids = [])
    (env' : Env) (t' : Tree) (h : createMissingPrefixes env t path = .ok (env', t')) :
    namesWritable env' t' path = some true :=
  docFacts_writable doc hat hdoc hleaf (document_facts env hok t path doc hat hdoc hu env' t' h)

/-- Every top-level element is repaired by its own `create_missing_prefixes_for_element` call, to
    which `C10_repair_fresh_prefixes` applies: the loop of the document branch is the sequence of
    those calls, each on the tree the previous one left (and an element-less document is refused). -/
theorem C10_repair_document_calls (env : Env) (t : Tree) (path : Path) (doc : Tree)
    (hat : t.at? path = some doc) (hdoc : doc.value.isDocument = true) (env' : Env) (t' : Tree)
    (h : createMissingPrefixes env t path = .ok (env', t')) :
    elementKidIndices doc.kids ≠ [] ∧
      repairElements (elementKidIndices doc.kids) path env t = .ok (env', t') :=
  createMissingPrefixes_document env t path doc hat hdoc env' t' h

/-- IDEMPOTENT for a document or fragment. -/
theorem C10_repair_document_idem (env : Env) (hok : EnvOk env) (t : Tree) (path : Path) (doc : Tree)
    (hat : t.at? path = some doc) (hdoc : doc.value.isDocument = true)
    (hu : ∀ (i : Nat) (k : Tree), doc.kids[i]? = some k → k.value.isElement = true → UniqueBelow k)
    (env' : Env) (t' : Tree) (h : createMissingPrefixes env t path = .ok (env', t')) :
    createMissingPrefixes env' t' path = .ok (env', t') :=
  docFacts_idem doc hat hdoc (createMissingPrefixes_document env t path doc hat hdoc env' t' h).1
    (document_facts env hok t path doc hat hdoc hu env' t' h)

/-- States reachable by histories that alternate arbitrary edits — the tree and the interning tables
    are replaced by any tree whose elements declare no prefix twice (nodes in new namespaces added,
    subtrees moved or cloned away from their declarations, declarations added or removed: whatever
    the editing API produces) — with successful `create_missing_prefixes` calls on elements. -/
inductive RepairReachable : Env × Tree → Prop
  | edit (env : Env) (t : Tree) : EnvOk env → UniqueBelow t → RepairReachable (env, t)
  | repair (env : Env) (t : Tree) (path : Path) (name : Nat) (ks : List Tree) (env' : Env) (t' : Tree) :
      RepairReachable (env, t) → t.at? path = some (.node (.element name) ks) →
      createMissingPrefixes env t path = .ok (env', t') → RepairReachable (env', t')
  | repairDocument (env : Env) (t : Tree) (path : Path) (doc : Tree) (env' : Env) (t' : Tree) :
      RepairReachable (env, t) → t.at? path = some doc → doc.value.isDocument = true →
      createMissingPrefixes env t path = .ok (env', t') → RepairReachable (env', t')

/-- ITERATION, invariant: however often nodes are added and the call is repeated, the state meets
    the hypotheses of the per-call theorems again. -/
theorem C10_iter_invariant (s : Env × Tree) (h : RepairReachable s) : EnvOk s.1 ∧ UniqueBelow s.2 := by
  induction h with
  | edit env t hok hu => exact ⟨hok, hu⟩
  | repair env t path name ks env' t' _ hat hcall ih =>
    exact C10_repair_keeps_unique env ih.1 t path name ks hat ih.2 env' t' hcall
  | repairDocument env t path doc env' t' _ hat hdoc hcall ih =>
    have hu : ∀ (i : Nat) (k : Tree), doc.kids[i]? = some k → k.value.isElement = true → UniqueBelow k := by
      intro i k hk _ rel n' hn
      exact ih.2 (path ++ i :: rel) n' (by
        rw [at?_append, hat]
        cases doc with
        | node v ks => simp only [Tree.kids] at hk; simp only [Option.bind_some]; rw [at?_cons, hk]; exact hn)
    have := C10_repair_document_frame env ih.1 t path doc hat hdoc hu env' t' hcall
    exact ⟨this.2.2.2.1, this.2.2.2.2 ih.2⟩

/-- ITERATION: in every reachable state, every successful call on an element leaves names,
    attributes and content alone, makes every name of the subtree writable, is the identity when
    repeated, and leads to a reachable state again. -/
theorem C10_iter (s : Env × Tree) (h : RepairReachable s) (path : Path) (name : Nat) (ks : List Tree)
    (hat : s.2.at? path = some (.node (.element name) ks)) (env' : Env) (t' : Tree)
    (hcall : createMissingPrefixes s.1 s.2 path = .ok (env', t')) :
    Repair.stripNs t' = Repair.stripNs s.2 ∧ namesWritable env' t' path = some true ∧
      createMissingPrefixes env' t' path = .ok (env', t') ∧ RepairReachable (env', t') := by
  obtain ⟨hok, hu⟩ := C10_iter_invariant s h
  have hsub : UniqueBelow (.node (.element name) ks) := by
    intro rel n' hn
    exact hu (path ++ rel) n' (by rw [at?_append, hat]; exact hn)
  obtain ⟨env, t⟩ := s
  exact ⟨(C10_repair_frame env hok t path name ks hat hsub env' t' hcall).1,
    C10_repair_writable env hok t path name ks hat hsub env' t' hcall,
    C10_repair_idem env hok t path name ks hat hsub env' t' hcall,
    RepairReachable.repair env t path name ks env' t' h hat hcall⟩

/-- ITERATION, documents and fragments: the same for calls on a document node of a reachable
    state (writability under the leaf hypothesis on the non-element children). -/
theorem C10_iter_document (s : Env × Tree) (h : RepairReachable s) (path : Path) (doc : Tree)
    (hat : s.2.at? path = some doc) (hdoc : doc.value.isDocument = true) (env' : Env) (t' : Tree)
    (hcall : createMissingPrefixes s.1 s.2 path = .ok (env', t')) :
    Repair.stripNs t' = Repair.stripNs s.2 ∧
      ((∀ (i : Nat) (k : Tree), doc.kids[i]? = some k → k.value.isElement = false → k.kids = []) →
        namesWritable env' t' path = some true) ∧
      createMissingPrefixes env' t' path = .ok (env', t') ∧ RepairReachable (env', t') := by
  obtain ⟨hok, hu⟩ := C10_iter_invariant s h
  obtain ⟨env, t⟩ := s
  have hu' : ∀ (i : Nat) (k : Tree), doc.kids[i]? = some k → k.value.isElement = true → UniqueBelow k := by
    intro i k hk _ rel n' hn
    exact hu (path ++ i :: rel) n' (by
      rw [at?_append, hat]
      cases doc with
      | node v ks => simp only [Tree.kids] at hk; simp only [Option.bind_some]; rw [at?_cons, hk]; exact hn)
  exact ⟨(C10_repair_document_frame env hok t path doc hat hdoc hu' env' t' hcall).1,
    fun hleaf => C10_repair_document_writable env hok t path doc hat hdoc hu' hleaf env' t' hcall,
    C10_repair_document_idem env hok t path doc hat hdoc hu' env' t' hcall,
    RepairReachable.repairDocument env t path doc env' t' h hat hdoc hcall⟩

/-- Non-vacuity: `<{ns2}a xmlns="ns3" {ns3}x="v"><b/><n0:c xmlns:n0="ns2"/></a>` (b in no namespace,
    c in ns2): the element and the attribute get new prefixes (n0, id 5, is declared below, so n1 and
    a newly registered n2 are used), `b` gets `xmlns=""`, and the result is writable. -/
example :
    let env : Env := ⟨[[], ['x'], ['u'], ['v']], [[], ['x','m','l'], ['p'], ['q'], ['r'], ['n','0'], ['n','1']],
      [(['a'], 2), (['x'], 3), (['b'], 0), (['c'], 2)]⟩
    let t : Tree := .node .document [.node (.element 0) [.node (.namespace 0 3) [], .node (.attribute 1 ['v']) [],
      .node (.element 2) [], .node (.element 3) [.node (.namespace 5 2) []]]]
    (match createMissingPrefixes env t [0] with
      | .ok (env', t') => (env'.prefixes.length, (t'.at? [0]).map Tree.nsDecls,
          (t'.at? [0, 4]).map Tree.nsDecls, namesWritable env t [0], namesWritable env' t' [0])
      | _ => (0, none, none, none, none)) =
    (8, some [(0, 3), (6, 2), (7, 3)], some [(0, 0)], some false, some true) := by decide

/-! ### The `n{counter}` loop cannot run out: the call never panics -/

/-- `format!("n{}", counter)` is injective: different counters give different prefix strings. -/
theorem C10_generated_prefix_injective (a b : Nat) (h : generatedPrefixName a = generatedPrefixName b) :
    a = b :=
  generatedPrefixName_inj h

/-- The loop `loop { p = add_prefix("n{counter}"); counter += 1; if !used.contains(p) { break } }`
    ends within `used.length + 1` iterations — the fuel the model gives it — for EVERY interning
    table (duplicate entries included), counter and `used` set: each iteration that does not break
    names a different member of `used` (pigeonhole over the injective decimal spellings). -/
theorem C10_repair_fuel_suffices (used : List Nat) (env : Env) (counter : Nat) :
    ∃ env1 p counter1, freshPrefix used (used.length + 1) env counter = some (env1, p, counter1) := by
  have h := freshPrefix_fuel used env counter
  cases hf : freshPrefix used (used.length + 1) env counter with
  | none => rw [hf] at h; cases h
  | some r => exact ⟨r.1, r.2.1, r.2.2, rfl⟩

/-- NEVER PANICS, and exactly when the call fails: for every tree, every interning table (no
    hypothesis at all) and every existing node, `create_missing_prefixes` answers
    `Err(NotElement)` on a node that is neither document nor element, `Err(NoElementAtTopLevel)` on a
    document without element child, and `Ok` in every other case — the panic outcomes of the model
    (`pushed.pop().unwrap()`, the fuel of the `n{counter}` loop) are unreachable. -/
theorem C10_repair_never_panics (env : Env) (t : Tree) (path : Path) (node : Tree)
    (hat : t.at? path = some node) :
    createMissingPrefixes env t path ≠ .panic ∧
    (node.value.isDocument = false → node.value.isElement = false →
      createMissingPrefixes env t path = .err .notElement) ∧
    (node.value.isDocument = true → elementKidIndices node.kids = [] →
      createMissingPrefixes env t path = .err .noElementAtTopLevel) ∧
    ((node.value.isElement = true ∨
        (node.value.isDocument = true ∧ elementKidIndices node.kids ≠ [])) →
      ∃ env' t', createMissingPrefixes env t path = .ok (env', t')) := by
  obtain ⟨h1, h2, h3⟩ := createMissingPrefixes_total env t path node hat
  refine ⟨?_, h1, h2, h3⟩
  cases hd : node.value.isDocument with
  | false =>
    cases he : node.value.isElement with
    | false => rw [h1 hd he]; exact fun h => by cases h
    | true => obtain ⟨e, t', h⟩ := h3 (Or.inl he); rw [h]; exact fun h => by cases h
  | true =>
    by_cases hk : elementKidIndices node.kids = []
    · rw [h2 hd hk]; exact fun h => by cases h
    · obtain ⟨e, t', h⟩ := h3 (Or.inr ⟨hd, hk⟩); rw [h]; exact fun h => by cases h

/-- The element theorems without "for a call that returns Ok": on an element of a tree whose
    elements declare no prefix twice the call SUCCEEDS, changes namespace nodes only, makes every
    name of the subtree writable, and is the identity when repeated. -/
theorem C10_repair_total (env : Env) (hok : EnvOk env) (t : Tree) (path : Path) (name : Nat)
    (ks : List Tree) (hat : t.at? path = some (.node (.element name) ks))
    (hu : UniqueBelow (.node (.element name) ks)) :
    ∃ env' t', createMissingPrefixes env t path = .ok (env', t') ∧
      Repair.stripNs t' = Repair.stripNs t ∧ env'.names = env.names ∧ env'.namespaces = env.namespaces ∧
      namesWritable env' t' path = some true ∧
      createMissingPrefixes env' t' path = .ok (env', t') := by
  obtain ⟨env', t', h⟩ := (createMissingPrefixes_total env t path _ hat).2.2 (Or.inl rfl)
  obtain ⟨f1, f2, f3⟩ := C10_repair_frame env hok t path name ks hat hu env' t' h
  exact ⟨env', t', h, f1, f2, f3, C10_repair_writable env hok t path name ks hat hu env' t' h,
    C10_repair_idem env hok t path name ks hat hu env' t' h⟩

/-- The same for a document or fragment with at least one element child. -/
theorem C10_repair_document_total (env : Env) (hok : EnvOk env) (t : Tree) (path : Path) (doc : Tree)
    (hat : t.at? path = some doc) (hdoc : doc.value.isDocument = true)
    (hel : elementKidIndices doc.kids ≠ [])
    (hu : ∀ (i : Nat) (k : Tree), doc.kids[i]? = some k → k.value.isElement = true → UniqueBelow k) :
    ∃ env' t', createMissingPrefixes env t path = .ok (env', t') ∧
      Repair.stripNs t' = Repair.stripNs t ∧ env'.names = env.names ∧ env'.namespaces = env.namespaces ∧
      createMissingPrefixes env' t' path = .ok (env', t') := by
  obtain ⟨env', t', h⟩ := (createMissingPrefixes_total env t path _ hat).2.2 (Or.inr ⟨hdoc, hel⟩)
  obtain ⟨f1, f2, f3, _⟩ := C10_repair_document_frame env hok t path doc hat hdoc hu env' t' h
  exact ⟨env', t', h, f1, f2, f3, C10_repair_document_idem env hok t path doc hat hdoc hu env' t' h⟩

/-- Non-vacuity of the pigeonhole: every candidate `n0`, `n1`, `n2` is registered (ids 2, 4, 3) and
    used; the loop registers `n3` (id 5) at the fourth iteration — the last the fuel allows. -/
example : (freshPrefix [2, 3, 4] 4 ⟨[], [[], ['x'], ['n','0'], ['n','2'], ['n','1']], []⟩ 0).map
      (fun r => (r.1.prefixes, r.2)) =
    some ([[], ['x'], ['n','0'], ['n','2'], ['n','1'], ['n','3']], 5, 4) := by decide
example : createMissingPrefixes ⟨[], [], []⟩ (.node (.text ['x']) []) [] = .err .notElement := rfl
example : createMissingPrefixes ⟨[], [], []⟩ (.node .document [.node (.text ['x']) []]) [] =
    .err .noElementAtTopLevel := rfl

/-! ### Descendants' declarations and the bindings in force are kept

Raw child indices shift when namespace nodes are inserted, so nodes are identified by their position
in document order among the nodes that are not namespace nodes: `nodesBelow F E` lists the nodes
below `E` in that order, each with the declaration frames in force at it — its own declarations (an
element) or nothing (another node) first, then those of its ancestors up to `E`, then `F`.  Here
`F = [inheritedDecls t path]`: what the repaired element inherits (`namespaces_in_scope(parent)`,
or the `xml` binding for a parentless element). -/

/-- DESCENDANTS' DECLARATIONS: the call inserts namespace nodes only (same number of other nodes
    below the repaired element, each with its value), and the declaration list of every node other
    than the repaired element is its list before — except that an element in no namespace at which
    (frames around it AFTER the call, plus its own declarations) the empty prefix is bound to a
    namespace gets `insert("", no namespace)` (`insertDecl`: its own `xmlns="…"` is overwritten in
    place, otherwise `xmlns=""` is appended), and exactly then. -/
theorem C10_repair_keeps_declarations (env : Env) (hok : EnvOk env) (t : Tree) (path : Path) (name : Nat)
    (ks : List Tree) (hat : t.at? path = some (.node (.element name) ks))
    (hu : UniqueBelow (.node (.element name) ks)) (env' : Env) (t' : Tree)
    (h : createMissingPrefixes env t path = .ok (env', t')) :
    ∃ E', t'.at? path = some E' ∧ E'.value = .element name ∧
      (nodesBelow [inheritedDecls t path] (.node (.element name) ks)).length =
        (nodesBelow [inheritedDecls t path] E').length ∧
      ∀ (k : Nat) (b a : Frames × Tree),
        (nodesBelow [inheritedDecls t path] (.node (.element name) ks))[k]? = some b →
        (nodesBelow [inheritedDecls t path] E')[k]? = some a →
        a.2.value = b.2.value ∧
        ((NeedsUndeclaration env.nsOfName a.1.tail b.2 ∧
            a.2.nsDecls = insertDecl Env.emptyPrefix Env.noNamespace b.2.nsDecls) ∨
          (¬ NeedsUndeclaration env.nsOfName a.1.tail b.2 ∧ a.2.nsDecls = b.2.nsDecls)) := by
  rw [C10_repair_element env t path name ks hat] at h
  obtain ⟨E', h1, h2, _, h4⟩ := facts_kept hat hu (repairElement_facts env hok t path name ks hat hu env' t' h)
  obtain ⟨hl, hall⟩ := allPairs_iff_getElem.mp h4
  exact ⟨E', h1, h2, hl, fun k b a hb ha => ⟨(hall k b a hb ha).1, (hall k b a hb ha).2.1⟩⟩

/-- BINDINGS: at the repaired element and at every node below it, every binding of a non-empty prefix
    in force before the call is in force after it (same prefix, same namespace), and the empty
    prefix means what it meant or — below an element in no namespace that got `xmlns=""` — a default
    namespace has become "no namespace" (`BindingsKept`).  Nothing else is overridden: the prefixes
    the call adds are bound nowhere in scope and declared nowhere in the subtree
    (`C10_repair_fresh_prefixes`). -/
theorem C10_repair_keeps_bindings (env : Env) (hok : EnvOk env) (t : Tree) (path : Path) (name : Nat)
    (ks : List Tree) (hat : t.at? path = some (.node (.element name) ks))
    (hu : UniqueBelow (.node (.element name) ks)) (env' : Env) (t' : Tree)
    (h : createMissingPrefixes env t path = .ok (env', t')) :
    ∃ E', t'.at? path = some E' ∧
      BindingsKept ((Tree.node (.element name) ks).nsDecls :: [inheritedDecls t path])
        (E'.nsDecls :: [inheritedDecls t path]) ∧
      ∀ (k : Nat) (b a : Frames × Tree),
        (nodesBelow [inheritedDecls t path] (.node (.element name) ks))[k]? = some b →
        (nodesBelow [inheritedDecls t path] E')[k]? = some a → BindingsKept b.1 a.1 := by
  rw [C10_repair_element env t path name ks hat] at h
  obtain ⟨E', h1, _, h3, h4⟩ := facts_kept hat hu (repairElement_facts env hok t path name ks hat hu env' t' h)
  exact ⟨E', h1, h3, fun k b a hb ha => ((allPairs_iff_getElem.mp h4).2 k b a hb ha).2.2⟩

/-- What `BindingsKept` means for names: a prefixed element name, and every attribute name, that
    resolved to a namespace before resolves — written with the SAME prefix — to the same namespace
    after; an unprefixed element name resolves to the same namespace or to no namespace. -/
theorem C10_repair_keeps_resolution (fb fa : Frames) (hk : BindingsKept fb fa) :
    (∀ p ns, p ≠ Env.emptyPrefix → resolveElementName fb (some p) = some ns →
      resolveElementName fa (some p) = some ns) ∧
    (∀ pfx ns, pfx ≠ some Env.emptyPrefix → resolveAttributeName fb pfx = some ns →
      resolveAttributeName fa pfx = some ns) ∧
    (resolveElementName fa none = resolveElementName fb none ∨
      resolveElementName fa none = some Env.noNamespace) := by
  have hp : ∀ p ns, p ≠ Env.emptyPrefix → resolvePrefix fb p = some ns → resolvePrefix fa p = some ns := by
    intro p ns hpe hr
    unfold resolvePrefix at hr ⊢
    split
    · rename_i hx; simpa [hx] using hr
    · rename_i hx; simp only [hx] at hr; exact hk.1 p hpe ns hr
  refine ⟨fun p ns hpe hr => hp p ns hpe hr, fun pfx ns hpe hr => ?_, ?_⟩
  · cases pfx with
    | none => exact hr
    | some p => exact hp p ns (fun h => hpe (by rw [h])) hr
  · simp only [resolveElementName]
    rcases hk.2 with h | ⟨h, _⟩
    · left; rw [h]
    · right; rw [h]; rfl

/-- Non-vacuity, and the one binding the call does change: `<a xmlns="u"><b><c/></b><d xmlns:p="v"/></a>`
    with `a`, `c` in namespace `u` (id 2), `b`, `d` in none.  `b` and `d` get `xmlns=""` (appended after
    `d`'s own declaration), so below `b` the empty prefix no longer means `u`; `c`, which was written
    unprefixed, is now written with the new prefix `n0` (id 3) declared on `a`.  The declarations of
    `c` are untouched and the binding of `p` (id 2) at `d` is kept.  Listed per node below `a`:
    declarations; binding of the empty prefix; binding of `p`. -/
example :
    let env : Env := ⟨[[], ['x'], ['u'], ['v']], [[], ['x','m','l'], ['p']],
      [(['a'], 2), (['b'], 0), (['c'], 2), (['d'], 0)]⟩
    let E : Tree := .node (.element 0) [.node (.namespace 0 2) [],
      .node (.element 1) [.node (.element 2) []], .node (.element 3) [.node (.namespace 2 3) []]]
    ((nodesBelow [basePrefixes] E).map (fun x => x.2.nsDecls) = [[], [], [(2, 3)]] ∧
      (nodesBelow [basePrefixes] E).map (fun x => lookupFrames x.1 0) = [some 2, some 2, some 2] ∧
      (nodesBelow [basePrefixes] E).map (fun x => lookupFrames x.1 2) = [none, none, some 3]) ∧
    (match createMissingPrefixes env E [] with
      | .ok (_, E') => decide (
        E'.nsDecls = [(0, 2), (3, 2)] ∧
        (nodesBelow [basePrefixes] E').map (fun x => x.2.nsDecls) = [[(0, 0)], [], [(2, 3), (0, 0)]] ∧
        (nodesBelow [basePrefixes] E').map (fun x => lookupFrames x.1 0) = [some 0, some 0, some 0] ∧
        (nodesBelow [basePrefixes] E').map (fun x => lookupFrames x.1 2) = [none, none, some 3])
      | _ => false) = true := by decide

/-! ### Document-level writability from structural validity -/

/-- WRITABLE for a document or fragment, the leaf hypothesis of `C10_repair_document_writable`
    discharged by `KindsOk` (Model/Valid: text, comment and PI nodes have no children, a document
    node is never a child) at the document node and its children. -/
theorem C10_repair_document_writable_kinds (env : Env) (hok : EnvOk env) (t : Tree) (path : Path) (doc : Tree)
    (hat : t.at? path = some doc) (hdoc : doc.value.isDocument = true)
    (hu : ∀ (i : Nat) (k : Tree), doc.kids[i]? = some k → k.value.isElement = true → UniqueBelow k)
    (hkinds : doc.Forall KindsOk)
    (env' : Env) (t' : Tree) (h : createMissingPrefixes env t path = .ok (env', t')) :
    namesWritable env' t' path = some true :=
  C10_repair_document_writable env hok t path doc hat hdoc hu (leaves_of_kindsOk doc hkinds) env' t' h

/-- For every structurally valid document (or fragment) with an element child, and interning tables
    with the empty prefix at id 0 — no other hypothesis: the call on the root SUCCEEDS, changes
    namespace nodes only, makes every name of the document writable, and is the identity when
    repeated. -/
theorem C10_repair_document_valid (env : Env) (hok : EnvOk env) (t : Tree) (hv : StructValid t)
    (hel : elementKidIndices t.kids ≠ []) :
    ∃ env' t', createMissingPrefixes env t [] = .ok (env', t') ∧
      Repair.stripNs t' = Repair.stripNs t ∧ env'.names = env.names ∧ env'.namespaces = env.namespaces ∧
      namesWritable env' t' [] = some true ∧
      createMissingPrefixes env' t' [] = .ok (env', t') := by
  have hub := uniqueBelow_of_uniqueKids t hv.2.2.2
  have hu : ∀ (i : Nat) (k : Tree), t.kids[i]? = some k → k.value.isElement = true → UniqueBelow k := by
    intro i k hk _
    cases t with
    | node v ks => exact hub.kid hk
  obtain ⟨env', t', h, f1, f2, f3, f4⟩ := C10_repair_document_total env hok t [] t rfl hv.1 hel hu
  exact ⟨env', t', h, f1, f2, f3,
    C10_repair_document_writable_kinds env hok t [] t rfl hv.1 hu hv.2.2.1 env' t' h, f4⟩

/-- The leaf hypothesis cannot simply be dropped in the model: a (structurally invalid) text child of
    the document holding an element in an undeclared namespace is not repaired — only element
    children of the document are. -/
example :
    let env : Env := ⟨[[], ['x'], ['u']], [[], ['x','m','l']], [(['a'], 0), (['e'], 2)]⟩
    let t : Tree := .node .document [.node (.text ['x']) [.node (.element 1) []], .node (.element 0) []]
    (match createMissingPrefixes env t [] with
      | .ok (env', t') => namesWritable env' t' []
      | _ => none) = some false := by decide
/-- Non-vacuity of `C10_repair_document_valid`: `<a/>` with `a` in an undeclared namespace. -/
example : StructValid (.node .document [.node (.element 0) []]) ∧
    elementKidIndices (Tree.node .document [.node (.element 0) []]).kids ≠ [] := by
  refine ⟨⟨rfl, ?_, ?_, ?_⟩, by decide⟩ <;>
    simp [Tree.Forall, Tree.Forall.forallList, OrderedKids, KindsOk, UniqueKids, attrNames, nsPrefixes,
      Value.isLeafKind, Value.isElement, Value.isDocument, Value.isNormal, Value.category, Tree.value]

end Repair

/-! ## Names resolve in the token TEXTS (first sentence, one step closer to the bytes)

`SerResolve.resolveGo` is an independent XML-Namespaces resolver over the token stream of
`Xot::tokens` (Lemmas/SerResolve; the Lean counterpart of the `ser` suite's oracle): of every token it
is told the kind and the TEXT.  It reads `xmlns="…"` / `xmlns:p="…"` declarations back out of the
texts (value unescaped), keeps them per open start tag, splits qualified names at the first colon
and resolves the prefix string in the declarations read so far (`xml` reserved; unprefixed element
→ default namespace; unprefixed attribute → none).  `SerResolve.expectedGo` lists, for the same
run, the expanded names of the nodes as strings through the interning tables. -/

section Resolve
open XotModel.SerResolve

/-- FIRST SENTENCE, at the level of token texts: whenever the run succeeds, the resolver's answers —
    for every start-tag name, every attribute name and every written end-tag name, in order — are the
    expanded names `(namespace URI, local name)` of the nodes.  For every tree whose elements declare
    no prefix twice, declare registered prefixes only and do not rebind `xml` (`DeclsOkBelow`;
    likewise the bindings in scope at the start node), a start node that is an element or has only
    `xml` bindings in scope (a document node: nothing else could be declared in its output), any
    parameters, any escaping function that the unescaper inverts, interning tables with pairwise
    different prefix strings, the built-in entries, and no `:` / `=` in prefixes and local names. -/
theorem C10_names_resolve_in_tokens (esc : Escapers) (env : Env) (pr : TokenParams) (t : Tree)
    (unesc : Str → Str) (henv : EnvStrings env) (hue : ∀ u, unesc (esc.attr u) = u) (start : Path)
    (n : Tree) (inScope : List (Nat × Nat)) (hat : t.at? start = some n)
    (hs : namespacesInScope t start = some inScope) (hu : UniqueBelow n) (hdk : DeclsOkBelow env n)
    (hin : DeclsOk env inScope) (hstart : n.value.isElement = true ∨ OnlyXmlInScope inScope)
    (toks : List (Path × Output × OutputToken)) (hr : tokensWith esc env pr t start = .ok toks) :
    resolveGo unesc [] none (view toks) = expectedGo env none (evs toks) := by
  apply tokens_resolve esc env pr t unesc henv hue start n inScope hat hs hu hdk hin hstart
  unfold tokensWith at hr
  cases h : renderAllWith esc env pr t (initStack t start) (genOutputs t start) with
  | ok l => rw [h] at hr; exact hr
  | err e => rw [h] at hr; cases hr
  | panic => rw [h] at hr; cases hr

/-- The same for the crate's own escaping (`serialize_attribute`), read back with the crate's
    `parse_attribute`. -/
theorem C10_names_resolve_in_tokens_xml (env : Env) (pr : TokenParams) (t : Tree)
    (henv : EnvStrings env) (start : Path)
    (n : Tree) (inScope : List (Nat × Nat)) (hat : t.at? start = some n)
    (hs : namespacesInScope t start = some inScope) (hu : UniqueBelow n) (hdk : DeclsOkBelow env n)
    (hin : DeclsOk env inScope) (hstart : n.value.isElement = true ∨ OnlyXmlInScope inScope)
    (toks : List (Path × Output × OutputToken)) (hr : tokens env pr t start = .ok toks) :
    resolveGo unescapeValue [] none (view toks) = expectedGo env none (evs toks) :=
  C10_names_resolve_in_tokens xmlEscapers env pr t unescapeValue henv unescapeValue_serializeAttribute
    start n inScope hat hs hu hdk hin hstart toks hr

/-- Non-vacuity: `<p:a xmlns:p="u" p:x="1"><b/></p:a>` as a document (`a`, `x` in namespace `u`, `b` in
    none), escaping functions = identity so that the run is closed under `decide`: the token texts,
    and what the resolver answers on them (= the expected expanded names). -/
example :
    let env : Env := ⟨[[], Gen.xmlNs, ['u']], [[], ['x','m','l'], ['p']], [(['a'], 2), (['x'], 2), (['b'], 0)]⟩
    let t : Tree := .node .document [.node (.element 0) [.node (.namespace 2 2) [],
      .node (.attribute 1 ['1']) [], .node (.element 2) []]]
    let esc : Escapers := ⟨fun s => s, fun _ s => s, fun s => s⟩
    (match tokensWith esc env {} t [] with
      | .ok toks => decide (
          toks.map (fun x => x.2.2.text) =
            [['<','p',':','a'], ['x','m','l','n','s',':','p','=','"','u','"'], ['p',':','x','=','"','1','"'], ['>'],
             ['<','b'], ['/','>'], [], ['<','/','p',':','a','>']] ∧
          resolveGo (fun s => s) [] none (view toks) =
            [(false, some ['u'], ['a']), (true, some ['u'], ['x']), (false, some [], ['b']),
             (false, some ['u'], ['a'])] ∧
          expectedGo env none (evs toks) = resolveGo (fun s => s) [] none (view toks))
      | _ => false) = true := by decide
/-- The hypothesis on the interning tables holds for the tables of that example. -/
example : EnvStrings ⟨[[], Gen.xmlNs, ['u']], [[], ['x','m','l'], ['p']], [(['a'], 2), (['x'], 2), (['b'], 0)]⟩ :=
  ⟨by decide, rfl, rfl, rfl, rfl, by decide⟩

end Resolve

/-- Non-vacuity: `<a xmlns:p="2"><p:b/></a>`-like scope — name 0 = `b` in namespace 2, prefix 5
    bound to it two frames up, an unrelated frame in between. -/
example : resolveElementName [[(4, 3)], [], [(5, 2)]] (some 5) = some 2 := by decide
example : (FStack.new [(5, 2)]).elementPrefix ⟨[], [], [(['b'], 2)]⟩ 0 = .ok (some 5) := rfl
/-- `xml:lang` (namespace 1) with another prefix bound to the XML namespace: the `xml` prefix is used. -/
example : (FStack.new [(1, 1), (2, 1)]).attributePrefix ⟨[], [], [(['l'], 1)]⟩ 0 = .ok (some 1) := rfl

/-- `<a xmlns="ns2"><b/></a>` with `b` in no namespace: the start tag of `b` is refused; with
    `xmlns=""` on `b` it is written unprefixed. -/
example : renderXml ⟨[], [], [(['b'], 0)]⟩ {} [[(0, 2)]] (.node (.element 0) []) none (.startTagOpen 0)
    = .err (.missingPrefix 0) := rfl
example : (renderXml ⟨[], [], [(['b'], 0)]⟩ {} [[(0, 2)]]
      (.node (.element 0) [.node (.namespace 0 0) []]) none (.startTagOpen 0)).okValue?.map (·.1)
    = some [[(0, 0)], [(0, 2)]] := rfl

/-- Non-vacuity of the tree-level theorems: in `<a xmlns:p5="ns2"><b/></a>` (both names in
    namespace 2) the run reaches `<b` holding the stack `[[xml, p5↦2], [xml]]`; `b` is written with
    prefix 5, which the frames of the open elements resolve to namespace 2. -/
example :
    let env : Env := ⟨[], [], [(['a'], 2), (['b'], 2)]⟩
    let t : Tree := .node .document [.node (.element 0) [.node (.namespace 5 2) [], .node (.element 1) []]]
    (([[(1, 1), (5, 2)], [(1, 1)]], [0, 1], Output.startTagOpen 1) ∈
        stackTrace xmlEscapers env {} t (initStack t []) (genOutputs t [])) ∧
      resolveElementName (framesAlong t [0, 1] ++ [[(1, 1)]]) (some 5) = some 2 := by decide

/-! ## "… serialisation succeeds and reparses deep-equal" (corollaries of C01_roundtrip)

`Representable env t` (Model/SerTokens.lean, decidable) is the C01 domain; it does not ask that names be
writable — that is what the call establishes.  One hypothesis on the tables is added:
`Repair.nameTableOK env` (decidable; Lemmas/RepairRoundTrip.lean): the namespace of every registered name
has a URI that can be declared (XML Chars, non-empty unless it is the no-namespace id, and — since /repo
6153ddf — not the xmlns namespace name `http://www.w3.org/2000/xmlns/`, to which nothing can be bound).
It is needed: a `Representable` tree may hold an element whose namespace URI is U+0001, or the xmlns
namespace name (nothing declares it), and the call would add `xmlns:n0="&#x1;"`, which no XML parser
accepts, resp. `xmlns:n0="http://www.w3.org/2000/xmlns/"`, which the parser now refuses. -/

section RepairRoundTrip
open XotModel.Repair

/-- The call on the root of a document keeps it inside the C01 domain of the tables it leaves: it only
    adds namespace nodes whose prefix `n{k}` is an NCName other than `xmlns` and whose namespace is a
    name's namespace other than none / XML, and `xmlns=""`; per element the prefixes stay pairwise
    distinct, namespace nodes stay in front; nothing else changes (`xml:id` values, text, names).  Of the
    tables only the prefix table grows, by appending new strings. -/
theorem C10_repair_representable (env : Env) (t : Tree) (hr : Representable env t = true)
    (htab : nameTableOK env = true) (env' : Env) (t' : Tree)
    (h : createMissingPrefixes env t [] = .ok (env', t')) :
    Representable env' t' = true ∧ nameTableOK env' = true ∧ env'.names = env.names ∧
      env'.namespaces = env.namespaces ∧ ∃ e, env'.prefixes = env.prefixes ++ e := by
  obtain ⟨e, h1, h2⟩ := createMissingPrefixes_representable env t hr htab env' t' h
  exact ⟨h1, h2, e.names, e.namespaces, e.ext⟩

/-- The same for a call on an ELEMENT anywhere in a representable document (the whole document stays
    in the domain) and for a fragment. -/
theorem C10_repair_representable_element (env : Env) (t : Tree) (hr : Representable env t = true)
    (htab : nameTableOK env = true) (path : Path) (name : Nat) (ks : List Tree)
    (hat : t.at? path = some (.node (.element name) ks)) (env' : Env) (t' : Tree)
    (h : createMissingPrefixes env t path = .ok (env', t')) :
    Representable env' t' = true ∧ nameTableOK env' = true :=
  (createMissingPrefixes_element_representable env t hr htab path name ks hat env' t' h).2

theorem C10_repair_representable_fragment (env : Env) (t : Tree) (hr : RepresentableFragment env t = true)
    (htab : nameTableOK env = true) (env' : Env) (t' : Tree)
    (h : createMissingPrefixes env t [] = .ok (env', t')) :
    RepresentableFragment env' t' = true ∧ nameTableOK env' = true :=
  (createMissingPrefixes_representableFragment env t hr htab env' t' h).2

/-- **C10_repair_roundtrip**: after `create_missing_prefixes(document)` on a representable document
    (names need NOT be writable before): every name is writable, serialisation succeeds, the text parses
    back — into the same `Xot`, interning nothing — to exactly the repaired tree, and that tree is
    `deep_equal` to the tree BEFORE the call (it differs from it in namespace nodes only). -/
theorem C10_repair_roundtrip (env : Env) (t : Tree) (hr : Representable env t = true)
    (htab : nameTableOK env = true) (env' : Env) (t' : Tree)
    (h : createMissingPrefixes env t [] = .ok (env', t')) :
    namesWritable env' t' [] = some true ∧
    ∃ s p, toXmlString env' t' [] = .ok s ∧ parseString .document env' s = .ok p ∧ p.tree = t' ∧
      p.env = env' ∧ deepEqual p.tree t' = true ∧ deepEqual p.tree t = true ∧ Repair.stripNs p.tree = Repair.stripNs t := by
  obtain ⟨e, hr', _⟩ := createMissingPrefixes_representable env t hr htab env' t' h
  have hfrag : RepresentableFragment env t = true := by
    simp only [Representable, Bool.and_eq_true] at hr; exact hr.1
  have hfrag' : RepresentableFragment env' t' = true := by
    simp only [Representable, Bool.and_eq_true] at hr'; exact hr'.1
  obtain ⟨h1, h2, h3⟩ := allNodes_of_representableFragment hfrag
  obtain ⟨_, _, h3'⟩ := allNodes_of_representableFragment hfrag'
  have hok := envOk_of_envOK h1
  have hw := C10_repair_document_writable env hok t [] t rfl h2 (kids_unique_of_allNodes h3)
    (kids_leaves_of_allNodes h3 h2) env' t' h
  have hframe := (C10_repair_document_frame env hok t [] t rfl h2 (kids_unique_of_allNodes h3) env' t' h).1
  obtain ⟨s, p, k1, k2, k3, k4, k5⟩ := C01_roundtrip_writable env' t' hr' hw
  refine ⟨hw, s, p, k1, k2, k3, k4, k5, ?_, by rw [k3]; exact hframe⟩
  rw [k3]
  exact deepEqual_of_stripNs h3' (allNodes_ext e t h3) hframe

/-- Without "for a call that returns Ok": on a representable document the call SUCCEEDS (it has its one
    top-level element), and then all of the above. -/
theorem C10_repair_roundtrip_total (env : Env) (t : Tree) (hr : Representable env t = true)
    (htab : nameTableOK env = true) :
    ∃ env' t' s p, createMissingPrefixes env t [] = .ok (env', t') ∧ Representable env' t' = true ∧
      namesWritable env' t' [] = some true ∧ toXmlString env' t' [] = .ok s ∧
      parseString .document env' s = .ok p ∧ p.tree = t' ∧ p.env = env' ∧ deepEqual p.tree t = true := by
  have hr0 := hr
  simp only [Representable, Bool.and_eq_true] at hr0
  obtain ⟨_, h2, _⟩ := allNodes_of_representableFragment hr0.1
  have hel : elementKidIndices t.kids ≠ [] := by
    have hs := hr0.2
    simp only [singleRoot, Bool.and_eq_true, beq_iff_eq] at hs
    have hne : t.kids.filter (fun k => k.value.isElement) ≠ [] := by
      intro hn; rw [hn] at hs; simp at hs
    obtain ⟨k, hk⟩ := List.exists_mem_of_ne_nil _ hne
    obtain ⟨hk1, hk2⟩ := List.mem_filter.mp hk
    obtain ⟨i, hi⟩ := List.getElem?_of_mem hk1
    intro hnil
    have : i ∈ elementKidIndices t.kids := mem_elementKidIndices.mpr ⟨k, hi, hk2⟩
    rw [hnil] at this; cases this
  obtain ⟨env', t', h⟩ := (C10_repair_never_panics env t [] t rfl).2.2.2 (Or.inr ⟨h2, hel⟩)
  obtain ⟨hw, s, p, k1, k2, k3, k4, _, k6, _⟩ := C10_repair_roundtrip env t hr htab env' t' h
  exact ⟨env', t', s, p, h, (C10_repair_representable env t hr htab env' t' h).1, hw, k1, k2, k3, k4, k6⟩

/-- Fragments (any number of top-level elements, top-level text): the same with `parse_fragment`. -/
theorem C10_repair_roundtrip_fragment (env : Env) (t : Tree) (hr : RepresentableFragment env t = true)
    (htab : nameTableOK env = true) (env' : Env) (t' : Tree)
    (h : createMissingPrefixes env t [] = .ok (env', t')) :
    namesWritable env' t' [] = some true ∧
    ∃ s p, toXmlString env' t' [] = .ok s ∧ parseString .fragment env' s = .ok p ∧ p.tree = t' ∧
      p.env = env' ∧ deepEqual p.tree t = true := by
  obtain ⟨e, hfrag', _⟩ := createMissingPrefixes_representableFragment env t hr htab env' t' h
  obtain ⟨h1, h2, h3⟩ := allNodes_of_representableFragment hr
  obtain ⟨_, _, h3'⟩ := allNodes_of_representableFragment hfrag'
  have hok := envOk_of_envOK h1
  have hw := C10_repair_document_writable env hok t [] t rfl h2 (kids_unique_of_allNodes h3)
    (kids_leaves_of_allNodes h3 h2) env' t' h
  have hframe := (C10_repair_document_frame env hok t [] t rfl h2 (kids_unique_of_allNodes h3) env' t' h).1
  obtain ⟨s, hs⟩ := (C01_serialises env' t' hfrag').mpr hw
  obtain ⟨p, k2, k3, k4, _⟩ := C01_roundtrip_fragment_identical env' t' hfrag' s hs
  refine ⟨hw, s, p, hs, k2, k3, k4, ?_⟩
  rw [k3]
  exact deepEqual_of_stripNs h3' (allNodes_ext e t h3) hframe

/-- A PARENTLESS element (a clone, a freshly built subtree) whose one-element document is representable:
    after `create_missing_prefixes(element)` the element serialises ON ITS OWN (`to_string(element)`) and
    the text parses back to the document holding exactly the repaired element, `deep_equal` to the
    document holding the element before the call.  (For an element INSIDE a document see
    `C10_repair_representable_element`: the document stays in the domain and the element's subtree is
    writable, `C10_repair_writable`; `to_string(inner element)`, which also writes the declarations in
    scope, is `C10_repair_roundtrip_inner` below.) -/
theorem C10_repair_roundtrip_element (env : Env) (name : Nat) (ks : List Tree)
    (hr : Representable env (.node .document [.node (.element name) ks]) = true)
    (htab : nameTableOK env = true) (env' : Env) (T' : Tree)
    (h : createMissingPrefixes env (.node (.element name) ks) [] = .ok (env', T')) :
    Representable env' (.node .document [T']) = true ∧ namesWritable env' T' [] = some true ∧
    ∃ s p, toXmlString env' T' [] = .ok s ∧ parseString .document env' s = .ok p ∧
      p.tree = .node .document [T'] ∧ p.env = env' ∧
      deepEqual p.tree (.node .document [.node (.element name) ks]) = true := by
  obtain ⟨e, k, hr'⟩ := createMissingPrefixes_root_element_keeps env name ks hr htab env' T' h
  have hr0 := hr
  simp only [Representable, Bool.and_eq_true] at hr0
  obtain ⟨he, _, hok⟩ := allNodes_of_representableFragment hr0.1
  have hokT : (Tree.node (.element name) ks).allNodes (nodeOK env) = true := allNodes_kid hok (by simp)
  have hu := uniqueBelow_of_allNodes _ hokT
  have hEnvOk := envOk_of_envOK he
  have hw := C10_repair_writable env hEnvOk _ [] name ks rfl hu env' T' h
  have hframe := (C10_repair_frame env hEnvOk _ [] name ks rfl hu env' T' h).1
  have hel' : T'.value.isElement = true := by rw [k.value]; rfl
  obtain ⟨name', ks', rfl⟩ := isElement_node hel'
  have hwd : namesWritable env' (.node .document [.node (.element name') ks']) [] = some true := by
    rw [namesWritable_wrap]; exact hw
  obtain ⟨s, p, k1, k2, k3, k4, _⟩ := roundtrip_element_writable env' _
    (by simp only [RepresentableElement, Bool.and_eq_true]; exact ⟨rfl, hr'⟩) hwd
  refine ⟨hr', hw, s, p, k1, k2, k3, k4, ?_⟩
  rw [k3]
  have hr1 := representable_ext e hr
  simp only [Representable, Bool.and_eq_true] at hr' hr1
  exact deepEqual_of_stripNs (allNodes_of_representableFragment hr'.1).2.2
    (allNodes_of_representableFragment hr1.1).2.2 (stripNs_wrap rfl rfl hframe)

/-- **C10_repair_roundtrip_inner**: the call on an ELEMENT anywhere inside a representable document (or
    fragment).  The document stays in the C01 domain, every name below the element is writable, and
    `to_string(element)` — which writes the declarations in scope at the element before the element's own —
    succeeds and parses back to the STANDALONE document of the repaired element (`standalone`,
    Model/InnerStartSpec.lean: the element with the inherited declarations as namespace nodes in front;
    `C01_roundtrip_inner`); the reparsed document element is `deep_equal` to the repaired element and to the
    element BEFORE the call (which differs from it in namespace nodes only). -/
theorem C10_repair_roundtrip_inner (env : Env) (t : Tree) (hr : RepresentableFragment env t = true)
    (htab : nameTableOK env = true) (path : Path) (name : Nat) (ks : List Tree)
    (hat : t.at? path = some (.node (.element name) ks)) (env' : Env) (t' : Tree)
    (h : createMissingPrefixes env t path = .ok (env', t')) :
    RepresentableFragment env' t' = true ∧ namesWritable env' t' path = some true ∧
    ∃ ks' s p X, t'.at? path = some (.node (.element name) ks') ∧
      Repair.stripNs (.node (.element name) ks') = Repair.stripNs (.node (.element name) ks) ∧
      toXmlString env' t' path = .ok s ∧
      standalone t' path = some (.node .document [.node (.element name) (nsLeaves X ++ ks')]) ∧
      parseString .document env' s = .ok p ∧
      p.tree = .node .document [.node (.element name) (nsLeaves X ++ ks')] ∧ p.env = env' ∧
      deepEqual (.node (.element name) (nsLeaves X ++ ks')) (.node (.element name) ks') = true ∧
      deepEqual (.node (.element name) (nsLeaves X ++ ks')) (.node (.element name) ks) = true := by
  obtain ⟨h1, _, h3⟩ := allNodes_of_representableFragment hr
  obtain ⟨e, k⟩ := createMissingPrefixes_element_keeps env h1 htab t h3 path name ks hat env' t' h
  have hfrag' : RepresentableFragment env' t' = true :=
    representableFragment_of_keeps (representableFragment_ext e hr) k
  have hsub : (Tree.node (.element name) ks).allNodes (nodeOK env) = true := allNodes_at? path t _ h3 hat
  have hu := uniqueBelow_of_allNodes _ hsub
  have hEnvOk := envOk_of_envOK h1
  have hw := C10_repair_writable env hEnvOk t path name ks hat hu env' t' h
  have h' := h
  rw [C10_repair_element env t path name ks hat] at h'
  obtain ⟨nd, hat', _⟩ := (repairElement_facts env hEnvOk t path name ks hat hu env' t' h').nd
  have hval := value_rebuild env.nsOfName nd true (inheritedDecls t path) (.node (.element name) ks)
  have hstrip := stripNs_rebuild env.nsOfName nd (.node (.element name) ks) true (inheritedDecls t path)
  generalize rebuild env.nsOfName nd true (inheritedDecls t path) (.node (.element name) ks) = T' at hat' hval hstrip
  cases T' with
  | node v ks' =>
    simp only [Tree.value] at hval
    subst hval
    obtain ⟨s, p, X, k1, k2, k3, k4, k5, k6, k7⟩ :=
      C01_roundtrip_inner_writable env' t' hfrag' path name ks' hat' hw
    refine ⟨hfrag', hw, ks', s, p, X, hat', hstrip, k1, k2, k4, k5, k6, k7, ?_⟩
    have hfr : RepresentableFragment env' (.node .document [.node (.element name) (nsLeaves X ++ ks')]) = true := by
      simp only [Representable, Bool.and_eq_true] at k3; exact k3.1
    obtain ⟨_, _, hn, _⟩ := (representableFragment_iff env' _).mp hfr
    have hne : (Tree.node (.element name) (nsLeaves X ++ ks')).allNodes (nodeOK env') = true :=
      allNodes_kid hn (by simp)
    apply deepEqual_of_dropNs _ _ (valid_of_nodeOK _ hne) (valid_of_nodeOK _ (allNodes_ext e _ hsub))
    rw [← stripNs_eq_dropNs (.node (.element name) ks), ← hstrip, stripNs_eq_dropNs]
    simp only [dropNs, dropNsList_nsLeaves_append]

/-- Non-vacuity, closed (tables `c01Env` of Props/C01): `<!--h--><r k="v"><c/><t/></r>` with `r` in
    `urn:a`, `c` in `urn:b`, nothing declared: representable, NOT writable; the call registers `n0`, `n1`
    and the result serialises to `<!--h--><n0:r xmlns:n0="urn:a" xmlns:n1="urn:b" k="v"><n1:c/><t/></n0:r>`. -/
def c10RtDoc : Tree :=
  .node .document [.node (.comment ['h']) [],
    .node (.element 2) [.node (.attribute 4 ['v']) [], .node (.element 3) [], .node (.element 5) []]]

example : Representable c01Env c10RtDoc = true ∧ nameTableOK c01Env = true ∧
    namesWritable c01Env c10RtDoc [] = some false ∧
    (match createMissingPrefixes c01Env c10RtDoc [] with
      | .ok (env', t') => some (env'.prefixes, toXmlString env' t' [])
      | _ => none) =
    some ([[], ['x', 'm', 'l'], ['p'], ['n', '0'], ['n', '1']],
      .ok "<!--h--><n0:r xmlns:n0=\"urn:a\" xmlns:n1=\"urn:b\" k=\"v\"><n1:c/><t/></n0:r>".toList) := by
  decide

example : ∃ env' t' s p, createMissingPrefixes c01Env c10RtDoc [] = .ok (env', t') ∧
    Representable env' t' = true ∧ namesWritable env' t' [] = some true ∧ toXmlString env' t' [] = .ok s ∧
    parseString .document env' s = .ok p ∧ p.tree = t' ∧ p.env = env' ∧ deepEqual p.tree c10RtDoc = true :=
  C10_repair_roundtrip_total c01Env c10RtDoc (by decide) (by decide)

example : ∃ env' T' s p, createMissingPrefixes c01Env (.node (.element 2) [.node (.element 3) []]) [] = .ok (env', T') ∧
    toXmlString env' T' [] = .ok s ∧ parseString .document env' s = .ok p ∧
    deepEqual p.tree (.node .document [.node (.element 2) [.node (.element 3) []]]) = true := by
  obtain ⟨env', T', h⟩ := (C10_repair_never_panics c01Env (.node (.element 2) [.node (.element 3) []]) [] _ rfl).2.2.2
    (Or.inl rfl)
  obtain ⟨_, _, s, p, k1, k2, _, _, k5⟩ := C10_repair_roundtrip_element c01Env 2 _ (by decide) (by decide) env' T' h
  exact ⟨env', T', s, p, h, k1, k2, k5⟩

/-- Non-vacuity of `C10_repair_roundtrip_inner`, closed: `<r xmlns="urn:a"><c/></r>` with `c` in `urn:b`
    (not writable); the call on the INNER element `c` registers `n0`; `to_string(c)` then writes the
    inherited default declaration before the new one. -/
def c10InnerDoc : Tree :=
  .node .document [.node (.element 2) [.node (.namespace 0 2) [], .node (.element 3) []]]

example : RepresentableFragment c01Env c10InnerDoc = true ∧ namesWritable c01Env c10InnerDoc [0, 1] = some false ∧
    (match createMissingPrefixes c01Env c10InnerDoc [0, 1] with
      | .ok (env', t') => some (toXmlString env' t' [0, 1], (standalone t' [0, 1]).map (toXmlString env' · []))
      | _ => none) =
    some (.ok "<n0:c xmlns=\"urn:a\" xmlns:n0=\"urn:b\"/>".toList,
      some (.ok "<n0:c xmlns=\"urn:a\" xmlns:n0=\"urn:b\"/>".toList)) := by
  decide

example : ∃ env' t' ks' s p X, createMissingPrefixes c01Env c10InnerDoc [0, 1] = .ok (env', t') ∧
    t'.at? [0, 1] = some (.node (.element 3) ks') ∧ toXmlString env' t' [0, 1] = .ok s ∧
    parseString .document env' s = .ok p ∧
    p.tree = .node .document [.node (.element 3) (nsLeaves X ++ ks')] ∧
    deepEqual (.node (.element 3) (nsLeaves X ++ ks')) (.node (.element 3) []) = true := by
  obtain ⟨env', t', h⟩ := (C10_repair_never_panics c01Env c10InnerDoc [0, 1] _ rfl).2.2.2 (Or.inl rfl)
  obtain ⟨_, _, ks', s, p, X, k1, _, k3, _, k5, k6, _, _, k9⟩ :=
    C10_repair_roundtrip_inner c01Env c10InnerDoc (by decide) (by decide) [0, 1] 3 [] rfl env' t' h
  exact ⟨env', t', ks', s, p, X, h, k1, k3, k5, k6, k9⟩

/-- `nameTableOK` is needed (closed): with a name in the namespace `U+0001` the document is representable,
    the call succeeds, and the repaired document is no longer representable (`xmlns:n0="&#x1;"`). -/
example :
    let env : Env := { c01Env with namespaces := c01Env.namespaces ++ [[Char.ofNat 1]],
                                   names := c01Env.names ++ [(['e'], 4)] }
    let t : Tree := .node .document [.node (.element 6) []]
    Representable env t = true ∧ nameTableOK env = false ∧
    (match createMissingPrefixes env t [] with
      | .ok (env', t') => some (Representable env' t')
      | _ => none) = some false := by
  decide

/-- … and likewise with a name in the xmlns namespace name: the call adds a declaration the parser refuses
    (`C03_reject_reserved_declaration`). -/
example :
    let env : Env := { c01Env with namespaces := c01Env.namespaces ++ [xmlnsNamespaceUri],
                                   names := c01Env.names ++ [(['e'], 4)] }
    let t : Tree := .node .document [.node (.element 6) []]
    Representable env t = true ∧ nameTableOK env = false ∧
    (match createMissingPrefixes env t [] with
      | .ok (env', t') => some (Representable env' t')
      | _ => none) = some false := by
  decide

end RepairRoundTrip

/-! ## END TO END: `create_missing_prefixes` as a step of an API history, then serialise, then parse

`C10_repair_roundtrip` above is about the tree-level model on a `Representable` tree.  Props/C04.lean shows
that the forest-level model (handles; what a history of API calls runs) refines it on every forest with the
invariant (`C10_forest_repair_refines_tree_document`), that every reachable forest has the invariant
(`C04_reach_ext`) and that `Representable` of a reachable tree is a condition on its values
(`C01_reachable_representable`).  Composed (the two lemma families can be imported together since the
helper names were made unique; Props/C04 comes in through Props/C01): -/

section EndToEnd
open XotModel.Repair

/-- ⟦C10_reachable_repair_roundtrip⟧ **After `create_missing_prefixes(doc)` as a step of an API history
    the document serialises and reparses deep-equal.**  `S` is the store after any extended history `cs`
    from the empty store (well-kinded steps, consolidation never switched off), `r` a parentless tree of
    it whose root is a document node and whose VALUES are in the XML domain for the tables of the store
    (`envOK`, `valueOK` everywhere, distinct `xml:id`s, one top-level element and no top-level text) —
    the names need NOT be writable —, and every registered name's namespace can be declared
    (`nameTableOK`).  `S'` is the store after the history extended by `create_missing_prefixes(r)`.  Then
    the call answers `Ok`, `S'` has the invariant, and the tree `r'` that `r` has become (same root
    handle, in `r`'s place among the parentless trees, every old handle kept in document order, new
    namespace nodes on fresh handles) is `Representable` for the tables of `S'`, every name is writable,
    `to_string` succeeds and `parse` of the text gives back exactly `r'` erased — tables of `S'`
    unchanged — which is `deep_equal` to the tree BEFORE the call and differs from it in namespace nodes
    only. -/
theorem C10_reachable_repair_roundtrip (env : Env) (cs : List Forest.XCall) (hw : ∀ c ∈ cs, c.wellKinded)
    (S : Store) (hS : S = (⟨Forest.init, env⟩ : Store).xrun cs) (hoff : S.forest.everOff = false)
    (r : HTree) (hr : r ∈ S.forest.roots) (hdoc : r.value.isDocument = true) (henv : envOK S.env = true)
    (hval : r.erase.allNodes (fun v _ => valueOK S.env v) = true)
    (hid : (xmlIdValues S.env r.erase).Nodup) (hone : singleRoot r.erase = true)
    (htab : nameTableOK S.env = true)
    (S' : Store) (hS' : S' = (⟨Forest.init, env⟩ : Store).xrun (cs ++ [.createMissingPrefixes r.handle])) :
    ((Forest.XCall.createMissingPrefixes r.handle).run S).2 = .ok ∧ S'.forest.Inv ∧
    ∃ r' : HTree, r'.handle = r.handle ∧
      S'.forest.roots = S.forest.roots.map (fun y => if (y.pathOf r.handle).isSome then r' else y) ∧
      S'.forest.rootOf? r.handle = some r' ∧
      r'.handles.filter (· < S.forest.next) = r.handles ∧
      createMissingPrefixes S.env r.erase [] = .ok (S'.env, r'.erase) ∧
      Representable S'.env r'.erase = true ∧ namesWritable S'.env r'.erase [] = some true ∧
      ∃ s p, toXmlString S'.env r'.erase [] = .ok s ∧ parseString .document S'.env s = .ok p ∧
        p.tree = r'.erase ∧ p.env = S'.env ∧ deepEqual p.tree r.erase = true ∧
        Repair.stripNs p.tree = Repair.stripNs r.erase := by
  have hi' : S'.forest.Inv := by
    rw [hS']
    refine C04_reach_ext env _ (fun c hc => ?_)
    rcases List.mem_append.mp hc with hc | hc
    · exact hw c hc
    · rw [List.mem_singleton.mp hc]; trivial
  have hstep : S' = ⟨(S.forest.createMissingPrefixes S.env r.handle).1,
      (S.forest.createMissingPrefixes S.env r.handle).2.1⟩ := by
    rw [hS', hS]; simp [Store.xrun, List.foldl_append, Store.xstep, Forest.XCall.run]
  subst hS
  have hi := C04_reach_ext env cs hw
  have hrep : Representable ((⟨Forest.init, env⟩ : Store).xrun cs).env r.erase = true := by
    rw [(C01_reachable_representable env cs hw hoff r hr _).2]
    simp [henv, hdoc, hval, hid, hone]
  obtain ⟨h1, h2, hg, hd, _⟩ := Reach.root_located hi hr
  obtain ⟨k, hk, hke⟩ := Reach.element_kid_of_singleRoot hone
  obtain ⟨r', a1, a2, a3, a4, a5, a6, _, _⟩ := C10_forest_repair_refines_tree_document _ hi
    ((⟨Forest.init, env⟩ : Store).xrun cs).env r.handle (by rw [hd]; exact hdoc) ⟨r, k, hg, hk, hke⟩ r h1 [] h2
  obtain ⟨hwr, s, p, k1, k2, k3, k4, _, k6, k7⟩ := C10_repair_roundtrip _ r.erase hrep htab _ _ a2
  have hrep' := (C10_repair_representable _ r.erase hrep htab _ _ a2).1
  subst hstep
  exact ⟨a1, hi', r', Reach.handle_of_pathOf_nil a4, a5, a3, a6, a2, hrep', hwr, s, p, k1, k2, k3, k4, k6, k7⟩

/-! Non-vacuity, closed: the history `new_document`, `new_element(e)` with `e` in the namespace `urn:a`,
    `append` — no prefix is declared for `urn:a`, the document is in the value-level domain and NOT
    writable.  Every hypothesis holds by evaluation; after the step `create_missing_prefixes(doc)` the
    tables have the new prefix `n0` and the document serialises to `<n0:e xmlns:n0="urn:a"/>`. -/

def c10ReachEnv : Env :=
  { namespaces := [[], xmlNamespaceUri, ['u','r','n',':','a']], prefixes := [[], ['x','m','l']],
    names := [(['s','p','a','c','e'], 1), (['i','d'], 1), (['e'], 2)] }
def c10ReachCalls : List Forest.XCall := [.newNode .document, .newNode (.element 2), .call (.append 0 1)]
def c10ReachRoot : HTree := .node 0 .document [.node 1 (.element 2) []]

example : (∀ c ∈ c10ReachCalls, c.wellKinded) ∧
    ((⟨Forest.init, c10ReachEnv⟩ : Store).xrun c10ReachCalls).forest.everOff = false ∧
    ((⟨Forest.init, c10ReachEnv⟩ : Store).xrun c10ReachCalls).forest.roots = [c10ReachRoot] ∧
    c10ReachRoot.value.isDocument = true ∧ envOK c10ReachEnv = true ∧
    c10ReachRoot.erase.allNodes (fun v _ => valueOK c10ReachEnv v) = true ∧
    (xmlIdValues c10ReachEnv c10ReachRoot.erase).Nodup ∧ singleRoot c10ReachRoot.erase = true ∧
    nameTableOK c10ReachEnv = true ∧ namesWritable c10ReachEnv c10ReachRoot.erase [] = some false := by
  decide +kernel

example :
    let S' := (⟨Forest.init, c10ReachEnv⟩ : Store).xrun (c10ReachCalls ++ [.createMissingPrefixes 0])
    S'.env.prefixes = [[], ['x','m','l'], ['n','0']] ∧
    S'.forest.roots.map (fun r' => toXmlString S'.env r'.erase []) =
      [.ok "<n0:e xmlns:n0=\"urn:a\"/>".toList] := by decide +kernel

example : ∃ r' s p,
    let S' := (⟨Forest.init, c10ReachEnv⟩ : Store).xrun (c10ReachCalls ++ [.createMissingPrefixes 0])
    S'.forest.rootOf? 0 = some r' ∧ toXmlString S'.env r'.erase [] = .ok s ∧
      parseString .document S'.env s = .ok p ∧ p.tree = r'.erase ∧ deepEqual p.tree c10ReachRoot.erase = true := by
  obtain ⟨_, _, r', _, _, h3, _, _, _, _, s, p, k1, k2, k3, _, k5, _⟩ :=
    C10_reachable_repair_roundtrip c10ReachEnv c10ReachCalls (by decide) _ rfl (by decide +kernel)
      c10ReachRoot (by decide +kernel) rfl (by decide +kernel) (by decide +kernel) (by decide +kernel)
      (by decide +kernel) (by decide +kernel) _ rfl
  exact ⟨r', s, p, h3, k1, k2, k3, k5⟩

end EndToEnd

/-! ## END TO END over histories that parse: parse ∘ API edits ∘ `create_missing_prefixes` ∘ serialise ∘ parse

The same composition with the bridges for FULL histories (`C04_reach_full`,
`C01_reachable_representable_full`, Props/C04.lean): the history may contain `parse` / `parse_fragment` steps
of arbitrary texts anywhere. -/

section EndToEndFull
open XotModel.Repair

/-- ⟦C10_reachable_repair_roundtrip_full⟧ **… over histories that PARSE and edit.**  The statement of
    `C10_reachable_repair_roundtrip` with `S` the store after any FULL history `cs` from `Xot::new()` with the
    tables `env` (`PCall`, Model/FparseHist.lean: `parse` / `parse_fragment` of ARBITRARY texts, accepted or
    rejected, and well-kinded extended API calls in any order; consolidation never switched off), `r` any
    parentless tree of it whose root is a document node — a parsed document, edited or not, or one built by
    hand — with values in the XML domain for the tables of the store, `nameTableOK`; `S'` the store after
    the history extended by the step `create_missing_prefixes(r)`.  Same conclusion (the step answers `Ok`,
    invariant, `r'` in `r`'s place, `Representable`, writable, `to_string` ∘ `parse` gives back `r'` erased,
    `deep_equal` to the tree before the call, namespace nodes the only difference); moreover the xml:id
    index of the store is untouched. -/
theorem C10_reachable_repair_roundtrip_full (env : Env) (cs : List PCall) (hw : ∀ c ∈ cs, c.wellKinded)
    (S : PStore) (hS : S = (PStore.init env).run cs) (hoff : S.forest.everOff = false)
    (r : HTree) (hr : r ∈ S.forest.roots) (hdoc : r.value.isDocument = true) (henv : envOK S.env = true)
    (hval : r.erase.allNodes (fun v _ => valueOK S.env v) = true)
    (hid : (xmlIdValues S.env r.erase).Nodup) (hone : singleRoot r.erase = true)
    (htab : nameTableOK S.env = true)
    (S' : PStore) (hS' : S' = (PStore.init env).run (cs ++ [.api (.createMissingPrefixes r.handle)])) :
    ((PCall.api (.createMissingPrefixes r.handle)).run S).2 = .api .ok ∧ S'.forest.Inv ∧ S'.index = S.index ∧
    ∃ r' : HTree, r'.handle = r.handle ∧
      S'.forest.roots = S.forest.roots.map (fun y => if (y.pathOf r.handle).isSome then r' else y) ∧
      S'.forest.rootOf? r.handle = some r' ∧
      r'.handles.filter (· < S.forest.next) = r.handles ∧
      createMissingPrefixes S.env r.erase [] = .ok (S'.env, r'.erase) ∧
      Representable S'.env r'.erase = true ∧ namesWritable S'.env r'.erase [] = some true ∧
      ∃ s p, toXmlString S'.env r'.erase [] = .ok s ∧ parseString .document S'.env s = .ok p ∧
        p.tree = r'.erase ∧ p.env = S'.env ∧ deepEqual p.tree r.erase = true ∧
        Repair.stripNs p.tree = Repair.stripNs r.erase := by
  have hi' : S'.forest.Inv := by
    rw [hS']
    refine (C04_reach_full env _ (fun c hc => ?_)).1
    rcases List.mem_append.mp hc with hc | hc
    · exact hw c hc
    · rw [List.mem_singleton.mp hc]; trivial
  have hstep : S' = ⟨(S.forest.createMissingPrefixes S.env r.handle).1,
      (S.forest.createMissingPrefixes S.env r.handle).2.1, S.index⟩ := by
    rw [hS', hS]; simp [PStore.run, List.foldl_append, PStore.step, PCall.run, Forest.XCall.run, PStore.store]
  subst hS
  have hi := (C04_reach_full env cs hw).1
  have hrep : Representable ((PStore.init env).run cs).env r.erase = true := by
    rw [(C01_reachable_representable_full env cs hw hoff r hr _).2]
    simp [henv, hdoc, hval, hid, hone]
  obtain ⟨h1, h2, hg, hd, _⟩ := Reach.root_located hi hr
  obtain ⟨k, hk, hke⟩ := Reach.element_kid_of_singleRoot hone
  obtain ⟨r', a1, a2, a3, a4, a5, a6, _, _⟩ := C10_forest_repair_refines_tree_document _ hi
    ((PStore.init env).run cs).env r.handle (by rw [hd]; exact hdoc) ⟨r, k, hg, hk, hke⟩ r h1 [] h2
  obtain ⟨hwr, s, p, k1, k2, k3, k4, _, k6, k7⟩ := C10_repair_roundtrip _ r.erase hrep htab _ _ a2
  have hrep' := (C10_repair_representable _ r.erase hrep htab _ _ a2).1
  subst hstep
  refine ⟨?_, hi', rfl, r', Reach.handle_of_pathOf_nil a4, a5, a3, a6, a2, hrep', hwr, s, p, k1, k2, k3, k4, k6, k7⟩
  simp only [PCall.run, Forest.XCall.run, PStore.store]
  rw [a1]

/-! Non-vacuity, closed: `fullCallsB` of Props/C04.lean without its last step.  From the tables of `Xot::new()`:
    PARSE `<r xmlns:p="urn:a"><p:a>t</p:a></r>`, REMOVE the declaration of `p`, create a new element `{urn:a}a`,
    append it, give it the attribute `p:a="v"`, parse a text that is REJECTED (`<a><b></a>`: it leaves the names
    `a`, `b` in the tables).  The document is in the value-level domain and NOT writable; every hypothesis
    holds by evaluation; the step `create_missing_prefixes(doc)` gives `fullRootB` (declaration `n0`), which
    serialises and reparses to itself, `deep_equal` to the tree before the call. -/

def c10FullCalls : List PCall :=
  [.parse .document fullText, .api (.call (.mapRemove .namespaces 1 2)), .api (.newNode (.element 3)),
   .api (.call (.append 1 5)), .api (.call (.mapInsert .attributes 5 (.attribute 3 ['v']))),
   .parse .document "<a><b></a>".toList]
def c10FullRoot : HTree :=
  .node 0 .document [.node 1 (.element 2) [
    .node 3 (.element 3) [.node 4 (.text ['t']) []],
    .node 5 (.element 3) [.node 6 (.attribute 3 ['v']) []]]]

example : c10FullCalls ++ [.api (.createMissingPrefixes c10FullRoot.handle)] = fullCallsB := rfl

example :
    let S := (PStore.init Env.fresh).run c10FullCalls
    (∀ c ∈ c10FullCalls, c.wellKinded) ∧ S.forest.everOff = false ∧ S.forest.roots = [c10FullRoot] ∧
    c10FullRoot.value.isDocument = true ∧ envOK S.env = true ∧
    c10FullRoot.erase.allNodes (fun v _ => valueOK S.env v) = true ∧
    (xmlIdValues S.env c10FullRoot.erase).Nodup ∧ singleRoot c10FullRoot.erase = true ∧
    nameTableOK S.env = true ∧ namesWritable S.env c10FullRoot.erase [] = some false ∧
    (match (PStore.outs (PStore.init Env.fresh) c10FullCalls).getLast? with
      | some (.rejected _) => true | _ => false) = true := by decide +kernel

example : ∃ r' s p,
    let S' := (PStore.init Env.fresh).run fullCallsB
    S'.forest.rootOf? 0 = some r' ∧ r'.erase = fullRootB.erase ∧ toXmlString S'.env r'.erase [] = .ok s ∧
      parseString .document S'.env s = .ok p ∧ p.tree = r'.erase ∧ deepEqual p.tree c10FullRoot.erase = true := by
  obtain ⟨_, _, _, r', _, h2, h3, _, _, _, _, s, p, k1, k2, k3, _, k5, _⟩ :=
    C10_reachable_repair_roundtrip_full Env.fresh c10FullCalls (by decide) _ rfl (by decide +kernel)
      c10FullRoot (by decide +kernel) rfl (by decide +kernel) (by decide +kernel) (by decide +kernel)
      (by decide +kernel) (by decide +kernel) _ rfl
  refine ⟨r', s, p, h3, ?_, k1, k2, k3, k5⟩
  have hr : ((PStore.init Env.fresh).run fullCallsB).forest.rootOf? 0 = some fullRootB := by decide +kernel
  rw [show c10FullCalls ++ [.api (.createMissingPrefixes c10FullRoot.handle)] = fullCallsB from rfl,
    show c10FullRoot.handle = 0 from rfl, hr] at h3
  cases h3; rfl

end EndToEndFull

/-! ## The call on a DOCUMENT node: declarations and bindings kept; every tree: what holds after repair

Two restatements that the sections above left to composition. -/

section DocumentKeepsAndEveryTree
open XotModel.Repair

/-- DESCENDANTS' DECLARATIONS, call on a document (or fragment) node — `C10_repair_keeps_declarations` composed
    with `C10_repair_document_calls`: the document node keeps its value, its children keep their values and
    order, the bindings in scope at it are the same; every child that is NOT an element is untouched, subtree
    and all; and for every ELEMENT child `k` (at index `i`, unchanged by the calls on its siblings) the statement
    of `C10_repair_keeps_declarations` holds between `k` as it was BEFORE the call on the document and the node
    `E'` in its place after it, relative to the declarations `k` inherited before the call (which are the
    bindings in scope at the document node): same number of nodes other than namespace nodes below, each with
    its value, each with its declaration list — or `insert("", no namespace)` into it exactly at a no-namespace
    element under a default namespace. -/
theorem C10_repair_document_keeps_declarations (env : Env) (hok : EnvOk env) (t : Tree) (path : Path) (doc : Tree)
    (hat : t.at? path = some doc) (hdoc : doc.value.isDocument = true)
    (hu : ∀ (i : Nat) (k : Tree), doc.kids[i]? = some k → k.value.isElement = true → UniqueBelow k)
    (env' : Env) (t' : Tree) (h : createMissingPrefixes env t path = .ok (env', t')) :
    (∃ doc', t'.at? path = some doc' ∧ doc'.value = doc.value ∧
      doc'.kids.map Tree.value = doc.kids.map Tree.value) ∧
    namespacesInScope t' path = namespacesInScope t path ∧
    (∀ (j : Nat) (k : Tree), doc.kids[j]? = some k → k.value.isElement = false →
      ∀ r, t'.at? (path ++ j :: r) = t.at? (path ++ j :: r)) ∧
    ∀ (i : Nat) (k : Tree) (name : Nat), doc.kids[i]? = some k → k.value = .element name →
      ∃ E', t'.at? (path ++ [i]) = some E' ∧ E'.value = .element name ∧
        (nodesBelow [inheritedDecls t (path ++ [i])] k).length =
          (nodesBelow [inheritedDecls t (path ++ [i])] E').length ∧
        ∀ (m : Nat) (b a : Frames × Tree),
          (nodesBelow [inheritedDecls t (path ++ [i])] k)[m]? = some b →
          (nodesBelow [inheritedDecls t (path ++ [i])] E')[m]? = some a →
          a.2.value = b.2.value ∧
          ((NeedsUndeclaration env.nsOfName a.1.tail b.2 ∧
              a.2.nsDecls = insertDecl Env.emptyPrefix Env.noNamespace b.2.nsDecls) ∨
            (¬ NeedsUndeclaration env.nsOfName a.1.tail b.2 ∧ a.2.nsDecls = b.2.nsDecls)) := by
  have hf := document_facts env hok t path doc hat hdoc hu env' t' h
  obtain ⟨k1, k2⟩ := rdk_document_kept env hok t path doc hat hdoc hu env' t' h
  refine ⟨docFacts_node hf doc hat, hf.scope, k2, ?_⟩
  intro i k name hk hv
  obtain ⟨E', e1, e2, _, e4⟩ := k1 i k hk (by rw [hv]; rfl)
  rw [inheritedDecls_child]
  obtain ⟨hl, hall⟩ := allPairs_iff_getElem.mp e4
  exact ⟨E', e1, by rw [e2, hv], hl, fun m b a hb ha => ⟨(hall m b a hb ha).1, (hall m b a hb ha).2.1⟩⟩

/-- BINDINGS, call on a document (or fragment) node — `C10_repair_keeps_bindings` composed with
    `C10_repair_document_calls`: at every element child and at every node below it, every binding of a
    non-empty prefix in force before the call on the document is in force after it, and the empty prefix means
    what it meant or a default namespace has become "no namespace" (`BindingsKept`; what that means for names:
    `C10_repair_keeps_resolution`).  The other children and the bindings in scope at the document node are
    untouched (`C10_repair_document_keeps_declarations`). -/
theorem C10_repair_document_keeps_bindings (env : Env) (hok : EnvOk env) (t : Tree) (path : Path) (doc : Tree)
    (hat : t.at? path = some doc) (hdoc : doc.value.isDocument = true)
    (hu : ∀ (i : Nat) (k : Tree), doc.kids[i]? = some k → k.value.isElement = true → UniqueBelow k)
    (env' : Env) (t' : Tree) (h : createMissingPrefixes env t path = .ok (env', t')) :
    ∀ (i : Nat) (k : Tree), doc.kids[i]? = some k → k.value.isElement = true →
      ∃ E', t'.at? (path ++ [i]) = some E' ∧
        BindingsKept (k.nsDecls :: [inheritedDecls t (path ++ [i])])
          (E'.nsDecls :: [inheritedDecls t (path ++ [i])]) ∧
        ∀ (m : Nat) (b a : Frames × Tree),
          (nodesBelow [inheritedDecls t (path ++ [i])] k)[m]? = some b →
          (nodesBelow [inheritedDecls t (path ++ [i])] E')[m]? = some a → BindingsKept b.1 a.1 := by
  intro i k hk hv
  obtain ⟨E', e1, _, e3, e4⟩ := (rdk_document_kept env hok t path doc hat hdoc hu env' t' h).1 i k hk hv
  rw [inheritedDecls_child]
  exact ⟨E', e1, e3, fun m b a hb ha => ((allPairs_iff_getElem.mp e4).2 m b a hb ha).2.2⟩

/-- Non-vacuity, closed: the fragment `<a xmlns="u"><b/></a><!--c--><d xmlns:p="v"><e/></d>` (`a`, `e` in `u`,
    `b`, `d` in no namespace; call on the document node): `b` gets `xmlns=""`, `d` gets the new `xmlns:n0="u"`
    for `e` and keeps `xmlns:p`; the comment is untouched. -/
def c10DocKeepEnv : Env :=
  ⟨[[], ['x'], ['u'], ['v']], [[], ['x','m','l'], ['p']], [(['a'], 2), (['b'], 0), (['d'], 0), (['e'], 2)]⟩
def c10DocKeepDoc : Tree :=
  .node .document [
    .node (.element 0) [.node (.namespace 0 2) [], .node (.element 1) []],
    .node (.comment ['c']) [],
    .node (.element 2) [.node (.namespace 2 3) [], .node (.element 3) []]]

example :
    (match createMissingPrefixes c10DocKeepEnv c10DocKeepDoc [] with
      | .ok (env', t') => some (env'.prefixes.length, (t'.at? [0]).map Tree.nsDecls, (t'.at? [0, 1]).map Tree.nsDecls)
      | _ => none) = some (4, some [(0, 2)], some [(0, 0)]) := by decide

example :
    (match createMissingPrefixes c10DocKeepEnv c10DocKeepDoc [] with
      | .ok (env', t') => some ((t'.at? [2]).map Tree.nsDecls, namesWritable env' t' [], toXmlString env' t' [])
      | _ => none) =
    some (some [(2, 3), (3, 2)], some true,
      .ok "<a xmlns=\"u\"><b xmlns=\"\"/></a><!--c--><d xmlns:p=\"v\" xmlns:n0=\"u\"><n0:e/></d>".toList) := by
  decide

/-! ### Every tree (no `Representable`): after the call the run never fails on a name, and every name resolves -/

/-- **What `namesWritable` means for the run itself**, EVERY tree, start node, vocabulary, escaping function and
    parameter set — no well-formedness, no `Representable`: if the serialiser's `MissingPrefix` checks pass
    (`namesWritable`, what `create_missing_prefixes` establishes), then every event of the run that is reached is
    rendered `Ok`, except that a processing instruction whose target is in a namespace is refused with
    `NamespaceInProcessingInstruction` — the one error of `XmlSerializer::render_output` that is not about a
    name's prefix.  So the rendered stream, and `serialize_xml_string` / `to_string`, end `Ok` or with that
    error — never `MissingPrefix`, never a panic — and `Ok` when no processing instruction of the subtree has a
    namespaced target. -/
theorem C10_writable_run_outcome (esc : Escapers) (env : Env) (pr : TokenParams) (t : Tree) (start : Path)
    (hw : namesWritable env t start = some true) :
    (∀ x ∈ stackTrace esc env pr t (initStack t start) (genOutputs t start), rrun_StepFine esc env pr t x) ∧
    ((∃ l, renderAllWith esc env pr t (initStack t start) (genOutputs t start) = .ok l ∧
        serializeStringWith esc env pr t start = .ok (streamBytes l)) ∨
      (renderAllWith esc env pr t (initStack t start) (genOutputs t start) = .err .namespaceInProcessingInstruction ∧
        serializeStringWith esc env pr t start = .err .namespaceInProcessingInstruction)) ∧
    ((∀ p tg d, (p, Output.pi tg d) ∈ genOutputs t start → (env.namespaceStr (env.nsOfName tg)).isEmpty = true) →
      ∃ l, renderAllWith esc env pr t (initStack t start) (genOutputs t start) = .ok l ∧
        serializeStringWith esc env pr t start = .ok (streamBytes l)) := by
  have hfine := rrun_of_namesWritable esc env pr t start hw
  have hout := rrun_outcome esc env pr t _ _ hfine
  refine ⟨hfine, ?_, ?_⟩
  · rcases hout with ⟨l, hl⟩ | he
    · refine Or.inl ⟨l, hl, ?_⟩
      unfold serializeStringWith serializeWriteWith bufferToString
      rw [writeGo_of_renderAll_ok esc env pr t _ _ l hl]
    · refine Or.inr ⟨he, ?_⟩
      unfold serializeStringWith serializeWriteWith bufferToString
      rw [writeGo_of_renderAll_err esc env pr t _ _ _ he]
  · intro hpi
    obtain ⟨l, hl⟩ := rrun_ok_of_no_pi esc env pr t _ _ hfine hpi
    refine ⟨l, hl, ?_⟩
    unfold serializeStringWith serializeWriteWith bufferToString
    rw [writeGo_of_renderAll_ok esc env pr t _ _ l hl]

/-- **C10_repair_run_outcome**: for EVERY tree whose elements declare no prefix twice — empty or adjacent text
    nodes, non-XML characters in values, names that are no NCNames, repeated `xml:id`s included — after
    `create_missing_prefixes(element)`, `to_string(element)` (any escaping functions and token parameters) returns
    `Ok` or `Err(NamespaceInProcessingInstruction)`: never `MissingPrefix`, never a panic; and `Ok` when no
    processing instruction below the element has a namespaced target. -/
theorem C10_repair_run_outcome (esc : Escapers) (pr : TokenParams) (env : Env) (hok : EnvOk env) (t : Tree)
    (path : Path) (name : Nat) (ks : List Tree) (hat : t.at? path = some (.node (.element name) ks))
    (hu : UniqueBelow (.node (.element name) ks)) (env' : Env) (t' : Tree)
    (h : createMissingPrefixes env t path = .ok (env', t')) :
    ((∃ l, renderAllWith esc env' pr t' (initStack t' path) (genOutputs t' path) = .ok l ∧
        serializeStringWith esc env' pr t' path = .ok (streamBytes l)) ∨
      (renderAllWith esc env' pr t' (initStack t' path) (genOutputs t' path) = .err .namespaceInProcessingInstruction ∧
        serializeStringWith esc env' pr t' path = .err .namespaceInProcessingInstruction)) ∧
    ((∀ p tg d, (p, Output.pi tg d) ∈ genOutputs t' path → (env'.namespaceStr (env'.nsOfName tg)).isEmpty = true) →
      ∃ l, renderAllWith esc env' pr t' (initStack t' path) (genOutputs t' path) = .ok l ∧
        serializeStringWith esc env' pr t' path = .ok (streamBytes l)) :=
  (C10_writable_run_outcome esc env' pr t' path
    (C10_repair_writable env hok t path name ks hat hu env' t' h)).2

/-- The same for the call on a document or fragment whose children other than elements are leaves. -/
theorem C10_repair_document_run_outcome (esc : Escapers) (pr : TokenParams) (env : Env) (hok : EnvOk env) (t : Tree)
    (path : Path) (doc : Tree) (hat : t.at? path = some doc) (hdoc : doc.value.isDocument = true)
    (hu : ∀ (i : Nat) (k : Tree), doc.kids[i]? = some k → k.value.isElement = true → UniqueBelow k)
    (hleaf : ∀ (i : Nat) (k : Tree), doc.kids[i]? = some k → k.value.isElement = false → k.kids = [])
    (env' : Env) (t' : Tree) (h : createMissingPrefixes env t path = .ok (env', t')) :
    ((∃ l, renderAllWith esc env' pr t' (initStack t' path) (genOutputs t' path) = .ok l ∧
        serializeStringWith esc env' pr t' path = .ok (streamBytes l)) ∨
      (renderAllWith esc env' pr t' (initStack t' path) (genOutputs t' path) = .err .namespaceInProcessingInstruction ∧
        serializeStringWith esc env' pr t' path = .err .namespaceInProcessingInstruction)) ∧
    ((∀ p tg d, (p, Output.pi tg d) ∈ genOutputs t' path → (env'.namespaceStr (env'.nsOfName tg)).isEmpty = true) →
      ∃ l, renderAllWith esc env' pr t' (initStack t' path) (genOutputs t' path) = .ok l ∧
        serializeStringWith esc env' pr t' path = .ok (streamBytes l)) :=
  (C10_writable_run_outcome esc env' pr t' path
    (C10_repair_document_writable env hok t path doc hat hdoc hu hleaf env' t' h)).2

/-- **Every name of a writable subtree resolves to its own expanded name** (`C10_sound`-style, on the token
    stream of the run): EVERY tree whose elements declare no prefix twice, every start node at which
    `namesWritable` holds.  At every event `(s, p, o)` the run reaches (`s` the name stack it holds there):
    * a `StartTagOpen` is rendered — the token is `<` + the qualified name built from the prefix `element_prefix`
      answers on the stack with the element's declarations pushed — and that prefix resolves, by XML-Namespaces
      rules in the declarations of the open elements (the element's own included) on top of the bindings in scope
      at the start node, to the element's namespace;
    * an `Attribute` is rendered as `qname="…"` with the prefix `attribute_prefix` answers, never the empty
      prefix, resolving to the attribute's namespace;
    * the `EndTag` of an element with children writes the same qualified name, resolving the same way.
    (`XmlPrefixReserved`: the tree does not rebind `xml`; without it the prefixes are still the ones the
    serialiser's lookups answer.) -/
theorem C10_writable_resolves_everywhere (esc : Escapers) (env : Env) (pr : TokenParams) (t : Tree) (start : Path)
    (n : Tree) (inScope : List (Nat × Nat)) (hat : t.at? start = some n)
    (hs : namespacesInScope t start = some inScope) (hu : UniqueBelow n)
    (hw : namesWritable env t start = some true)
    (s : FStack) (p : Path) (o : Output)
    (hx : (s, p, o) ∈ stackTrace esc env pr t (initStack t start) (genOutputs t start)) :
    ∃ rel node, p = start ++ rel ∧ n.at? rel = some node ∧
      (∀ nm, o = .startTagOpen nm → ∃ pfx, (s.push node.nsDecls).elementPrefix env nm = .ok pfx ∧
        renderAtWith esc env pr t s p o =
          .ok (s.push node.nsDecls, ⟨false, fmt Gen.fmtStartTagOpen [qname env pfx nm]⟩) ∧
        (XmlPrefixReserved (framesAlong n rel ++ [inScope]) →
          resolveElementName (framesAlong n rel ++ [inScope]) pfx = some (env.nsOfName nm))) ∧
      (∀ nm v, o = .attribute nm v → ∃ pfx, s.attributePrefix env nm = .ok pfx ∧ pfx ≠ some Env.emptyPrefix ∧
        renderAtWith esc env pr t s p o = .ok (s, ⟨true, fmt Gen.fmtAttribute [qname env pfx nm, esc.attr v]⟩) ∧
        (XmlPrefixReserved (framesAlong n rel ++ [inScope]) →
          resolveAttributeName (framesAlong n rel ++ [inScope]) pfx = some (env.nsOfName nm))) ∧
      (∀ nm, o = .endTag nm → node.firstChild?.isSome = true → ∃ pfx, s.elementPrefix env nm = .ok pfx ∧
        renderAtWith esc env pr t s p o =
          .ok (s.pop node.hasNsDecls, ⟨false, fmt Gen.fmtEndTag [qname env pfx nm]⟩) ∧
        (XmlPrefixReserved (framesAlong n rel ++ [inScope]) →
          resolveElementName (framesAlong n rel ++ [inScope]) pfx = some (env.nsOfName nm))) := by
  have hfine := (C10_writable_run_outcome esc env pr t start hw).1 _ hx
  obtain ⟨⟨rel, hp, hinv⟩, _⟩ := genOutputs_trace esc env pr t start n inScope hat hs hu _ hx
  simp only at hp hinv
  have hev := stackTrace_mem_events esc env pr t _ _ _ hx
  simp only at hev
  have hg : genOutputs t start = genNode inScope true start n := by simp [genOutputs, hat, hs]
  rw [hg] at hev
  obtain ⟨rel', node, hp', hnode, _, _⟩ := genNode_tagged inScope true start n p _ hev
  have hrr : rel' = rel := List.append_cancel_left (hp'.symm.trans hp)
  subst hrr
  have hnodeT : t.at? p = some node := by rw [hp, at?_append, hat]; exact hnode
  refine ⟨rel', node, hp, hnode, ?_, ?_, ?_⟩
  · intro nm ho
    subst ho
    obtain ⟨pfx, h1, h2⟩ := rrun_fine_open esc env pr t s p nm node hnodeT hfine
    refine ⟨pfx, h1, h2, ?_⟩
    have hstep : stepStack esc env pr t s (p, .startTagOpen nm) = some (s.push node.nsDecls) := by
      simp [stepStack, h2]
    obtain ⟨rel2, pfx2, hp2, hpfx2, hres⟩ :=
      C10_sound_tree esc env pr t start n inScope hat hs hu s _ p nm node hx hnodeT hstep
    have : rel2 = rel' := List.append_cancel_left (hp2.symm.trans hp)
    subst this
    rw [h1] at hpfx2
    cases hpfx2
    exact hres
  · intro nm v ho
    subst ho
    obtain ⟨pfx, h1, h2⟩ := rrun_fine_attribute esc env pr t s p nm v node hnodeT hfine
    simp only [framesFor] at hinv
    exact ⟨pfx, h1, rrun_attributePrefix_ne_empty env s nm pfx h1, h2,
      fun hxr => (C10_sound_attribute env _ _ nm pfx hinv hxr h1).1⟩
  · intro nm ho hc
    subst ho
    obtain ⟨pfx, h1, h2⟩ := rrun_fine_end esc env pr t s p nm node hnodeT hc hfine
    obtain ⟨rel2, hp2, hres⟩ := C10_sound_tree_endtag esc env pr t start n inScope hat hs hu s p nm pfx hx h1
    have : rel2 = rel' := List.append_cancel_left (hp2.symm.trans hp)
    subst this
    exact ⟨pfx, h1, h2, hres⟩

/-- **C10_repair_resolves_everywhere**: `C10_writable_resolves_everywhere` for the tree
    `create_missing_prefixes(element)` leaves — for EVERY tree whose elements declare no prefix twice (nothing
    else: no `Representable`).  After the call, at every event the run of `to_string(element)` reaches, the start
    tag / attribute / end tag name is rendered, through the prefix the serialiser picks, and that prefix resolves
    to the name's own namespace; together with `C10_repair_run_outcome` (the run reaches every event unless a
    processing instruction with a namespaced target stops it) and `C10_repair_frame` (names and namespaces of
    the nodes are unchanged). -/
theorem C10_repair_resolves_everywhere (esc : Escapers) (pr : TokenParams) (env : Env) (hok : EnvOk env) (t : Tree)
    (path : Path) (name : Nat) (ks : List Tree) (hat : t.at? path = some (.node (.element name) ks))
    (hu : UniqueBelow t) (env' : Env) (t' : Tree) (h : createMissingPrefixes env t path = .ok (env', t')) :
    ∃ E' inScope, t'.at? path = some E' ∧ namespacesInScope t' path = some inScope ∧
      ∀ s p o, (s, p, o) ∈ stackTrace esc env' pr t' (initStack t' path) (genOutputs t' path) →
        ∃ rel node, p = path ++ rel ∧ E'.at? rel = some node ∧
          (∀ nm, o = .startTagOpen nm → ∃ pfx, (s.push node.nsDecls).elementPrefix env' nm = .ok pfx ∧
            renderAtWith esc env' pr t' s p o =
              .ok (s.push node.nsDecls, ⟨false, fmt Gen.fmtStartTagOpen [qname env' pfx nm]⟩) ∧
            (XmlPrefixReserved (framesAlong E' rel ++ [inScope]) →
              resolveElementName (framesAlong E' rel ++ [inScope]) pfx = some (env'.nsOfName nm))) ∧
          (∀ nm v, o = .attribute nm v → ∃ pfx, s.attributePrefix env' nm = .ok pfx ∧
            pfx ≠ some Env.emptyPrefix ∧
            renderAtWith esc env' pr t' s p o =
              .ok (s, ⟨true, fmt Gen.fmtAttribute [qname env' pfx nm, esc.attr v]⟩) ∧
            (XmlPrefixReserved (framesAlong E' rel ++ [inScope]) →
              resolveAttributeName (framesAlong E' rel ++ [inScope]) pfx = some (env'.nsOfName nm))) ∧
          (∀ nm, o = .endTag nm → node.firstChild?.isSome = true → ∃ pfx, s.elementPrefix env' nm = .ok pfx ∧
            renderAtWith esc env' pr t' s p o =
              .ok (s.pop node.hasNsDecls, ⟨false, fmt Gen.fmtEndTag [qname env' pfx nm]⟩) ∧
            (XmlPrefixReserved (framesAlong E' rel ++ [inScope]) →
              resolveElementName (framesAlong E' rel ++ [inScope]) pfx = some (env'.nsOfName nm))) := by
  have hsub : UniqueBelow (.node (.element name) ks) := by
    intro rel n' hn
    exact hu (path ++ rel) n' (by rw [at?_append, hat]; exact hn)
  have hw := C10_repair_writable env hok t path name ks hat hsub env' t' h
  obtain ⟨_, hu'⟩ := C10_repair_keeps_unique env hok t path name ks hat hu env' t' h
  obtain ⟨nd, E', hat', _⟩ := C10_repair_fresh_prefixes env hok t path name ks hat hsub env' t' h
  obtain ⟨rest, hc⟩ := ancestorsOrSelf_of_at? t' path E' hat'
  have hs' : namespacesInScope t' path = some (namespacesInScopeChain (E' :: rest)) := by
    simp [namespacesInScope, hc]
  have huE : UniqueBelow E' := by
    intro rel n' hn
    exact hu' (path ++ rel) n' (by rw [at?_append, hat']; exact hn)
  exact ⟨E', _, hat', hs', fun s p o hx =>
    C10_writable_resolves_everywhere esc env' pr t' path E' _ hat' hs' huE hw s p o hx⟩

/-- The call keeps the hypotheses of `C10_names_resolve_in_tokens` and of the `XmlPrefixReserved` clauses, for
    EVERY tree: it only registers prefix strings `n<k>` that were not in the table (pairwise different strings
    stay pairwise different; `n` + decimal digits holds no `:` and no `=`), and the declarations it inserts are
    `xmlns=""` and prefixes just registered that are bound nowhere in scope of the element — in particular not
    the `xml` prefix, which is bound in every scope.  So: `EnvStrings` of the tables, `DeclsOkBelow` of the
    repaired element, `DeclsOk` of the bindings in scope at it, and hence `XmlPrefixReserved` of the frames of
    every event of its run. -/
theorem C10_repair_keeps_table_hypotheses (env : Env) (henv : SerResolve.EnvStrings env) (t : Tree) (path : Path)
    (name : Nat) (ks : List Tree) (hat : t.at? path = some (.node (.element name) ks))
    (hdk : SerResolve.DeclsOkBelow env (.node (.element name) ks))
    (hinh : SerResolve.DeclsOk env (inheritedDecls t path)) (env' : Env) (t' : Tree)
    (h : createMissingPrefixes env t path = .ok (env', t')) :
    SerResolve.EnvStrings env' ∧
    ∃ E' inScope, t'.at? path = some E' ∧ E'.value = .element name ∧ namespacesInScope t' path = some inScope ∧
      SerResolve.DeclsOkBelow env' E' ∧ SerResolve.DeclsOk env' inScope ∧
      ∀ rel, XmlPrefixReserved (framesAlong E' rel ++ [inScope]) := by
  rw [C10_repair_element env t path name ks hat] at h
  obtain ⟨h1, E', h2, h3, h4, h5⟩ := rdo_repairElement env henv t path name ks hat hdk hinh env' t' h
  obtain ⟨rest, hc⟩ := ancestorsOrSelf_of_at? t' path E' h2
  have hs' : namespacesInScope t' path = some (namespacesInScopeChain (E' :: rest)) := by
    simp [namespacesInScope, hc]
  exact ⟨h1, E', _, h2, h3, hs', h4, h5 _ hs', fun rel => rdo_xmlPrefixReserved E' _ h4 (h5 _ hs') rel⟩

/-- **At the level of token TEXTS, every tree** — `C10_names_resolve_in_tokens` composed with
    `C10_repair_run_outcome` and `C10_repair_keeps_table_hypotheses`, all hypotheses on the state BEFORE the
    call: interning tables with pairwise different prefix strings, the built-in entries and no `:` / `=` in
    prefixes and local names (`EnvStrings`); a tree whose elements declare no prefix twice, declare registered
    prefixes only and do not rebind `xml`, likewise the declarations the element inherits.  Nothing else — no
    `Representable`, names need not be writable.  After `create_missing_prefixes(element)`, when no processing
    instruction of the run has a namespaced target, the token stream of the repaired element exists and the
    independent XML-Namespaces resolver, run over the token TEXTS, answers the expanded names of the nodes. -/
theorem C10_repair_names_resolve_in_tokens (esc : Escapers) (pr : TokenParams) (unesc : Str → Str)
    (hue : ∀ u, unesc (esc.attr u) = u) (env : Env) (hok : EnvOk env) (henv : SerResolve.EnvStrings env)
    (t : Tree) (path : Path) (name : Nat) (ks : List Tree) (hat : t.at? path = some (.node (.element name) ks))
    (hu : UniqueBelow t) (hdk : SerResolve.DeclsOkBelow env (.node (.element name) ks))
    (hinh : SerResolve.DeclsOk env (inheritedDecls t path))
    (env' : Env) (t' : Tree) (h : createMissingPrefixes env t path = .ok (env', t'))
    (hpi : ∀ p tg d, (p, Output.pi tg d) ∈ genOutputs t' path →
      (env'.namespaceStr (env'.nsOfName tg)).isEmpty = true) :
    ∃ toks, tokensWith esc env' pr t' path = .ok toks ∧
      SerResolve.resolveGo unesc [] none (SerResolve.view toks) =
        SerResolve.expectedGo env' none (SerResolve.evs toks) := by
  have hsub : UniqueBelow (.node (.element name) ks) := by
    intro rel n' hn
    exact hu (path ++ rel) n' (by rw [at?_append, hat]; exact hn)
  obtain ⟨l, hl, _⟩ := (C10_repair_run_outcome esc pr env hok t path name ks hat hsub env' t' h).2 hpi
  have htoks : tokensWith esc env' pr t' path = .ok l := by simp [tokensWith, hl]
  obtain ⟨_, hu'⟩ := C10_repair_keeps_unique env hok t path name ks hat hu env' t' h
  obtain ⟨henv', E', inScope, hat', hval, hs', hdk', hin', _⟩ :=
    C10_repair_keeps_table_hypotheses env henv t path name ks hat hdk hinh env' t' h
  have huE : UniqueBelow E' := by
    intro rel n' hn
    exact hu' (path ++ rel) n' (by rw [at?_append, hat']; exact hn)
  exact ⟨l, htoks, C10_names_resolve_in_tokens esc env' pr t' unesc henv' hue path E' _ hat' hs' huE
    hdk' hin' (Or.inl (by rw [hval]; rfl)) l htoks⟩

/-- Non-vacuity of the hypotheses of `C10_repair_names_resolve_in_tokens` (closed): the tables and the tree
    of the example below, where nothing is declared. -/
example :
    let env : Env := ⟨[[], Gen.xmlNs, ['u'], ['v']], [[], ['x','m','l']],
      [(['a'], 2), (['b'], 0), (['c'], 3), (['t'], 0)]⟩
    SerResolve.EnvStrings env ∧ SerResolve.DeclsOk env (inheritedDecls (.node (.element 0) []) []) :=
  ⟨⟨by decide, rfl, rfl, rfl, rfl, by decide⟩, by
    intro x hx
    simp only [inheritedDecls, List.isEmpty_nil, if_true, basePrefixes, List.mem_singleton] at hx
    subst hx
    exact ⟨by decide, fun _ => rfl⟩⟩

/-- Non-vacuity, closed, OUTSIDE `Representable`: `<a><b c="x"/><?t?></a>` with `a` in namespace `u`, the
    attribute `c` in namespace `v`, an EMPTY text node next to a text node holding U+0001 inside `b`, nothing
    declared.  Not representable, not writable; after the call `to_string` succeeds and the names are written
    `n0:a`, `n1:c` under the new declarations (U+0001 is written as it is: the text is no XML). -/
example :
    let env : Env := ⟨[[], Gen.xmlNs, ['u'], ['v']], [[], ['x','m','l']],
      [(['a'], 2), (['b'], 0), (['c'], 3), (['t'], 0)]⟩
    let t : Tree := .node (.element 0) [.node (.element 1) [.node (.attribute 2 ['x']) [],
      .node (.text []) [], .node (.text [Char.ofNat 1]) []], .node (.pi 3 none) []]
    RepresentableFragment env (.node .document [t]) = false ∧ namesWritable env t [] = some false ∧
    (match createMissingPrefixes env t [] with
      | .ok (env', t') => some (namesWritable env' t' [], toXmlString env' t' [])
      | _ => none) =
    some (some true, .ok ("<n0:a xmlns:n0=\"u\" xmlns:n1=\"v\"><b n1:c=\"x\">".toList ++ [Char.ofNat 1]
      ++ "</b><?t?></n0:a>".toList)) := by
  decide

/-- … and the one error that remains: a processing instruction whose target is in a namespace. -/
example :
    let env : Env := ⟨[[], Gen.xmlNs, ['u']], [[], ['x','m','l']], [(['a'], 2), (['t'], 2)]⟩
    let t : Tree := .node (.element 0) [.node (.pi 1 none) []]
    (match createMissingPrefixes env t [] with
      | .ok (env', t') => some (namesWritable env' t' [], toXmlString env' t' [])
      | _ => none) = some (some true, .err .namespaceInProcessingInstruction) := by
  decide

end DocumentKeepsAndEveryTree

/-! ## An INNER element over histories that parse: parse ∘ API edits ∘ `create_missing_prefixes(element)` ∘
       `to_string(element)` ∘ parse

`C10_repair_roundtrip_inner` (section RepairRoundTrip) is about the tree-level model on a tree in the C01 domain;
`C10_reachable_repair_roundtrip_full` is the call on the DOCUMENT node of a reachable tree.  The twin for the call
on an ELEMENT anywhere inside a reachable document: `C10_forest_repair_refines_tree` (element branch of the
refinement, Props/C04.lean) ∘ `C10_repair_roundtrip_inner` ∘ `C01_reachable_representable_full` ∘ `C04_reach_full`. -/

section InnerFull
open XotModel.Repair

/-- ⟦C10_repair_roundtrip_inner_full⟧ **`create_missing_prefixes(element)` as a step of a history that parses
    and edits, then `to_string(element)`, then `parse`.**  `S` is the store after any FULL history `cs` from
    `Xot::new()` with the tables `env` (`PCall`: `parse` / `parse_fragment` of ARBITRARY texts, accepted or
    rejected, and well-kinded extended API calls in any order; consolidation never switched off), `r` any
    parentless tree of it whose root is a document node, with VALUES in the XML domain for the tables of the
    store (`envOK`, `valueOK` everywhere, distinct `xml:id`s; fragments allowed: NO condition on the number of
    top-level elements; the names need NOT be writable), `nameTableOK`; `node` ANY live ELEMENT of `r`; `S'` the
    store after the history extended by the step `create_missing_prefixes(node)`.  Then the step answers `Ok`,
    `S'` has the invariant, the xml:id index is untouched; the tree `r'` that `r` has become (in `r`'s place,
    `node` at the same path, every old handle kept in document order, new namespace nodes on fresh handles) is
    the tree model's answer on the erased tree, is in the C01 domain for the tables of `S'`, every name below
    `node` is writable, and `to_string(node)` — which writes the declarations in scope at `node` before its own —
    succeeds and parses back, tables of `S'` unchanged, to the STANDALONE document of the repaired element,
    whose document element is `deep_equal` to the repaired element and to the element BEFORE the call (from
    which it differs in namespace nodes only). -/
theorem C10_repair_roundtrip_inner_full (env : Env) (cs : List PCall) (hw : ∀ c ∈ cs, c.wellKinded)
    (S : PStore) (hS : S = (PStore.init env).run cs) (hoff : S.forest.everOff = false)
    (r : HTree) (hr : r ∈ S.forest.roots) (hdoc : r.value.isDocument = true) (henv : envOK S.env = true)
    (hval : r.erase.allNodes (fun v _ => valueOK S.env v) = true)
    (hid : (xmlIdValues S.env r.erase).Nodup) (htab : nameTableOK S.env = true)
    (node : Nat) (hn : node ∈ r.handles) (hel : S.forest.isElement node = true)
    (S' : PStore) (hS' : S' = (PStore.init env).run (cs ++ [.api (.createMissingPrefixes node)])) :
    ((PCall.api (.createMissingPrefixes node)).run S).2 = .api .ok ∧ S'.forest.Inv ∧ S'.index = S.index ∧
    ∃ (r' : HTree) (path : Path) (name : Nat) (ks ks' : List Tree),
      r.pathOf node = some path ∧ r'.pathOf node = some path ∧
      S'.forest.roots = S.forest.roots.map (fun y => if (y.pathOf node).isSome then r' else y) ∧
      S'.forest.rootOf? node = some r' ∧
      r'.handles.filter (· < S.forest.next) = r.handles ∧
      createMissingPrefixes S.env r.erase path = .ok (S'.env, r'.erase) ∧
      r.erase.at? path = some (.node (.element name) ks) ∧
      r'.erase.at? path = some (.node (.element name) ks') ∧
      Repair.stripNs (.node (.element name) ks') = Repair.stripNs (.node (.element name) ks) ∧
      RepresentableFragment S'.env r'.erase = true ∧ namesWritable S'.env r'.erase path = some true ∧
      ∃ s p X, toXmlString S'.env r'.erase path = .ok s ∧
        standalone r'.erase path = some (.node .document [.node (.element name) (nsLeaves X ++ ks')]) ∧
        parseString .document S'.env s = .ok p ∧
        p.tree = .node .document [.node (.element name) (nsLeaves X ++ ks')] ∧ p.env = S'.env ∧
        deepEqual (.node (.element name) (nsLeaves X ++ ks')) (.node (.element name) ks') = true ∧
        deepEqual (.node (.element name) (nsLeaves X ++ ks')) (.node (.element name) ks) = true := by
  have hi' : S'.forest.Inv := by
    rw [hS']
    refine (C04_reach_full env _ (fun c hc => ?_)).1
    rcases List.mem_append.mp hc with hc | hc
    · exact hw c hc
    · rw [List.mem_singleton.mp hc]; trivial
  have hstep : S' = ⟨(S.forest.createMissingPrefixes S.env node).1,
      (S.forest.createMissingPrefixes S.env node).2.1, S.index⟩ := by
    rw [hS', hS]; simp [PStore.run, List.foldl_append, PStore.step, PCall.run, Forest.XCall.run, PStore.store]
  subst hS
  have hi := (C04_reach_full env cs hw).1
  have hfrag : RepresentableFragment ((PStore.init env).run cs).env r.erase = true := by
    rw [(C01_reachable_representable_full env cs hw hoff r hr _).1]
    simp [henv, hdoc, hval, hid]
  have h1 := Forest.fpxr_rootOf_of_mem hi.nodup hr hn
  obtain ⟨path, h2⟩ := Forest.fpxd_rootOf_path h1
  obtain ⟨D, _, hg, _, _, hDe⟩ := Forest.fpxr_locate hi h1 h2
  have hDel : D.erase.value.isElement = true := by
    simp only [Forest.isElement, Forest.value?, hg, Option.map_some, beq_iff_eq, Option.some.injEq] at hel
    cases D with | node h v ks => exact hel
  obtain ⟨name, ks, hDk⟩ := isElement_node hDel
  rw [hDk] at hDe
  obtain ⟨r', a1, a2, a3, a4, a5, a6, _, _⟩ := C10_forest_repair_refines_tree _ hi
    ((PStore.init env).run cs).env node hel r h1 path h2
  obtain ⟨b1, b2, ks', s, p, X, c1, c2, c3, c4, c5, c6, c7, c8, c9⟩ :=
    C10_repair_roundtrip_inner _ r.erase hfrag htab path name ks hDe _ _ a2
  subst hstep
  refine ⟨?_, hi', rfl, r', path, name, ks, ks', h2, a4, a5, a3, a6, a2, hDe, c1, c2, b1, b2,
    s, p, X, c3, c4, c5, c6, c7, c8, c9⟩
  simp only [PCall.run, Forest.XCall.run, PStore.store]
  rw [a1]

/-! Non-vacuity, closed: the history `c10FullCalls` of section EndToEndFull (PARSE `<r xmlns:p="urn:a"><p:a>t</p:a></r>`,
    remove the declaration of `p`, create the element `{urn:a}a` (handle 5), append it to `r`, give it the
    attribute `p:a="v"`, a REJECTED parse).  The INNER element 5 sits at path `[0, 1]`; its names are not writable.
    The step `create_missing_prefixes(5)` registers `n0` and declares it on the element (new handle 7, before the
    attribute 6); `to_string(5)` is `<n0:a xmlns:n0="urn:a" n0:a="v"/>`, which parses to the standalone document. -/

example :
    let S := (PStore.init Env.fresh).run c10FullCalls
    (∀ c ∈ c10FullCalls, c.wellKinded) ∧ S.forest.everOff = false ∧ S.forest.roots = [c10FullRoot] ∧
    c10FullRoot.value.isDocument = true ∧ envOK S.env = true ∧
    c10FullRoot.erase.allNodes (fun v _ => valueOK S.env v) = true ∧
    (xmlIdValues S.env c10FullRoot.erase).Nodup ∧ nameTableOK S.env = true ∧
    5 ∈ c10FullRoot.handles ∧ S.forest.isElement 5 = true ∧ c10FullRoot.pathOf 5 = some [0, 1] ∧
    namesWritable S.env c10FullRoot.erase [0, 1] = some false := by decide +kernel

example :
    let S' := (PStore.init Env.fresh).run (c10FullCalls ++ [.api (.createMissingPrefixes 5)])
    S'.env.prefixes = [[], ['x','m','l'], ['p'], ['n','0']] ∧
    S'.forest.roots.map (·.handles) = [[0, 1, 3, 4, 5, 7, 6]] ∧
    S'.forest.roots.map (fun r' => toXmlString S'.env r'.erase [0, 1]) =
      [.ok "<n0:a xmlns:n0=\"urn:a\" n0:a=\"v\"/>".toList] ∧
    S'.forest.roots.map (fun r' => standalone r'.erase [0, 1]) =
      [some (.node .document [.node (.element 3) [.node (.namespace 3 2) [], .node (.attribute 3 ['v']) []]])] := by
  decide +kernel

example : ∃ r' ks' s p X,
    let S' := (PStore.init Env.fresh).run (c10FullCalls ++ [.api (.createMissingPrefixes 5)])
    S'.forest.rootOf? 5 = some r' ∧ r'.erase.at? [0, 1] = some (.node (.element 3) ks') ∧
      toXmlString S'.env r'.erase [0, 1] = .ok s ∧ parseString .document S'.env s = .ok p ∧
      p.tree = .node .document [.node (.element 3) (nsLeaves X ++ ks')] ∧ p.env = S'.env ∧
      deepEqual (.node (.element 3) (nsLeaves X ++ ks')) (.node (.element 3) [.node (.attribute 3 ['v']) []]) = true := by
  obtain ⟨_, _, _, r', path, name, ks, ks', h1, _, _, h4, _, _, h7, h8, _, _, _, s, p, X, k1, _, k3, k4, k5, _, k7⟩ :=
    C10_repair_roundtrip_inner_full Env.fresh c10FullCalls (by decide) _ rfl (by decide +kernel)
      c10FullRoot (by decide +kernel) rfl (by decide +kernel) (by decide +kernel) (by decide +kernel)
      (by decide +kernel) 5 (by decide) (by decide +kernel) _ rfl
  have hp : c10FullRoot.pathOf 5 = some [0, 1] := by decide
  rw [hp, Option.some.injEq] at h1
  subst h1
  have he : c10FullRoot.erase.at? [0, 1] = some (.node (.element 3) [.node (.attribute 3 ['v']) []]) := by decide
  rw [he, Option.some.injEq] at h7
  injection h7 with hv hk
  injection hv with hname
  subst hname hk
  exact ⟨r', ks', s, p, X, h4, h8, k1, k3, k4, k5, k7⟩

end InnerFull

section InvRepair
open XotModel.Repair

/-- ⟦C10_inv_repair_roundtrip⟧ **`C10_reachable_repair_roundtrip` from the invariant alone**: for ANY forest with the
    invariant (however it was reached), consolidation never switched off, any tables `E` and any document root
    `r` in the value-level domain with `nameTableOK E`: `create_missing_prefixes(r)` answers Ok, replaces exactly
    the tree of `r` by `r'` (old handles kept, in order), erases to the tree-level repair, and the repaired
    document is in the domain, writable, and round-trips to a tree `deep_equal` to the one before the call that
    differs from it in namespace nodes only. -/
theorem C10_inv_repair_roundtrip (f : Forest) (E : Env) (hi : f.Inv) (hoff : f.everOff = false)
    (r : HTree) (hr : r ∈ f.roots) (hdoc : r.value.isDocument = true) (henv : envOK E = true)
    (hval : r.erase.allNodes (fun v _ => valueOK E v) = true)
    (hid : (xmlIdValues E r.erase).Nodup) (hone : singleRoot r.erase = true)
    (htab : nameTableOK E = true) :
    ((Forest.XCall.createMissingPrefixes r.handle).run ⟨f, E⟩).2 = .ok ∧
    ∃ r' : HTree, r'.handle = r.handle ∧
      (f.createMissingPrefixes E r.handle).1.roots =
        f.roots.map (fun y => if (y.pathOf r.handle).isSome then r' else y) ∧
      (f.createMissingPrefixes E r.handle).1.rootOf? r.handle = some r' ∧
      r'.handles.filter (· < f.next) = r.handles ∧
      createMissingPrefixes E r.erase [] = .ok ((f.createMissingPrefixes E r.handle).2.1, r'.erase) ∧
      Representable (f.createMissingPrefixes E r.handle).2.1 r'.erase = true ∧
      namesWritable (f.createMissingPrefixes E r.handle).2.1 r'.erase [] = some true ∧
      ∃ s p, toXmlString (f.createMissingPrefixes E r.handle).2.1 r'.erase [] = .ok s ∧
        parseString .document (f.createMissingPrefixes E r.handle).2.1 s = .ok p ∧
        p.tree = r'.erase ∧ p.env = (f.createMissingPrefixes E r.handle).2.1 ∧ deepEqual p.tree r.erase = true ∧
        Repair.stripNs p.tree = Repair.stripNs r.erase := by
  have hrep : Representable E r.erase = true := by
    rw [(Reach.representable_root hi hoff hr E).2]
    simp [henv, hdoc, hval, hid, hone]
  obtain ⟨h1, h2, hg, hd, _⟩ := Reach.root_located hi hr
  obtain ⟨k, hk, hke⟩ := Reach.element_kid_of_singleRoot hone
  obtain ⟨r', a1, a2, a3, a4, a5, a6, _, _⟩ := C10_forest_repair_refines_tree_document f hi
    E r.handle (by rw [hd]; exact hdoc) ⟨r, k, hg, hk, hke⟩ r h1 [] h2
  obtain ⟨hwr, s, p, k1, k2, k3, k4, _, k6, k7⟩ := C10_repair_roundtrip _ r.erase hrep htab _ _ a2
  have hrep' := (C10_repair_representable _ r.erase hrep htab _ _ a2).1
  exact ⟨a1, r', Reach.handle_of_pathOf_nil a4, a5, a3, a6, a2, hrep', hwr, s, p, k1, k2, k3, k4, k6, k7⟩

/-- ⟦C10_reachable_creation_repair_roundtrip⟧ … in particular for the documents built by histories mixing the calls
    of `Op` with the convenience calls (`creationRun`, `C04_reach_creation`): no side condition on the history. -/
theorem C10_reachable_creation_repair_roundtrip (ops : List (Op ⊕ Forest.COp)) (E : Env)
    (hoff : (creationRun ops).everOff = false)
    (r : HTree) (hr : r ∈ (creationRun ops).roots) (hdoc : r.value.isDocument = true) (henv : envOK E = true)
    (hval : r.erase.allNodes (fun v _ => valueOK E v) = true)
    (hid : (xmlIdValues E r.erase).Nodup) (hone : singleRoot r.erase = true)
    (htab : nameTableOK E = true) :
    ∃ r' : HTree, r'.handle = r.handle ∧
      createMissingPrefixes E r.erase [] = .ok (((creationRun ops).createMissingPrefixes E r.handle).2.1, r'.erase) ∧
      ((creationRun ops).createMissingPrefixes E r.handle).1.rootOf? r.handle = some r' ∧
      ∃ s p, toXmlString ((creationRun ops).createMissingPrefixes E r.handle).2.1 r'.erase [] = .ok s ∧
        parseString .document ((creationRun ops).createMissingPrefixes E r.handle).2.1 s = .ok p ∧
        p.tree = r'.erase ∧ deepEqual p.tree r.erase = true ∧ Repair.stripNs p.tree = Repair.stripNs r.erase := by
  obtain ⟨_, r', b1, _, b3, _, b5, _, _, s, p, c1, c2, c3, _, c5, c6⟩ :=
    C10_inv_repair_roundtrip (creationRun ops) E (C04_reach_creation ops) hoff r hr hdoc henv hval hid hone htab
  exact ⟨r', b1, b5, b3, s, p, c1, c2, c3, c5, c6⟩
end InvRepair

end XotModel.Props
