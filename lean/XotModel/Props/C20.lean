/-
  C20 — The same document built three ways is the same tree.  Property theorems only.

  Abstract documents (`FDocument`, Model/Fixed.lean) mirror `fixed::Document`; names, prefixes and
  namespaces are the interning ids (`add_name_ns` / `add_prefix` / `add_namespace` are the identity
  on ids; that interning is a stable bijection is C08).  `treeOf d` is the tree `d` denotes: a
  document node whose children are the `before` items, the document element, the `after` items, in
  that order; an element's children are its namespace nodes, its attribute nodes, its content.

  Hypothesis on the document, `d.wf strict` with `strict` = the store's text-consolidation flag:
  * per element, pairwise distinct prefixes and pairwise distinct attribute names — the node-map
    `insert` of a key that is already present updates the existing node instead of adding one, so
    a repeated key would give fewer nodes than `treeOf d` has;
  * when consolidation is on, no two adjacent text children — `append` / `prepend` /
    `insert_before` merge a text node into an adjacent text node, so `treeOf d` (which does not
    merge) would differ.  With consolidation off nothing is required of text.
  Empty text items are NOT excluded: every API route creates and keeps an empty text node.  They
  only matter for the parse route (an empty text node serialises to nothing), which is checked on
  the implementation by the `ffixed` suite, not proved here (`FContent.noEmptyText`).

  Hypothesis on the store: ANY forest whose handles are pairwise distinct and below `next`
  (`Good f`; implied by the C04 invariant `Forest.Inv`, `C20_good_of_inv`) — not only the empty
  one.  Every route adds exactly one new root and leaves every other tree, the flags and all
  existing handles alone, and never panics (`RouteOk`).

  From a store satisfying `Forest.Inv` every route ends in a store satisfying `Forest.Inv`
  (`C20_inv_preserved`: the new tree is structurally valid in the sense of C04).

  Not proved here: the parse route (serialise, then parse: C01 / C02 with the tokenizer contract;
  checked on the implementation by the `ffixed` suite).

  ANY construction order (second half of the file): `Model/FanyorderSpec.lean` defines construction
  programs (steps `create`, `append`, `prepend`, `insertAfter`, `insertBefore`, `anyAppend`,
  `setAttribute`, `setNamespace`; nodes named by the index of the `create` step that made them)
  with two interpreters, `Prog.runImpl` (the forest model's functions) and `Prog.runSpec` (the
  ordered-tree specification of C05: cut, graft, merge adjacent text; entries replaced in place or
  added at the end of their block).
-/
import XotModel.Lemmas.FfixedValid
import XotModel.Lemmas.FanyorderRun

namespace XotModel.Props
open XotModel

/-- Well-formedness of an abstract document relative to a store (see the header). -/
def FWellFormed (f : Forest) (d : FDocument) : Prop := d.wf f.consolidation = true

/-- What every construction route delivers: it does not panic; the store afterwards is the store
    before plus ONE new root `t` (flags and all other trees unchanged, `next` advanced by the
    number of nodes); the returned handle is `t`'s; `t` erases to `treeOf d`; looking the handle up
    gives that tree; handles stay pairwise distinct and below `next`. -/
def RouteOk (route : Forest → FDocument → Option (Forest × Nat)) (f : Forest) (d : FDocument) : Prop :=
  ∃ t : HTree,
    route f d = some ({ f with roots := f.roots ++ [t], next := f.next + d.size }, t.handle) ∧
    t.erase = treeOf d ∧
    ({ f with roots := f.roots ++ [t], next := f.next + d.size } : Forest).treeAt t.handle = some (treeOf d) ∧
    Good { f with roots := f.roots ++ [t], next := f.next + d.size }

/-- The C04 invariant gives what the construction routes need (`Good`: handles pairwise distinct
    and below `next`). -/
theorem C20_good_of_inv (f : Forest) (h : f.Inv) : Good f :=
  Good.of_nodup_below h.nodup h.below

/-- `fixed::Element::xotify` (and `Content::xotify`) from any store with distinct handles: no
    panic, one new root whose handle is returned, that root erases to the element's tree, the
    rest is untouched. -/
theorem C20_fixed_element (f : Forest) (e : FElement) (hg : Good f)
    (hwf : e.toContent.wf f.consolidation = true) :
    ∃ t : HTree,
      f.xotifyElement e =
        some ({ f with roots := f.roots ++ [t], next := f.next + e.toContent.size }, t.handle) ∧
      t.erase = treeOfContent e.toContent ∧
      ({ f with roots := f.roots ++ [t], next := f.next + e.toContent.size } : Forest).treeAt t.handle
        = some (treeOfContent e.toContent) ∧
      Good { f with roots := f.roots ++ [t], next := f.next + e.toContent.size } := by
  obtain ⟨t, hb, hx⟩ := Forest.xotifyContent_spec e.toContent f hg hwf
  have hg' := Forest.good_add_root hg hb
  refine ⟨t, ?_, hb.erase, ?_, hg'⟩
  · unfold Forest.xotifyElement; rw [hx, hb.handle]
  · rw [Forest.treeAt_new_root f t _ hg', hb.erase]

theorem C20_routeOk_of_spec {route : Forest → FDocument → Option (Forest × Nat)} {f : Forest} {d : FDocument}
    (h : ∃ t, route f d = some ({ f with roots := f.roots ++ [t], next := f.next + d.size }, t.handle) ∧
        t.erase = treeOf d ∧ Good { f with roots := f.roots ++ [t], next := f.next + d.size }) :
    RouteOk route f d := by
  obtain ⟨t, hx, he, hg'⟩ := h
  exact ⟨t, hx, he, by rw [Forest.treeAt_new_root f t _ hg', he], hg'⟩

/-- `fixed::Document::xotify`: the result is one new document root that erases to `treeOf d` — the
    `before` and `after` items are siblings of the document element, before and after it, in the
    given order. -/
theorem C20_fixed (f : Forest) (d : FDocument) (hg : Good f) (hwf : FWellFormed f d) :
    RouteOk Forest.xotifyDocument f d :=
  C20_routeOk_of_spec (Forest.xotifyDocument_spec f d hg hwf)

/-- Top-down: create a node, append it to its already attached parent, descend; left to right. -/
theorem C20_topdown (f : Forest) (d : FDocument) (hg : Good f) (hwf : FWellFormed f d) :
    RouteOk Forest.topDownDocument f d :=
  C20_routeOk_of_spec (Forest.topDownDocument_spec f d hg hwf)

/-- Bottom-up: children first (each finished), then the parent, then `append` in order. -/
theorem C20_bottomup (f : Forest) (d : FDocument) (hg : Good f) (hwf : FWellFormed f d) :
    RouteOk Forest.bottomUpDocument f d :=
  C20_routeOk_of_spec (Forest.bottomUpDocument_spec f d hg hwf)

/-- Right-to-left: the last child is attached with `prepend`, every earlier one with
    `insert_before` the sibling attached just before. -/
theorem C20_rtl (f : Forest) (d : FDocument) (hg : Good f) (hwf : FWellFormed f d) :
    RouteOk Forest.rtlDocument f d :=
  C20_routeOk_of_spec (Forest.rtlDocument_spec f d hg hwf)

/-- All four routes succeed and give the same tree (namely `treeOf d`), whatever else the store
    holds. -/
theorem C20_routes_agree (f : Forest) (d : FDocument) (hg : Good f) (hwf : FWellFormed f d) :
    ∃ fa ra ft rt fb rb fr rr,
      f.xotifyDocument d = some (fa, ra) ∧ f.topDownDocument d = some (ft, rt) ∧
      f.bottomUpDocument d = some (fb, rb) ∧ f.rtlDocument d = some (fr, rr) ∧
      fa.treeAt ra = some (treeOf d) ∧ ft.treeAt rt = fa.treeAt ra ∧
      fb.treeAt rb = fa.treeAt ra ∧ fr.treeAt rr = fa.treeAt ra := by
  obtain ⟨ta, ha, _, hta, _⟩ := C20_fixed f d hg hwf
  obtain ⟨tt, ht, _, htt, _⟩ := C20_topdown f d hg hwf
  obtain ⟨tb, hb, _, htb, _⟩ := C20_bottomup f d hg hwf
  obtain ⟨tr, hr, _, htr, _⟩ := C20_rtl f d hg hwf
  exact ⟨_, _, _, _, _, _, _, _, ha, ht, hb, hr, hta, by rw [htt, hta], by rw [htb, hta], by rw [htr, hta]⟩

/-- The routes can be run one after another in the same store (as the `ffixed` suite does): each
    leaves a store the next one accepts, with the same consolidation flag. -/
theorem C20_routes_compose (route : Forest → FDocument → Option (Forest × Nat)) (f : Forest)
    (d : FDocument) (h : RouteOk route f d) :
    ∃ f' root, route f d = some (f', root) ∧ Good f' ∧ f'.consolidation = f.consolidation ∧
      (∀ r ∈ f.roots, r ∈ f'.roots) := by
  obtain ⟨t, hx, _, _, hg'⟩ := h
  exact ⟨_, _, hx, hg', rfl, fun r hr => List.mem_append_left _ hr⟩

/-- From the C04 invariant to the C04 invariant: the tree a route adds is structurally valid
    (children ordered namespaces / attributes / normal, unique keys, no adjacent text while
    consolidation has never been off, leaves are leaves), its handles are fresh. -/
theorem C20_inv_preserved (route : Forest → FDocument → Option (Forest × Nat)) (f : Forest)
    (d : FDocument) (hinv : f.Inv) (hwf : FWellFormed f d) (h : RouteOk route f d) :
    ∃ f' root, route f d = some (f', root) ∧ f'.Inv ∧ f'.treeAt root = some (treeOf d) := by
  obtain ⟨t, hx, he, ht, hg'⟩ := h
  exact ⟨_, _, hx, Forest.inv_add_root f hinv d t _ he hwf hg', ht⟩

/-- The statement in the form of the property text, from the empty store. -/
theorem C20_fixed_init (d : FDocument) (hwf : d.wf true = true) (f : Forest) (root : Nat)
    (h : Forest.init.xotifyDocument d = some (f, root)) : f.treeAt root = some (treeOf d) := by
  have hinv : Forest.init.Inv := (Forest.inv_iff _).1 (by decide)
  obtain ⟨t, hx, _, ht, _⟩ := C20_fixed Forest.init d (C20_good_of_inv _ hinv) hwf
  rw [hx] at h
  cases h
  exact ht

/-- Non-vacuity: a well-formed document with leading and trailing items, namespaces, attributes,
    nested content; and a store that satisfies the invariant and is not empty. -/
example :
    ({ roots := [.node 0 (.element 2) [.node 1 (.text ['t']) []], .node 2 (.comment []) []], next := 3 } : Forest).inv = true ∧
    ({ before := [.comment ['a'], .pi 17 none], documentElement := { name := 2, prefixes := [(2, 3), (0, 2)], attributes := [(3, ['v']), (4, [])], children := [.text ['x'], .element 3 [(2, 2)] [(3, ['w'])] [.comment [], .text ['y']], .text ['z']] }, after := [.pi 17 (some ['q']), .comment ['b']] } : FDocument).wf true = true := by
  decide

/-! ## Every construction order

  `Prog.State` = store + the nodes created so far.  `Prog.FlagsOk f`: text consolidation has never
  been switched off, or it is off (in both cases the store holds no adjacent text nodes while
  consolidation is on, which is the scope of the C05 theorems).  `Prog.InvAlong s P`: the C04
  invariant holds in every state the implementation passes through while running `P` from `s`.
  `Prog.inScope s P`: no step is an `any_append` of an attribute / namespace node that is still
  attached to an element (the specification only attaches parentless entry nodes).

  On the hypothesis `InvAlong`.  It is the conclusion of C04 (`C04_step_all`: every call of the
  forest model preserves `Forest.Inv`), so it holds of every run from a store satisfying
  `Forest.Inv`.  It is a hypothesis here, and the theorems carry `_partial`, for a reason of
  proof engineering only: the helper-lemma families of C04 / C06 (`Lemmas/Finv*`, `Fatom*`) and of
  C05 (`Lemmas/Fspec*`) define some twenty lemmas under the same names (`handles_node`,
  `mapAt_of_not_mem`, `validList_cons`, …) and cannot be imported into one file.  For the same
  reason "a step the specification accepts is answered `ok`" (C06: after the argument checks
  nothing can go wrong) is not available here; the refusal side is stated as far as C05 gives it. -/

open XotModel.Prog

/-- **Refinement.**  A program every step of which the implementation answers `ok` is well-formed
    for the ordered-tree specification, and the specification's final state IS the
    implementation's: same trees, same node names (handles), same created nodes. -/
theorem C20_any_order_partial (s : State) (P : Program) (hinv : InvAlong s P) (hfl : FlagsOk s.forest)
    (hsc : inScope s P = true) (hok : (runImpl s P).2 = .ok) :
    runSpec s P = some (runImpl s P).1 :=
  run_refine P s hinv hfl hsc hok

/-- … in particular the content (names forgotten): node kinds and order, element names, attributes
    and namespace declarations in order, merged text. -/
theorem C20_any_order_content_partial (f : Forest) (P : Program) (hinv : InvAlong { forest := f } P)
    (hfl : FlagsOk f) (hsc : inScope { forest := f } P = true) (hok : (runImplF f P).2 = .ok) :
    (runSpecF f P).map Forest.content = some (runImplF f P).1.content := by
  unfold runSpecF runImplF at *
  rw [run_refine P _ hinv hfl hsc hok]
  rfl

/-- **Any two orders.**  Two programs that the specification takes to stores with the same content
    are taken to stores with the same content by the implementation — whatever the order of their
    steps, however the text was cut into pieces, whenever the attributes were set. -/
theorem C20_orders_agree_partial (f : Forest) (P1 P2 : Program) (hfl : FlagsOk f)
    (hinv1 : InvAlong { forest := f } P1) (hinv2 : InvAlong { forest := f } P2)
    (hsc1 : inScope { forest := f } P1 = true) (hsc2 : inScope { forest := f } P2 = true)
    (hok1 : (runImplF f P1).2 = .ok) (hok2 : (runImplF f P2).2 = .ok)
    (hspec : (runSpecF f P1).map Forest.content = (runSpecF f P2).map Forest.content) :
    (runImplF f P1).1.content = (runImplF f P2).1.content := by
  rw [C20_any_order_content_partial f P1 hinv1 hfl hsc1 hok1,
    C20_any_order_content_partial f P2 hinv2 hfl hsc2 hok2] at hspec
  exact Option.some.inj hspec

/-- The same for the subtrees of two designated nodes (e.g. the two document nodes): equal in the
    specification's final states ⇒ equal in the implementation's.  Equal erased trees are
    `deep_equal`, carry the same declarations, and serialise identically, because comparison and
    serialisation are functions of the erased tree (`HTree.erase`; C13, C16). -/
theorem C20_orders_agree_at_partial (f : Forest) (P1 P2 : Program) (r1 r2 : Nat) (hfl : FlagsOk f)
    (hinv1 : InvAlong { forest := f } P1) (hinv2 : InvAlong { forest := f } P2)
    (hsc1 : inScope { forest := f } P1 = true) (hsc2 : inScope { forest := f } P2 = true)
    (hok1 : (runImpl { forest := f } P1).2 = .ok) (hok2 : (runImpl { forest := f } P2).2 = .ok)
    (s1 s2 : State) (h1 : runSpec { forest := f } P1 = some s1) (h2 : runSpec { forest := f } P2 = some s2)
    (a b : Nat) (ha : s1.env[r1]? = some a) (hb : s2.env[r2]? = some b)
    (heq : s1.forest.treeAt a = s2.forest.treeAt b) :
    (runImpl { forest := f } P1).1.env[r1]? = some a ∧ (runImpl { forest := f } P2).1.env[r2]? = some b ∧
      (runImpl { forest := f } P1).1.forest.treeAt a = (runImpl { forest := f } P2).1.forest.treeAt b := by
  have e1 := run_refine P1 _ hinv1 hfl hsc1 hok1
  have e2 := run_refine P2 _ hinv2 hfl hsc2 hok2
  rw [h1] at e1
  rw [h2] at e2
  rw [← Option.some.inj e1, ← Option.some.inj e2]
  exact ⟨ha, hb, heq⟩

/-- **Closed form.**  `Prog.Constructs f P root d`: the specification accepts `P` and, at the end, the
    node created by the `root`-th `create` step carries `treeOf d` (said without reference to the
    implementation).  Then on the implementation that node carries `treeOf d` too: every
    construction of `d`, in any order, with the text supplied in any split into pieces, yields
    `treeOf d`.  (`C20_topdown` / `C20_bottomup` / `C20_rtl` are three particular orders.) -/
theorem C20_every_construction_partial (f : Forest) (P : Program) (root : Nat) (d : FDocument)
    (hc : Constructs f P root d) (hfl : FlagsOk f) (hinv : InvAlong { forest := f } P)
    (hsc : inScope { forest := f } P = true) (hok : (runImpl { forest := f } P).2 = .ok) :
    ∃ h, (runImpl { forest := f } P).1.env[root]? = some h ∧
      (runImpl { forest := f } P).1.forest.treeAt h = some (treeOf d) := by
  obtain ⟨s', hs, h, he, ht⟩ := hc
  have e := run_refine P _ hinv hfl hsc hok
  rw [hs] at e
  rw [← Option.some.inj e]
  exact ⟨h, he, ht⟩

/-- … and when the specification's final store is the store before plus exactly `treeOf d`
    (nothing left over), so is the implementation's. -/
theorem C20_every_clean_construction_partial (f : Forest) (P : Program) (d : FDocument)
    (hc : ConstructsClean f P d) (hfl : FlagsOk f) (hinv : InvAlong { forest := f } P)
    (hsc : inScope { forest := f } P = true) (hok : (runImplF f P).2 = .ok) :
    (runImplF f P).1.content = f.content ++ [treeOf d] := by
  obtain ⟨s', hs, hcont⟩ := hc
  have := C20_any_order_content_partial f P hinv hfl hsc hok
  unfold runSpecF at this
  rw [hs] at this
  rw [← Option.some.inj this]
  exact hcont

/-! ### The refusal side -/

/-- The specification's well-formedness test of a move IS xot's argument check
    (`add_structure_check`, for `insert_*` also `sibling_reference_check`), as a Boolean. -/
theorem C20_moveOk_is_the_check (f : Forest) (d : Dest) (n : Nat) :
    moveOk d n f = implCheck f d n := moveOk_eq f d n

/-- A move the specification calls ill-formed is refused by the implementation with
    `InvalidOperation` and an unchanged store; a move answered `ok` is well-formed. -/
theorem C20_illformed_move_refused (f : Forest) (d : Dest) (n : Nat) (h : moveOk d n f = false) :
    moveImpl f d n = (f, .err .invalidOperation) :=
  moveImpl_refused (by rw [← moveOk_eq]; exact h)

theorem C20_ok_move_wellformed (f : Forest) (d : Dest) (n : Nat) (h : (moveImpl f d n).2 = .ok) :
    moveOk d n f = true := by
  rw [moveOk_eq]; exact implCheck_of_ok h

/-- A program the specification rejects is not carried out by the implementation: some step is not
    answered `ok`. -/
theorem C20_illformed_program_refused_partial (s : State) (P : Program) (hinv : InvAlong s P)
    (hfl : FlagsOk s.forest) (hsc : inScope s P = true) (h : runSpec s P = none) :
    (runImpl s P).2 ≠ .ok := by
  intro hok
  rw [run_refine P s hinv hfl hsc hok] at h
  cases h

/-! ### Non-vacuity: `<a c="v">x<b/>yz</a>` by two different programs

  `progA`: top-down, left to right, the attribute set first, `yz` delivered as `y` then `z`.
  `progB`: the pieces first (`z` before `y`), the element `a` created third, `y` inserted between
  `<b/>` and `z` (it merges into `z`: the LATER node survives), `x` prepended last, the attribute
  attached as a node at the very end. -/

def progA : Program :=
  [.create (.element 2), .setAttribute 0 4 ['v'], .create (.text ['x']), .append 0 1,
   .create (.element 3), .append 0 2, .create (.text ['y']), .append 0 3, .create (.text ['z']), .append 0 4]

def progB : Program :=
  [.create (.text ['z']), .create (.element 3), .create (.element 2), .append 2 1,
   .create (.text ['y']), .append 2 0, .insertAfter 1 3, .create (.text ['x']), .prepend 2 4,
   .create (.attribute 4 ['v']), .anyAppend 2 5]

/-- Decidable form of `InvAlong`, for closed examples. -/
def invAlongB (s : State) : Program → Bool
  | [] => s.forest.inv
  | st :: rest =>
    s.forest.inv &&
      (match stepImpl s st with
       | (s', .ok) => invAlongB s' rest
       | _ => true)

theorem invAlong_of_bool : ∀ (P : Program) (s : State), invAlongB s P = true → InvAlong s P
  | [], s, h => (Forest.inv_iff _).1 h
  | st :: rest, s, h => by
    simp only [invAlongB, Bool.and_eq_true] at h
    refine ⟨(Forest.inv_iff _).1 h.1, ?_⟩
    cases hst : stepImpl s st with
    | mk s' r =>
      have h2 := h.2
      rw [hst] at h2
      cases r with
      | ok => exact invAlong_of_bool rest s' h2
      | err e => trivial
      | panic => trivial

/-- The hypotheses of the theorems above hold for both programs from the empty store; both are
    accepted by the specification, end in different states (other names survive) with the same
    content `<a c="v">x<b/>yz</a>`; and the implementation does what the theorems say. -/
example :
    invAlongB { forest := Forest.init } progA = true ∧ invAlongB { forest := Forest.init } progB = true ∧
    inScope { forest := Forest.init } progA = true ∧ inScope { forest := Forest.init } progB = true ∧
    (runImplF Forest.init progA).2 = .ok ∧ (runImplF Forest.init progB).2 = .ok ∧
    (runSpecF Forest.init progA).map Forest.content =
      some [.node (.element 2) [.node (.attribute 4 ['v']) [], .node (.text ['x']) [], .node (.element 3) [],
        .node (.text ['y', 'z']) []]] ∧
    (runSpecF Forest.init progB).map Forest.content = (runSpecF Forest.init progA).map Forest.content ∧
    runSpecF Forest.init progB ≠ runSpecF Forest.init progA ∧
    (runImplF Forest.init progA).1.content = (runImplF Forest.init progB).1.content := by
  decide +kernel

example : FlagsOk Forest.init := Or.inl rfl

/-- A program the specification rejects (an element appended to itself), refused by the model. -/
example : runSpec { forest := Forest.init } [.create (.element 2), .append 0 0] = none ∧
    (runImpl { forest := Forest.init } [.create (.element 2), .append 0 0]).2 = .err .invalidOperation := by
  decide +kernel

end XotModel.Props
