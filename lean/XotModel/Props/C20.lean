/-
  C20 — The same document built three ways is the same tree.  Property theorems only.

  Abstract documents (`FDocument`, Model/Fixed.lean) mirror `fixed::Document`; names, prefixes and
  namespaces are the interning ids (`add_name_ns` / `add_prefix` / `add_namespace` are the identity
  on ids; that interning is a stable bijection is C08).  `treeOf d` is the tree `d` denotes: a
  document node whose children are the `before` items, the document element, the `after` items, in
  that order; an element's children are its namespace nodes, its attribute nodes, its content.

  Hypothesis on the document, `d.wf strict` with `strict` = the store's text-consolidation flag:
  * per element, pairwise distinct prefixes and pairwise distinct attribute names — the node-map
    `insert` of a key that is already present updates the existing node instead of adding one, so
    a repeated key would give fewer nodes than `treeOf d` has;
  * when consolidation is on, no two adjacent text children — `append` / `prepend` /
    `insert_before` merge a text node into an adjacent text node, so `treeOf d` (which does not
    merge) would differ.  With consolidation off nothing is required of text.
  Empty text items are NOT excluded: every API route creates and keeps an empty text node.  They
  only matter for the parse route (an empty text node serialises to nothing): its theorems (last
  section) assume the C01 domain, which excludes them (`FContent.noEmptyText`, `C20_representable_wf`).

  Hypothesis on the store: ANY forest whose handles are pairwise distinct and below `next`
  (`Good f`; implied by the C04 invariant `Forest.Inv`, `C20_good_of_inv`) — not only the empty
  one.  Every route adds exactly one new root and leaves every other tree, the flags and all
  existing handles alone, and never panics (`RouteOk`).

  From a store satisfying `Forest.Inv` every route ends in a store satisfying `Forest.Inv`
  (`C20_inv_preserved`: the new tree is structurally valid in the sense of C04).

  The parse route (last section: `C20_parse_route`, `C20_all_routes_agree`) is a corollary of the closed
  loop C01_roundtrip_identical: for a document whose tree is in the C01 domain (`Representable env
  (treeOf d)`: XML-expressible strings, no empty text, …) and serialises, parsing the text gives
  `treeOf d` itself, ids included, in the same tables.

  ANY construction order (second half of the file): `Model/FanyorderSpec.lean` defines construction
  programs (steps `create`, `append`, `prepend`, `insertAfter`, `insertBefore`, `anyAppend`,
  `setAttribute`, `setNamespace`; nodes named by the index of the `create` step that made them)
  with two interpreters, `Prog.runImpl` (the forest model's functions) and `Prog.runSpec` (the
  ordered-tree specification of C05: cut, graft, merge adjacent text; entries replaced in place or
  added at the end of their block).
-/
import XotModel.Lemmas.FfixedValid
import XotModel.Lemmas.FanyorderMain
import XotModel.Props.C01
import XotModel.Lemmas.FfixedRepresentable
import XotModel.Lemmas.FparseRoute
import XotModel.Model.FparseRouteSpec
import XotModel.Lemmas.Fprog2Conv
import XotModel.Lemmas.Fprog3Conv

namespace XotModel.Props
open XotModel

/-- Well-formedness of an abstract document relative to a store (see the header). -/
def FWellFormed (f : Forest) (d : FDocument) : Prop := d.wf f.consolidation = true

/-- What every construction route delivers: it does not panic; the store afterwards is the store
    before plus ONE new root `t` (flags and all other trees unchanged, `next` advanced by the
    number of nodes); the returned handle is `t`'s; `t` erases to `treeOf d`; looking the handle up
    gives that tree; handles stay pairwise distinct and below `next`. -/
def RouteOk (route : Forest → FDocument → Option (Forest × Nat)) (f : Forest) (d : FDocument) : Prop :=
  ∃ t : HTree,
    route f d = some ({ f with roots := f.roots ++ [t], next := f.next + d.size }, t.handle) ∧
    t.erase = treeOf d ∧
    ({ f with roots := f.roots ++ [t], next := f.next + d.size } : Forest).treeAt t.handle = some (treeOf d) ∧
    Good { f with roots := f.roots ++ [t], next := f.next + d.size }

/-- The C04 invariant gives what the construction routes need (`Good`: handles pairwise distinct
    and below `next`). -/
theorem C20_good_of_inv (f : Forest) (h : f.Inv) : Good f :=
  Good.of_nodup_below h.nodup h.below

/-- `fixed::Element::xotify` (and `Content::xotify`) from any store with distinct handles: no
    panic, one new root whose handle is returned, that root erases to the element's tree, the
    rest is untouched. -/
theorem C20_fixed_element (f : Forest) (e : FElement) (hg : Good f)
    (hwf : e.toContent.wf f.consolidation = true) :
    ∃ t : HTree,
      f.xotifyElement e =
        some ({ f with roots := f.roots ++ [t], next := f.next + e.toContent.size }, t.handle) ∧
      t.erase = treeOfContent e.toContent ∧
      ({ f with roots := f.roots ++ [t], next := f.next + e.toContent.size } : Forest).treeAt t.handle
        = some (treeOfContent e.toContent) ∧
      Good { f with roots := f.roots ++ [t], next := f.next + e.toContent.size } := by
  obtain ⟨t, hb, hx⟩ := Forest.xotifyContent_spec e.toContent f hg hwf
  have hg' := Forest.good_add_root hg hb
  refine ⟨t, ?_, hb.erase, ?_, hg'⟩
  · unfold Forest.xotifyElement; rw [hx, hb.handle]
  · rw [Forest.treeAt_new_root f t _ hg', hb.erase]

theorem C20_routeOk_of_spec {route : Forest → FDocument → Option (Forest × Nat)} {f : Forest} {d : FDocument}
    (h : ∃ t, route f d = some ({ f with roots := f.roots ++ [t], next := f.next + d.size }, t.handle) ∧
        t.erase = treeOf d ∧ Good { f with roots := f.roots ++ [t], next := f.next + d.size }) :
    RouteOk route f d := by
  obtain ⟨t, hx, he, hg'⟩ := h
  exact ⟨t, hx, he, by rw [Forest.treeAt_new_root f t _ hg', he], hg'⟩

/-- `fixed::Document::xotify`: the result is one new document root that erases to `treeOf d` — the
    `before` and `after` items are siblings of the document element, before and after it, in the
    given order. -/
theorem C20_fixed (f : Forest) (d : FDocument) (hg : Good f) (hwf : FWellFormed f d) :
    RouteOk Forest.xotifyDocument f d :=
  C20_routeOk_of_spec (Forest.xotifyDocument_spec f d hg hwf)

/-- Top-down: create a node, append it to its already attached parent, descend; left to right. -/
theorem C20_topdown (f : Forest) (d : FDocument) (hg : Good f) (hwf : FWellFormed f d) :
    RouteOk Forest.topDownDocument f d :=
  C20_routeOk_of_spec (Forest.topDownDocument_spec f d hg hwf)

/-- Bottom-up: children first (each finished), then the parent, then `append` in order. -/
theorem C20_bottomup (f : Forest) (d : FDocument) (hg : Good f) (hwf : FWellFormed f d) :
    RouteOk Forest.bottomUpDocument f d :=
  C20_routeOk_of_spec (Forest.bottomUpDocument_spec f d hg hwf)

/-- Right-to-left: the last child is attached with `prepend`, every earlier one with
    `insert_before` the sibling attached just before. -/
theorem C20_rtl (f : Forest) (d : FDocument) (hg : Good f) (hwf : FWellFormed f d) :
    RouteOk Forest.rtlDocument f d :=
  C20_routeOk_of_spec (Forest.rtlDocument_spec f d hg hwf)

/-- All four routes succeed and give the same tree (namely `treeOf d`), whatever else the store
    holds. -/
theorem C20_routes_agree (f : Forest) (d : FDocument) (hg : Good f) (hwf : FWellFormed f d) :
    ∃ fa ra ft rt fb rb fr rr,
      f.xotifyDocument d = some (fa, ra) ∧ f.topDownDocument d = some (ft, rt) ∧
      f.bottomUpDocument d = some (fb, rb) ∧ f.rtlDocument d = some (fr, rr) ∧
      fa.treeAt ra = some (treeOf d) ∧ ft.treeAt rt = fa.treeAt ra ∧
      fb.treeAt rb = fa.treeAt ra ∧ fr.treeAt rr = fa.treeAt ra := by
  obtain ⟨ta, ha, _, hta, _⟩ := C20_fixed f d hg hwf
  obtain ⟨tt, ht, _, htt, _⟩ := C20_topdown f d hg hwf
  obtain ⟨tb, hb, _, htb, _⟩ := C20_bottomup f d hg hwf
  obtain ⟨tr, hr, _, htr, _⟩ := C20_rtl f d hg hwf
  exact ⟨_, _, _, _, _, _, _, _, ha, ht, hb, hr, hta, by rw [htt, hta], by rw [htb, hta], by rw [htr, hta]⟩

/-- The routes can be run one after another in the same store (as the `ffixed` suite does): each
    leaves a store the next one accepts, with the same consolidation flag. -/
theorem C20_routes_compose (route : Forest → FDocument → Option (Forest × Nat)) (f : Forest)
    (d : FDocument) (h : RouteOk route f d) :
    ∃ f' root, route f d = some (f', root) ∧ Good f' ∧ f'.consolidation = f.consolidation ∧
      (∀ r ∈ f.roots, r ∈ f'.roots) := by
  obtain ⟨t, hx, _, _, hg'⟩ := h
  exact ⟨_, _, hx, hg', rfl, fun r hr => List.mem_append_left _ hr⟩

/-- From the C04 invariant to the C04 invariant: the tree a route adds is structurally valid
    (children ordered namespaces / attributes / normal, unique keys, no adjacent text while
    consolidation has never been off, leaves are leaves), its handles are fresh. -/
theorem C20_inv_preserved (route : Forest → FDocument → Option (Forest × Nat)) (f : Forest)
    (d : FDocument) (hinv : f.Inv) (hwf : FWellFormed f d) (h : RouteOk route f d) :
    ∃ f' root, route f d = some (f', root) ∧ f'.Inv ∧ f'.treeAt root = some (treeOf d) := by
  obtain ⟨t, hx, he, ht, hg'⟩ := h
  exact ⟨_, _, hx, Forest.inv_add_root f hinv d t _ he hwf hg', ht⟩

/-- The statement in the form of the property text, from the empty store. -/
theorem C20_fixed_init (d : FDocument) (hwf : d.wf true = true) (f : Forest) (root : Nat)
    (h : Forest.init.xotifyDocument d = some (f, root)) : f.treeAt root = some (treeOf d) := by
  have hinv : Forest.init.Inv := (Forest.inv_iff _).1 (by decide)
  obtain ⟨t, hx, _, ht, _⟩ := C20_fixed Forest.init d (C20_good_of_inv _ hinv) hwf
  rw [hx] at h
  cases h
  exact ht

/-- Non-vacuity: a well-formed document with leading and trailing items, namespaces, attributes,
    nested content; and a store that satisfies the invariant and is not empty. -/
example :
    ({ roots := [.node 0 (.element 2) [.node 1 (.text ['t']) []], .node 2 (.comment []) []], next := 3 } : Forest).inv = true ∧
    ({ before := [.comment ['a'], .pi 17 none], documentElement := { name := 2, prefixes := [(2, 3), (0, 2)], attributes := [(3, ['v']), (4, [])], children := [.text ['x'], .element 3 [(2, 2)] [(3, ['w'])] [.comment [], .text ['y']], .text ['z']] }, after := [.pi 17 (some ['q']), .comment ['b']] } : FDocument).wf true = true := by
  decide

/-! ## Every construction order

  `Prog.State` = store + the nodes created so far (`env`; a program started by `runImplF` /
  `runSpecF` starts with none).  Hypotheses on the start store: the C04 invariant `Forest.Inv`, and
  `Prog.FlagsOk f`: text consolidation has never been switched off, or it is off (in both cases the
  store holds no adjacent text nodes while consolidation is on — the scope of the C05 theorems;
  programs do not change the setting).  No hypothesis on the program in the direction
  specification ⇒ implementation.  In the direction implementation ⇒ specification,
  `Prog.inScope s P`: no step is an `any_append` of an attribute / namespace node that is still
  attached to an element (xot then moves the entry between two elements; the specification only
  attaches parentless entry nodes and calls the step ill-formed).

  How it is proved (`Lemmas/Fanyorder*.lean`): per call, C05 (`append_spec` … : a successful move IS
  `specMove`, handle for handle) and C11 (node-map insertion); the invariant along the run is
  obtained on the SPECIFICATION side (`specMove_inv`: cut, graft and merge keep every child list
  ordered, keys unique, members allowed, handles distinct, and the two touched lists free of
  adjacent text), because C04's lemma family (`Lemmas/Finv*`) shares some twenty lemma names with
  C05's (`Lemmas/Fspec*`) and cannot be imported next to it; for the same reason "after the
  argument checks no late `NodeError`" (part of C06) is re-derived (`moveImpl_ok`). -/

open XotModel.Prog

/-- **Refinement (any order).**  A program the ordered-tree specification accepts is carried out by
    the implementation without a refusal, and the implementation's final state IS the
    specification's: same trees, same node names (handles), same created nodes. -/
theorem C20_any_order (s s' : State) (P : Program) (inv : s.forest.Inv) (hfl : FlagsOk s.forest)
    (h : runSpec s P = some s') : runImpl s P = (s', .ok) :=
  run_spec_impl P s s' inv hfl h

/-- Conversely, a program every step of which the implementation answers `ok` is well-formed for the
    specification (and then `C20_any_order` applies). -/
theorem C20_any_order_conv (s : State) (P : Program) (inv : s.forest.Inv) (hfl : FlagsOk s.forest)
    (hsc : inScope s P = true) (hok : (runImpl s P).2 = .ok) : runSpec s P = some (runImpl s P).1 :=
  (run_refine_inv P s inv hfl hsc hok).1

/-- The content form: names forgotten — node kinds and order, element names, attributes and
    namespace declarations in order, merged text. -/
theorem C20_any_order_content (f g : Forest) (P : Program) (inv : f.Inv) (hfl : FlagsOk f)
    (h : runSpecF f P = some g) : (runImplF f P).2 = .ok ∧ (runImplF f P).1.content = g.content := by
  unfold runSpecF at h
  cases hs : runSpec { forest := f } P with
  | none => rw [hs] at h; cases h
  | some s' =>
    rw [hs] at h
    simp only [Option.map_some, Option.some.injEq] at h
    have := run_spec_impl P _ s' inv hfl hs
    unfold runImplF
    rw [this, ← h]
    exact ⟨rfl, rfl⟩

/-- **Any two orders.**  Two programs that the specification takes to stores with the same content
    are both carried out by the implementation, and taken to stores with the same content — whatever
    the order of their steps, however the text was cut into pieces, whenever the attributes and
    namespaces were set. -/
theorem C20_orders_agree (f g1 g2 : Forest) (P1 P2 : Program) (inv : f.Inv) (hfl : FlagsOk f)
    (h1 : runSpecF f P1 = some g1) (h2 : runSpecF f P2 = some g2) (hc : g1.content = g2.content) :
    (runImplF f P1).2 = .ok ∧ (runImplF f P2).2 = .ok ∧
      (runImplF f P1).1.content = (runImplF f P2).1.content := by
  obtain ⟨a1, a2⟩ := C20_any_order_content f g1 P1 inv hfl h1
  obtain ⟨b1, b2⟩ := C20_any_order_content f g2 P2 inv hfl h2
  exact ⟨a1, b1, by rw [a2, b2, hc]⟩

/-- The same for the subtrees of two designated nodes (e.g. the two document nodes), and any
    observation `obs` of a tree: equal in the specification's final states ⇒ equal in the
    implementation's.  With `obs` the identity: the trees are `deep_equal` and carry the same
    declarations; with `obs` the serialiser (`toXmlString env · []`, a function of the erased tree
    `HTree.erase`, C16): they serialise identically. -/
theorem C20_orders_agree_at {α : Type} (obs : Tree → α) (f : Forest) (P1 P2 : Program) (r1 r2 : Nat)
    (inv : f.Inv) (hfl : FlagsOk f) (s1 s2 : State)
    (h1 : runSpec { forest := f } P1 = some s1) (h2 : runSpec { forest := f } P2 = some s2)
    (a b : Nat) (ha : s1.env[r1]? = some a) (hb : s2.env[r2]? = some b)
    (heq : s1.forest.treeAt a = s2.forest.treeAt b) :
    (runImpl { forest := f } P1).2 = .ok ∧ (runImpl { forest := f } P2).2 = .ok ∧
    (runImpl { forest := f } P1).1.env[r1]? = some a ∧ (runImpl { forest := f } P2).1.env[r2]? = some b ∧
      ((runImpl { forest := f } P1).1.forest.treeAt a).map obs =
        ((runImpl { forest := f } P2).1.forest.treeAt b).map obs := by
  rw [run_spec_impl P1 _ s1 inv hfl h1, run_spec_impl P2 _ s2 inv hfl h2]
  exact ⟨rfl, rfl, ha, hb, by rw [heq]⟩

/-- **Closed form.**  `Prog.Constructs f P root d` says, with the specification only: every step of
    `P` is well-formed and at the end the node created by the `root`-th `create` step carries
    `treeOf d` (unused nodes and merged-away text pieces are of no concern).  Then the
    implementation answers every step `ok`, that node carries `treeOf d`, and the store still
    satisfies the invariant: every construction of `d`, in ANY order, with the text supplied in ANY
    split into pieces, yields `treeOf d`.  (`C20_topdown`, `C20_bottomup`, `C20_rtl` are three
    particular orders.) -/
theorem C20_every_construction (f : Forest) (P : Program) (root : Nat) (d : FDocument)
    (hc : Constructs f P root d) (inv : f.Inv) (hfl : FlagsOk f) :
    (runImpl { forest := f } P).2 = .ok ∧ (runImpl { forest := f } P).1.forest.Inv ∧
    ∃ h, (runImpl { forest := f } P).1.env[root]? = some h ∧
      (runImpl { forest := f } P).1.forest.treeAt h = some (treeOf d) := by
  obtain ⟨s', hs, h, he, ht⟩ := hc
  rw [run_spec_impl P _ s' inv hfl hs]
  exact ⟨rfl, (runSpec_inv P _ s' inv hfl hs).1, h, he, ht⟩

/-- … and when the specification's final store is the store before plus exactly `treeOf d`
    (nothing left over), so is the implementation's. -/
theorem C20_every_clean_construction (f : Forest) (P : Program) (d : FDocument)
    (hc : ConstructsClean f P d) (inv : f.Inv) (hfl : FlagsOk f) :
    (runImplF f P).2 = .ok ∧ (runImplF f P).1.content = f.content ++ [treeOf d] := by
  obtain ⟨s', hs, hcont⟩ := hc
  have := C20_any_order_content f s'.forest P inv hfl (by unfold runSpecF; rw [hs]; rfl)
  exact ⟨this.1, by rw [this.2, hcont]⟩

/-- The specification preserves the C04 invariant (its moves: `specMove_inv`), hence so does every
    successful implementation run: the invariant holds in every state passed through. -/
theorem C20_spec_preserves_inv (s s' : State) (P : Program) (inv : s.forest.Inv) (hfl : FlagsOk s.forest)
    (h : runSpec s P = some s') : s'.forest.Inv ∧ FlagsOk s'.forest :=
  runSpec_inv P s s' inv hfl h

theorem C20_inv_along (s : State) (P : Program) (inv : s.forest.Inv) (hfl : FlagsOk s.forest)
    (hsc : inScope s P = true) : InvAlong s P :=
  invAlong_of_inv P s inv hfl hsc

/-! ### The refusal side -/

/-- The specification's well-formedness test of a move IS xot's argument check
    (`add_structure_check`, for `insert_*` also `sibling_reference_check`), as a Boolean. -/
theorem C20_moveOk_is_the_check (f : Forest) (d : Dest) (n : Nat) :
    moveOk d n f = implCheck f d n := moveOk_eq f d n

/-- A move the specification calls ill-formed is refused by the implementation with
    `InvalidOperation` and an unchanged store … -/
theorem C20_illformed_move_refused (f : Forest) (d : Dest) (n : Nat) (h : moveOk d n f = false) :
    moveImpl f d n = (f, .err .invalidOperation) :=
  moveImpl_refused (by rw [← moveOk_eq]; exact h)

/-- … and a well-formed move is answered `ok` (after the argument checks nothing goes wrong: no
    late `NodeError` from indextree, no panic) and is the specification's move. -/
theorem C20_wellformed_move_ok (f : Forest) (d : Dest) (n : Nat) (inv : f.Inv) (hfl : FlagsOk f)
    (h : moveOk d n f = true) :
    moveImpl f d n = (Spec.specMove (Keep.resident n) d n f, .ok) := by
  have norm := normal_of_flags inv hfl
  have hok := moveImpl_ok inv norm (by rw [← moveOk_eq]; exact h)
  rw [← moveImpl_spec inv norm hok, ← hok]

/-- **Refusals are exact**: the first step the implementation does not answer `ok` is the first step
    the specification calls ill-formed (both `none` for a program carried out completely). -/
theorem C20_refusal_exact (s : State) (P : Program) (inv : s.forest.Inv) (hfl : FlagsOk s.forest)
    (hsc : inScope s P = true) : firstRefused s P = firstIllFormed s P :=
  firstRefused_eq P s inv hfl hsc

/-! ### Non-vacuity: `<a c="v">x<b/>yz</a>` by two different programs

  `progA`: top-down, left to right, the attribute set first, `yz` delivered as `y` then `z`.
  `progB`: the pieces first (`z` before `y`), the element `a` created third, `y` inserted between
  `<b/>` and `z` (it merges into `z`: the LATER node survives), `x` prepended last, the attribute
  attached as a node at the very end. -/

def progA : Program :=
  [.create (.element 2), .setAttribute 0 4 ['v'], .create (.text ['x']), .append 0 1,
   .create (.element 3), .append 0 2, .create (.text ['y']), .append 0 3, .create (.text ['z']), .append 0 4]

def progB : Program :=
  [.create (.text ['z']), .create (.element 3), .create (.element 2), .append 2 1,
   .create (.text ['y']), .append 2 0, .insertAfter 1 3, .create (.text ['x']), .prepend 2 4,
   .create (.attribute 4 ['v']), .anyAppend 2 5]

theorem C20_init_inv : Forest.init.Inv ∧ FlagsOk Forest.init :=
  ⟨(Forest.inv_iff _).1 (by decide), Or.inl rfl⟩

/-- Both programs are accepted by the specification from the empty store and end in different
    states (other names survive) with the same content `<a c="v">x<b/>yz</a>`; the implementation
    model, evaluated, does what the theorems say; both are in scope. -/
example :
    (runSpecF Forest.init progA).map Forest.content =
      some [.node (.element 2) [.node (.attribute 4 ['v']) [], .node (.text ['x']) [], .node (.element 3) [],
        .node (.text ['y', 'z']) []]] ∧
    (runSpecF Forest.init progB).map Forest.content = (runSpecF Forest.init progA).map Forest.content ∧
    runSpecF Forest.init progB ≠ runSpecF Forest.init progA ∧
    (runImplF Forest.init progA).2 = .ok ∧ (runImplF Forest.init progB).2 = .ok ∧
    (runImplF Forest.init progA).1.content = (runImplF Forest.init progB).1.content ∧
    inScope { forest := Forest.init } progA = true ∧ inScope { forest := Forest.init } progB = true := by
  decide +kernel

/-- The abstract document `<!--l--><a c="v">x<b/>yz</a>` and a construction of it that creates the
    document node LAST, delivers `yz` in two pieces and sets the attribute after the children. -/
def docC : FDocument :=
  { before := [.comment ['l']],
    documentElement := { name := 2, attributes := [(4, ['v'])], children := [.text ['x'], .element 3 [] [] [], .text ['y', 'z']] } }

def progC : Program :=
  [.create (.text ['z']), .create (.element 3), .create (.element 2), .append 2 1,
   .create (.text ['y']), .append 2 0, .insertAfter 1 3, .create (.text ['x']), .prepend 2 4,
   .setAttribute 2 4 ['v'], .create (.comment ['l']), .create .document, .append 6 2, .insertBefore 2 5]

theorem C20_progC_constructs : Constructs Forest.init progC 6 docC ∧ ConstructsClean Forest.init progC docC := by
  have h : ∃ s', runSpec { forest := Forest.init } progC = some s' := by
    cases hs : runSpec { forest := Forest.init } progC with
    | some s' => exact ⟨s', rfl⟩
    | none =>
      have : (runSpec { forest := Forest.init } progC).isSome = true := by decide +kernel
      rw [hs] at this; cases this
  obtain ⟨s', hs⟩ := h
  have h2 : (runSpec { forest := Forest.init } progC).map
      (fun s' => ((s'.env[6]?).bind s'.forest.treeAt, s'.forest.content)) =
      some (some (treeOf docC), Forest.init.content ++ [treeOf docC]) := by decide +kernel
  rw [hs] at h2
  simp only [Option.map_some, Option.some.injEq, Prod.mk.injEq] at h2
  obtain ⟨h3, h4⟩ := h2
  refine ⟨⟨s', hs, ?_⟩, ⟨s', hs, h4⟩⟩
  cases he : s'.env[6]? with
  | none => rw [he] at h3; cases h3
  | some h => rw [he] at h3; exact ⟨h, rfl, h3⟩

/-- `C20_every_construction` applied: the model's run of `progC` is `ok` and its 7th created node
    carries `treeOf docC`. -/
example : (runImpl { forest := Forest.init } progC).2 = .ok ∧
    ∃ h, (runImpl { forest := Forest.init } progC).1.env[6]? = some h ∧
      (runImpl { forest := Forest.init } progC).1.forest.treeAt h = some (treeOf docC) := by
  obtain ⟨a, _, b⟩ := C20_every_construction Forest.init progC 6 docC C20_progC_constructs.1 C20_init_inv.1 C20_init_inv.2
  exact ⟨a, b⟩

/-- A program the specification rejects (an element appended to itself), refused by the model at
    the same step. -/
example : runSpec { forest := Forest.init } [.create (.element 2), .append 0 0] = none ∧
    (runImpl { forest := Forest.init } [.create (.element 2), .append 0 0]).2 = .err .invalidOperation ∧
    firstRefused { forest := Forest.init } [.create (.element 2), .append 0 0] = some 1 ∧
    firstIllFormed { forest := Forest.init } [.create (.element 2), .append 0 0] = some 1 := by
  decide +kernel

/-! ## The parse route

  `treeOf d` is a tree over interning ids; `env` is the `Xot`'s tables, in which every name, prefix and
  namespace of `d` has been interned (by `fixed::…::xotify`'s `add_name_ns` / `add_prefix` /
  `add_namespace`, or by the caller of the stepwise API).  The parse route — `parse(text)` into the SAME
  `Xot` — interns nothing new and hands every id back (`p.env = env`), so its tree can be compared
  with the other routes' literally.  Hypothesis `Representable env (treeOf d)` (decidable,
  Model/SerTokens.lean): the C01 domain — it implies the well-formedness the API routes need
  (`C20_representable_wf`) and moreover: no empty text item (`FContent.noEmptyText`), XML Chars,
  NCName local names and prefixes, comment / PI conditions, normalised unique `xml:id`s, sane tables.
  The parse route's tree is the builder's `Parsed.tree` (Model/Parse.lean); putting it into the store as
  a new root is `Xot::parse`'s last step and is not modelled on `Forest`. -/

/-- The C01 domain implies what the API routes need: a document whose tree is `Representable` is well
    formed relative to EVERY store (text consolidation on or off), and has no empty text item. -/
theorem C20_representable_wf (env : Env) (f : Forest) (d : FDocument)
    (hr : Representable env (treeOf d) = true) :
    FWellFormed f d ∧ d.documentElement.toContent.noEmptyText = true := by
  simp only [Representable, Bool.and_eq_true] at hr
  exact FDocument.wf_of_representable f.consolidation d hr.1

/-- **C20_parse_route**: the text of an abstract document — the serialisation of the tree it denotes
    (which is what every API route builds: `RouteOk`) — parses to exactly that tree: same node kinds
    and order, same ids for names, prefixes and namespaces, tables unchanged; `deep_equal` answers
    `true`. -/
theorem C20_parse_route (env : Env) (d : FDocument) (hr : Representable env (treeOf d) = true) (s : Str)
    (hs : toXmlString env (treeOf d) [] = .ok s) :
    ∃ p, parseString .document env s = .ok p ∧ p.tree = treeOf d ∧ p.env = env ∧
      deepEqual p.tree (treeOf d) = true :=
  C01_roundtrip_identical env (treeOf d) hr s hs

/-- … and the text exists exactly when every namespaced name of `d` has a usable prefix in scope. -/
theorem C20_parse_route_writable (env : Env) (d : FDocument) (hr : Representable env (treeOf d) = true)
    (hw : namesWritable env (treeOf d) [] = some true) :
    ∃ s p, toXmlString env (treeOf d) [] = .ok s ∧ parseString .document env s = .ok p ∧
      p.tree = treeOf d ∧ p.env = env ∧ deepEqual p.tree (treeOf d) = true :=
  C01_roundtrip_writable env (treeOf d) hr hw

/-- The parse route next to ANY route that delivers `treeOf d` (`RouteOk`: `C20_fixed`, `C20_topdown`,
    `C20_bottomup`, `C20_rtl`, and every construction program by `C20_every_construction`): the tree
    `T` the route leaves in the store serialises to the text `s` of `d`, and parsing `s` gives a tree
    that IS `T`, hence `deep_equal` to it and serialising identically. -/
theorem C20_parse_agrees_with_route (env : Env) (route : Forest → FDocument → Option (Forest × Nat))
    (f : Forest) (d : FDocument) (h : RouteOk route f d) (hr : Representable env (treeOf d) = true)
    (s : Str) (hs : toXmlString env (treeOf d) [] = .ok s) :
    ∃ f' root T p, route f d = some (f', root) ∧ f'.treeAt root = some T ∧
      toXmlString env T [] = .ok s ∧ parseString .document env s = .ok p ∧ p.tree = T ∧ p.env = env ∧
      deepEqual p.tree T = true ∧ toXmlString p.env p.tree [] = .ok s := by
  obtain ⟨t, hx, _, ht, _⟩ := h
  obtain ⟨p, h1, h2, h3, h4⟩ := C20_parse_route env d hr s hs
  exact ⟨_, _, treeOf d, p, hx, ht, hs, h1, h2, h3, h4, by rw [h2, h3]; exact hs⟩

/-- **All routes agree, the parse route included**: `fixed::Document::xotify`, top-down, bottom-up and
    right-to-left construction all leave `treeOf d`; it serialises to one text `s`; `parse(s)` returns
    `treeOf d` again — so the five trees are pairwise equal as id trees (a fortiori `deep_equal`) and
    serialise to the same text.  Hypotheses: a store with distinct handles, the C01 domain (which gives
    the routes' well-formedness, `C20_representable_wf`), every namespaced name has a prefix in scope. -/
theorem C20_all_routes_agree (env : Env) (f : Forest) (d : FDocument) (hg : Good f)
    (hr : Representable env (treeOf d) = true) (hw : namesWritable env (treeOf d) [] = some true) :
    ∃ fa ra ft rt fb rb fr rr s p,
      f.xotifyDocument d = some (fa, ra) ∧ f.topDownDocument d = some (ft, rt) ∧
      f.bottomUpDocument d = some (fb, rb) ∧ f.rtlDocument d = some (fr, rr) ∧
      toXmlString env (treeOf d) [] = .ok s ∧ parseString .document env s = .ok p ∧ p.env = env ∧
      fa.treeAt ra = some p.tree ∧ ft.treeAt rt = some p.tree ∧ fb.treeAt rb = some p.tree ∧
      fr.treeAt rr = some p.tree ∧ p.tree = treeOf d ∧ deepEqual p.tree (treeOf d) = true ∧
      toXmlString p.env p.tree [] = .ok s := by
  obtain ⟨fa, ra, ft, rt, fb, rb, fr, rr, ha, ht, hb, hr', k1, k2, k3, k4⟩ :=
    C20_routes_agree f d hg (C20_representable_wf env f d hr).1
  obtain ⟨s, p, hs, h1, h2, h3, h4⟩ := C20_parse_route_writable env d hr hw
  refine ⟨fa, ra, ft, rt, fb, rb, fr, rr, s, p, ha, ht, hb, hr', hs, h1, h3, ?_, ?_, ?_, ?_, h2, h4, ?_⟩
  · rw [k1, h2]
  · rw [k2, k1, h2]
  · rw [k3, k1, h2]
  · rw [k4, k1, h2]
  · rw [h2, h3]; exact hs

/-- Non-vacuity, closed: `<!--l--><r xmlns="urn:a" xmlns:p="urn:b" k="v">x<p:c/>yz</r>` over the
    tables `c01Env` of Props/C01. -/
def docD : FDocument :=
  { before := [.comment ['l']],
    documentElement := { name := 2, prefixes := [(0, 2), (2, 3)], attributes := [(4, ['v'])],
                         children := [.text ['x'], .element 3 [] [] [], .text ['y', 'z']] } }

example : Representable c01Env (treeOf docD) = true ∧ namesWritable c01Env (treeOf docD) [] = some true ∧
    FWellFormed Forest.init docD ∧
    toXmlString c01Env (treeOf docD) [] =
      .ok "<!--l--><r xmlns=\"urn:a\" xmlns:p=\"urn:b\" k=\"v\">x<p:c/>yz</r>".toList :=
  ⟨by decide, by decide, by unfold FWellFormed; decide, by decide⟩

example : ∃ p, parseString .document c01Env
      "<!--l--><r xmlns=\"urn:a\" xmlns:p=\"urn:b\" k=\"v\">x<p:c/>yz</r>".toList = .ok p ∧
    p.tree = treeOf docD ∧ p.env = c01Env ∧ deepEqual p.tree (treeOf docD) = true :=
  C20_parse_route c01Env docD (by decide) _ (by decide)

end XotModel.Props

/-! # ================================================================================================
    # PARSE ROUTE AT FOREST LEVEL (branch wt-misc)
    # ================================================================================================

  `C20_parse_route` above is a statement about trees.  Here the text is parsed INTO an existing store
  (`IdStore.parseInto`, Model/FidIndex.lean = what `Xot::parse` does to the arena and the xml:id index;
  `IdStore.parseRoute` / `Forest.parseRoute`, Model/FparseRouteSpec.lean = serialise `treeOf d`, parse the
  text into the store): the parse route is a `RouteOk` route in the same sense as `xotify` and the
  stepwise routes — one new root erasing to `treeOf d`, `d.size` fresh handles, every other tree and the
  flags untouched, `Forest.Inv` kept — and `C20_all_routes_agree_forest` lists the five new roots with
  equal erasures.  (The C04 lemma family cannot be imported here: the facts about `HTree.ofTree` are
  re-proved in Lemmas/FparseRoute.lean; `Forest.Inv` of the result is by `Forest.inv_add_root` as for the
  other routes, in agreement with `C04_parse_inv`.) -/

namespace XotModel.Props
open XotModel

/-- **C20_parse_route_forest**: for a store `s` (forest + xml:id index) whose forest satisfies the C04
    invariant and a document in the C01 domain with text `text`: the text parses (tables unchanged),
    and parsing it INTO `s` adds exactly one new root `t` — handles `next … next + d.size - 1` — that
    erases to `treeOf d`; the returned document node is `t`'s handle and looks up `treeOf d`; every other
    tree, the flags and all existing handles are as before; the result satisfies `Forest.Inv`. -/
theorem C20_parse_route_forest (env : Env) (s : IdStore) (d : FDocument) (hi : s.forest.Inv)
    (hr : Representable env (treeOf d) = true) (text : Str) (hs : toXmlString env (treeOf d) [] = .ok text) :
    ∃ p t, parseString .document env text = .ok p ∧ p.env = env ∧
      s.parseRoute env d = some (s.parseInto p.tree) ∧
      (s.parseInto p.tree).1.forest =
        { s.forest with roots := s.forest.roots ++ [t], next := s.forest.next + d.size } ∧
      (s.parseInto p.tree).2 = t.handle ∧ t.erase = treeOf d ∧
      (s.parseInto p.tree).1.forest.treeAt t.handle = some (treeOf d) ∧
      (s.parseInto p.tree).1.forest.Inv := by
  obtain ⟨p, h1, h2, h3, _⟩ := C20_parse_route env d hr text hs
  obtain ⟨t, k1, k2, k3, k4⟩ := IdStore.fpr_parseInto_spec s d (C20_good_of_inv _ hi)
  refine ⟨p, t, h1, h3, ?_, ?_, ?_, k3, ?_, ?_⟩
  · simp only [IdStore.parseRoute, hs, h1]
  · rw [h2]; exact k1
  · rw [h2]; exact k2
  · rw [h2, k1, Forest.treeAt_new_root s.forest t _ k4, k3]
  · rw [h2, k1]
    exact Forest.inv_add_root s.forest hi d t _ k3 (C20_representable_wf env s.forest d hr).1 k4

/-- The parse route is a `RouteOk` route: same conclusion as `C20_fixed`, `C20_topdown`, `C20_bottomup`,
    `C20_rtl` (and hence `C20_inv_preserved` applies to it), whatever the xml:id index holds. -/
theorem C20_parse_routeOk (env : Env) (index : List ((Nat × Str) × Nat)) (f : Forest) (d : FDocument)
    (hg : Good f) (hr : Representable env (treeOf d) = true)
    (hw : namesWritable env (treeOf d) [] = some true) :
    RouteOk (Forest.parseRoute env index) f d := by
  obtain ⟨text, p, hs, h1, h2, _, _⟩ := C20_parse_route_writable env d hr hw
  obtain ⟨t, k1, k2, k3, k4⟩ := IdStore.fpr_parseInto_spec ⟨f, index⟩ d hg
  apply C20_routeOk_of_spec
  refine ⟨t, ?_, k3, k4⟩
  simp only [Forest.parseRoute, IdStore.parseRoute, hs, h1, Option.map_some, h2]
  rw [show ((IdStore.mk f index).parseInto (treeOf d)).1.forest = _ from k1,
    show ((IdStore.mk f index).parseInto (treeOf d)).2 = _ from k2]

/-- **All five routes agree at forest level**: from any store satisfying `Forest.Inv`, for a document in
    the C01 domain whose names are writable, `fixed::Document::xotify`, top-down, bottom-up, right-to-left
    construction and serialise-then-parse each add ONE new root to the store (and change nothing else);
    the five roots have the same erasure, `treeOf d`, and each resulting store satisfies `Forest.Inv`. -/
theorem C20_all_routes_agree_forest (env : Env) (index : List ((Nat × Str) × Nat)) (f : Forest)
    (d : FDocument) (hi : f.Inv) (hr : Representable env (treeOf d) = true)
    (hw : namesWritable env (treeOf d) [] = some true) :
    ∃ ta tt tb tr tp : HTree,
      f.xotifyDocument d = some ({ f with roots := f.roots ++ [ta], next := f.next + d.size }, ta.handle) ∧
      f.topDownDocument d = some ({ f with roots := f.roots ++ [tt], next := f.next + d.size }, tt.handle) ∧
      f.bottomUpDocument d = some ({ f with roots := f.roots ++ [tb], next := f.next + d.size }, tb.handle) ∧
      f.rtlDocument d = some ({ f with roots := f.roots ++ [tr], next := f.next + d.size }, tr.handle) ∧
      f.parseRoute env index d = some ({ f with roots := f.roots ++ [tp], next := f.next + d.size }, tp.handle) ∧
      ta.erase = treeOf d ∧ tt.erase = ta.erase ∧ tb.erase = ta.erase ∧ tr.erase = ta.erase ∧
      tp.erase = ta.erase ∧
      (∀ t ∈ [ta, tt, tb, tr, tp],
        ({ f with roots := f.roots ++ [t], next := f.next + d.size } : Forest).Inv ∧
        ({ f with roots := f.roots ++ [t], next := f.next + d.size } : Forest).treeAt t.handle = some (treeOf d)) := by
  have hg := C20_good_of_inv f hi
  have hwf := (C20_representable_wf env f d hr).1
  obtain ⟨ta, ha, ea, la, ga⟩ := C20_fixed f d hg hwf
  obtain ⟨tt, ht, et, lt, gt⟩ := C20_topdown f d hg hwf
  obtain ⟨tb, hb, eb, lb, gb⟩ := C20_bottomup f d hg hwf
  obtain ⟨tr, hr', er, lr, gr⟩ := C20_rtl f d hg hwf
  obtain ⟨tp, hp, ep, lp, gp⟩ := C20_parse_routeOk env index f d hg hr hw
  refine ⟨ta, tt, tb, tr, tp, ha, ht, hb, hr', hp, ea, by rw [et, ea], by rw [eb, ea], by rw [er, ea],
    by rw [ep, ea], ?_⟩
  intro t hmem
  simp only [List.mem_cons, List.not_mem_nil, or_false] at hmem
  rcases hmem with rfl | rfl | rfl | rfl | rfl
  · exact ⟨Forest.inv_add_root f hi d _ _ ea hwf ga, la⟩
  · exact ⟨Forest.inv_add_root f hi d _ _ et hwf gt, lt⟩
  · exact ⟨Forest.inv_add_root f hi d _ _ eb hwf gb, lb⟩
  · exact ⟨Forest.inv_add_root f hi d _ _ er hwf gr, lr⟩
  · exact ⟨Forest.inv_add_root f hi d _ _ ep hwf gp, lp⟩

/-- Non-vacuity, closed: `docD` parsed into a store that already holds an element and a comment. -/
example :
    let f : Forest := { roots := [.node 0 (.element 2) [.node 1 (.text ['t']) []], .node 2 (.comment []) []], next := 3 }
    f.inv = true ∧ Representable c01Env (treeOf docD) = true ∧
      namesWritable c01Env (treeOf docD) [] = some true ∧ docD.size = 9 := by decide
example : ∃ t : HTree,
    Forest.parseRoute c01Env []
      { roots := [.node 0 (.element 2) [.node 1 (.text ['t']) []], .node 2 (.comment []) []], next := 3 } docD =
      some ({ roots := [.node 0 (.element 2) [.node 1 (.text ['t']) []], .node 2 (.comment []) [], t], next := 12 }, 3) ∧
    t.handle = 3 ∧ t.erase = treeOf docD := by
  obtain ⟨t, h1, h2, _, _⟩ := C20_parse_routeOk c01Env []
    { roots := [.node 0 (.element 2) [.node 1 (.text ['t']) []], .node 2 (.comment []) []], next := 3 } docD
    (C20_good_of_inv _ ((Forest.inv_iff _).mp (by decide))) (by decide) (by decide)
  have hh : t.handle = 3 := by
    have := congrArg (fun o => o.map (·.2)) h1
    simp only [Forest.parseRoute, IdStore.parseRoute] at this
    revert this
    cases toXmlString c01Env (treeOf docD) [] with
    | ok text =>
      simp only
      cases parseString .document c01Env text with
      | ok p => simp only [Option.map_some, IdStore.parseInto, Option.some.injEq]; intro e; exact e.symm
      | err e env' => simp
      | panic => simp
    | err e => simp
    | panic => simp
  refine ⟨t, ?_, hh, h2⟩
  rw [h1, hh]
  rfl

end XotModel.Props

/-! # ================================================================================================
    # EXTENDED CONSTRUCTION PROGRAMS: every kind of step (branch wt-prog20)
    # ================================================================================================

  A realistic construction order also MOVES things.  `Model/FanyorderSpec2.lean` (`Prog2`) extends the
  programs of `Model/FanyorderSpec.lean` (embedded as `Prog2.Step.base`) by `detach`, `remove` (helper
  nodes), `replace` (a placeholder by the real node), `wrap` (`element_wrap`), `unwrap` (`element_unwrap`
  of a helper wrapper), the value setters `setText`, `setElementName`, `setAttributeValue`, `setComment`,
  `setPiData`, and `clone` (`clone_node` of a template); nodes are named by the index of the step that
  CREATED them (`create`, `wrap`, `clone`).  Two interpreters: `Prog2.runImpl` (the calls as xot performs
  them, `Model/Manip.lean` / `Manip2.lean` / `Fcreation.lean`) and `Prog2.runSpec` — the ordered-tree
  SPECIFICATION C05 proves each call against: `specDetachP`, `specRemoveP`, `specReplaceP`, `specUnwrapP`
  (the pair reading of "text nodes that become adjacent are merged", `Model/FspecSpec3.lean` /
  `FspecSpec4.lean`), `specWrap`, `specSetValue`, `specClone`; whether a step makes sense is decided on the
  ordered tree (`Prog2.replaceOk`, `wrapOk`, `unwrapOk`, the kind of the node for a setter, liveness for
  `detach` / `remove` / `clone`).

  Hypotheses, as for the eight-step programs: the C04 invariant `Forest.Inv` of the START store and
  `Prog.FlagsOk` (text consolidation never switched off, or off — the store then never holds adjacent text
  nodes while consolidation is on, which is where C05's pair reading, its whole-run reading and xot agree;
  `replace`: outside that scope lies the corner of finding `C05:replace-selfmerge-leaves-adjacent-text`).
  Nothing is assumed about the intermediate stores: the SPECIFICATION preserves `Forest.Inv`
  (`C20_program_spec_preserves_inv`; per call `Lemmas/Fprog2Inv1.lean` … `Fprog2Inv4.lean`, proved on the
  ordered-tree side), and after the ordered-tree test of a step nothing goes wrong in the implementation
  (`Lemmas/Fprog2Ok.lean`, `Fprog2OkWrap.lean`: `element_unwrap`, `element_wrap`, `replace` answer `ok`).
  Per call the C05 theorems are used by name (`Lemmas/Fprog2Ref.lean`). -/

namespace XotModel.Props
open XotModel

/-- **Refinement along a whole extended program**: a program the ordered-tree specification accepts is
    carried out by the implementation without a refusal, and the implementation's final state IS the
    specification's: same trees, same node names (handles), same created nodes. -/
theorem C20_program_refines (s s' : Prog.State) (P : Prog2.Program) (inv : s.forest.Inv)
    (hfl : Prog.FlagsOk s.forest) (h : Prog2.runSpec s P = some s') : Prog2.runImpl s P = (s', .ok) :=
  Prog2.run_spec_impl P s s' inv hfl h

/-- The specification preserves the C04 invariant and the flag condition, step by step. -/
theorem C20_program_spec_preserves_inv (s s' : Prog.State) (P : Prog2.Program) (inv : s.forest.Inv)
    (hfl : Prog.FlagsOk s.forest) (h : Prog2.runSpec s P = some s') :
    s'.forest.Inv ∧ Prog.FlagsOk s'.forest :=
  Prog2.runSpec_inv P s s' inv hfl h

/-- One call: what the specification accepts the implementation answers `ok`, with the specification's
    store and created node (per kind of call: the C05 theorem of that call). -/
theorem C20_program_call (f f' : Forest) (c : Prog2.Call) (o : Option Nat) (inv : f.Inv) (hfl : Prog.FlagsOk f)
    (h : c.spec f = some (f', o)) : c.impl f = (f', .ok, o) ∧ f'.Inv ∧ Prog.FlagsOk f' := by
  obtain ⟨i, a, b⟩ := Prog2.spec_inv inv hfl h
  exact ⟨Prog2.call_spec_impl inv hfl c h, i, hfl.of_eq a b⟩

/-- **C20_any_program**: every extended program that ends in the abstract document `d` according to the
    SPECIFICATION semantics (`Prog2.Constructs`: every step well-formed; at the end the node created by the
    `root`-th creating step carries `treeOf d`), run on the forest model, is answered `ok` at every step
    and ends in a store that satisfies the invariant and in which that node is the root of a subtree
    erasing to `treeOf d`. -/
theorem C20_any_program (f : Forest) (P : Prog2.Program) (root : Nat) (d : FDocument)
    (hc : Prog2.Constructs f P root d) (inv : f.Inv) (hfl : Prog.FlagsOk f) :
    (Prog2.runImpl { forest := f } P).2 = .ok ∧ (Prog2.runImpl { forest := f } P).1.forest.Inv ∧
    ∃ h t, (Prog2.runImpl { forest := f } P).1.env[root]? = some h ∧
      (Prog2.runImpl { forest := f } P).1.forest.get? h = some t ∧ t.erase = treeOf d ∧
      (Prog2.runImpl { forest := f } P).1.forest.treeAt h = some (treeOf d) := by
  obtain ⟨s', hs, h, he, ht⟩ := hc
  rw [Prog2.run_spec_impl P _ s' inv hfl hs]
  refine ⟨rfl, (Prog2.runSpec_inv P _ s' inv hfl hs).1, h, ?_⟩
  have ht' := ht
  unfold Forest.treeAt at ht'
  cases hg : s'.forest.get? h with
  | none => rw [hg] at ht'; cases ht'
  | some t =>
    rw [hg] at ht'
    exact ⟨t, he, rfl, Option.some.inj ht', ht⟩

/-- **C20_programs_agree**: two extended programs that end in the same abstract document — whatever was
    detached and re-attached, wrapped and unwrapped, replaced, set late or cloned on the way — are both
    carried out, and the two document nodes carry the same tree: `deep_equal`, the same declarations, and
    (any observation `obs` of the erased tree, e.g. the serialiser) the same serialisation. -/
theorem C20_programs_agree {α : Type} (obs : Tree → α) (f : Forest) (P1 P2 : Prog2.Program) (r1 r2 : Nat)
    (d : FDocument) (h1 : Prog2.Constructs f P1 r1 d) (h2 : Prog2.Constructs f P2 r2 d)
    (inv : f.Inv) (hfl : Prog.FlagsOk f) :
    (Prog2.runImpl { forest := f } P1).2 = .ok ∧ (Prog2.runImpl { forest := f } P2).2 = .ok ∧
    ∃ a b, (Prog2.runImpl { forest := f } P1).1.env[r1]? = some a ∧
      (Prog2.runImpl { forest := f } P2).1.env[r2]? = some b ∧
      (Prog2.runImpl { forest := f } P1).1.forest.treeAt a = some (treeOf d) ∧
      (Prog2.runImpl { forest := f } P2).1.forest.treeAt b =
        (Prog2.runImpl { forest := f } P1).1.forest.treeAt a ∧
      ((Prog2.runImpl { forest := f } P1).1.forest.treeAt a).map obs =
        ((Prog2.runImpl { forest := f } P2).1.forest.treeAt b).map obs := by
  obtain ⟨o1, _, a, _, ea, _, _, ta⟩ := C20_any_program f P1 r1 d h1 inv hfl
  obtain ⟨o2, _, b, _, eb, _, _, tb⟩ := C20_any_program f P2 r2 d h2 inv hfl
  exact ⟨o1, o2, a, b, ea, eb, ta, by rw [tb, ta], by rw [ta, tb]⟩

/-- … and agrees with `fixed::Document::xotify` (`C20_fixed`; likewise with every `RouteOk` route). -/
theorem C20_program_fixed_route (route : Forest → FDocument → Option (Forest × Nat)) (f : Forest)
    (P : Prog2.Program) (root : Nat) (d : FDocument) (hc : Prog2.Constructs f P root d) (inv : f.Inv)
    (hfl : Prog.FlagsOk f) (hr : RouteOk route f d) :
    ∃ fa ra h, route f d = some (fa, ra) ∧ (Prog2.runImpl { forest := f } P).2 = .ok ∧
      (Prog2.runImpl { forest := f } P).1.env[root]? = some h ∧
      (Prog2.runImpl { forest := f } P).1.forest.treeAt h = fa.treeAt ra ∧
      fa.treeAt ra = some (treeOf d) := by
  obtain ⟨t, hx, _, ht, _⟩ := hr
  obtain ⟨o1, _, h, _, eh, _, _, th⟩ := C20_any_program f P root d hc inv hfl
  exact ⟨_, _, h, hx, o1, eh, by rw [th, ht], ht⟩

theorem C20_program_fixed (f : Forest) (P : Prog2.Program) (root : Nat) (d : FDocument)
    (hc : Prog2.Constructs f P root d) (inv : f.Inv) (hfl : Prog.FlagsOk f) (hwf : FWellFormed f d) :
    ∃ fa ra h, f.xotifyDocument d = some (fa, ra) ∧ (Prog2.runImpl { forest := f } P).2 = .ok ∧
      (Prog2.runImpl { forest := f } P).1.env[root]? = some h ∧
      (Prog2.runImpl { forest := f } P).1.forest.treeAt h = fa.treeAt ra ∧
      fa.treeAt ra = some (treeOf d) :=
  C20_program_fixed_route Forest.xotifyDocument f P root d hc inv hfl (C20_fixed f d (C20_good_of_inv f inv) hwf)

/-- … and with the parse route (`C20_parse_route`): for a document in the C01 domain with text `s`, the
    tree `T` the program leaves serialises to `s`, and parsing `s` gives a tree that IS `T` (same ids,
    tables unchanged), hence `deep_equal` to it and serialising identically. -/
theorem C20_program_parse_route (env : Env) (f : Forest) (P : Prog2.Program) (root : Nat) (d : FDocument)
    (hc : Prog2.Constructs f P root d) (inv : f.Inv) (hfl : Prog.FlagsOk f)
    (hr : Representable env (treeOf d) = true) (s : Str) (hs : toXmlString env (treeOf d) [] = .ok s) :
    ∃ h T p, (Prog2.runImpl { forest := f } P).2 = .ok ∧
      (Prog2.runImpl { forest := f } P).1.env[root]? = some h ∧
      (Prog2.runImpl { forest := f } P).1.forest.treeAt h = some T ∧
      toXmlString env T [] = .ok s ∧ parseString .document env s = .ok p ∧ p.tree = T ∧ p.env = env ∧
      deepEqual p.tree T = true ∧ toXmlString p.env p.tree [] = .ok s := by
  obtain ⟨o1, _, h, _, eh, _, _, th⟩ := C20_any_program f P root d hc inv hfl
  obtain ⟨p, k1, k2, k3, k4⟩ := C20_parse_route env d hr s hs
  exact ⟨h, treeOf d, p, o1, eh, th, hs, k1, k2, k3, k4, by rw [k2, k3]; exact hs⟩

/-- **Conversely**: an extended program every step of which the implementation answers `ok` is well-formed
    for the specification, with the same final state (then `C20_program_refines` / `C20_any_program`
    apply).  `Prog2.inScope`: what `Prog.inScope` excludes, and `detach` / `remove` of a node that does not
    exist any more (the model answers `ok` and changes nothing). -/
theorem C20_any_program_conv (s : Prog.State) (P : Prog2.Program) (inv : s.forest.Inv)
    (hfl : Prog.FlagsOk s.forest) (hsc : Prog2.inScope s P = true) (hok : (Prog2.runImpl s P).2 = .ok) :
    Prog2.runSpec s P = some (Prog2.runImpl s P).1 :=
  Prog2.run_impl_spec P s inv hfl hsc hok

/-- **Refusals are exact** for extended programs: the first step the implementation does not answer `ok`
    is the first step the specification calls ill-formed — the ordered-tree tests `Prog2.replaceOk`,
    `wrapOk`, `unwrapOk` and the kind tests of the setters are exactly xot's argument checks, and after
    them nothing goes wrong. -/
theorem C20_program_refusal_exact (s : Prog.State) (P : Prog2.Program) (inv : s.forest.Inv)
    (hfl : Prog.FlagsOk s.forest) (hsc : Prog2.inScope s P = true) :
    Prog2.firstRefused s P = Prog2.firstIllFormed s P :=
  Prog2.firstRefused_eq P s inv hfl hsc

/-- The well-formedness tests of the composite calls against xot's outcome, one call at a time. -/
theorem C20_program_checks (f : Forest) (inv : f.Inv) (hfl : Prog.FlagsOk f) :
    (∀ a b, Prog2.replaceOk f a b = true ↔ (f.replace a b).2 = .ok) ∧
    (∀ n name, Prog2.wrapOk f n = true ↔ (f.elementWrap n name).2.1 = .ok) ∧
    (∀ n, Prog2.unwrapOk f n = true ↔ (f.elementUnwrap n).2 = .ok) :=
  ⟨fun _ _ => ⟨Prog2.replace_ok inv (Prog.normal_of_flags inv hfl), Prog2.replaceOk_of_ok⟩,
   fun _ name => ⟨Prog2.elementWrap_ok name inv (Prog.normal_of_flags inv hfl), Prog2.wrapOk_of_ok⟩,
   fun _ => ⟨Prog2.elementUnwrap_ok inv, Prog2.unwrapOk_of_ok⟩⟩

/-- The eight-step programs are the extended programs without a new step (the extension is
    conservative): same run on the specification, same run on the implementation. -/
theorem C20_program_base (s : Prog.State) (P : Prog.Program) :
    Prog2.runSpec s (Prog2.ofBase P) = Prog.runSpec s P ∧ Prog2.runImpl s (Prog2.ofBase P) = Prog.runImpl s P := by
  induction P generalizing s with
  | nil => exact ⟨rfl, rfl⟩
  | cons st rest ih =>
    have e1 : Prog2.stepSpec s (.base st) = Prog.stepSpec s st := by
      unfold Prog2.stepSpec Prog.stepSpec
      simp only [Prog2.Step.resolve]
      cases st.resolve s.env <;> rfl
    have e2 : Prog2.stepImpl s (.base st) = Prog.stepImpl s st := by
      unfold Prog2.stepImpl Prog.stepImpl
      simp only [Prog2.Step.resolve]
      cases st.resolve s.env <;> rfl
    constructor
    · simp only [Prog2.ofBase, List.map_cons, Prog2.runSpec, Prog.runSpec, e1]
      cases Prog.stepSpec s st with
      | none => rfl
      | some s1 => exact (ih s1).1
    · simp only [Prog2.ofBase, List.map_cons, Prog2.runImpl, Prog.runImpl, e2]
      cases h : Prog.stepImpl s st with
      | mk s1 r =>
        cases r with
        | ok => exact (ih s1).2
        | err e => rfl
        | panic => rfl

theorem C20_program_base_constructs (f : Forest) (P : Prog.Program) (root : Nat) (d : FDocument)
    (h : Prog.Constructs f P root d) : Prog2.Constructs f (Prog2.ofBase P) root d := by
  obtain ⟨s', hs, x⟩ := h
  exact ⟨s', by rw [(C20_program_base _ P).1]; exact hs, x⟩

/-! ### Non-vacuity: `<!--l--><a c="v">x<b/>yz</a>` (`docC`) by a program that uses every new kind of step

  `?` is wrapped in the element `a`; a placeholder comment `p` and a helper wrapper `W[yz]` are appended;
  `W` is unwrapped; a template element is cloned, the copy renamed to `b` and put in the place of the
  placeholder; the template is removed; the text is set to `x`; the attribute is set; the document node
  is created last, the leading comment appended at the wrong place, detached and inserted before `a`. -/

def progX : Prog2.Program :=
  [.base (.create (.text ['?'])),          -- 0
   .wrap 0 2,                              -- 1: <a>?</a>
   .base (.create (.comment ['p'])),       -- 2
   .base (.append 1 2),
   .base (.create (.element 9)),           -- 3: helper wrapper
   .base (.create (.text ['y', 'z'])),     -- 4
   .base (.append 3 4),
   .base (.append 1 3),                    -- <a>?<!--p--><W>yz</W></a>
   .unwrap 3,                              -- <a>?<!--p-->yz</a>
   .base (.create (.element 7)),           -- 5: template
   .clone 5,                               -- 6
   .setElementName 6 3,
   .replace 2 6,                           -- <a>?<b/>yz</a>
   .remove 5,
   .setText 0 ['x'],
   .base (.setAttribute 1 4 ['v']),
   .base (.create (.comment ['?'])),       -- 7
   .setComment 7 ['l'],
   .base (.create .document),              -- 8
   .base (.append 8 1),
   .base (.append 8 7),                    -- at the wrong place
   .detach 7,
   .base (.insertBefore 1 7)]

theorem C20_progX_constructs : Prog2.Constructs Forest.init progX 8 docC := by
  have h : ∃ s', Prog2.runSpec { forest := Forest.init } progX = some s' := by
    cases hs : Prog2.runSpec { forest := Forest.init } progX with
    | some s' => exact ⟨s', rfl⟩
    | none =>
      have : (Prog2.runSpec { forest := Forest.init } progX).isSome = true := by decide +kernel
      rw [hs] at this; cases this
  obtain ⟨s', hs⟩ := h
  have h2 : (Prog2.runSpec { forest := Forest.init } progX).map
      (fun s' => (s'.env[8]?).bind s'.forest.treeAt) = some (some (treeOf docC)) := by decide +kernel
  rw [hs] at h2
  simp only [Option.map_some, Option.some.injEq] at h2
  refine ⟨s', hs, ?_⟩
  cases he : s'.env[8]? with
  | none => rw [he] at h2; cases h2
  | some h => rw [he] at h2; exact ⟨h, rfl, h2⟩

/-- `C20_any_program` applied; nothing is left over but the document; and the eight-step program `progC`
    (embedded) and `progX` agree. -/
example : (Prog2.runImpl { forest := Forest.init } progX).2 = .ok ∧
    ∃ h, (Prog2.runImpl { forest := Forest.init } progX).1.env[8]? = some h ∧
      (Prog2.runImpl { forest := Forest.init } progX).1.forest.treeAt h = some (treeOf docC) := by
  obtain ⟨a, _, h, _, b, _, _, c⟩ := C20_any_program Forest.init progX 8 docC C20_progX_constructs C20_init_inv.1 C20_init_inv.2
  exact ⟨a, h, b, c⟩

example : (Prog2.runImplF Forest.init progX).2 = .ok ∧
    (Prog2.runImplF Forest.init progX).1.content = [treeOf docC] ∧
    (Prog2.runSpecF Forest.init progX).map Forest.content = some [treeOf docC] := by
  decide +kernel

example : Prog2.inScope { forest := Forest.init } progX = true ∧
    Prog2.firstRefused { forest := Forest.init } progX = none ∧
    Prog2.firstRefused { forest := Forest.init } [.base (.create (.element 2)), .setText 0 ['x']] = some 1 ∧
    Prog2.firstIllFormed { forest := Forest.init } [.base (.create (.element 2)), .setText 0 ['x']] = some 1 := by
  decide +kernel

example : ∃ a b, (Prog2.runImpl { forest := Forest.init } progX).1.env[8]? = some a ∧
    (Prog2.runImpl { forest := Forest.init } (Prog2.ofBase progC)).1.env[6]? = some b ∧
    (Prog2.runImpl { forest := Forest.init } (Prog2.ofBase progC)).1.forest.treeAt b =
      (Prog2.runImpl { forest := Forest.init } progX).1.forest.treeAt a := by
  obtain ⟨_, _, a, b, ea, eb, _, e, _⟩ := C20_programs_agree id Forest.init progX (Prog2.ofBase progC) 8 6 docC
    C20_progX_constructs (C20_program_base_constructs _ _ _ _ C20_progC_constructs.1) C20_init_inv.1 C20_init_inv.2
  exact ⟨a, b, ea, eb, e⟩

/-- Ill-formed steps are refused at the same place: wrapping a comment that is a child of a document node
    (xot: `InvalidOperation`), replacing a node by its own ancestor, unwrapping a parentless element that
    has children, setting the text of an element. -/
example :
    Prog2.runSpec { forest := Forest.init } [.base (.create .document), .base (.create (.comment [])), .base (.append 0 1), .wrap 1 2] = none ∧
    (Prog2.runImpl { forest := Forest.init } [.base (.create .document), .base (.create (.comment [])), .base (.append 0 1), .wrap 1 2]).2 = .err .invalidOperation ∧
    Prog2.runSpec { forest := Forest.init } [.base (.create (.element 2)), .base (.create (.text [])), .base (.append 0 1), .replace 1 0] = none ∧
    (Prog2.runImpl { forest := Forest.init } [.base (.create (.element 2)), .base (.create (.text [])), .base (.append 0 1), .replace 1 0]).2 = .err .invalidOperation ∧
    Prog2.runSpec { forest := Forest.init } [.base (.create (.element 2)), .base (.create (.text [])), .base (.append 0 1), .unwrap 0] = none ∧
    (Prog2.runImpl { forest := Forest.init } [.base (.create (.element 2)), .base (.create (.text [])), .base (.append 0 1), .unwrap 0]).2 = .err .invalidOperation ∧
    Prog2.runSpec { forest := Forest.init } [.base (.create (.element 2)), .setText 0 ['x']] = none ∧
    (Prog2.runImpl { forest := Forest.init } [.base (.create (.element 2)), .setText 0 ['x']]).2 = .err .invalidOperation := by
  decide +kernel

end XotModel.Props

/-! # ================================================================================================
    # CONSTRUCTION PROGRAMS WITH NAVIGATION AND INPUTS (branch wt-prognav)
    # ================================================================================================

  `Model/FanyorderSpec3.lean` (`Prog3`): the extended programs (`Prog2`, embedded as `Step.old`, run
  identically: `C20_program3_old`) can only name nodes they created themselves.  A `Prog3` program starts
  with INPUTS (`State.env` = some nodes of the store it is run in — roots of trees that were there before,
  e.g. a parsed document, or any other node) and has NAVIGATION steps whose result is a new named node:
  `child r k` (`children(r).nth(k)`), `parent r`, `attrNode r name` (`attributes(r).get_node(name)`),
  `nsNode r prefix` (`namespaces(r).get_node(prefix)`), `r` an input or an earlier result — so the inside of
  a cloned template and of a tree that was in the store before can be edited.  New update steps:
  `removeAttribute`, `removeNamespace`, `clearAttributes`, `clearNamespaces` (`MutableNodeMap::remove` /
  `clear`), `nsSetNamespace` (`namespace_node_mut().set_namespace`), `piSetTarget`
  (`processing_instruction_mut().set_target`; `set_data` is `Prog2.Step.setPiData`).

  The DENOTATION of a program (`Prog3.denote` / `denoteAt`) is a list of pure trees (`Tree`, no node names):
  the program is run on the ordered-tree specification (C05's, as for `Prog2`; removing an entry =
  `specRemoveP` of the entry node, the setters = `specSetValue`) and the tree of the ROOT every input /
  result lies in — or the subtree of one designated result — is read off with `HTree.erase`.  NOT done: a
  denotation that is computed on `Tree`s alone (no named nodes inside the computation); see `not_proved`. -/

namespace XotModel.Props
open XotModel

/-- **Refinement along a whole program with navigation**: a program the specification accepts is carried
    out by the implementation without a refusal — every navigation finds a node — and the implementation's
    final state IS the specification's (trees, node names, results); `Forest.Inv` holds at the end. -/
theorem C20_program3_refines (s s' : Prog.State) (P : Prog3.Program) (inv : s.forest.Inv)
    (hfl : Prog.FlagsOk s.forest) (h : Prog3.runSpec s P = some s') :
    Prog3.runImpl s P = (s', .ok) ∧ s'.forest.Inv ∧ Prog.FlagsOk s'.forest :=
  Prog3.run_spec_impl P s s' inv hfl h

/-- One call (navigation resolved): accepted by the specification ⇒ answered `ok`, with the specification's
    store and result; invariant and flags kept. -/
theorem C20_program3_call (f f' : Forest) (c : Prog3.Call) (o : Option Nat) (inv : f.Inv) (hfl : Prog.FlagsOk f)
    (h : c.spec f = some (f', o)) : c.impl f = (f', .ok, o) ∧ f'.Inv ∧ Prog.FlagsOk f' := by
  obtain ⟨e, i, a, b⟩ := Prog3.call_spec_impl inv hfl h
  exact ⟨e, i, hfl.of_eq a b⟩

/-- **C20_any_program3**: for ANY store `f` satisfying `Forest.Inv` (and the flag condition), any inputs
    `ins` and any program with navigation that has a denotation `D` (= the specification accepts every
    step): the forest model answers `ok` at every step, the final store satisfies the invariant, and the
    final ROOT TREE of every input and result is the tree the program denotes. -/
theorem C20_any_program3 (f : Forest) (ins : List Nat) (P : Prog3.Program) (D : List (Option Tree))
    (hd : Prog3.denote f ins P = some D) (inv : f.Inv) (hfl : Prog.FlagsOk f) :
    (Prog3.runImpl { forest := f, env := ins } P).2 = .ok ∧
    (Prog3.runImpl { forest := f, env := ins } P).1.forest.Inv ∧
    Prog3.rootTrees (Prog3.runImpl { forest := f, env := ins } P).1 = D := by
  unfold Prog3.denote at hd
  cases hs : Prog3.runSpec { forest := f, env := ins } P with
  | none => rw [hs] at hd; cases hd
  | some s' =>
    rw [hs] at hd
    simp only [Option.map_some, Option.some.injEq] at hd
    obtain ⟨e, i, _⟩ := Prog3.run_spec_impl P _ s' inv hfl hs
    rw [e]
    exact ⟨rfl, i, hd⟩

/-- … and for one designated result (the shape of `C20_any_program`): if the program ends in the tree `T`
    at the result `root` according to the denotation, the model's run is `ok` throughout and that result is
    the root of a subtree erasing to `T`. -/
theorem C20_any_program3_at (f : Forest) (ins : List Nat) (P : Prog3.Program) (root : Nat) (T : Tree)
    (hc : Prog3.Constructs f ins P root T) (inv : f.Inv) (hfl : Prog.FlagsOk f) :
    (Prog3.runImpl { forest := f, env := ins } P).2 = .ok ∧
    (Prog3.runImpl { forest := f, env := ins } P).1.forest.Inv ∧
    ∃ h t, (Prog3.runImpl { forest := f, env := ins } P).1.env[root]? = some h ∧
      (Prog3.runImpl { forest := f, env := ins } P).1.forest.get? h = some t ∧ t.erase = T ∧
      (Prog3.runImpl { forest := f, env := ins } P).1.forest.treeAt h = some T := by
  unfold Prog3.Constructs Prog3.denoteAt at hc
  cases hs : Prog3.runSpec { forest := f, env := ins } P with
  | none => rw [hs] at hc; cases hc
  | some s' =>
    rw [hs] at hc
    simp only at hc
    obtain ⟨e, i, _⟩ := Prog3.run_spec_impl P _ s' inv hfl hs
    rw [e]
    refine ⟨rfl, i, ?_⟩
    cases he : s'.env[root]? with
    | none => rw [he] at hc; cases hc
    | some h =>
      rw [he] at hc
      simp only at hc
      have hc' := hc
      unfold Forest.treeAt at hc'
      cases hg : s'.forest.get? h with
      | none => rw [hg] at hc'; cases hc'
      | some t =>
        rw [hg] at hc'
        exact ⟨h, t, rfl, hg, Option.some.inj hc', hc⟩

/-- **C20_programs3_agree**: two programs with the same denotation at their designated results — run in
    the same store or in two different stores, with different inputs, one building top-down from nothing,
    one editing a parsed document in place through navigation, one going bottom-up through clones — are both
    carried out, and the two results carry the same tree: `deep_equal`, same declarations, and for any
    observation `obs` of the erased tree (the serialiser) the same answer. -/
theorem C20_programs3_agree {α : Type} (obs : Tree → α) (f1 f2 : Forest) (ins1 ins2 : List Nat)
    (P1 P2 : Prog3.Program) (r1 r2 : Nat) (T : Tree)
    (h1 : Prog3.Constructs f1 ins1 P1 r1 T) (h2 : Prog3.Constructs f2 ins2 P2 r2 T)
    (inv1 : f1.Inv) (hfl1 : Prog.FlagsOk f1) (inv2 : f2.Inv) (hfl2 : Prog.FlagsOk f2) :
    (Prog3.runImpl { forest := f1, env := ins1 } P1).2 = .ok ∧
    (Prog3.runImpl { forest := f2, env := ins2 } P2).2 = .ok ∧
    ∃ a b, (Prog3.runImpl { forest := f1, env := ins1 } P1).1.env[r1]? = some a ∧
      (Prog3.runImpl { forest := f2, env := ins2 } P2).1.env[r2]? = some b ∧
      (Prog3.runImpl { forest := f1, env := ins1 } P1).1.forest.treeAt a = some T ∧
      (Prog3.runImpl { forest := f2, env := ins2 } P2).1.forest.treeAt b =
        (Prog3.runImpl { forest := f1, env := ins1 } P1).1.forest.treeAt a ∧
      ((Prog3.runImpl { forest := f1, env := ins1 } P1).1.forest.treeAt a).map obs =
        ((Prog3.runImpl { forest := f2, env := ins2 } P2).1.forest.treeAt b).map obs := by
  obtain ⟨o1, _, a, _, ea, _, _, ta⟩ := C20_any_program3_at f1 ins1 P1 r1 T h1 inv1 hfl1
  obtain ⟨o2, _, b, _, eb, _, _, tb⟩ := C20_any_program3_at f2 ins2 P2 r2 T h2 inv2 hfl2
  exact ⟨o1, o2, a, b, ea, eb, ta, by rw [tb, ta], by rw [ta, tb]⟩

/-- … for ALL inputs and results at once: equal denotations give equal lists of final root trees. -/
theorem C20_programs3_agree_all (f1 f2 : Forest) (ins1 ins2 : List Nat) (P1 P2 : Prog3.Program)
    (D : List (Option Tree)) (h1 : Prog3.denote f1 ins1 P1 = some D) (h2 : Prog3.denote f2 ins2 P2 = some D)
    (inv1 : f1.Inv) (hfl1 : Prog.FlagsOk f1) (inv2 : f2.Inv) (hfl2 : Prog.FlagsOk f2) :
    (Prog3.runImpl { forest := f1, env := ins1 } P1).2 = .ok ∧
    (Prog3.runImpl { forest := f2, env := ins2 } P2).2 = .ok ∧
    Prog3.rootTrees (Prog3.runImpl { forest := f1, env := ins1 } P1).1 =
      Prog3.rootTrees (Prog3.runImpl { forest := f2, env := ins2 } P2).1 := by
  obtain ⟨o1, _, t1⟩ := C20_any_program3 f1 ins1 P1 D h1 inv1 hfl1
  obtain ⟨o2, _, t2⟩ := C20_any_program3 f2 ins2 P2 D h2 inv2 hfl2
  exact ⟨o1, o2, by rw [t1, t2]⟩

/-- A well-formed program has no refused and no ill-formed step (`firstRefused = firstIllFormed = none`). -/
theorem C20_program3_no_refusal (s s' : Prog.State) (P : Prog3.Program) (inv : s.forest.Inv)
    (hfl : Prog.FlagsOk s.forest) (h : Prog3.runSpec s P = some s') :
    Prog3.firstRefused s P = none ∧ Prog3.firstIllFormed s P = none :=
  Prog3.firstRefused_none P s s' inv hfl h

/-- **Conversely**: a program with navigation every step of which the implementation answers `ok` — in
    particular every navigation found a node — is accepted by the specification, with the same final state
    (then `C20_program3_refines` / `C20_any_program3` apply).  `Prog3.inScope`: what `Prog2.inScope` excludes
    (none of the new steps). -/
theorem C20_any_program3_conv (s : Prog.State) (P : Prog3.Program) (inv : s.forest.Inv)
    (hfl : Prog.FlagsOk s.forest) (hsc : Prog3.inScope s P = true) (hok : (Prog3.runImpl s P).2 = .ok) :
    Prog3.runSpec s P = some (Prog3.runImpl s P).1 :=
  Prog3.run_impl_spec P s inv hfl hsc hok

/-- … so an `ok` run HAS a denotation, and it is what the model's final store shows. -/
theorem C20_program3_ok_denotes (f : Forest) (ins : List Nat) (P : Prog3.Program) (inv : f.Inv)
    (hfl : Prog.FlagsOk f) (hsc : Prog3.inScope { forest := f, env := ins } P = true)
    (hok : (Prog3.runImpl { forest := f, env := ins } P).2 = .ok) :
    Prog3.denote f ins P = some (Prog3.rootTrees (Prog3.runImpl { forest := f, env := ins } P).1) := by
  unfold Prog3.denote
  rw [C20_any_program3_conv _ P inv hfl hsc hok]
  rfl

/-- **Refusals are exact** for programs with navigation: the first step the implementation does not answer
    `ok` — a failed navigation included — is the first step the specification calls ill-formed. -/
theorem C20_program3_refusal_exact (s : Prog.State) (P : Prog3.Program) (inv : s.forest.Inv)
    (hfl : Prog.FlagsOk s.forest) (hsc : Prog3.inScope s P = true) :
    Prog3.firstRefused s P = Prog3.firstIllFormed s P :=
  Prog3.firstRefused_eq P s inv hfl hsc

/-- Per call, acceptance by the specification is EXACTLY the model's outcome `ok` (navigation resolved; for
    the new calls `Prog3.Call.inScope` is `true`): `remove(key)` and `clear()` are well-formed on elements
    and nowhere else — the entry nodes `clear()` collected are all still there when their turn comes
    (`Prog3.clear_accepted`) —, `set_namespace` on namespace nodes, `set_target` on processing instructions. -/
theorem C20_program3_call_exact (f : Forest) (c : Prog3.Call) (inv : f.Inv) (hfl : Prog.FlagsOk f)
    (hs : c.inScope f = true) : (c.spec f).isSome = true ↔ (c.impl f).2.1 = .ok := by
  constructor
  · intro h
    cases hc : c.spec f with
    | none => rw [hc] at h; cases h
    | some fo =>
      obtain ⟨f', o⟩ := fo
      rw [(Prog3.call_spec_impl inv hfl hc).1]
  · intro h
    cases hi : c.impl f with
    | mk f' ro =>
      obtain ⟨r, o⟩ := ro
      rw [hi] at h
      simp only at h
      subst h
      obtain ⟨g, o', hsp⟩ := Prog3.spec_of_ok inv hfl c hs hi
      rw [hsp]; rfl

theorem C20_program3_clear_exact (f : Forest) (inv : f.Inv) (hfl : Prog.FlagsOk f) (k : Forest.MapKind) (e : Nat) :
    ((Prog3.Call.mapClear k e).spec f).isSome = f.isElement e :=
  Prog3.mapClear_spec_isSome inv hfl k e

/-- The extension is conservative: an extended program (`Prog2`) runs identically as a `Prog3` program … -/
theorem C20_program3_old (s : Prog.State) (P : Prog2.Program) :
    Prog3.runSpec s (Prog3.ofOld P) = Prog2.runSpec s P ∧ Prog3.runImpl s (Prog3.ofOld P) = Prog2.runImpl s P :=
  Prog3.run_old s P

/-- … and every `Prog2.Constructs` construction of an abstract document `d` is a `Prog3` construction of
    `treeOf d` (no inputs). -/
theorem C20_program3_old_constructs (f : Forest) (P : Prog2.Program) (root : Nat) (d : FDocument)
    (h : Prog2.Constructs f P root d) : Prog3.Constructs f [] (Prog3.ofOld P) root (treeOf d) := by
  obtain ⟨s', hs, x, hx, ht⟩ := h
  unfold Prog3.Constructs Prog3.denoteAt
  rw [(C20_program3_old _ P).1, hs]
  simp only [hx, ht]

/-- Navigation is a READ of the current store: what the steps resolve to. -/
theorem C20_program3_navigation (f : Forest) (env : List Nat) (r h : Nat) (hr : env[r]? = some h) :
    (∀ k, (Prog3.Step.child r k).resolve f env =
      ((((f.kidsOf h).filter (fun c => c.value.isNormal))[k]?).map (fun c => Prog3.Call.found c.handle))) ∧
    ((Prog3.Step.parent r).resolve f env = (f.parent? h).map Prog3.Call.found) ∧
    (∀ a, (Prog3.Step.attrNode r a).resolve f env =
      (f.mapGetNode .attributes h a).map (fun c => Prog3.Call.found c.handle)) ∧
    (∀ p, (Prog3.Step.nsNode r p).resolve f env =
      (f.mapGetNode .namespaces h p).map (fun c => Prog3.Call.found c.handle)) := by
  refine ⟨fun k => ?_, ?_, fun a => ?_, fun p => ?_⟩
  · simp only [Prog3.Step.resolve, Prog3.nav, hr, Prog3.childOf]
    cases ((f.kidsOf h).filter (fun c => c.value.isNormal))[k]? <;> rfl
  · simp only [Prog3.Step.resolve, Prog3.nav, hr, Prog3.parentOf]
    cases f.parent? h <;> rfl
  · simp only [Prog3.Step.resolve, Prog3.nav, hr, Prog3.entryNodeOf]
    cases f.mapGetNode .attributes h a <;> rfl
  · simp only [Prog3.Step.resolve, Prog3.nav, hr, Prog3.entryNodeOf]
    cases f.mapGetNode .namespaces h p <;> rfl

/-- **NOT PROVED — the full-strength, handle-free reading of the denotation.**  `Prog3.denote` is computed on
    the ordered-tree specification, whose nodes carry names; that the result does not depend on the names —
    two stores holding the same pure trees, with the inputs at the same places (`Prog3.SameUpToNames`), give
    the same denotation for every program — is what would make `denote` a function of `Tree`s and paths
    alone.  It needs the invariance of every specification function (`specMoveP`, `specRemoveP`,
    `specReplaceP`, `specUnwrapP`, `specWrap`, `specClone`, …) under renaming of handles; a closed instance
    is checked below (`storeN` against a renamed copy). -/
def C20_program3_handle_free_Statement : Prop :=
  ∀ (f1 f2 : Forest) (ins1 ins2 : List Nat) (P : Prog3.Program), f1.Inv → f2.Inv → Prog.FlagsOk f1 →
    Prog3.SameUpToNames f1 ins1 f2 ins2 → Prog3.denote f1 ins1 P = Prog3.denote f2 ins2 P

/-! ### Non-vacuity: `docC` = `<!--l--><a c="v">x<b/>yz</a>` once more, by EDITING A DOCUMENT IN PLACE

  The store `storeN` holds a document `<a xmlns:p="…" c="o" d="w">x<g>q</g><?t d?></a>` (as a parse would
  have left it) and a template `<T><b/>yz</T>`.  `progN` gets the document node and the template as inputs,
  navigates to the document element, its namespace node (`set_namespace`, then `clear`), its attribute
  node `c` (`set_value`), removes the attribute `d`, navigates to `<g>` and its text (removed), renames
  `<g>`, navigates to the PI (`set_target`), goes back up with `parent`, clones the template, navigates INTO
  THE COPY to the text `yz`, replaces the PI by it, removes the rest of the copy, and inserts a new comment
  before the document element. -/

def storeN : Forest :=
  { roots := [.node 0 .document [.node 1 (.element 2) [.node 2 (.namespace 2 3) [], .node 3 (.attribute 4 ['o']) [],
                .node 4 (.attribute 5 ['w']) [], .node 5 (.text ['x']) [],
                .node 6 (.element 7) [.node 7 (.text ['q']) []], .node 8 (.pi 17 (some ['d'])) []]],
              .node 9 (.element 9) [.node 10 (.element 3) [], .node 11 (.text ['y', 'z']) []]],
    next := 12 }

def progN : Prog3.Program :=
  [.child 0 0,                              -- 2: <a>
   .nsNode 2 2,                             -- 3: xmlns:p
   .nsSetNamespace 3 5,
   .clearNamespaces 2,
   .removeNamespace 2 2,                    -- nothing left to remove
   .attrNode 2 4,                           -- 4: c="o"
   .old (.setAttributeValue 4 ['v']),
   .removeAttribute 2 5,
   .child 2 1,                              -- 5: <g>
   .child 5 0,                              -- 6: q
   .old (.remove 6),
   .old (.setElementName 5 3),
   .child 2 2,                              -- 7: <?t d?>
   .piSetTarget 7 18,
   .parent 7,                               -- 8: <a> again
   .old (.clone 1),                         -- 9: copy of <T>
   .child 9 1,                              -- 10: yz inside the copy
   .old (.replace 7 10),
   .old (.remove 9),
   .old (.base (.create (.comment ['l']))), -- 11
   .old (.base (.insertBefore 8 11))]

theorem C20_storeN_inv : storeN.Inv ∧ Prog.FlagsOk storeN :=
  ⟨(Forest.inv_iff _).mp (by decide), Or.inl rfl⟩

/-- The editing program, the embedded eight-step program `progC` and the embedded extended program `progX`
    (both run next to the old trees, no inputs) denote the same tree `treeOf docC`. -/
theorem C20_progN_constructs :
    Prog3.Constructs storeN [0, 9] progN 0 (treeOf docC) ∧
    Prog3.Constructs storeN [] (Prog3.ofOld (Prog2.ofBase progC)) 6 (treeOf docC) ∧
    Prog3.Constructs Forest.init [] (Prog3.ofOld progX) 8 (treeOf docC) := by
  unfold Prog3.Constructs
  decide +kernel

/-- `C20_programs3_agree` applied: editing in place (in `storeN`) and building from nothing (in the empty
    store) give the same tree. -/
example : ∃ a b, (Prog3.runImpl { forest := storeN, env := [0, 9] } progN).1.env[0]? = some a ∧
    (Prog3.runImpl { forest := Forest.init, env := [] } (Prog3.ofOld progX)).1.env[8]? = some b ∧
    (Prog3.runImpl { forest := Forest.init, env := [] } (Prog3.ofOld progX)).1.forest.treeAt b =
      (Prog3.runImpl { forest := storeN, env := [0, 9] } progN).1.forest.treeAt a := by
  obtain ⟨_, _, a, b, ea, eb, _, e, _⟩ := C20_programs3_agree id storeN Forest.init [0, 9] [] progN (Prog3.ofOld progX) 0 8
    (treeOf docC) C20_progN_constructs.1 C20_progN_constructs.2.2 C20_storeN_inv.1 C20_storeN_inv.2
    C20_init_inv.1 C20_init_inv.2
  exact ⟨a, b, ea, eb, e⟩

/-- The whole denotation of `progN`: the document and all nodes navigated to inside it lie in the root tree
    `treeOf docC`; the template is untouched; removed nodes have no tree. -/
example :
    Prog3.denote storeN [0, 9] progN =
      some [some (treeOf docC), some (.node (.element 9) [.node (.element 3) [], .node (.text ['y', 'z']) []]),
            some (treeOf docC), none, some (treeOf docC), some (treeOf docC), none, none, some (treeOf docC),
            none, some (treeOf docC), some (treeOf docC)] ∧
    (Prog3.runImpl { forest := storeN, env := [0, 9] } progN).2 = .ok ∧
    Prog3.firstRefused { forest := storeN, env := [0, 9] } progN = none ∧
    Prog3.inScope { forest := storeN, env := [0, 9] } progN = true := by
  decide +kernel

/-- `storeN` with every node renamed (and another `next`): the same pure trees, the inputs at the same
    places — and `progN` has the same denotation (an instance of `C20_program3_handle_free_Statement`). -/
def storeN' : Forest :=
  { roots := [.node 40 .document [.node 7 (.element 2) [.node 31 (.namespace 2 3) [], .node 2 (.attribute 4 ['o']) [],
                .node 19 (.attribute 5 ['w']) [], .node 0 (.text ['x']) [],
                .node 12 (.element 7) [.node 11 (.text ['q']) []], .node 3 (.pi 17 (some ['d'])) []]],
              .node 25 (.element 9) [.node 5 (.element 3) [], .node 33 (.text ['y', 'z']) []]],
    next := 57 }

example : storeN'.inv = true ∧ Prog3.denote storeN' [40, 25] progN = Prog3.denote storeN [0, 9] progN ∧
    Prog3.denoteAt storeN' [40, 25] progN 0 = some (treeOf docC) := by
  decide +kernel

example : Prog3.SameUpToNames storeN [0, 9] storeN' [40, 25] :=
  ⟨by decide, rfl, rfl, by decide, by decide⟩

/-- Ill-formed programs are refused where the specification rejects them: a navigation that finds nothing
    (`children(a).nth(3)`, the parent of a root, a missing attribute / prefix) is `unwrap()` of `None`;
    `set_namespace` on an attribute node and `set_target` on a comment are `InvalidOperation`; `clear` of
    the attributes of a document node panics. -/
example :
    Prog3.runSpec { forest := storeN, env := [0, 9] } [.child 0 0, .child 2 3] = none ∧
    (Prog3.runImpl { forest := storeN, env := [0, 9] } [.child 0 0, .child 2 3]).2 = .panic ∧
    Prog3.firstRefused { forest := storeN, env := [0, 9] } [.child 0 0, .child 2 3] = some 1 ∧
    Prog3.firstIllFormed { forest := storeN, env := [0, 9] } [.child 0 0, .child 2 3] = some 1 ∧
    Prog3.runSpec { forest := storeN, env := [0, 9] } [.parent 1] = none ∧
    (Prog3.runImpl { forest := storeN, env := [0, 9] } [.parent 1]).2 = .panic ∧
    Prog3.runSpec { forest := storeN, env := [0, 9] } [.child 0 0, .attrNode 2 7] = none ∧
    Prog3.runSpec { forest := storeN, env := [0, 9] } [.child 0 0, .nsNode 2 0] = none ∧
    Prog3.runSpec { forest := storeN, env := [0, 9] } [.child 0 0, .attrNode 2 4, .nsSetNamespace 3 2] = none ∧
    (Prog3.runImpl { forest := storeN, env := [0, 9] } [.child 0 0, .attrNode 2 4, .nsSetNamespace 3 2]).2 =
      .err .invalidOperation ∧
    Prog3.runSpec { forest := storeN, env := [0, 9] } [.clearAttributes 0] = none ∧
    (Prog3.runImpl { forest := storeN, env := [0, 9] } [.clearAttributes 0]).2 = .panic := by
  decide +kernel

end XotModel.Props
