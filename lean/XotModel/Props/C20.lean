/-
  C20 — The same document built three ways is the same tree.  Property theorems only.

  Abstract documents (`FDocument`, Model/Fixed.lean) mirror `fixed::Document`; names, prefixes and
  namespaces are the interning ids (`add_name_ns` / `add_prefix` / `add_namespace` are the identity
  on ids; that interning is a stable bijection is C08).  `treeOf d` is the tree `d` denotes: a
  document node whose children are the `before` items, the document element, the `after` items, in
  that order; an element's children are its namespace nodes, its attribute nodes, its content.

  Hypothesis on the document, `d.wf strict` with `strict` = the store's text-consolidation flag:
  * per element, pairwise distinct prefixes and pairwise distinct attribute names — the node-map
    `insert` of a key that is already present updates the existing node instead of adding one, so
    a repeated key would give fewer nodes than `treeOf d` has;
  * when consolidation is on, no two adjacent text children — `append` / `prepend` /
    `insert_before` merge a text node into an adjacent text node, so `treeOf d` (which does not
    merge) would differ.  With consolidation off nothing is required of text.
  Empty text items are NOT excluded: every API route creates and keeps an empty text node.  They
  only matter for the parse route (an empty text node serialises to nothing), which is checked on
  the implementation by the `ffixed` suite, not proved here (`FContent.noEmptyText`).

  Hypothesis on the store: ANY forest whose handles are pairwise distinct and below `next`
  (`Good f`; implied by the C04 invariant `Forest.Inv`, `C20_good_of_inv`) — not only the empty
  one.  Every route adds exactly one new root and leaves every other tree, the flags and all
  existing handles alone, and never panics (`RouteOk`).

  From a store satisfying `Forest.Inv` every route ends in a store satisfying `Forest.Inv`
  (`C20_inv_preserved`: the new tree is structurally valid in the sense of C04).

  Not proved here: the parse route (serialise, then parse: C01 / C02 with the tokenizer contract;
  checked on the implementation by the `ffixed` suite), and construction programs other than the
  three given orders.
-/
import XotModel.Lemmas.FfixedValid

namespace XotModel.Props
open XotModel

/-- Well-formedness of an abstract document relative to a store (see the header). -/
def FWellFormed (f : Forest) (d : FDocument) : Prop := d.wf f.consolidation = true

/-- What every construction route delivers: it does not panic; the store afterwards is the store
    before plus ONE new root `t` (flags and all other trees unchanged, `next` advanced by the
    number of nodes); the returned handle is `t`'s; `t` erases to `treeOf d`; looking the handle up
    gives that tree; handles stay pairwise distinct and below `next`. -/
def RouteOk (route : Forest → FDocument → Option (Forest × Nat)) (f : Forest) (d : FDocument) : Prop :=
  ∃ t : HTree,
    route f d = some ({ f with roots := f.roots ++ [t], next := f.next + d.size }, t.handle) ∧
    t.erase = treeOf d ∧
    ({ f with roots := f.roots ++ [t], next := f.next + d.size } : Forest).treeAt t.handle = some (treeOf d) ∧
    Good { f with roots := f.roots ++ [t], next := f.next + d.size }

/-- The C04 invariant gives what the construction routes need (`Good`: handles pairwise distinct
    and below `next`). -/
theorem C20_good_of_inv (f : Forest) (h : f.Inv) : Good f :=
  Good.of_nodup_below h.nodup h.below

/-- `fixed::Element::xotify` (and `Content::xotify`) from any store with distinct handles: no
    panic, one new root whose handle is returned, that root erases to the element's tree, the
    rest is untouched. -/
theorem C20_fixed_element (f : Forest) (e : FElement) (hg : Good f)
    (hwf : e.toContent.wf f.consolidation = true) :
    ∃ t : HTree,
      f.xotifyElement e =
        some ({ f with roots := f.roots ++ [t], next := f.next + e.toContent.size }, t.handle) ∧
      t.erase = treeOfContent e.toContent ∧
      ({ f with roots := f.roots ++ [t], next := f.next + e.toContent.size } : Forest).treeAt t.handle
        = some (treeOfContent e.toContent) ∧
      Good { f with roots := f.roots ++ [t], next := f.next + e.toContent.size } := by
  obtain ⟨t, hb, hx⟩ := Forest.xotifyContent_spec e.toContent f hg hwf
  have hg' := Forest.good_add_root hg hb
  refine ⟨t, ?_, hb.erase, ?_, hg'⟩
  · unfold Forest.xotifyElement; rw [hx, hb.handle]
  · rw [Forest.treeAt_new_root f t _ hg', hb.erase]

theorem C20_routeOk_of_spec {route : Forest → FDocument → Option (Forest × Nat)} {f : Forest} {d : FDocument}
    (h : ∃ t, route f d = some ({ f with roots := f.roots ++ [t], next := f.next + d.size }, t.handle) ∧
        t.erase = treeOf d ∧ Good { f with roots := f.roots ++ [t], next := f.next + d.size }) :
    RouteOk route f d := by
  obtain ⟨t, hx, he, hg'⟩ := h
  exact ⟨t, hx, he, by rw [Forest.treeAt_new_root f t _ hg', he], hg'⟩

/-- `fixed::Document::xotify`: the result is one new document root that erases to `treeOf d` — the
    `before` and `after` items are siblings of the document element, before and after it, in the
    given order. -/
theorem C20_fixed (f : Forest) (d : FDocument) (hg : Good f) (hwf : FWellFormed f d) :
    RouteOk Forest.xotifyDocument f d :=
  C20_routeOk_of_spec (Forest.xotifyDocument_spec f d hg hwf)

/-- Top-down: create a node, append it to its already attached parent, descend; left to right. -/
theorem C20_topdown (f : Forest) (d : FDocument) (hg : Good f) (hwf : FWellFormed f d) :
    RouteOk Forest.topDownDocument f d :=
  C20_routeOk_of_spec (Forest.topDownDocument_spec f d hg hwf)

/-- Bottom-up: children first (each finished), then the parent, then `append` in order. -/
theorem C20_bottomup (f : Forest) (d : FDocument) (hg : Good f) (hwf : FWellFormed f d) :
    RouteOk Forest.bottomUpDocument f d :=
  C20_routeOk_of_spec (Forest.bottomUpDocument_spec f d hg hwf)

/-- Right-to-left: the last child is attached with `prepend`, every earlier one with
    `insert_before` the sibling attached just before. -/
theorem C20_rtl (f : Forest) (d : FDocument) (hg : Good f) (hwf : FWellFormed f d) :
    RouteOk Forest.rtlDocument f d :=
  C20_routeOk_of_spec (Forest.rtlDocument_spec f d hg hwf)

/-- All four routes succeed and give the same tree (namely `treeOf d`), whatever else the store
    holds. -/
theorem C20_routes_agree (f : Forest) (d : FDocument) (hg : Good f) (hwf : FWellFormed f d) :
    ∃ fa ra ft rt fb rb fr rr,
      f.xotifyDocument d = some (fa, ra) ∧ f.topDownDocument d = some (ft, rt) ∧
      f.bottomUpDocument d = some (fb, rb) ∧ f.rtlDocument d = some (fr, rr) ∧
      fa.treeAt ra = some (treeOf d) ∧ ft.treeAt rt = fa.treeAt ra ∧
      fb.treeAt rb = fa.treeAt ra ∧ fr.treeAt rr = fa.treeAt ra := by
  obtain ⟨ta, ha, _, hta, _⟩ := C20_fixed f d hg hwf
  obtain ⟨tt, ht, _, htt, _⟩ := C20_topdown f d hg hwf
  obtain ⟨tb, hb, _, htb, _⟩ := C20_bottomup f d hg hwf
  obtain ⟨tr, hr, _, htr, _⟩ := C20_rtl f d hg hwf
  exact ⟨_, _, _, _, _, _, _, _, ha, ht, hb, hr, hta, by rw [htt, hta], by rw [htb, hta], by rw [htr, hta]⟩

/-- The routes can be run one after another in the same store (as the `ffixed` suite does): each
    leaves a store the next one accepts, with the same consolidation flag. -/
theorem C20_routes_compose (route : Forest → FDocument → Option (Forest × Nat)) (f : Forest)
    (d : FDocument) (h : RouteOk route f d) :
    ∃ f' root, route f d = some (f', root) ∧ Good f' ∧ f'.consolidation = f.consolidation ∧
      (∀ r ∈ f.roots, r ∈ f'.roots) := by
  obtain ⟨t, hx, _, _, hg'⟩ := h
  exact ⟨_, _, hx, hg', rfl, fun r hr => List.mem_append_left _ hr⟩

/-- From the C04 invariant to the C04 invariant: the tree a route adds is structurally valid
    (children ordered namespaces / attributes / normal, unique keys, no adjacent text while
    consolidation has never been off, leaves are leaves), its handles are fresh. -/
theorem C20_inv_preserved (route : Forest → FDocument → Option (Forest × Nat)) (f : Forest)
    (d : FDocument) (hinv : f.Inv) (hwf : FWellFormed f d) (h : RouteOk route f d) :
    ∃ f' root, route f d = some (f', root) ∧ f'.Inv ∧ f'.treeAt root = some (treeOf d) := by
  obtain ⟨t, hx, he, ht, hg'⟩ := h
  exact ⟨_, _, hx, Forest.inv_add_root f hinv d t _ he hwf hg', ht⟩

/-- The statement in the form of the property text, from the empty store. -/
theorem C20_fixed_init (d : FDocument) (hwf : d.wf true = true) (f : Forest) (root : Nat)
    (h : Forest.init.xotifyDocument d = some (f, root)) : f.treeAt root = some (treeOf d) := by
  have hinv : Forest.init.Inv := (Forest.inv_iff _).1 (by decide)
  obtain ⟨t, hx, _, ht, _⟩ := C20_fixed Forest.init d (C20_good_of_inv _ hinv) hwf
  rw [hx] at h
  cases h
  exact ht

/-- Non-vacuity: a well-formed document with leading and trailing items, namespaces, attributes,
    nested content; and a store that satisfies the invariant and is not empty. -/
example :
    ({ roots := [.node 0 (.element 2) [.node 1 (.text ['t']) []], .node 2 (.comment []) []], next := 3 } : Forest).inv = true ∧
    ({ before := [.comment ['a'], .pi 17 none], documentElement := { name := 2, prefixes := [(2, 3), (0, 2)], attributes := [(3, ['v']), (4, [])], children := [.text ['x'], .element 3 [(2, 2)] [(3, ['w'])] [.comment [], .text ['y']], .text ['z']] }, after := [.pi 17 (some ['q']), .comment ['b']] } : FDocument).wf true = true := by
  decide

end XotModel.Props
