/-
  C20 — The same document built three ways is the same tree.  Property theorems only.

  Abstract documents (`FDocument`, Model/Fixed.lean) mirror `fixed::Document`; names, prefixes and
  namespaces are the interning ids (`add_name_ns` / `add_prefix` / `add_namespace` are the identity
  on ids; that interning is a stable bijection is C08).  `treeOf d` is the tree `d` denotes: a
  document node whose children are the `before` items, the document element, the `after` items, in
  that order; an element's children are its namespace nodes, its attribute nodes, its content.

  Hypothesis on the document, `d.wf strict` with `strict` = the store's text-consolidation flag:
  * per element, pairwise distinct prefixes and pairwise distinct attribute names — the node-map
    `insert` of a key that is already present updates the existing node instead of adding one, so
    a repeated key would give fewer nodes than `treeOf d` has;
  * when consolidation is on, no two adjacent text children — `append` / `prepend` /
    `insert_before` merge a text node into an adjacent text node, so `treeOf d` (which does not
    merge) would differ.  With consolidation off nothing is required of text.
  Empty text items are NOT excluded: every API route creates and keeps an empty text node.  They
  only matter for the parse route (an empty text node serialises to nothing), which is checked on
  the implementation by the `ffixed` suite, not proved here (`FContent.noEmptyText`).

  Hypothesis on the store: any forest satisfying the C04 invariant `Forest.Inv` (only "handles
  pairwise distinct and below `next`" is used, `Good`); every route adds exactly one new root and
  leaves every other tree, the flags and all existing handles alone, and never panics.
-/
import XotModel.Lemmas.FfixedDocument2

namespace XotModel.Props
open XotModel

/-- Well-formedness of an abstract document relative to a store (see the header). -/
def FWellFormed (f : Forest) (d : FDocument) : Prop := d.wf f.consolidation = true

/-- The C04 invariant gives what the construction routes need. -/
theorem C20_good_of_inv (f : Forest) (h : f.Inv) : Good f :=
  Good.of_nodup_below h.nodup h.below

/-- `fixed::Element::xotify` (and `Content::xotify`) from any valid store: no panic, one new root
    whose handle is returned, that root erases to the element's tree, the rest is untouched. -/
theorem C20_fixed_element (f : Forest) (e : FElement) (hinv : f.Inv)
    (hwf : e.toContent.wf f.consolidation = true) :
    ∃ t : HTree,
      f.xotifyElement e =
        some ({ f with roots := f.roots ++ [t], next := f.next + e.toContent.size }, t.handle) ∧
      t.erase = treeOfContent e.toContent ∧
      ({ f with roots := f.roots ++ [t], next := f.next + e.toContent.size } : Forest).treeAt t.handle
        = some (treeOfContent e.toContent) ∧
      Good { f with roots := f.roots ++ [t], next := f.next + e.toContent.size } := by
  have hg := C20_good_of_inv f hinv
  obtain ⟨t, hb, hx⟩ := Forest.xotifyContent_spec e.toContent f hg hwf
  have hg' := Forest.good_add_root hg hb
  refine ⟨t, ?_, hb.erase, ?_, hg'⟩
  · unfold Forest.xotifyElement; rw [hx, hb.handle]
  · rw [Forest.treeAt_new_root f t _ hg', hb.erase]

/-- `fixed::Document::xotify` from any valid store: no panic; the result is one new document
    root that erases to `treeOf d` — the `before` and `after` items are siblings of the document
    element, before and after it, in the given order. -/
theorem C20_fixed (f : Forest) (d : FDocument) (hinv : f.Inv) (hwf : FWellFormed f d) :
    ∃ t : HTree,
      f.xotifyDocument d = some ({ f with roots := f.roots ++ [t], next := f.next + d.size }, t.handle) ∧
      t.erase = treeOf d ∧
      ({ f with roots := f.roots ++ [t], next := f.next + d.size } : Forest).treeAt t.handle
        = some (treeOf d) ∧
      Good { f with roots := f.roots ++ [t], next := f.next + d.size } := by
  obtain ⟨t, hx, he, hg'⟩ := Forest.xotifyDocument_spec f d (C20_good_of_inv f hinv) hwf
  exact ⟨t, hx, he, by rw [Forest.treeAt_new_root f t _ hg', he], hg'⟩

/-- The statement in the form of the property text, from the empty store. -/
theorem C20_fixed_init (d : FDocument) (hwf : d.wf true = true) (f : Forest) (root : Nat)
    (h : Forest.init.xotifyDocument d = some (f, root)) : f.treeAt root = some (treeOf d) := by
  have hinv : Forest.init.Inv := (Forest.inv_iff _).1 (by decide)
  obtain ⟨t, hx, _, ht, _⟩ := C20_fixed Forest.init d hinv hwf
  rw [hx] at h
  cases h
  exact ht

/-- Non-vacuity: a well-formed document with leading and trailing items, namespaces, attributes,
    nested content; and a store that satisfies the invariant and is not empty. -/
example :
    ({ roots := [.node 0 (.element 2) [.node 1 (.text ['t']) []], .node 2 (.comment []) []], next := 3 } : Forest).inv = true ∧
    ({ before := [.comment ['a'], .pi 17 none], documentElement := { name := 2, prefixes := [(2, 3), (0, 2)], attributes := [(3, ['v']), (4, [])], children := [.text ['x'], .element 3 [(2, 2)] [(3, ['w'])] [.comment [], .text ['y']], .text ['z']] }, after := [.pi 17 (some ['q']), .comment ['b']] } : FDocument).wf true = true := by
  decide

end XotModel.Props
