/-
  C14 — Serialisation options change the spelling, never the content.  Property theorems only.

  Character level: CDATA-section splitting and `unescaped_gt`, for every string.
-/
import XotModel.Lemmas.Entity

namespace XotModel.Props
open XotModel XotModel.Gen

/-- Obligations on the literals `extract.py` read off `serialize_cdata`. -/
theorem C14_cdata_literals :
    cdataOpen = ['<','!','[','C','D','A','T','A','['] ∧
    cdataSplit = [']',']',']',']','>'] ++ cdataOpen ++ ['>'] ∧
    cdataClose = [']',']','>'] := by decide

/-- `serialize_cdata s` is a sequence of well-formed CDATA sections — each one ends at its first
    `]]>`, so none contains `]]>` — whose contents concatenate to `s`; for every `s`, in particular
    every run of `]` and `>`. -/
theorem C14_cdata (s : Str) : cdataSectionsContent (serializeCdata s) = some s := by
  obtain ⟨hO, hS, hC⟩ := C14_cdata_literals
  have h := cdataGo_sections hO hS hC s 0 0 (by omega) (by intro; rfl)
  simp only [List.replicate_zero, List.nil_append, Nat.zero_add] at h
  unfold cdataSectionsContent serializeCdata
  rw [hO]
  simp only [List.cons_append, List.nil_append]
  rw [afterSection_open, h]

theorem C14_gt_tables :
    tableOk textEscapes = true ∧ tableCovers false textEscapes = true ∧
    refOk '>' textGtEscape = true ∧ tableNoGtBracket textEscapes = true ∧
    textGtEscape.contains '>' = false := by decide

/-- With `unescaped_gt` the text still decodes to the original value … -/
theorem C14_gt (s : Str) : parseText (serializeText true s) = .ok s := by
  obtain ⟨h1, h2, h3, _, _⟩ := C14_gt_tables
  unfold parseText parseContent serializeText
  simp only [if_true]
  rw [serializeTextGtGo_eq]
  simpa using gt_roundtrip h1 h2 h3 s [] 0 0

/-- … and never contains `]]>`, nor a raw `<`. -/
theorem C14_gt_no_cdata_end (s : Str) : hasCdataEnd (serializeText true s) = false := by
  obtain ⟨_, _, _, h4, h5⟩ := C14_gt_tables
  unfold serializeText
  simp only [if_true]
  rw [serializeTextGtGo_eq]
  exact gtOut_noCdataEnd h4 h5 s [] rfl

theorem C14_gt_lexsafe (s : Str) : '<' ∉ serializeText true s := by
  unfold serializeText
  simp only [if_true]
  rw [serializeTextGtGo_eq]
  simpa using gtOut_hides (c := '<') (by decide) (by decide) (by decide) s []

/-- Sanity: the pinned examples of the unit tests come out of the model. -/
example : serializeCdata [']',']','>'] = "<![CDATA[]]]]><![CDATA[>]]>".toList := by decide
example : serializeText true [']',']','>'] = "]]&gt;".toList := by decide

end XotModel.Props
