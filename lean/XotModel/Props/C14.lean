/-
  C14 — Serialisation options change the spelling, never the content.  Property theorems only.

  Character level: CDATA-section splitting and `unescaped_gt`, for every string.
  Tree level (Pretty): `C14_pretty_content*` — indentation only adds fields to the token stream, it
  never changes a token; `C14_pretty_where*` — the `Pretty` stack machine grants indentation / a
  newline only outside mixed / suppressed content and outside `xml:space="preserve"` scope, at
  every depth (full strength since /repo 98e9b00), on stacks and read off the tree.
  Doctype: `C14_doctype_*` — the doctype names the root element as its start tag spells it
  (since /repo 5f64b4d).
  Round trip (`C14_options_*`, Lemmas/SerOpt*.lean, LexDecl.lean): with any CDATA-section elements,
  `unescaped_gt` on or off, with or without an XML declaration, `parse(serialize_xml_string(doc))` is the
  original tree (reference tokenizer + builder, as C01_roundtrip); with indentation it is `prettyTree sup doc`
  (Lemmas/SerIndent*.lean, LexLines.lean): the original plus whitespace-only text nodes, none inside mixed
  or suppressed content nor in `xml:space="preserve"` scope (`C14_options_indent`, `C14_indent_where`).
  Inner start node (`C14_indent_inner_serialisation`, `C14_indent_roundtrip_inner(_nodes)`, Lemmas/SerIndentInner.lean):
  an ELEMENT anywhere inside a tree, serialised with indentation, gives the text of its standalone document
  (Model/InnerStartSpec.lean, as C01_roundtrip_inner) serialised with indentation, and parses to `prettyTree sup` of it.
  Normalizer (`C14_normalizer_*`, Model/Normalizer.lean, Lemmas/Normalizer*.lean): for EVERY caller-supplied
  normalizer `N`, `serialize_xml_string_with_normalizer` = `serialize_xml_string` of the tree with `N` applied
  to its text and attribute values — the normalizer runs BEFORE the escaping — under exactly two side
  conditions (`N` fixes the namespace URIs that get written; with indentation, `N` does not touch the meaning
  of `xml:space` values), both necessary; hence the round trips above for the normalised tree.
  Failing writer (`C14_write_ok_is_complete`): the Write entry point in front of a writer that may refuse any
  `write_all` call answers `Ok` only when the writer holds the complete string serialisation — a truncated
  document is never reported as a success, so every round trip above holds of whatever a successful
  `serialize_xml_write` left in ANY writer.
-/
import XotModel.Lemmas.Entity
import XotModel.Lemmas.Output
import XotModel.Lemmas.Pretty
import XotModel.Lemmas.PrettyWhere
import XotModel.Lemmas.Doctype
import XotModel.Lemmas.PrettyBetween
import XotModel.Lemmas.Prolog
import XotModel.Lemmas.XmlDeclRest
import XotModel.Lemmas.CdataToken
import XotModel.Lemmas.C14Proofs
import XotModel.Lemmas.SerOptDecl
import XotModel.Lemmas.SerIndentWhere
import XotModel.Lemmas.SerIndentInner
import XotModel.Lemmas.NormalizerFullwidth
import XotModel.Lemmas.WriterXml
import XotModel.Lemmas.SerIndentLeafParse
import XotModel.Lemmas.PrettyBytes
import XotModel.Props.C01

namespace XotModel.Props
open XotModel XotModel.Gen

/-- Obligations on the literals `extract.py` read off `serialize_cdata`. -/
theorem C14_cdata_literals :
    cdataOpen = ['<','!','[','C','D','A','T','A','['] ∧
    cdataSplit = [']',']',']',']','>'] ++ cdataOpen ++ ['>'] ∧
    cdataCr = [']',']','>'] ++ ['&','#','x','D',';'] ++ cdataOpen ∧
    cdataClose = [']',']','>'] := by decide

/-- The reference written between sections for a carriage return decodes to a carriage return. -/
theorem C14_cdata_cr_reference : refOk '\r' ['&','#','x','D',';'] = true := by decide

/-- `serialize_cdata s` is a sequence of well-formed CDATA sections — each one ends at its first
    `]]>`, so none contains `]]>` — with the reference `&#xD;` between sections for every carriage
    return; read back (section contents verbatim, the reference as CR) it spells `s`; for every
    `s`, in particular every run of `]` and `>`. -/
theorem C14_cdata (s : Str) : cdataSectionsContent (serializeCdata s) = some s :=
  cdata_sections_roundtrip s

theorem C14_gt_tables :
    tableOk textEscapes = true ∧ tableCovers false textEscapes = true ∧
    refOk '>' textGtEscape = true ∧ tableNoGtBracket textEscapes = true ∧
    textGtEscape.contains '>' = false := by decide

/-- With `unescaped_gt` the text still decodes to the original value … -/
theorem C14_gt (s : Str) : parseText (serializeText true s) = .ok s :=
  gt_text_roundtrip s

/-- … and never contains `]]>`, nor a raw `<`. -/
theorem C14_gt_no_cdata_end (s : Str) : hasCdataEnd (serializeText true s) = false :=
  gt_no_cdata_end s

theorem C14_gt_lexsafe (s : Str) : '<' ∉ serializeText true s := by
  unfold serializeText
  simp only [if_true]
  rw [serializeTextGtGo_eq]
  simpa using gtOut_hides (c := '<') (by decide) (by decide) (by decide) s []

/-- Sanity: the pinned examples of the unit tests come out of the model. -/
example : serializeCdata [']',']','>'] = "<![CDATA[]]]]><![CDATA[>]]>".toList := by decide
example : serializeText true [']',']','>'] = "]]&gt;".toList := by decide

/-! ### Pretty printing changes no token -/

/-- Erasing the indentation and newline fields of the pretty token stream gives back the plain
    token stream (same nodes, same events, same texts and space flags), for every tree, start
    node, parameter set and suppress list, and for arbitrary escaping functions. -/
theorem C14_pretty_content (esc : Escapers) (env : Env) (pr : TokenParams) (sup : List Nat) (t : Tree)
    (start : Path) (ks : List (Path × Output × PrettyOutputToken))
    (h : prettyTokensWith esc env pr sup t start = .ok ks) :
    tokensWith esc env pr t start = .ok (ks.map erasePretty) :=
  pretty_content esc env pr sup t start ks h

/-- Conversely: whenever the plain token stream exists, so does the pretty one, and it erases to it. -/
theorem C14_pretty_content_conv (esc : Escapers) (env : Env) (pr : TokenParams) (sup : List Nat)
    (t : Tree) (start : Path) (l : List (Path × Output × OutputToken))
    (h : tokensWith esc env pr t start = .ok l) :
    ∃ ks, prettyTokensWith esc env pr sup t start = .ok ks ∧ ks.map erasePretty = l :=
  pretty_content_conv esc env pr sup t start l h

/-- The pretty string therefore consists of the plain tokens plus, per token, `2·indentation`
    spaces in front and at most one line feed behind: nothing else is added or removed. -/
theorem C14_pretty_string (esc : Escapers) (env : Env) (pr : TokenParams) (sup : List Nat) (t : Tree)
    (start : Path) (s : Str) (h : serializePrettyWith esc env pr sup t start = .ok s) :
    ∃ ks : List (Path × Output × PrettyOutputToken),
      tokensWith esc env pr t start = .ok (ks.map erasePretty) ∧
      s = ks.flatMap (fun k => prettyTokenBytes k.2.2) ∧
      ∀ k ∈ ks, prettyTokenBytes k.2.2 =
        (if k.2.2.indentation > 0 then indentBytes k.2.2.indentation else [])
          ++ tokenBytes (erasePretty k).2.2 ++ (if k.2.2.newline then prettyNewline else []) :=
  pretty_string_bytes esc env pr sup t start s h

/-! ### Where `Pretty` grants whitespace (the stack machine of pretty.rs)

The stack holds one entry per open element that has children: `Mixed` when it has a text child or
is named in the suppress list, otherwise `Unmixed(xml:space of the element)`. -/

/-- A newline is granted only outside mixed / suppressed content and outside the scope of
    `xml:space="preserve"` (innermost `preserve` / `default` decides). -/
theorem C14_pretty_where_newline (ps : PStack) (h : ps.getNewline = true) :
    ps.inMixed = false ∧ ps.inSpacePreserve = false := by
  simpa [PStack.getNewline] using h

/-- Inside mixed or suppressed content (at any depth) there is neither indentation nor a newline. -/
theorem C14_pretty_where_mixed (ps : PStack) (h : ps.inMixed = true) :
    ps.getIndentation = 0 ∧ ps.getNewline = false := by
  simp [PStack.getIndentation, PStack.getNewline, h]

/-- What `StartTagClose` pushes for an element with children. -/
theorem C14_pretty_where_entry (sup : List Nat) (ps : PStack) (name : Nat) (ks : List Tree)
    (hc : (Tree.node (.element name) ks).firstChild?.isSome = true) :
    (prettify sup ps (.node (.element name) ks) .startTagClose).1 =
      (if hasInlineChild (.node (.element name) ks) || sup.contains name then StackEntry.mixed
       else StackEntry.unmixed (elementSpace (.node (.element name) ks))) :: ps :=
  pretty_where_entry sup ps name ks hc

/-- Placement rule, full strength (all stacks): indentation or a newline is granted only outside
    mixed / suppressed content and outside the scope of `xml:space="preserve"` (the innermost
    `preserve` / `default` among the open elements decides) — at any depth. -/
theorem C14_pretty_where (ps : PStack) (h : ps.getIndentation > 0 ∨ ps.getNewline = true) :
    ps.inMixed = false ∧ ps.inSpacePreserve = false := by
  rcases h with h | h
  · exact ⟨getIndentation_pos h, getIndentation_pos_preserve h⟩
  · exact ⟨getNewline_true h, getNewline_true_preserve h⟩

/-- The end tag of an element with children is indented only if the element itself is neither
    mixed / suppressed nor in `preserve` scope (decided before its entry is popped). -/
theorem C14_pretty_where_endtag (sup : List Nat) (ps : PStack) (node : Tree) (name : Nat)
    (hc : node.firstChild?.isSome = true)
    (h : (prettify sup ps node (.endTag name)).2.1 > 0) :
    ps.inMixed = false ∧ ps.inSpacePreserve = false := by
  simp only [prettify, hc, if_true] at h
  cases hm : ps.inMixed <;> cases hp : ps.inSpacePreserve <;> simp [hm, hp] at h ⊢

/-- The former witness of the defect, end to end: pretty-printing
    `<d><a xml:space="preserve"><b><c/></b></a></d>` (names: d=5, a=2, b=3, c=4; `xml:space` is
    name 0).  Per token: node, indentation, newline — nothing inside the `preserve` element `a`
    (node 0.0) is indented, its own end tag included, and no newline is written inside it. -/
example :
    (prettyTokens {} {} []
      (.node .document [.node (.element 5) [.node (.element 2)
        [.node (.attribute 0 Gen.spacePreserve) [], .node (.element 3) [.node (.element 4) []]]]]) []
      ).okValue?.map (fun l => l.map (fun k => (k.1, k.2.2.indentation, k.2.2.newline)))
    = some [([0], 0, false), ([0], 0, true),
            ([0, 0], 1, false), ([0, 0], 0, false), ([0, 0], 0, false),
            ([0, 0, 1], 0, false), ([0, 0, 1], 0, false),
            ([0, 0, 1, 0], 0, false), ([0, 0, 1, 0], 0, false), ([0, 0, 1, 0], 0, false),
            ([0, 0, 1], 0, false), ([0, 0], 0, true), ([0], 0, true)] := by decide

/-! ### The doctype writer -/

/-- XML 1.0 VC "Root Element Type", element-rooted serialisation: the name written in
    `<!DOCTYPE name …>` is the name written in the start tag of the element — the doctype writer
    spells it with the stack the serialiser holds there (for arbitrary escaping functions and
    token parameters). -/
theorem C14_doctype_element (esc : Escapers) (env : Env) (pr : TokenParams) (t : Tree) (start : Path)
    (name : Nat) (ks : List Tree) (hat : t.at? start = some (.node (.element name) ks))
    (dn : Str) (toks : List (Path × Output × OutputToken))
    (hd : doctypeName env t start = .ok dn)
    (ht : tokensWith esc env pr t start = .ok toks) :
    toks.head?.map (fun k => (k.1, k.2.1, k.2.2.text)) =
      some (start, Output.startTagOpen name, fmt Gen.fmtStartTagOpen [dn]) :=
  doctype_element esc env pr t start name ks hat dn toks hd ht

/-- Document-rooted serialisation: the stack the doctype writer builds for the document element
    (`namespaces_in_scope(element)` + the element's declarations) has the same top frame as the
    stack the serialiser holds after pushing that element's declarations onto
    `namespaces_in_scope(document)`; `element_fullname` reads only the top frame, and the events
    before the document element (comments, PIs) leave the stack alone (`C10_stack_traversal`). -/
theorem C14_doctype_document (t : Tree) (start : Path) (i : Nat) (doc el : Tree)
    (hdoc : t.at? start = some doc) (hel : t.at? (start ++ [i]) = some el) :
    (doctypeStack t (start ++ [i]) el).top = ((initStack t start).push el.nsDecls).top :=
  doctype_document_top t start i doc el hdoc hel

/-! ### The same rules read off the tree -/

/-- Traversal invariant of the `Pretty` stack: the indentation and newline of every pretty token
    are `prettify` evaluated on the entries of the open elements (those with children) between the
    start node and the token's node — `pentriesFor`, an explicit function of the tree; each such
    element contributes `Mixed` if it has a text child or is suppressed, else `Unmixed(xml:space)`. -/
theorem C14_pretty_where_tree (esc : Escapers) (env : Env) (pr : TokenParams) (sup : List Nat) (t : Tree)
    (start : Path) (n : Tree) (inScope : List (Nat × Nat)) (hat : t.at? start = some n)
    (hs : namespacesInScope t start = some inScope)
    (ks : List (Path × Output × PrettyOutputToken))
    (h : prettyTokensWith esc env pr sup t start = .ok ks)
    (k : Path × Output × PrettyOutputToken) (hk : k ∈ ks) :
    ∃ rel, k.1 = start ++ rel ∧
      (k.2.2.indentation, k.2.2.newline) =
        (prettifyAt sup t (pentriesFor sup k.2.1 n rel) k.1 k.2.1).2 := by
  obtain ⟨rel, h1, _, h2⟩ := pretty_token_entries sup t esc env pr start n inScope hat hs ks h k hk
  exact ⟨rel, h1, h2⟩

/-- Mixed content and suppress list, on trees, full strength: a token receives indentation or a
    newline only if no open element strictly above its node has a text child or is named in the
    suppress list — at any depth. -/
theorem C14_pretty_where_tree_mixed (esc : Escapers) (env : Env) (pr : TokenParams) (sup : List Nat)
    (t : Tree) (start : Path) (n : Tree) (inScope : List (Nat × Nat)) (hat : t.at? start = some n)
    (hs : namespacesInScope t start = some inScope)
    (ks : List (Path × Output × PrettyOutputToken))
    (h : prettyTokensWith esc env pr sup t start = .ok ks)
    (k : Path × Output × PrettyOutputToken) (hk : k ∈ ks)
    (hw : k.2.2.indentation > 0 ∨ k.2.2.newline = true) :
    ∃ rel, k.1 = start ++ rel ∧
      ∀ a name, OpenAbove n rel a → a.value = .element name → a.firstChild?.isSome = true →
        hasInlineChild a = false ∧ sup.contains name = false :=
  pretty_where_tree_mixed esc env pr sup t start n inScope hat hs ks h k hk hw

/-- `xml:space="preserve"` on trees, full strength: a token is indented only if the entries of the
    open elements its whitespace lands in (its own element's included for an end tag) are not in
    `preserve` scope, and is followed by a newline only if the entries the newline lands in (its
    own element's included for `>`) are not. -/
theorem C14_pretty_where_tree_preserve (esc : Escapers) (env : Env) (pr : TokenParams) (sup : List Nat)
    (t : Tree) (start : Path) (n : Tree) (inScope : List (Nat × Nat)) (hat : t.at? start = some n)
    (hs : namespacesInScope t start = some inScope)
    (ks : List (Path × Output × PrettyOutputToken))
    (h : prettyTokensWith esc env pr sup t start = .ok ks)
    (k : Path × Output × PrettyOutputToken) (hk : k ∈ ks) :
    ∃ rel, k.1 = start ++ rel ∧
      (k.2.2.indentation > 0 → PStack.inSpacePreserve (pentriesFor sup k.2.1 n rel) = false) ∧
      (k.2.2.newline = true → PStack.inSpacePreserve (pentriesNewline sup k.2.1 n rel) = false) :=
  pretty_where_notPreserve sup t esc env pr start n inScope hat hs ks h k hk

/-- Non-vacuity: in `<d><a>t<b/></a></d>` (d=5, a=2, b=3) tokens do receive whitespace (`>` of `d`
    gets a newline, `<a` indentation 1) while nothing inside the mixed element `a` does. -/
example :
    (prettyTokens {} {} []
      (.node .document [.node (.element 5) [.node (.element 2) [.node (.text ['t']) [], .node (.element 3) []]]]) []
      ).okValue?.map (fun l => l.map (fun k => (k.1, k.2.2.indentation, k.2.2.newline)))
    = some [([0], 0, false), ([0], 0, true), ([0, 0], 1, false), ([0, 0], 0, false),
            ([0, 0, 0], 0, false), ([0, 0, 1], 0, false), ([0, 0, 1], 0, false), ([0, 0, 1], 0, false),
            ([0, 0], 0, true), ([0], 0, true)] := by decide

/-! ### Whitespace lands only between markup tokens (never inside a tag, never next to text) -/

/-- Per token, every tree: indentation is written only in front of a token that opens markup
    (`<name`, end tag, comment, PI) and a newline only behind one that closes markup (`>` / `/>`,
    end tag, comment, PI).  In particular a text / CDATA token has indentation 0 and no newline,
    and so have the attribute and `xmlns` tokens inside a start tag. -/
theorem C14_pretty_token_kinds (esc : Escapers) (env : Env) (pr : TokenParams) (sup : List Nat)
    (t : Tree) (start : Path) (ks : List (Path × Output × PrettyOutputToken))
    (h : prettyTokensWith esc env pr sup t start = .ok ks)
    (k : Path × Output × PrettyOutputToken) (hk : k ∈ ks) :
    (k.2.2.indentation > 0 → k.2.1.opensMarkup = true) ∧
    (k.2.2.newline = true → k.2.1.closesMarkup = true) :=
  pretty_token_kinds sup t esc env pr start ks h k hk

theorem C14_pretty_text_token (esc : Escapers) (env : Env) (pr : TokenParams) (sup : List Nat)
    (t : Tree) (start : Path) (ks : List (Path × Output × PrettyOutputToken))
    (h : prettyTokensWith esc env pr sup t start = .ok ks)
    (p : Path) (c : Str) (tok : PrettyOutputToken) (hk : (p, Output.text c, tok) ∈ ks) :
    tok.indentation = 0 ∧ tok.newline = false :=
  pretty_text_token_plain esc env pr sup t start ks h p c tok hk

/-- Between tokens, on the trees the indentation clause ranges over (`TextOk`: well-formed
    documents and element-rooted subtrees — leaf kinds are leaves, no text directly under a
    document node): if the pretty writer puts whitespace between two consecutive tokens `k1 k2`
    (a newline behind `k1` or indentation in front of `k2`) then `k1` closes markup and its text
    ends with `>`, `k2` opens markup and its text begins with `<` (the empty end-tag token of an
    element written `<e/>` is the only markup token without characters), and the stack between
    them — the entries of the open elements the whitespace lands in — is neither mixed /
    suppressed nor in `xml:space="preserve"` scope.  So a parser reads every inserted run as (part
    of) a whitespace-only text node between two pieces of markup, or outside the root. -/
theorem C14_pretty_only_whitespace (esc : Escapers) (env : Env) (pr : TokenParams) (sup : List Nat)
    (t : Tree) (start : Path) (n : Tree) (inScope : List (Nat × Nat)) (hat : t.at? start = some n)
    (hs : namespacesInScope t start = some inScope) (hok : TextOk n)
    (ks pre post : List (Path × Output × PrettyOutputToken)) (k1 k2 : Path × Output × PrettyOutputToken)
    (h : prettyTokensWith esc env pr sup t start = .ok ks) (hks : ks = pre ++ k1 :: k2 :: post)
    (hw : k1.2.2.newline = true ∨ k2.2.2.indentation > 0) :
    (k1.2.1.closesMarkup = true ∧
      (k1.2.2.text.getLast? = some '>' ∨ ((∃ name, k1.2.1 = .endTag name) ∧ k1.2.2.text = []))) ∧
    (k2.2.1.opensMarkup = true ∧ k2.2.2.space = false ∧
      (k2.2.2.text.head? = some '<' ∨ ((∃ name, k2.2.1 = .endTag name) ∧ k2.2.2.text = []))) ∧
    ∃ rel, k2.1 = start ++ rel ∧
      PStack.inMixed (pentriesFor sup k2.2.1 n rel) = false ∧
      PStack.inSpacePreserve (pentriesFor sup k2.2.1 n rel) = false := by
  obtain ⟨c1, c2, hrel⟩ := pretty_between sup t esc env pr start n inScope hat hs hok ks pre post k1 k2 h hks hw
  have s1 := (pretty_token_shape sup t esc env pr start ks h k1 (by simp [hks])).2 c1
  have s2 := (pretty_token_shape sup t esc env pr start ks h k2 (by simp [hks])).1 c2
  exact ⟨⟨c1, s1⟩, ⟨c2, s2.1, s2.2⟩, hrel⟩

/-- Nothing is written in front of the first token. -/
theorem C14_pretty_first_token (esc : Escapers) (env : Env) (pr : TokenParams) (sup : List Nat)
    (t : Tree) (start : Path) (k : Path × Output × PrettyOutputToken)
    (ks : List (Path × Output × PrettyOutputToken))
    (h : prettyTokensWith esc env pr sup t start = .ok (k :: ks)) : k.2.2.indentation = 0 :=
  pretty_first_token sup t esc env pr start k ks h

/-- Non-vacuity of `C14_pretty_only_whitespace`: `<d><a/><!--c--></d>` (d=5, a=2) satisfies
    `TextOk` and its tokens `<d` `>`⏎ ␣␣`<a` `/>` ``⏎ ␣␣`<!--c-->`⏎ `</d>`⏎ receive whitespace (the empty
    environment spells every name as the empty string). -/
example : TextOk (.node .document [.node (.element 5) [.node (.element 2) [], .node (.comment ['c']) []]]) := by
  simp [TextOk, Tree.Forall, Tree.Forall.forallList, TextOkAt, Value.isLeafKind, Value.isText, Tree.value]

example :
    (prettyTokens {} {} []
      (.node .document [.node (.element 5) [.node (.element 2) [], .node (.comment ['c']) []]]) []
      ).okValue?.map (fun l => l.map (fun k => (k.2.2.indentation, String.ofList k.2.2.text, k.2.2.newline)))
    = some [(0, "<", false), (0, ">", true), (1, "<", false), (0, "/>", false), (0, "", true),
            (1, "<!--c-->", true), (0, "</>", true)] := by decide

/-- Why `TextOk` excludes text directly under a document node (a fragment; outside the
    indentation clause of the property): `Pretty` keeps no stack entry for the document node, so in
    the fragment `<a/>x` the newline behind `<a/>` lands in front of the text token. -/
theorem C14_pretty_fragment_text_gets_newline :
    (prettyTokens {} {} [] (.node .document [.node (.element 2) [], .node (.text ['x']) []]) []
      ).okValue?.map (fun l => l.map (fun k => (k.2.2.indentation, String.ofList k.2.2.text, k.2.2.newline)))
    = some [(0, "<", false), (0, "/>", false), (0, "", true), (0, "x", false)] := by decide

/-! ### The prolog: declaration and doctype (`Declaration::serialize`, `DocType::serialize`) -/

/-- (a) Shape: the declaration is `<?xml version="1.0"[ encoding="E"][ standalone="yes|no"]?>` + LF,
    the doctype `<!DOCTYPE name PUBLIC "P" "S">` / `<!DOCTYPE name SYSTEM "S">` + LF, the parameter
    strings copied literally. -/
theorem C14_decl_shape (d : Declaration) (dt : DocType) (name : Str) :
    d.bytes =
      ['<','?','x','m','l',' ','v','e','r','s','i','o','n','=','"','1','.','0','"']
      ++ (match d.encoding with
          | some e => [' ','e','n','c','o','d','i','n','g','=','"'] ++ e ++ ['"']
          | none => [])
      ++ (match d.standalone with
          | some true => [' ','s','t','a','n','d','a','l','o','n','e','=','"','y','e','s','"']
          | some false => [' ','s','t','a','n','d','a','l','o','n','e','=','"','n','o','"']
          | none => [])
      ++ ['?','>','\n'] ∧
    dt.bytes name =
      ['<','!','D','O','C','T','Y','P','E',' '] ++ name
      ++ (match dt with
          | .pub p s => [' ','P','U','B','L','I','C',' ','"'] ++ p ++ ['"',' ','"'] ++ s ++ ['"']
          | .sys s => [' ','S','Y','S','T','E','M',' ','"'] ++ s ++ ['"'])
      ++ ['>','\n'] :=
  ⟨Prolog.declaration_bytes d, Prolog.doctype_bytes dt name⟩

/-- (c) The prolog never changes the content: a successful `serialize_xml_string` is the
    declaration bytes, the doctype bytes (for the name `doctypeName` computes) and then exactly
    the output of the same call without declaration and doctype — and conversely. -/
theorem C14_decl_rest (esc : Escapers) (env : Env) (p : XmlParams) (t : Tree) (start : Path) :
    (∀ s, serializeXmlStringWith esc env p t start = .ok s →
      ∃ dt body, DoctypeWritten env p t start dt ∧
        serializeXmlStringWith esc env p.body t start = .ok body ∧ s = p.declBytes ++ dt ++ body) ∧
    (∀ dt body, DoctypeWritten env p t start dt →
      serializeXmlStringWith esc env p.body t start = .ok body →
      serializeXmlStringWith esc env p t start = .ok (p.declBytes ++ dt ++ body)) :=
  ⟨fun s h => xmlString_split esc env p t start s h,
   fun dt body h1 h2 => xmlString_join esc env p t start dt body h1 h2⟩

/-- (b) Well-formedness of the prolog against the XML 1.0 grammar (`Prolog.xmlDecl`: productions
    23–26, 32, 80, 81; `Prolog.doctypeDecl`: 28, 75, 11–13, 5).  Caller's side: the encoding is an
    `EncName`, the public identifier consists of `PubidChar`s, the system identifier has no `"`;
    and the root element's written name is an XML `Name`.  Then the output starts with an `XMLDecl`
    (when requested) followed by a `doctypedecl` (when requested), each read exactly up to the
    line break the writer appends, and what follows is the output without prolog. -/
theorem C14_decl (esc : Escapers) (env : Env) (p : XmlParams) (t : Tree) (start : Path) (s : Str)
    (h : serializeXmlStringWith esc env p t start = .ok s)
    (henc : ∀ d e, p.declaration = some d → d.encoding = some e → Prolog.isEncName e = true)
    (hids : ∀ d, p.doctype = some d → Prolog.idsOk d = true)
    (hname : ∀ name, doctypeName env t start = .ok name → Prolog.isXmlName name = true) :
    ∃ dt body, serializeXmlStringWith esc env p.body t start = .ok body ∧
      s = p.declBytes ++ dt ++ body ∧
      (∀ d, p.declaration = some d → Prolog.xmlDecl s = some ('\n' :: (dt ++ body))) ∧
      (p.declaration = none → p.declBytes = []) ∧
      (∀ d, p.doctype = some d → Prolog.doctypeDecl (dt ++ body) = some ('\n' :: body)) ∧
      (p.doctype = none → dt = []) :=
  decl_grammar esc env p t start s h henc hids hname

/-- The hypotheses of `C14_decl` are necessary, by closed witnesses: the strings are copied
    literally, so an encoding or identifier containing `"` ends its literal early, and a quote-free
    encoding that is no `EncName` (`é`, the empty string, `a b`) or a public identifier with a
    non-`PubidChar` (`<`) is no `XMLDecl` / `doctypedecl` either. -/
theorem C14_decl_necessary :
    (⟨some ['x','"','y'], none⟩ : Declaration).bytes =
      ['<','?','x','m','l',' ','v','e','r','s','i','o','n','=','"','1','.','0','"',
       ' ','e','n','c','o','d','i','n','g','=','"','x','"','y','"','?','>','\n'] ∧
    Prolog.xmlDecl ((⟨some ['x','"','y'], none⟩ : Declaration).bytes) = none ∧
    Prolog.xmlDecl ((⟨some ['é'], none⟩ : Declaration).bytes) = none ∧
    Prolog.xmlDecl ((⟨some [], none⟩ : Declaration).bytes) = none ∧
    Prolog.xmlDecl ((⟨some ['a',' ','b'], some true⟩ : Declaration).bytes) = none ∧
    Prolog.doctypeDecl ((DocType.sys ['x','"','y']).bytes ['a']) = none ∧
    Prolog.doctypeDecl ((DocType.pub ['p','"','q'] ['d']).bytes ['a']) = none ∧
    Prolog.doctypeDecl ((DocType.pub ['p','<','q'] ['d']).bytes ['a']) = none :=
  ⟨Prolog.xmlDecl_quote_witness.1, Prolog.xmlDecl_quote_witness.2, Prolog.xmlDecl_encname_witness.1,
   Prolog.xmlDecl_encname_witness.2.1, Prolog.xmlDecl_encname_witness.2.2,
   Prolog.doctypeDecl_quote_witness.1, Prolog.doctypeDecl_quote_witness.2.1,
   Prolog.doctypeDecl_quote_witness.2.2⟩

/-- Non-vacuity of `C14_decl`: `<?xml version="1.0" encoding="UTF-8" standalone="no"?>` and
    a doctype `a:b` with a W3C-style public identifier and the system identifier `a>b<c.dtd` are accepted. -/
example : Prolog.xmlDecl ((⟨some ['U','T','F','-','8'], some false⟩ : Declaration).bytes ++ ['<','a','/','>'])
    = some ['\n','<','a','/','>'] := by decide
example : Prolog.isEncName ['U','T','F','-','8'] = true ∧
    Prolog.idsOk (.pub ['-','/','/','W','3','C','/','/','D','T','D',' ','X',' ','1','.','0','/','/','E','N']
      ['a','>','b','<','c','.','d','t','d']) = true ∧ Prolog.isXmlName ['a',':','b'] = true := by decide

/-! ### `cdata_section_elements`, token level over trees -/

/-- "The parent is a CDATA-section element": an element parent whose name is listed (a text node
    without an element parent — detached, or directly under a document — never is). -/
theorem C14_cdata_element_iff (pr : TokenParams) (parent : Option Tree) :
    isCdataElement pr parent = true ↔
      ∃ par name, parent = some par ∧ par.value = .element name ∧ name ∈ pr.cdataSectionElements :=
  isCdataElement_iff pr parent

/-- Every text token of `Xot::tokens` (any tree, start node, parameter set) belongs to a text node
    with the event's value; for a text node under a listed element the token is
    `serialize_cdata text` and the CDATA / character-reference section reader decodes it to the
    node's text (`C14_cdata`); for every other text node it is `serialize_text` (with or without
    `unescaped_gt`) and `parse_text token = text`. -/
theorem C14_cdata_token (env : Env) (pr : TokenParams) (t : Tree) (start : Path)
    (ks : List (Path × Output × OutputToken)) (h : tokens env pr t start = .ok ks)
    (p : Path) (c : Str) (tok : OutputToken) (hk : (p, Output.text c, tok) ∈ ks) :
    (∃ node, t.at? p = some node ∧ node.value = .text c) ∧ tok.space = false ∧
    (if isCdataElement pr (t.parentAt? p) then
       tok.text = serializeCdata c ∧ cdataSectionsContent tok.text = some c
     else tok.text = serializeText pr.unescapedGt c ∧ parseText tok.text = .ok c) :=
  cdata_token env pr t start ks h p c tok hk

/-- Non-vacuity: `<a>]]></a><b>]]></b>` with `a` (name 2) listed and `unescaped_gt`: one token of
    each kind. -/
example :
    (tokens {} ⟨[2], true⟩ (.node .document [.node (.element 5)
        [.node (.element 2) [.node (.text [']',']','>']) []], .node (.element 3) [.node (.text [']',']','>']) []]]]) []
      ).okValue?.map (fun l => (l.filter (fun k => k.2.1 == Output.text [']',']','>'])).map
        (fun k => (k.1, String.ofList k.2.2.text)))
    = some [([0, 0, 0], "<![CDATA[]]]]><![CDATA[>]]>"), ([0, 1, 0], "]]&gt;")] := by decide

/-! ### C14_options: the output reparses to the original tree

The default round trip (C01_roundtrip) transported along "same spelling up to the character data runs"
(`NSNode.Resp`): a text node under a CDATA-section element is the run `cdataTokens` (sections cut inside
every `]]>`, `&#xD;` as a text token between two sections), elsewhere one text token `serialize_text`. -/

/-- `serialize_cdata s` IS the canonical rendering of an alternation of CDATA tokens and `&#xD;` text
    tokens that (a) may stand where a text token stands — every token meets the tokenizer's side
    condition, no `]]>` in a section, no two text tokens in a row — and (b) denotes `s` for the builder
    (no CR inside a section, so line-end normalisation changes nothing). -/
theorem C14_cdata_tokens (s : Str) (hs : s.all isXmlChar = true) :
    renderTokens (cdataTokens s) = serializeCdata s ∧ GoodRun (cdataTokens s) ∧
    partsValue (cdataPartsGo [] s) = s ∧ (∀ p ∈ cdataPartsGo [] s, p.Well) ∧
    ∀ t j, SPart.cd t j ∈ cdataPartsGo [] s → '\r' ∉ t.text :=
  ⟨renderTokens_cdataTokens s, cdataTokens_goodRun s hs, by simpa using partsValue_cdataPartsGo s [] (by simp),
   cdataPartsGo_well s [], cdataPartsGo_noCr s [] (by simp)⟩

/-- `serialize_xml_string` under ANY token parameters and for any start node is the canonical rendering
    of `serTokensAtO` (extends C01_serialised_is_rendering_at to CDATA-section elements). -/
theorem C14_serialised_is_rendering (env : Env) (pr : TokenParams) (t : Tree) (start : Path)
    (hx : env.prefixStr Env.xmlPrefix ≠ []) (ht : t.allNodes (declsNamed env) = true) :
    serializeString env pr t start =
      (match serTokensAtO env pr t start with
       | .ok ts => .ok (renderTokens ts)
       | .error e => .err e) :=
  serializeString_serTokensAtO env pr t start hx ht

/-- The token list meets the tokenizer contract, also with `unescaped_gt` and CDATA-section elements. -/
theorem C14_rendering_lexok (env : Env) (pr : TokenParams) (t : Tree) (hr : Representable env t = true)
    (ts : List Token) (h : serTokensAtO env pr t [] = .ok ts) : LexOK false ts = true :=
  options_lexOK env pr hr h

/-- **C14_options_gt**: `unescaped_gt = true`. -/
theorem C14_options_gt (env : Env) (t : Tree) (hr : Representable env t = true) (s : Str)
    (hs : serializeString env { unescapedGt := true } t [] = .ok s) :
    ∃ p, parseString .document env s = .ok p ∧ p.tree = t ∧ p.env = env :=
  options_roundtrip env _ hr hs

/-- **C14_options_cdata**: any set of CDATA-section elements, `unescaped_gt` on or off: the output
    reparses to the ORIGINAL tree (ids, declarations, prefixes), tables unchanged; hence `deep_equal`. -/
theorem C14_options_cdata (env : Env) (pr : TokenParams) (t : Tree) (hr : Representable env t = true) (s : Str)
    (hs : serializeString env pr t [] = .ok s) :
    ∃ p, parseString .document env s = .ok p ∧ p.tree = t ∧ p.env = env ∧ deepEqual p.tree t = true := by
  obtain ⟨p, h1, h2, h3⟩ := options_roundtrip env pr hr hs
  refine ⟨p, h1, h2, h3, ?_⟩
  rw [h2]
  exact deepEqual_self_representable env (by simp only [Representable, Bool.and_eq_true] at hr; exact hr.1)

/-- `parse_fragment` of a representable fragment (several top-level elements, top-level text). -/
theorem C14_options_cdata_fragment (env : Env) (pr : TokenParams) (t : Tree)
    (hr : RepresentableFragment env t = true) (s : Str) (hs : serializeString env pr t [] = .ok s) :
    ∃ p, parseString .fragment env s = .ok p ∧ p.tree = t ∧ p.env = env :=
  options_roundtrip_fragment env pr hr hs

/-- The parameters never decide about success: it is `namesWritable` (C01_serialises). -/
theorem C14_options_serialises (env : Env) (pr : TokenParams) (t : Tree) (hr : RepresentableFragment env t = true) :
    (∃ s, serializeString env pr t [] = .ok s) ↔ namesWritable env t [] = some true :=
  options_serialises env pr hr

/-- **C14_options_decl**: with or without an XML declaration (encoding an `EncName` or absent, any
    standalone), any token parameters, no doctype (xot refuses to parse one: `DtdUnsupported`), no
    indentation: `parse` of the output returns the original tree. -/
theorem C14_options_decl (env : Env) (p : XmlParams) (t : Tree) (hr : Representable env t = true)
    (hdt : p.doctype = none) (hind : p.indentation = none)
    (henc : ∀ d e, p.declaration = some d → d.encoding = some e → Prolog.isEncName e = true)
    (s : Str) (hs : serializeXmlString env p t [] = .ok s) :
    ∃ q, parseString .document env s = .ok q ∧ q.tree = t ∧ q.env = env ∧ deepEqual q.tree t = true := by
  obtain ⟨q, h1, h2, h3⟩ := options_decl_roundtrip env p hr hdt hind henc hs
  refine ⟨q, h1, h2, h3, ?_⟩
  rw [h2]
  exact deepEqual_self_representable env (by simp only [Representable, Bool.and_eq_true] at hr; exact hr.1)

/-- The tokenizer on the written declaration: one `Declaration` token with version `1.0`, then the tokens
    of the body (the line feed behind `?>` is skipped). -/
theorem C14_decl_lexed (d : Declaration) (ts : List Token) (h : LexOK false ts = true)
    (henc : ∀ e, d.encoding = some e → Prolog.isEncName e = true) :
    ∃ v e sa sp ts', lexDocument (d.bytes ++ renderTokens ts) =
        (.declaration ⟨['1', '.', '0'], v⟩ e sa sp :: ts', none) ∧
      ts'.map Token.erase = ts.map Token.erase ∧ tokensPrefixOk ts' = true :=
  lexDocument_declaration_erase d ts h (fun e he => isEncName_encChar (henc e he))

/-- Declaration + `parse_fragment` (a fragment start node serialised with a declaration): rejected by the
    tokenizer at position 0, whatever follows — `<?xml ` is an error inside element content. -/
theorem C14_options_decl_fragment (env : Env) (d : Declaration) (r : Str) :
    parseString .fragment env (d.bytes ++ r) = .err (.xmlParser 0) env :=
  options_decl_fragment_rejected env d r

/-- Non-vacuity, closed: `<r xmlns="urn:a">]]>CR</r>` (tables of Props/C01) with `r` (name 2) as
    CDATA-section element, `unescaped_gt` and a declaration: three sections and one reference. -/
def c14Doc : Tree :=
  .node .document [.node (.element 2) [.node (.namespace 0 2) [], .node (.text [']', ']', '>', '\r']) []]]
def c14Params : XmlParams :=
  { cdataSectionElements := [2], unescapedGt := true, declaration := some ⟨some ['U','T','F','-','8'], none⟩ }
def c14Text : Str :=
  "<?xml version=\"1.0\" encoding=\"UTF-8\"?>\n<r xmlns=\"urn:a\"><![CDATA[]]]]><![CDATA[>]]>&#xD;<![CDATA[]]></r>".toList

example : serializeXmlString c01Env c14Params c14Doc [] = .ok c14Text := by decide
example : ∃ q, parseString .document c01Env c14Text = .ok q ∧ q.tree = c14Doc ∧ q.env = c01Env := by
  obtain ⟨q, h1, h2, h3, _⟩ := C14_options_decl c01Env c14Params c14Doc (by decide) rfl rfl
    (by intro d e hd he; cases hd; cases he; decide) c14Text (by decide)
  exact ⟨q, h1, h2, h3⟩

/-! ### C14_options_indent: with indentation the output reparses to the tree plus white space

`prettyTree sup t` (Lemmas/SerIndentDefs.lean) is `t` with one text node of line feed + blanks in front of
every child and behind the last child of every element whose content the `Pretty` stack grants white space
to.  White space between the top-level nodes is skipped by the tokenizer (Lemmas/LexLines.lean). -/

/-- **C14_options_indent** (document start node): indentation with any suppress list, any token
    parameters, with or without declaration, no doctype: `parse` of the output returns `prettyTree sup t`,
    which differs from `t` only by added whitespace-only text nodes (`AddsWs`); tables unchanged. -/
theorem C14_options_indent (env : Env) (p : XmlParams) (sup : List Nat) (t : Tree) (hr : Representable env t = true)
    (hdt : p.doctype = none) (hind : p.indentation = some sup)
    (henc : ∀ d e, p.declaration = some d → d.encoding = some e → Prolog.isEncName e = true)
    (s : Str) (hs : serializeXmlString env p t [] = .ok s) :
    ∃ q, parseString .document env s = .ok q ∧ q.tree = prettyTree sup t ∧ q.env = env ∧ AddsWs t q.tree := by
  obtain ⟨q, h1, h2, h3⟩ := indent_decl_roundtrip env sup p hr hdt hind henc hs
  exact ⟨q, h1, h2, h3, by rw [h2]; exact addsWs_prettyTree sup t⟩

/-- The indented string itself: the top-level nodes, spelled with the white space runs inside the elements
    (`spellNodeP`), one per line; and `prettyTree` of a representable document is representable. -/
theorem C14_indent_string (env : Env) (pr : TokenParams) (sup : List Nat) (ks : List Tree)
    (hr : Representable env (.node .document ks) = true) (s : Str)
    (hs : serializePretty env pr sup (.node .document ks) [] = .ok s) :
    s = Lex.Canon.renderLines (spellTopP env pr sup ks) ∧ Representable env (prettyTree sup (.node .document ks)) = true :=
  ⟨(serializePretty_document env pr sup hr hs).1, representable_prettyTree env sup hr⟩

/-- **C14_indent_where**: where no white space node is added.  For an element `n` written in content whose
    `Pretty` stack is `ps` (the entries of the open elements around it):
    (a) `n` has a text child or is named in the suppress list: nothing is added anywhere inside `n`;
    (b) an open element around `n` is such an element (`ps.inMixed`): likewise, at any depth;
    (c) `n` is in `xml:space="preserve"` scope (innermost `preserve` / `default`, its own attribute
        included): no white space node among its children (a descendant with `xml:space="default"` may
        get some again). -/
theorem C14_indent_where (sup : List Nat) (ps : PStack) (name : Nat) (ks : List Tree) :
    ((hasInlineChild (.node (.element name) ks) = true ∨ sup.contains name = true) →
      prettyNode sup ps (.node (.element name) ks) = .node (.element name) ks) ∧
    (ps.inMixed = true → ∀ n, prettyNode sup ps n = n) ∧
    (PStack.inSpacePreserve (entryFor sup (.node (.element name) ks) :: ps) = true →
      prettyNode sup ps (.node (.element name) ks) =
        .node (.element name) (ks.map (prettyNode sup (entryFor sup (.node (.element name) ks) :: ps)))) :=
  ⟨prettyNode_mixed_element sup ps name ks, fun h n => prettyNode_mixed sup n ps h, prettyNode_preserve sup ps name ks⟩

/-- Non-vacuity, closed (tables of Props/C01; `k` = name 4, `t` = name 5, both in no namespace):
    `<k><t>x<k/></t><t/></k>` is written on four lines; nothing is added inside the mixed element `t`. -/
def c14Ind : Tree :=
  .node .document [.node (.element 4) [.node (.element 5) [.node (.text ['x']) [], .node (.element 4) []],
    .node (.element 5) []]]

def c14IndText : Str := "<k>\n  <t>x<k/></t>\n  <t/>\n</k>\n".toList

example : serializeXmlString c01Env { indentation := some [] } c14Ind [] = .ok c14IndText := by decide
example : prettyTree [] c14Ind =
    .node .document [.node (.element 4) [.node (.text ['\n', ' ', ' ']) [],
      .node (.element 5) [.node (.text ['x']) [], .node (.element 4) []], .node (.text ['\n', ' ', ' ']) [],
      .node (.element 5) [], .node (.text ['\n']) []]] := by rfl
example : ∃ q, parseString .document c01Env c14IndText = .ok q ∧ q.tree = prettyTree [] c14Ind := by
  obtain ⟨q, h1, h2, _⟩ := C14_options_indent c01Env { indentation := some [] } [] c14Ind (by decide) rfl rfl
    (by intro d e hd; cases hd) c14IndText (by decide)
  exact ⟨q, h1, h2⟩

/-! ### Indentation for an element start node INSIDE a tree

`serialize_xml_string(element, indentation)` for an element that has ancestors: `XmlSerializer::new` seeds the
name stack with `namespaces_in_scope(element)`, the start tag also writes the inherited declarations (C01, "a start
node inside a tree"), and the `Pretty` stack starts empty at the element.  `standalone t q` = `D [ e' ]`, `e'` the
element with one namespace node per inherited declaration in front of its children. -/

/-- **Theorem A with indentation**: the call on the inner element IS the call on the root of its standalone
    document — the same text (white space included) or the same error — any suppress list, any token parameters,
    with or without declaration, no doctype; the standalone document is in the round-trip domain. -/
theorem C14_indent_inner_serialisation (env : Env) (p : XmlParams) (sup : List Nat) (t : Tree) (q : Path)
    (name : Nat) (ks : List Tree) (henv : envOK env = true) (hok : t.allNodes (nodeOK env) = true)
    (hat : t.at? q = some (.node (.element name) ks))
    (hids : (xmlIdValues env (.node (.element name) ks)).Nodup)
    (hdt : p.doctype = none) (hind : p.indentation = some sup) :
    ∃ X, standalone t q = some (.node .document [.node (.element name) (nsLeaves X ++ ks)]) ∧
      Representable env (.node .document [.node (.element name) (nsLeaves X ++ ks)]) = true ∧
      serializeXmlString env p t q =
        serializeXmlString env p (.node .document [.node (.element name) (nsLeaves X ++ ks)]) [] := by
  obtain ⟨X, h1, h2, h3, _⟩ := indent_inner_roundtrip env sup p t q name ks henv hok hat hids hdt hind
  exact ⟨X, h1, h2, h3⟩

/-- **C14_indent_roundtrip_inner, general form**: `t` any tree that is `nodeOK` everywhere (a document, a
    fragment, a parentless element), sane tables, no repeated `xml:id` value below the start element: `parse` of
    the indented text of the element at `q` gives `prettyTree sup` of the standalone document, which differs
    from it only by added whitespace-only text nodes; tables unchanged. -/
theorem C14_indent_roundtrip_inner_nodes (env : Env) (p : XmlParams) (sup : List Nat) (t : Tree) (q : Path)
    (name : Nat) (ks : List Tree) (henv : envOK env = true) (hok : t.allNodes (nodeOK env) = true)
    (hat : t.at? q = some (.node (.element name) ks))
    (hids : (xmlIdValues env (.node (.element name) ks)).Nodup)
    (hdt : p.doctype = none) (hind : p.indentation = some sup)
    (henc : ∀ d e, p.declaration = some d → d.encoding = some e → Prolog.isEncName e = true)
    (s : Str) (hs : serializeXmlString env p t q = .ok s) :
    ∃ r X, standalone t q = some (.node .document [.node (.element name) (nsLeaves X ++ ks)]) ∧
      Representable env (.node .document [.node (.element name) (nsLeaves X ++ ks)]) = true ∧
      parseString .document env s = .ok r ∧
      r.tree = prettyTree sup (.node .document [.node (.element name) (nsLeaves X ++ ks)]) ∧ r.env = env ∧
      AddsWs (.node .document [.node (.element name) (nsLeaves X ++ ks)]) r.tree := by
  obtain ⟨X, h1, h2, _, h4⟩ := indent_inner_roundtrip env sup p t q name ks henv hok hat hids hdt hind
  obtain ⟨r, k1, k2, k3⟩ := h4 s henc hs
  exact ⟨r, X, h1, h2, k1, k2, k3, by rw [k2]; exact addsWs_prettyTree sup _⟩

/-- **C14_indent_roundtrip_inner**: an element anywhere inside a representable document or fragment, under
    the hypotheses of `C14_options_indent`. -/
theorem C14_indent_roundtrip_inner (env : Env) (p : XmlParams) (sup : List Nat) (t : Tree)
    (hr : RepresentableFragment env t = true) (q : Path) (name : Nat) (ks : List Tree)
    (hat : t.at? q = some (.node (.element name) ks))
    (hdt : p.doctype = none) (hind : p.indentation = some sup)
    (henc : ∀ d e, p.declaration = some d → d.encoding = some e → Prolog.isEncName e = true)
    (s : Str) (hs : serializeXmlString env p t q = .ok s) :
    ∃ r X, standalone t q = some (.node .document [.node (.element name) (nsLeaves X ++ ks)]) ∧
      Representable env (.node .document [.node (.element name) (nsLeaves X ++ ks)]) = true ∧
      parseString .document env s = .ok r ∧
      r.tree = prettyTree sup (.node .document [.node (.element name) (nsLeaves X ++ ks)]) ∧ r.env = env ∧
      AddsWs (.node .document [.node (.element name) (nsLeaves X ++ ks)]) r.tree := by
  obtain ⟨henv, _, hn, hid⟩ := (representableFragment_iff env t).mp hr
  exact C14_indent_roundtrip_inner_nodes env p sup t q name ks henv hn hat
    (hid.sublist (xmlIdValues_at?_sublist q t _ hat)) hdt hind henc s hs

/-- Non-vacuity, closed (tree and tables of Props/C01, "a start node inside a tree"): the inner element `m`
    (path `[0, 4]`) with indentation writes the inherited `xmlns="urn:a" xmlns:q="urn:b"` and three lines. -/
def c14InnerText : Str :=
  "<m xmlns=\"urn:a\" xmlns:q=\"urn:b\" xmlns:p=\"urn:a\" q:w=\"v\">\n  <q:c/>\n</m>\n".toList

example : serializeXmlString c01InnerEnv { indentation := some [] } c01InnerDoc [0, 4] = .ok c14InnerText := by decide
example : serializeXmlString c01InnerEnv { indentation := some [] } c01InnerStandalone [] = .ok c14InnerText := by decide
example : ∃ r, parseString .document c01InnerEnv c14InnerText = .ok r ∧ r.tree = prettyTree [] c01InnerStandalone ∧
    r.env = c01InnerEnv := by
  obtain ⟨r, X, h1, _, h2, h3, h4, _⟩ := C14_indent_roundtrip_inner c01InnerEnv { indentation := some [] } []
    c01InnerDoc (by decide) [0, 4] 4 _ rfl rfl rfl (by intro d e hd; cases hd) c14InnerText (by decide)
  have hX : standalone c01InnerDoc [0, 4] = some c01InnerStandalone := rfl
  rw [hX, Option.some.injEq] at h1
  rw [← h1] at h3
  exact ⟨r, h2, h3, h4⟩
example : prettyTree [] c01InnerStandalone =
    .node .document [.node (.element 4) [.node (.namespace 0 2) [], .node (.namespace 3 3) [], .node (.namespace 2 2) [],
      .node (.attribute 5 ['v']) [], .node (.text ['\n', ' ', ' ']) [], .node (.element 3) [],
      .node (.text ['\n']) []]] := by rfl

/-! ### C14_normalizer: the `*_with_normalizer` entry points

`normEscapers N` (Model/Normalizer.lean) is entity.rs with the caller's normalizer `N`: normalise, then escape
the result; the identity normalizer (`NoopNormalizer`) gives `xmlEscapers`, the functions of all theorems above.
`Tree.mapText N` applies `N` to the text node values and the attribute values of a tree. -/

/-- `NoopNormalizer` is the `id` instance. -/
theorem C14_normalizer_noop : normEscapers id = xmlEscapers := rfl

/-- **C14_normalizer_is_premap**: for every normalizer `N`, environment, parameter set (CDATA-section elements,
    `unescaped_gt`, indentation with any suppress list, declaration, doctype), tree and start node:
    serialising WITH the normalizer gives — same string or same error, same bytes written — what serialising
    the normalised tree gives without one.  Hypotheses, the weakest that work (both are necessary:
    `C14_normalizer_ns_necessary`, `C14_normalizer_space_necessary`):
    `hns` — `N` fixes the namespace URIs written by the `xmlns` declarations of the output (they go through
    `serialize_attribute(.., normalizer)` but are no strings of the tree);
    `hsp` — only with indentation: `N` leaves `element_space` of the serialised elements alone (`Pretty` reads
    `xml:space` as stored).  CDATA-section elements, `unescaped_gt`, `has_inline_child`, the suppress list and
    the doctype never look at a string `N` changes. -/
theorem C14_normalizer_is_premap (N : Str → Str) (env : Env) (p : XmlParams) (t : Tree) (start : Path)
    (hns : NsWritten N env (genOutputs t start))
    (hsp : p.indentation ≠ none → SpaceKept N t (genOutputs t start)) :
    serializeXmlStringWith (normEscapers N) env p t start = serializeXmlString env p (t.mapText N) start ∧
    serializeXmlWriteWith (normEscapers N) env p t start = serializeXmlWrite env p (t.mapText N) start :=
  ⟨serializeXmlStringWith_norm N env p t start hns hsp, serializeXmlWriteWith_norm N env p t start hns hsp⟩

/-- Token level (`Xot::tokens(node, parameters, normalizer)` and `pretty_tokens`): the token streams of the
    normalised tree are the token streams under the normalizer, event by event (the events carry the
    normalised strings: `tokMapText`), with the same texts, space flags, indentation and newlines. -/
theorem C14_normalizer_is_premap_tokens (N : Str → Str) (env : Env) (pr : TokenParams) (t : Tree) (start : Path)
    (hns : NsWritten N env (genOutputs t start)) :
    tokens env pr (t.mapText N) start =
        (tokensWith (normEscapers N) env pr t start).mapOk (List.map (tokMapText N)) ∧
    ∀ sup, SpaceKept N t (genOutputs t start) →
      prettyTokens env pr sup (t.mapText N) start =
        (prettyTokensWith (normEscapers N) env pr sup t start).mapOk (List.map (tokMapText N)) :=
  ⟨tokensWith_norm N env pr t start hns, fun sup hs => prettyTokensWith_norm N env pr sup t start hns hs⟩

/-- Without any hypothesis: under EVERY normalizer the call ends as it ends without one — it succeeds on the
    same trees and returns the same error otherwise (only token texts depend on the escaping functions). -/
theorem C14_normalizer_outcome (N : Str → Str) (env : Env) (p : XmlParams) (t : Tree) (start : Path) :
    (serializeXmlWriteWith (normEscapers N) env p t start).2 = (serializeXmlWrite env p t start).2 ∧
    ((∃ s, serializeXmlStringWith (normEscapers N) env p t start = .ok s) ↔
      ∃ s, serializeXmlString env p t start = .ok s) := by
  have h := serializeXmlWriteWith_outcome (normEscapers N) xmlEscapers env p t start
  refine ⟨h, ?_⟩
  unfold serializeXmlString serializeXmlStringWith bufferToString
  rw [h]
  cases (serializeXmlWriteWith xmlEscapers env p t start).2 <;> simp

/-- The hypotheses hold on every tree and start node as soon as `N` fixes the strings of the namespace table
    (and `""`), and maps exactly `preserve` to `preserve` and `default` to `default`. -/
theorem C14_normalizer_hypotheses (N : Str → Str) (env : Env) (t : Tree) (outs : List (Path × Output)) :
    ((N [] = [] ∧ ∀ u ∈ env.namespaces, N u = u) → NsWritten N env outs) ∧
    (SpaceStable N → SpaceKept N t outs) :=
  ⟨fun h => nsWritten_of_fixed N env (fixes_namespaceStr N env h.1 h.2) outs, fun h => spaceKept_of_stable N h t outs⟩

/-- `fullwidthNorm` (U+FF1C U+FF06 U+FF02 U+FF1E U+FF07 to `<` `&` `"` `>` `'`) meets them whenever the
    namespace table holds none of the five fullwidth forms. -/
theorem C14_normalizer_fullwidth (env : Env) (hc : nsClean env = true) (p : XmlParams) (t : Tree) (start : Path) :
    serializeXmlStringWith (normEscapers fullwidthNorm) env p t start =
      serializeXmlString env p (t.mapText fullwidthNorm) start :=
  (C14_normalizer_is_premap fullwidthNorm env p t start
    (nsWritten_of_fixed _ env (fullwidthNorm_fixes_ns env hc) _)
    (fun _ => spaceKept_of_stable _ fullwidthNorm_spaceStable t _)).1

/-- **C14_normalizer_roundtrip**: if the NORMALISED tree is representable, the output of
    `serialize_xml_string_with_normalizer` (any token parameters, declaration or not, no doctype, no
    indentation) parses back to the normalised tree; markup characters the normalizer produces are escaped. -/
theorem C14_normalizer_roundtrip (N : Str → Str) (env : Env) (p : XmlParams) (t : Tree)
    (hr : Representable env (t.mapText N) = true) (hns : NsWritten N env (genOutputs t []))
    (hdt : p.doctype = none) (hind : p.indentation = none)
    (henc : ∀ d e, p.declaration = some d → d.encoding = some e → Prolog.isEncName e = true)
    (s : Str) (hs : serializeXmlStringWith (normEscapers N) env p t [] = .ok s) :
    ∃ q, parseString .document env s = .ok q ∧ q.tree = t.mapText N ∧ q.env = env ∧
      deepEqual q.tree (t.mapText N) = true := by
  rw [(C14_normalizer_is_premap N env p t [] hns (fun h => absurd hind h)).1] at hs
  exact C14_options_decl env p (t.mapText N) hr hdt hind henc s hs

/-- With indentation: the output parses back to the normalised tree plus the white space of `prettyTree`. -/
theorem C14_normalizer_roundtrip_indent (N : Str → Str) (env : Env) (p : XmlParams) (sup : List Nat) (t : Tree)
    (hr : Representable env (t.mapText N) = true) (hns : NsWritten N env (genOutputs t []))
    (hsp : SpaceKept N t (genOutputs t []))
    (hdt : p.doctype = none) (hind : p.indentation = some sup)
    (henc : ∀ d e, p.declaration = some d → d.encoding = some e → Prolog.isEncName e = true)
    (s : Str) (hs : serializeXmlStringWith (normEscapers N) env p t [] = .ok s) :
    ∃ q, parseString .document env s = .ok q ∧ q.tree = prettyTree sup (t.mapText N) ∧ q.env = env ∧
      AddsWs (t.mapText N) q.tree := by
  rw [(C14_normalizer_is_premap N env p t [] hns (fun _ => hsp)).1] at hs
  exact C14_options_indent env p sup (t.mapText N) hr hdt hind henc s hs

/-- Non-vacuity, closed (tables of Props/C01): `<k t="＂a＆">＜x＆y＞</k>` under `fullwidthNorm`. -/
def c14NormDoc : Tree :=
  .node .document [.node (.element 4) [.node (.attribute 5 ['\uff02', 'a', '\uff06']) [],
    .node (.text ['\uff1c', 'x', '\uff06', 'y', '\uff1e']) []]]
def c14NormText : Str := "<k t=\"&quot;a&amp;\">&lt;x&amp;y&gt;</k>".toList

example : serializeXmlStringWith (normEscapers fullwidthNorm) c01Env {} c14NormDoc [] = .ok c14NormText := by decide
example : serializeXmlString c01Env {} (c14NormDoc.mapText fullwidthNorm) [] = .ok c14NormText := by decide
/-- Without the normalizer the fullwidth forms are written as they are. -/
example : serializeXmlString c01Env {} c14NormDoc [] =
    .ok ("<k t=\"".toList ++ ['\uff02', 'a', '\uff06'] ++ "\">".toList ++ ['\uff1c', 'x', '\uff06', 'y', '\uff1e']
      ++ "</k>".toList) := by decide
/-- With `k` as CDATA-section element and indentation. -/
example : serializeXmlStringWith (normEscapers fullwidthNorm) c01Env
    { indentation := some [], cdataSectionElements := [4] } c14NormDoc [] =
    .ok "<k t=\"&quot;a&amp;\"><![CDATA[<x&y>]]></k>\n".toList := by decide
example : nsClean c01Env = true ∧ Representable c01Env (c14NormDoc.mapText fullwidthNorm) = true := by decide
example : ∃ q, parseString .document c01Env c14NormText = .ok q ∧ q.tree = c14NormDoc.mapText fullwidthNorm := by
  obtain ⟨q, h1, h2, _⟩ := C14_normalizer_roundtrip fullwidthNorm c01Env {} c14NormDoc (by decide)
    (nsWritten_of_fixed _ _ (fullwidthNorm_fixes_ns c01Env (by decide)) _) rfl rfl
    (by intro d e hd; cases hd) c14NormText (by decide)
  exact ⟨q, h1, h2⟩

/-- `hns` is necessary: a namespace URI with a fullwidth ampersand is normalised (and then escaped) on its way
    into the `xmlns` declaration, but is no string of the tree. -/
def c14NsEnv : Env :=
  ⟨[[], xmlNamespaceUri, ['u', '\uff06']], [[], ['x', 'm', 'l']],
   [(['s', 'p', 'a', 'c', 'e'], 1), (['i', 'd'], 1), (['r'], 2)]⟩
theorem C14_normalizer_ns_necessary :
    let t : Tree := .node (.element 2) [.node (.namespace 0 2) []]
    serializeXmlStringWith (normEscapers fullwidthNorm) c14NsEnv {} t [] = .ok "<r xmlns=\"u&amp;\"/>".toList ∧
    serializeXmlString c14NsEnv {} (t.mapText fullwidthNorm) [] = .ok ("<r xmlns=\"u".toList ++ ['\uff06'] ++ "\"/>".toList) ∧
    ¬ NsWritten fullwidthNorm c14NsEnv (genOutputs t []) := by decide

/-- `hsp` is necessary: a normalizer that turns `x` into `preserve` writes `xml:space="preserve"`, but `Pretty`
    has read `x` and indents the content; the normalised tree is not indented. -/
def c14SpaceNorm (s : Str) : Str := if s = ['x'] then spacePreserve else s
theorem C14_normalizer_space_necessary :
    let t : Tree := .node (.element 4) [.node (.attribute 0 ['x']) [], .node (.element 5) []]
    serializeXmlStringWith (normEscapers c14SpaceNorm) c01Env { indentation := some [] } t [] =
      .ok "<k xml:space=\"preserve\">\n  <t/>\n</k>\n".toList ∧
    serializeXmlString c01Env { indentation := some [] } (t.mapText c14SpaceNorm) [] =
      .ok "<k xml:space=\"preserve\"><t/></k>\n".toList ∧
    elementSpace (t.mapText c14SpaceNorm) ≠ elementSpace t := by decide

/-! ### A writer that fails (Model/Writer.lean, `serializeXmlWriteW`) -/

/-- The options theorems above speak about the string `serialize_xml_string` returns.  They transfer to the
    Write-based entry point in front of ANY writer (one that may refuse a `write_all` call at any point, after
    letting part of the bytes through): if `serialize_xml_write(_with_normalizer)` returns `Ok(())`, the writer
    holds exactly the string serialisation under the same parameters (declaration, doctype, indentation, CDATA
    elements, unescaped_gt) — never a truncated one; otherwise the call returned an error (`Io` at the refused
    call, or the serialisation's own) and what the writer holds is a prefix of that string. -/
theorem C14_write_ok_is_complete (P : WriterPolicy) (esc : Escapers) (env : Env) (p : XmlParams) (t : Tree)
    (start : Path) :
    ((serializeXmlWriteW P esc env p t start).2 = .ok () →
        serializeXmlStringWith esc env p t start = .ok (serializeXmlWriteW P esc env p t start).1) ∧
    (∀ s, serializeXmlStringWith esc env p t start = .ok s →
        (serializeXmlWriteW P esc env p t start = (s, .ok ()) ∨
         ((serializeXmlWriteW P esc env p t start).2 = .err .io ∧
          ∃ rest, s = (serializeXmlWriteW P esc env p t start).1 ++ rest))) := by
  have hcalls := serializeXmlCalls_eq esc env p t start
  have hrun := serializeXmlWriteW_eq_replayCalls P esc env p t start
  rcases replayCalls_outcome P [] (serializeXmlCalls esc env p t start) with hall | hio
  · -- every call accepted: the never-failing model
    rw [← hrun, List.nil_append, hcalls] at hall
    refine ⟨?_, ?_⟩
    · intro hok
      rw [hall] at hok ⊢
      unfold serializeXmlStringWith bufferToString
      rw [hok]
    · intro s hs
      left
      rw [hall]
      unfold serializeXmlStringWith bufferToString at hs
      cases hw : serializeXmlWriteWith esc env p t start with
      | mk w r =>
        rw [hw] at hs
        cases r with
        | ok u => cases u; simp at hs; rw [hs]
        | err e => simp at hs
        | panic => simp at hs
  · rw [← hrun] at hio
    refine ⟨?_, ?_⟩
    · intro hok; rw [hio] at hok; cases hok
    · intro s hs
      right
      refine ⟨hio, ?_⟩
      obtain ⟨rest, h⟩ := replayCalls_prefix P [] (serializeXmlCalls esc env p t start)
      rw [← hrun, List.nil_append] at h
      have h1 : (serializeXmlCalls esc env p t start).1.flatten = (serializeXmlWriteWith esc env p t start).1 :=
        congrArg Prod.fst hcalls
      rw [h1] at h
      unfold serializeXmlStringWith bufferToString at hs
      cases hw : serializeXmlWriteWith esc env p t start with
      | mk w r =>
        rw [hw] at hs h
        cases r with
        | ok u => cases u; simp at hs; exact ⟨rest, by rw [← hs]; exact h⟩
        | err e => simp at hs
        | panic => simp at hs

/-- Non-vacuity: `<k><t/></k>` with indentation and a declaration; a writer with a budget of 6 calls is left
    with a truncated document and the call says `Io`; with enough budget it holds the string serialisation. -/
example :
    let p : XmlParams := { indentation := some [], declaration := some {} }
    let t : Tree := .node (.element 4) [.node (.element 5) []]
    (fun r : Str × Outcome XotError Unit => (String.ofList r.1, r.2)) (serializeXmlWriteW (.budget (some 6)) xmlEscapers c01Env p t [])
      = ("<?xml version=\"1.0\"?>\n<k>\n", .err .io) ∧
    (fun r : Str × Outcome XotError Unit => (String.ofList r.1, r.2)) (serializeXmlWriteW (.budget (some 40)) xmlEscapers c01Env p t [])
      = ("<?xml version=\"1.0\"?>\n<k>\n  <t/>\n</k>\n", .ok ()) ∧
    (serializeXmlString c01Env p t []).okValue?.map String.ofList = some "<?xml version=\"1.0\"?>\n<k>\n  <t/>\n</k>\n" := by
  decide

/-! ### C14_pretty_only_whitespace on the CONCATENATED bytes

`C14_pretty_only_whitespace` speaks per token: `k1` ends with `>` OR is the empty end-tag token of an element
written `<e/>`.  Here the empty token is looked through (Lemmas/PrettyEmptyEnd.lean: on `TextOk` trees the end-tag
event of a childless element directly follows that element's `startTagClose` event — token `/>`, no newline — and
`prettify` gives the empty token indentation 0), so the statement is about the two STRINGS.  `prettyBody k` is what
`serialize_node` writes for the token (`tokenBytes (erasePretty k).2.2`): the plain output is `ks.flatMap prettyBody`
(`C14_pretty_content`), the indented one `ks.flatMap (prettyTokenBytes ·.2.2)` (`C14_pretty_string`). -/

/-- **C14_pretty_only_whitespace_bytes** (`TextOk` start nodes — well-formed documents and element-rooted
    subtrees —, every tree around them, every parameter set, arbitrary escaping functions).  Cut both strings
    between two consecutive tokens `k1 k2` that the indenting writer separates (newline behind `k1` or indentation
    in front of `k2`); `run` = the characters the indented output has there and the plain output lacks.  Then
    (a) the indented string is `A ++ run ++ B` and the plain string `A' ++ B'` with `A'`, `B'` the plain bytes of
        the tokens up to `k1` / from `k2` on;
    (b) `run` consists of line feeds and blanks;
    (c) the plain bytes before the run END WITH `>` (`A'.getLast? = some '>'`: not only "the token `k1`", which may
        be empty);
    (d) the plain bytes behind the run BEGIN WITH `<`, and so does the token `k2` itself, without a blank in
        front: the run is maximal in the indented string (`B` begins with `<`).
    Outside `TextOk` the statement fails: `C14_pretty_fragment_text_gets_newline` (fragment `<a/>x`: the run
    behind `<a/>` is followed by `x`).  The run behind the LAST token (`…>` + LF at the end of the output) has no
    `k2`: for it `C14_pretty_token_kinds` (the token closes markup) is the statement on record. -/
theorem C14_pretty_only_whitespace_bytes (esc : Escapers) (env : Env) (pr : TokenParams) (sup : List Nat)
    (t : Tree) (start : Path) (n : Tree) (inScope : List (Nat × Nat)) (hat : t.at? start = some n)
    (hs : namespacesInScope t start = some inScope) (hok : TextOk n)
    (ks pre post : List (Path × Output × PrettyOutputToken)) (k1 k2 : Path × Output × PrettyOutputToken)
    (h : prettyTokensWith esc env pr sup t start = .ok ks) (hks : ks = pre ++ k1 :: k2 :: post)
    (hw : k1.2.2.newline = true ∨ k2.2.2.indentation > 0) :
    (ks.flatMap (fun k => prettyTokenBytes k.2.2) =
      (pre.flatMap (fun k => prettyTokenBytes k.2.2)
          ++ (if k1.2.2.indentation > 0 then indentBytes k1.2.2.indentation else []) ++ prettyBody k1)
        ++ ((if k1.2.2.newline then prettyNewline else [])
          ++ (if k2.2.2.indentation > 0 then indentBytes k2.2.2.indentation else []))
        ++ (prettyBody k2 ++ (if k2.2.2.newline then prettyNewline else [])
          ++ post.flatMap (fun k => prettyTokenBytes k.2.2))) ∧
    ks.flatMap prettyBody = (pre ++ [k1]).flatMap prettyBody ++ (k2 :: post).flatMap prettyBody ∧
    (∀ k, prettyBody k = tokenBytes (erasePretty k).2.2) ∧
    ((if k1.2.2.newline then prettyNewline else [])
      ++ (if k2.2.2.indentation > 0 then indentBytes k2.2.2.indentation else [])).all isWsChar = true ∧
    ((pre ++ [k1]).flatMap prettyBody).getLast? = some '>' ∧
    ((k2 :: post).flatMap prettyBody).head? = some '<' ∧
    (prettyBody k2).head? = some '<' := by
  obtain ⟨a, b, c⟩ := pretty_whitespace_bytes sup t esc env pr start n inScope hat hs hok ks pre post k1 k2 h hks hw
  refine ⟨?_, ?_, fun _ => rfl, pretty_run_ws k1.2.2 k2.2.2, a, b, c⟩
  · subst hks
    simp only [List.flatMap_append, List.flatMap_cons, prettyTokenBytes, prettyBody, List.append_assoc]
  · subst hks
    simp only [List.flatMap_append, List.flatMap_cons, List.flatMap_nil, List.append_nil, List.append_assoc]

/-- Non-vacuity, closed: `<d><a/><!--c--></d>` (the example of `C14_pretty_only_whitespace`): between the EMPTY
    end-tag token of `<a/>` (newline behind it) and `<!--c-->` (indentation 1) the run is LF + two blanks; the
    plain bytes before it are `<><` + `/>` — ending with `>` although the token `k1` is empty. -/
example :
    let t : Tree := .node .document [.node (.element 5) [.node (.element 2) [], .node (.comment ['c']) []]]
    ∃ ks pre post k1 k2, prettyTokens {} {} [] t [] = .ok ks ∧ ks = pre ++ k1 :: k2 :: post ∧
      k1.2.2.text = [] ∧ k1.2.2.newline = true ∧ k2.2.2.indentation = 1 ∧
      (pre ++ [k1]).flatMap prettyBody = "<></>".toList ∧ (k2 :: post).flatMap prettyBody = "<!--c--></>".toList := by
  refine ⟨_, [_, _, _, _], [_], _, _, rfl, rfl, ?_⟩
  decide

/-! ### Indentation with a comment / processing-instruction / text START node (anywhere in any tree)

`gen_outputs(node)` of such a node is its single event and `Pretty::new` starts with the EMPTY stack whatever
is open above the node: `prettify` answers `(get_indentation(), get_newline()) = (0, true)` for `Comment` /
`ProcessingInstruction` and `(0, false)` for `Text`.  So a comment or PI start node is written with one line
feed behind it — also when it sits in mixed content, under `xml:space="preserve"` or under a suppressed element
of the tree it is taken from — and a text start node is written exactly as without indentation.
(`leafText`, `leafNewline`, `leafFragment`: Lemmas/SerIndentLeaf.lean, SerIndentLeafParse.lean; the crate agrees on
the `ser` suite's single-node and inner-path cases, e.g. `C s:` with `i` gives `<!---->` + LF.) -/

/-- **C14_indent_leaf_start**: for a comment / PI / text start node at ANY path of ANY tree (the node is a
    leaf; nothing is assumed about the rest of the tree), any escaping functions, any token parameters, any
    suppress list, with or without declaration, no doctype, indentation on:
    (a) the exact outcome: declaration ++ the node's token ++ `leafNewline` (LF behind a comment or PI, nothing
        behind a text node), or the token's error (`NamespaceInProcessingInstruction`);
    (b) it is the outcome of the same call WITHOUT indentation with that `leafNewline` appended: the two
        outputs differ by at most one trailing line feed, and not at all for a text node. -/
theorem C14_indent_leaf_start (esc : Escapers) (env : Env) (p : XmlParams) (sup : List Nat) (t : Tree)
    (start : Path) (v : Value) (hat : t.at? start = some (.node v [])) (hv : v.isLeafStart = true)
    (hdt : p.doctype = none) (hind : p.indentation = some sup) :
    serializeXmlStringWith esc env p t start =
      Outcome.prependOk p.declBytes
        ((leafText esc env p.tokenParams (t.parentAt? start) v).appendOk (leafNewline v)) ∧
    serializeXmlStringWith esc env p t start =
      (serializeXmlStringWith esc env { p with indentation := none } t start).appendOk (leafNewline v) ∧
    (leafNewline v = [] ∨ leafNewline v = ['\n']) ∧ (v.isText = true → leafNewline v = []) := by
  have h1 := serializeXmlString_leaf esc env p t start v hat hv
  simp only [hdt, hind] at h1
  have aux : ∀ p' : XmlParams, p'.doctype = none → p'.indentation = none → p'.declBytes = p.declBytes →
      p'.tokenParams = p.tokenParams → serializeXmlStringWith esc env p' t start =
        Outcome.prependOk p.declBytes ((leafText esc env p.tokenParams (t.parentAt? start) v).appendOk []) := by
    intro p' a b c d
    rw [serializeXmlString_leaf esc env p' t start v hat hv, a, b, c, d]
  have h2 := aux { p with indentation := none } hdt rfl rfl rfl
  refine ⟨h1, ?_, ?_, ?_⟩
  · rw [h1, h2]
    cases leafText esc env p.tokenParams (t.parentAt? start) v <;> simp [Outcome.appendOk, Outcome.prependOk]
  · cases v <;> simp [leafNewline, prettyNewline]
  · cases v <;> simp [leafNewline, Value.isText]

/-- With a doctype the call on such a node answers `NotElement`, indentation or not. -/
theorem C14_indent_leaf_start_doctype (esc : Escapers) (env : Env) (p : XmlParams) (t : Tree)
    (start : Path) (v : Value) (hat : t.at? start = some (.node v [])) (hv : v.isLeafStart = true)
    (d : DocType) (hdt : p.doctype = some d) :
    serializeXmlStringWith esc env p t start = .err .notElement := by
  rw [serializeXmlString_leaf esc env p t start v hat hv, hdt]

/-- **C14_indent_leaf_start, round trip** (`parse_fragment`; `parse` rejects a text without a root element):
    `t` any tree that is `nodeOK` everywhere, sane tables, the start node `n` a comment, a PI or a text node
    that is not the child of a CDATA-section element, no declaration (with one `parse_fragment` rejects the text
    at position 0: `C14_options_decl_fragment`), no doctype, indentation on: `parse_fragment` of the output
    returns `leafFragment` of the node, tables unchanged:
      * text start node: `D [ n ]` — exactly the node;
      * comment / PI start node: `D [ n, T "\n" ]` — the node and ONE whitespace-only text node, at the TOP
        level (the trailing line feed; `parse_fragment` keeps top-level white space).  It differs from `D [ n ]`
        only by that added whitespace-only text node (`AddsWs`), as the indentation clause demands, but the
        node is added at top level of a fragment — the case the property's quantifier leaves out ("the
        indentation clause ranges over well-formed documents and element-rooted subtrees").
    A text node under a CDATA-section element: its output is the same with and without indentation
    (`C14_indent_leaf_start` (b)); the reparse of that string as a fragment is not stated here. -/
theorem C14_indent_leaf_start_roundtrip (env : Env) (p : XmlParams) (sup : List Nat) (t : Tree) (start : Path)
    (n : Tree) (henv : envOK env = true) (hok : t.allNodes (nodeOK env) = true)
    (hat : t.at? start = some n) (hv : n.value.isLeafStart = true)
    (hpar : leafPlainParent p.tokenParams (t.parentAt? start) n.value = true)
    (hdecl : p.declaration = none) (hdt : p.doctype = none) (hind : p.indentation = some sup)
    (s : Str) (hs : serializeXmlString env p t start = .ok s) :
    ∃ q, parseString .fragment env s = .ok q ∧ q.tree = leafFragment n.value ∧ q.env = env ∧
      AddsWs (.node .document [n]) q.tree := by
  have hn := subtree_allNodes (nodeOK env) t start n hat hok
  obtain ⟨v, ks⟩ := n
  have hleaf : ks = [] := allNodes_leaf env hn (by cases v <;> simp_all [Tree.value, Value.isLeafStart, Value.isLeafKind])
  subst hleaf
  simp only [Tree.value] at hv hpar ⊢
  obtain ⟨body, hb, rfl⟩ := xmlString_decl_pretty env p t start hdt sup hind s hs
  simp only [XmlParams.declBytes, hdecl, List.nil_append]
  obtain ⟨q, h1, h2, h3⟩ := leaf_indent_roundtrip env p.tokenParams sup t start v hat hv henv
    (allNodes_value env hn) hpar body hb
  refine ⟨q, h1, h2, h3, ?_⟩
  rw [h2]
  cases v <;> simp [Value.isLeafStart] at hv
  · exact AddsWs.refl _
  · exact .node _ (.cons (AddsWs.refl _) (.ins (by decide) .nil))
  · exact .node _ (.cons (AddsWs.refl _) (.ins (by decide) .nil))

/-- Non-vacuity, closed (tables of Props/C01; `k` = name 4, `t` = name 5): in `<k><t>x<!--c-->y</t></k>` the
    comment sits in mixed content (no white space may be added there when the document is serialised), yet as a
    START node with indentation it is written `<!--c-->` + LF; the text node `x` is written `x`. -/
def c14LeafDoc : Tree :=
  .node .document [.node (.element 4) [.node (.element 5)
    [.node (.text ['x']) [], .node (.comment ['c']) [], .node (.text ['y']) []]]]

example : serializeXmlString c01Env { indentation := some [] } c14LeafDoc [] = .ok "<k>\n  <t>x<!--c-->y</t>\n</k>\n".toList := by
  decide
example : serializeXmlString c01Env { indentation := some [] } c14LeafDoc [0, 0, 1] = .ok "<!--c-->\n".toList := by decide
example : serializeXmlString c01Env {} c14LeafDoc [0, 0, 1] = .ok "<!--c-->".toList := by decide
example : serializeXmlString c01Env { indentation := some [] } c14LeafDoc [0, 0, 0] = .ok "x".toList := by decide
example : serializeXmlString c01Env { indentation := some [], doctype := some (.sys ['d']) } c14LeafDoc [0, 0, 1] =
    .err .notElement := by decide
example : ∃ q, parseString .fragment c01Env "<!--c-->\n".toList = .ok q ∧
    q.tree = .node .document [.node (.comment ['c']) [], .node (.text ['\n']) []] ∧ q.env = c01Env := by
  obtain ⟨q, h1, h2, h3, _⟩ := C14_indent_leaf_start_roundtrip c01Env { indentation := some [] } [] c14LeafDoc [0, 0, 1]
    (.node (.comment ['c']) []) (by decide) (by decide) rfl rfl (by decide) rfl rfl rfl "<!--c-->\n".toList (by decide)
  exact ⟨q, h1, h2, h3⟩

/-! ### C14_reachable_indent_roundtrip: indentation on the stores a history can build -/

/-- **C14_reachable_indent_roundtrip**: `C14_options_indent` for every document of every store reached by a
    `PCall` history from `Xot::new()` — `parse` / `parse_fragment` of arbitrary texts and well-kinded extended API
    calls in any order (`C04_reach_full`), text consolidation never switched off.  For every parentless tree `r`
    of the resulting forest whose root is a document node: if the tables are well formed, every node's own VALUE
    is in the XML domain, the `xml:id` values are pairwise different and there is exactly one top-level element
    and no top-level text — value-level conditions only, no structural hypothesis on the tree
    (`C01_reachable_representable_full`) — then for any suppress list, any token parameters, with or without
    declaration, no doctype: `parse` of the indented output returns `prettyTree sup` of the tree, which differs
    from it only by added whitespace-only text nodes; tables unchanged.  The serialisation succeeds iff
    `namesWritable` (second theorem). -/
theorem C14_reachable_indent_roundtrip (env : Env) (cs : List PCall) (hw : ∀ c ∈ cs, c.wellKinded)
    (hoff : ((PStore.init env).run cs).forest.everOff = false)
    (r : HTree) (hr : r ∈ ((PStore.init env).run cs).forest.roots)
    (hdoc : r.value.isDocument = true) (env' : Env) (henv : envOK env' = true)
    (hval : r.erase.allNodes (fun v _ => valueOK env' v) = true)
    (hid : (xmlIdValues env' r.erase).Nodup) (hone : singleRoot r.erase = true)
    (p : XmlParams) (sup : List Nat) (hdt : p.doctype = none) (hind : p.indentation = some sup)
    (henc : ∀ d e, p.declaration = some d → d.encoding = some e → Prolog.isEncName e = true)
    (s : Str) (hs : serializeXmlString env' p r.erase [] = .ok s) :
    ∃ q, parseString .document env' s = .ok q ∧ q.tree = prettyTree sup r.erase ∧ q.env = env' ∧
      AddsWs r.erase q.tree := by
  have hrep : Representable env' r.erase = true := by
    rw [(C01_reachable_representable_full env cs hw hoff r hr env').2]
    simp [henv, hdoc, hval, hid, hone]
  exact C14_options_indent env' p sup r.erase hrep hdt hind henc s hs

/-- The instance the property talks about: the tables the history itself leaves in the store. -/
theorem C14_reachable_indent_roundtrip_store (env : Env) (cs : List PCall) (hw : ∀ c ∈ cs, c.wellKinded)
    (S : PStore) (hS : S = (PStore.init env).run cs) (hoff : S.forest.everOff = false)
    (r : HTree) (hr : r ∈ S.forest.roots) (hdoc : r.value.isDocument = true) (henv : envOK S.env = true)
    (hval : r.erase.allNodes (fun v _ => valueOK S.env v) = true)
    (hid : (xmlIdValues S.env r.erase).Nodup) (hone : singleRoot r.erase = true)
    (p : XmlParams) (sup : List Nat) (hdt : p.doctype = none) (hind : p.indentation = some sup)
    (henc : ∀ d e, p.declaration = some d → d.encoding = some e → Prolog.isEncName e = true)
    (s : Str) (hs : serializeXmlString S.env p r.erase [] = .ok s) :
    ∃ q, parseString .document S.env s = .ok q ∧ q.tree = prettyTree sup r.erase ∧ q.env = S.env ∧
      AddsWs r.erase q.tree := by
  subst hS
  exact C14_reachable_indent_roundtrip env cs hw hoff r hr hdoc _ henv hval hid hone p sup hdt hind henc s hs

/-- Elements inside a reachable tree: `C14_indent_roundtrip_inner` for an element at any path of any parentless
    tree of a reachable store whose root is a document node (standalone document of the element). -/
theorem C14_reachable_indent_roundtrip_inner (env : Env) (cs : List PCall) (hw : ∀ c ∈ cs, c.wellKinded)
    (hoff : ((PStore.init env).run cs).forest.everOff = false)
    (r : HTree) (hr : r ∈ ((PStore.init env).run cs).forest.roots)
    (hdoc : r.value.isDocument = true) (env' : Env) (henv : envOK env' = true)
    (hval : r.erase.allNodes (fun v _ => valueOK env' v) = true)
    (hid : (xmlIdValues env' r.erase).Nodup)
    (p : XmlParams) (sup : List Nat) (q : Path) (name : Nat) (ks : List Tree)
    (hat : r.erase.at? q = some (.node (.element name) ks))
    (hdt : p.doctype = none) (hind : p.indentation = some sup)
    (henc : ∀ d e, p.declaration = some d → d.encoding = some e → Prolog.isEncName e = true)
    (s : Str) (hs : serializeXmlString env' p r.erase q = .ok s) :
    ∃ x X, standalone r.erase q = some (.node .document [.node (.element name) (nsLeaves X ++ ks)]) ∧
      Representable env' (.node .document [.node (.element name) (nsLeaves X ++ ks)]) = true ∧
      parseString .document env' s = .ok x ∧
      x.tree = prettyTree sup (.node .document [.node (.element name) (nsLeaves X ++ ks)]) ∧ x.env = env' ∧
      AddsWs (.node .document [.node (.element name) (nsLeaves X ++ ks)]) x.tree := by
  have hrep : RepresentableFragment env' r.erase = true := by
    rw [(C01_reachable_representable_full env cs hw hoff r hr env').1]
    simp [henv, hdoc, hval, hid]
  exact C14_indent_roundtrip_inner env' p sup r.erase hrep q name ks hat hdt hind henc s hs

/-- Non-vacuity, closed: parse `<k><t>x<k/></t><t/></k>` (`c14Ind`) into the store of `Xot::new()` over the tables
    of Props/C01 — the history `[parse]` —, serialise the document the store then holds with indentation, parse
    again: `prettyTree [] c14Ind`. -/
example : ∃ S r q, S = (PStore.init c01Env).run [.parse .document "<k><t>x<k/></t><t/></k>".toList] ∧
    S.forest.roots = [r] ∧ r.erase = c14Ind ∧ S.env = c01Env ∧
    serializeXmlString S.env { indentation := some [] } r.erase [] = .ok c14IndText ∧
    parseString .document S.env c14IndText = .ok q ∧ q.tree = prettyTree [] c14Ind := by
  obtain ⟨p, hp, ht, he, _⟩ := C14_options_cdata c01Env {} c14Ind (by decide) "<k><t>x<k/></t><t/></k>".toList (by decide)
  obtain ⟨h1, h2, _, h4, h5, _⟩ := C01_parse_edit_start c01Env _ p hp
  rw [ht] at h1 h2
  rw [he] at h5
  have hs : serializeXmlString ((PStore.init c01Env).run [.parse .document "<k><t>x<k/></t><t/></k>".toList]).env
      { indentation := some [] } (HTree.ofTree 0 c14Ind).erase [] = .ok c14IndText := by
    rw [h5, h2]; decide
  obtain ⟨q, k1, k2, _⟩ := C14_reachable_indent_roundtrip_store c01Env [.parse .document "<k><t>x<k/></t><t/></k>".toList]
    (fun c hc => by rcases List.mem_singleton.mp hc with rfl; trivial) _ rfl h4 (HTree.ofTree 0 c14Ind) (by rw [h1]; simp)
    (by rw [HTree.value_ofTree]; rfl) (by rw [h5]; decide) (by rw [h5, h2]; decide) (by rw [h5, h2]; decide)
    (by rw [h2]; decide) { indentation := some [] } [] rfl rfl (by intro d e hd; cases hd) c14IndText hs
  exact ⟨_, _, q, rfl, h1, h2, h5, hs, k1, by rw [k2, h2]⟩

end XotModel.Props
