/-
  C14 — Serialisation options change the spelling, never the content.  Property theorems only.

  Character level: CDATA-section splitting and `unescaped_gt`, for every string.
  Tree level (Pretty): `C14_pretty_content*` — indentation only adds fields to the token stream, it
  never changes a token; `C14_pretty_where_*` — where the `Pretty` stack machine grants
  indentation / a newline (full strength is false: see `C14_pretty_where_Statement`).
-/
import XotModel.Lemmas.Entity
import XotModel.Lemmas.Output
import XotModel.Lemmas.Pretty
import XotModel.Lemmas.PrettyWhere

namespace XotModel.Props
open XotModel XotModel.Gen

/-- Obligations on the literals `extract.py` read off `serialize_cdata`. -/
theorem C14_cdata_literals :
    cdataOpen = ['<','!','[','C','D','A','T','A','['] ∧
    cdataSplit = [']',']',']',']','>'] ++ cdataOpen ++ ['>'] ∧
    cdataClose = [']',']','>'] := by decide

/-- `serialize_cdata s` is a sequence of well-formed CDATA sections — each one ends at its first
    `]]>`, so none contains `]]>` — whose contents concatenate to `s`; for every `s`, in particular
    every run of `]` and `>`. -/
theorem C14_cdata (s : Str) : cdataSectionsContent (serializeCdata s) = some s := by
  obtain ⟨hO, hS, hC⟩ := C14_cdata_literals
  have h := cdataGo_sections hO hS hC s 0 0 (by omega) (by intro; rfl)
  simp only [List.replicate_zero, List.nil_append, Nat.zero_add] at h
  unfold cdataSectionsContent serializeCdata
  rw [hO]
  simp only [List.cons_append, List.nil_append]
  rw [afterSection_open, h]

theorem C14_gt_tables :
    tableOk textEscapes = true ∧ tableCovers false textEscapes = true ∧
    refOk '>' textGtEscape = true ∧ tableNoGtBracket textEscapes = true ∧
    textGtEscape.contains '>' = false := by decide

/-- With `unescaped_gt` the text still decodes to the original value … -/
theorem C14_gt (s : Str) : parseText (serializeText true s) = .ok s := by
  obtain ⟨h1, h2, h3, _, _⟩ := C14_gt_tables
  unfold parseText parseContent serializeText
  simp only [if_true]
  rw [serializeTextGtGo_eq]
  simpa using gt_roundtrip h1 h2 h3 s [] 0 0

/-- … and never contains `]]>`, nor a raw `<`. -/
theorem C14_gt_no_cdata_end (s : Str) : hasCdataEnd (serializeText true s) = false := by
  obtain ⟨_, _, _, h4, h5⟩ := C14_gt_tables
  unfold serializeText
  simp only [if_true]
  rw [serializeTextGtGo_eq]
  exact gtOut_noCdataEnd h4 h5 s [] rfl

theorem C14_gt_lexsafe (s : Str) : '<' ∉ serializeText true s := by
  unfold serializeText
  simp only [if_true]
  rw [serializeTextGtGo_eq]
  simpa using gtOut_hides (c := '<') (by decide) (by decide) (by decide) s []

/-- Sanity: the pinned examples of the unit tests come out of the model. -/
example : serializeCdata [']',']','>'] = "<![CDATA[]]]]><![CDATA[>]]>".toList := by decide
example : serializeText true [']',']','>'] = "]]&gt;".toList := by decide

/-! ### Pretty printing changes no token -/

/-- Erasing the indentation and newline fields of the pretty token stream gives back the plain
    token stream (same nodes, same events, same texts and space flags), for every tree, start
    node, parameter set and suppress list, and for arbitrary escaping functions. -/
theorem C14_pretty_content (esc : Escapers) (env : Env) (pr : TokenParams) (sup : List Nat) (t : Tree)
    (start : Path) (ks : List (Path × Output × PrettyOutputToken))
    (h : prettyTokensWith esc env pr sup t start = .ok ks) :
    tokensWith esc env pr t start = .ok (ks.map erasePretty) := by
  unfold prettyTokensWith at h
  unfold tokensWith
  have := prettyAll_erase esc env pr t sup [] (initStack t start) (genOutputs t start)
  cases hp : prettyAllWith esc env pr sup t [] (initStack t start) (genOutputs t start) with
  | ok l =>
    simp only [hp] at h this
    cases h
    rw [this]
  | err e => simp [hp] at h
  | panic => simp [hp] at h

/-- Conversely: whenever the plain token stream exists, so does the pretty one, and it erases to it. -/
theorem C14_pretty_content_conv (esc : Escapers) (env : Env) (pr : TokenParams) (sup : List Nat)
    (t : Tree) (start : Path) (l : List (Path × Output × OutputToken))
    (h : tokensWith esc env pr t start = .ok l) :
    ∃ ks, prettyTokensWith esc env pr sup t start = .ok ks ∧ ks.map erasePretty = l := by
  unfold tokensWith at h
  cases hr : renderAllWith esc env pr t (initStack t start) (genOutputs t start) with
  | ok l' =>
    simp only [hr] at h
    cases h
    obtain ⟨ks, hk, he⟩ := renderAll_lift_pretty esc env pr t sup [] _ _ _ hr
    exact ⟨ks, by simp [prettyTokensWith, hk], he⟩
  | err e => simp [hr] at h
  | panic => simp [hr] at h

/-- The pretty string therefore consists of the plain tokens plus, per token, `2·indentation`
    spaces in front and at most one line feed behind: nothing else is added or removed. -/
theorem C14_pretty_string (esc : Escapers) (env : Env) (pr : TokenParams) (sup : List Nat) (t : Tree)
    (start : Path) (s : Str) (h : serializePrettyWith esc env pr sup t start = .ok s) :
    ∃ ks : List (Path × Output × PrettyOutputToken),
      tokensWith esc env pr t start = .ok (ks.map erasePretty) ∧
      s = ks.flatMap (fun k => prettyTokenBytes k.2.2) ∧
      ∀ k ∈ ks, prettyTokenBytes k.2.2 =
        (if k.2.2.indentation > 0 then indentBytes k.2.2.indentation else [])
          ++ tokenBytes (erasePretty k).2.2 ++ (if k.2.2.newline then prettyNewline else []) := by
  unfold serializePrettyWith serializePrettyWriteWith bufferToString at h
  have ho := writePrettyGo_outcome esc env pr t sup [] (initStack t start) (genOutputs t start)
  cases hr : prettyAllWith esc env pr sup t [] (initStack t start) (genOutputs t start) with
  | ok ks =>
    have hk : prettyTokensWith esc env pr sup t start = .ok ks := by simp [prettyTokensWith, hr]
    refine ⟨ks, C14_pretty_content esc env pr sup t start ks hk, ?_, ?_⟩
    · rw [writePrettyGo_of_prettyAll_ok esc env pr t sup _ _ _ _ hr] at h
      simp at h
      rw [← h]; rfl
    · intro k _
      obtain ⟨p, o, ind, sp, tx, nl⟩ := k
      cases sp <;> simp [prettyTokenBytes, tokenBytes, erasePretty]
  | err e => rw [hr] at ho; simp only [] at ho; rw [ho] at h; cases h
  | panic => rw [hr] at ho; simp only [] at ho; rw [ho] at h; cases h

/-! ### Where `Pretty` grants whitespace (the stack machine of pretty.rs)

The stack holds one entry per open element that has children: `Mixed` when it has a text child or
is named in the suppress list, otherwise `Unmixed(xml:space of the element)`. -/

/-- A newline is granted only outside mixed / suppressed content and outside the scope of
    `xml:space="preserve"` (innermost `preserve` / `default` decides). -/
theorem C14_pretty_where_newline (ps : PStack) (h : ps.getNewline = true) :
    ps.inMixed = false ∧ ps.inSpacePreserve = false := by
  simpa [PStack.getNewline] using h

/-- Inside mixed or suppressed content (at any depth) there is neither indentation nor a newline. -/
theorem C14_pretty_where_mixed (ps : PStack) (h : ps.inMixed = true) :
    ps.getIndentation = 0 ∧ ps.getNewline = false := by
  simp [PStack.getIndentation, PStack.getNewline, h]

/-- What `StartTagClose` pushes for an element with children. -/
theorem C14_pretty_where_entry (sup : List Nat) (ps : PStack) (name : Nat) (ks : List Tree)
    (hc : (Tree.node (.element name) ks).firstChild?.isSome = true) :
    (prettify sup ps (.node (.element name) ks) .startTagClose).1 =
      (if hasInlineChild (.node (.element name) ks) || sup.contains name then StackEntry.mixed
       else StackEntry.unmixed (elementSpace (.node (.element name) ks))) :: ps := by
  unfold prettify
  simp only [hc, if_true, Tree.value]
  by_cases hi : hasInlineChild (.node (.element name) ks) = true
  · simp [hi]
  · by_cases hs : sup.contains name = true
    · have : name ∈ sup := by simpa using hs
      simp [hi, this]
    · have : name ∉ sup := by simpa using hs
      simp [hi, this]

/-- Full-strength placement rule for indentation: none inside a `preserve` scope.  FALSE for the
    code as written. -/
def C14_pretty_where_Statement : Prop :=
  ∀ ps : PStack, ps.inSpacePreserve = true → ps.getIndentation = 0

/-- What the code does instead: inside a `preserve` scope the indentation is frozen at the value it
    had where the `preserve` element was opened (`below` = the entries under the `Preserve` entry). -/
theorem C14_pretty_where_frozen (ps : PStack) (h : ps.inSpacePreserve = true) (hm : ps.inMixed = false) :
    ∃ a below : PStack, ps = a ++ StackEntry.unmixed .preserve :: below ∧ PStack.AllEmpty a ∧
      ps.getIndentation = below.getIndentation := by
  obtain ⟨a, below, hs, ha⟩ := PStack.inSpacePreserve_shape h
  refine ⟨a, below, hs, ha, ?_⟩
  have hb : PStack.inMixed below = false := by
    rw [hs, PStack.inMixed_append] at hm
    have h2 : PStack.inMixed (StackEntry.unmixed .preserve :: below) = false := by
      cases h1 : PStack.inMixed a <;> simp_all
    simpa [PStack.inMixed] using h2
  simp only [PStack.getIndentation, hm, hb]
  rw [hs, PStack.foldl_indentStep_preserve ha]

/-- `_partial`: the rule holds when the `preserve` element is the outermost open element with
    children (depth 0) — the only situation the crate's snapshots cover. -/
theorem C14_pretty_where_partial (a : PStack) (ha : PStack.AllEmpty a) :
    PStack.getIndentation (a ++ [StackEntry.unmixed .preserve]) = 0 := by
  have hm : PStack.inMixed (a ++ [StackEntry.unmixed .preserve]) = false := by
    rw [PStack.inMixed_append, PStack.inMixed_allEmpty ha]; rfl
  simp only [PStack.getIndentation, hm]
  rw [PStack.foldl_indentStep_preserve ha]
  rfl

/-- The defect, as a closed witness: `<doc><a xml:space="preserve"><b>…` — the stack when `<b` is
    written is `[Preserve(a), Empty(doc)]`: in `preserve` scope, indentation 1. -/
theorem C14_pretty_where_false : ¬ C14_pretty_where_Statement := by
  intro h
  have := h [StackEntry.unmixed .preserve, StackEntry.unmixed .empty] (by decide)
  revert this
  decide

/-- The same witness end to end: pretty-printing `<d><a xml:space="preserve"><b><c/></b></a></d>`
    (names: d=5, a=2, b=3, c=4; `xml:space` is name 0).  Per token: node, indentation, newline.
    `<b` (node 0.0.1), `<c` and `</b>`, `</a>` are indented by one level inside the `preserve`
    element: the implementation prints `<a xml:space="preserve">  <b>  <c/>  </b>  </a>`. -/
example :
    (prettyTokens {} {} []
      (.node .document [.node (.element 5) [.node (.element 2)
        [.node (.attribute 0 Gen.spacePreserve) [], .node (.element 3) [.node (.element 4) []]]]]) []
      ).okValue?.map (fun l => l.map (fun k => (k.1, k.2.2.indentation, k.2.2.newline)))
    = some [([0], 0, false), ([0], 0, true),
            ([0, 0], 1, false), ([0, 0], 0, false), ([0, 0], 0, false),
            ([0, 0, 1], 1, false), ([0, 0, 1], 0, false),
            ([0, 0, 1, 0], 1, false), ([0, 0, 1, 0], 0, false), ([0, 0, 1, 0], 0, false),
            ([0, 0, 1], 1, false), ([0, 0], 1, true), ([0], 0, true)] := by decide

/-! ### The doctype writer -/

/-- Full-strength rule for the doctype (XML 1.0 VC "Root Element Type"): the name written in
    `<!DOCTYPE name …>` is the name written in the root element's start tag.  FALSE for the code as
    written: the doctype name is computed with `prefix_for_namespace` (first binding in declaration
    order), the start tag with `FullnameSerializer::element_fullname` (default namespace
    preferred, else the most recent binding). -/
def C14_doctype_Statement : Prop :=
  ∀ (env : Env) (name : Nat) (ks : List Tree) (dn : Str) (toks : List (Path × Output × OutputToken)),
    doctypeName env (.node (.element name) ks) [] = .ok dn →
    tokens env {} (.node (.element name) ks) [] = .ok toks →
    (toks.head?.map (fun k => k.2.2.text)) = some (fmt Gen.fmtStartTagOpen [dn])

/-- Closed witness: `<a xmlns:r="u" xmlns:q="u"/>` with `a` in namespace `u` serialises as
    `<!DOCTYPE r:a SYSTEM "d">` followed by `<q:a xmlns:r="u" xmlns:q="u"/>`. -/
theorem C14_doctype_false : ¬ C14_doctype_Statement := by
  intro h
  have := h ⟨[[], ['X'], ['u']], [[], ['x','m','l'], ['p'], ['q'], ['r']], [(['a'], 2)]⟩ 0
    [.node (.namespace 4 2) [], .node (.namespace 3 2) []] ['r', ':', 'a']
    [([], .startTagOpen 0, ⟨false, ['<','q',':','a']⟩), ([], .pfx 1 1, ⟨false, []⟩),
     ([], .pfx 4 2, ⟨true, ['x','m','l','n','s',':','r','=','"','u','"']⟩),
     ([], .pfx 3 2, ⟨true, ['x','m','l','n','s',':','q','=','"','u','"']⟩),
     ([], .startTagClose, ⟨false, ['/','>']⟩), ([], .endTag 0, ⟨false, []⟩)]
    (by decide) (by decide)
  revert this
  decide

/-! ### The same rules read off the tree -/

/-- Traversal invariant of the `Pretty` stack: the indentation and newline of every pretty token
    are `prettify` evaluated on the entries of the open elements (those with children) between the
    start node and the token's node — `pentriesFor`, an explicit function of the tree; each such
    element contributes `Mixed` if it has a text child or is suppressed, else `Unmixed(xml:space)`. -/
theorem C14_pretty_where_tree (esc : Escapers) (env : Env) (pr : TokenParams) (sup : List Nat) (t : Tree)
    (start : Path) (n : Tree) (inScope : List (Nat × Nat)) (hat : t.at? start = some n)
    (hs : namespacesInScope t start = some inScope)
    (ks : List (Path × Output × PrettyOutputToken))
    (h : prettyTokensWith esc env pr sup t start = .ok ks)
    (k : Path × Output × PrettyOutputToken) (hk : k ∈ ks) :
    ∃ rel, k.1 = start ++ rel ∧
      (k.2.2.indentation, k.2.2.newline) =
        (prettifyAt sup t (pentriesFor sup k.2.1 n rel) k.1 k.2.1).2 := by
  obtain ⟨rel, h1, _, h2⟩ := pretty_token_entries sup t esc env pr start n inScope hat hs ks h k hk
  exact ⟨rel, h1, h2⟩

/-- Mixed content and suppress list, on trees, full strength: a token receives indentation or a
    newline only if no open element strictly above its node has a text child or is named in the
    suppress list — at any depth. -/
theorem C14_pretty_where_tree_mixed (esc : Escapers) (env : Env) (pr : TokenParams) (sup : List Nat)
    (t : Tree) (start : Path) (n : Tree) (inScope : List (Nat × Nat)) (hat : t.at? start = some n)
    (hs : namespacesInScope t start = some inScope)
    (ks : List (Path × Output × PrettyOutputToken))
    (h : prettyTokensWith esc env pr sup t start = .ok ks)
    (k : Path × Output × PrettyOutputToken) (hk : k ∈ ks)
    (hw : k.2.2.indentation > 0 ∨ k.2.2.newline = true) :
    ∃ rel, k.1 = start ++ rel ∧
      ∀ a name, OpenAbove n rel a → a.value = .element name → a.firstChild?.isSome = true →
        hasInlineChild a = false ∧ sup.contains name = false := by
  obtain ⟨rel, node, hp, hnode, hm⟩ :=
    pretty_where_notMixed sup t esc env pr start n inScope hat hs ks h k hk hw
  refine ⟨rel, hp, fun a name ha hv hc => ?_⟩
  have hopen : entryFor sup a ∈ openEntryOf sup a := by simp [openEntryOf, hv, hc]
  have hin := openAbove_entry sup n rel a ha _ hopen
  have hne : entryFor sup a ≠ StackEntry.mixed := by
    intro he
    have : PStack.inMixed (pentriesAbove sup n rel) = true := by
      simp only [PStack.inMixed, List.any_eq_true]
      exact ⟨_, hin, by simp [he]⟩
    rw [hm] at this
    cases this
  have h3 : ¬ (hasInlineChild a = true ∨ sup.contains name = true) :=
    fun hor => hne ((entryFor_mixed_iff sup a name hv).mpr hor)
  simp only [not_or, Bool.not_eq_true] at h3
  exact h3

/-- Non-vacuity: in `<d><a>t<b/></a></d>` (d=5, a=2, b=3) tokens do receive whitespace (`>` of `d`
    gets a newline, `<a` indentation 1) while nothing inside the mixed element `a` does. -/
example :
    (prettyTokens {} {} []
      (.node .document [.node (.element 5) [.node (.element 2) [.node (.text ['t']) [], .node (.element 3) []]]]) []
      ).okValue?.map (fun l => l.map (fun k => (k.1, k.2.2.indentation, k.2.2.newline)))
    = some [([0], 0, false), ([0], 0, true), ([0, 0], 1, false), ([0, 0], 0, false),
            ([0, 0, 0], 0, false), ([0, 0, 1], 0, false), ([0, 0, 1], 0, false), ([0, 0, 1], 0, false),
            ([0, 0], 0, true), ([0], 0, true)] := by decide

end XotModel.Props
