/-
  C09 — Namespace scope queries agree with nearest-declaration-wins scoping.
  Property theorems only; for every tree, every path, every prefix / namespace / name id.

  Specification: `scopeSpec t path p` (Model/Scope.lean) — recursion on the ancestor-or-self chain,
  nearest declaration of `p` wins, `xmlns=""` removes the default binding, `xml` bound above the root.

    C09_in_scope                  namespaces_in_scope enumerates exactly scopeSpec, each prefix once,
                                  never xmlns="", always xml
    C09_ns_for_prefix             namespace_for_prefix = scopeSpec (full strength since /repo debae56:
                                  only xmlns="" hides a binding; all trees, nodes, prefixes)
    C09_ns_for_prefix_in_scope    namespace_for_prefix(p) = Some(ns) iff namespaces_in_scope lists (p, ns)
    C09_defined                   is_prefix_defined is implied by a binding
    C09_prefix_sound              prefix_for_namespace(ns) = p, ns real  ⇒  p is bound to ns
    C09_prefix_complete           whenever some prefix is bound to ns, prefix_for_namespace finds one
                                  (full strength since /repo 6df2c0f: a shadowed prefix is skipped);
                                  C09_prefix_iff: for a real namespace, Some(_) iff bound
    C09_fullname_string           full_name is the spelling of name_ref's prefix
    C09_node_name_ref             node_name_ref reports the node's own name with name_ref's prefix
    C09_inherited_sound           inherited_prefixes ⊆ bindings in scope at the parent
    C09_unresolved_recursive      unresolved_namespaces = a recursive function of the declarations inside the
                                  subtree only (name stack starts empty)
    C09_unresolved_element        per element, under the stack invariant: exactly the namespace of its name if
                                  real, not XML and bound to no prefix, and the namespaces of its attribute
                                  names that are real, not XML and bound to no NON-EMPTY prefix
    C09_unresolved_real           the no-namespace id and the XML namespace are never reported
    C09_stack_invariant           FullnameSerializer: top frame = nearest-declaration bindings of the
                                  frames pushed (unique prefixes per element)
    C09_unresolved                ONE path-indexed iff over the whole subtree: ns is reported iff some
                                  element e of the subtree has a name in ns that the declarations on the
                                  way from the node to e (inclusive, EMPTY frame below) give no usable prefix
    C09_unresolved_unique_needed  closed witness: with a prefix declared twice on one element the iff fails
    C09_inherited                 inherited_prefixes = ALL bindings in scope at the parent (default prefix
                                  included, every prefix of a namespace) whose namespace is reported
                                  unresolved; each prefix once
    C09_inherited_iff             … = bindings of the parent's scope that some name of the subtree needs
    C09_prefix_first / C09_namespace_prefix_first   WHICH prefix: for a real namespace, the prefix of the
                                  first pair namespaces_in_scope yields with that namespace (attribute
                                  nodes: the first such pair with a NON-EMPTY prefix)
  Qualified names, full strength since /repo 7303420 + 84c8828 (no guards, every tree, every node):
    C09_nameref_attribute / C09_fullname_attribute   context = attribute node (any name): Ok(p) ⇒ p non-empty
                                  for a real namespace and p reads back (attribute rule: unprefixed = no
                                  namespace) as the name's namespace; Err ⇔ real namespace with no NON-EMPTY
                                  prefix bound to it, and then MissingPrefix(ns)
    C09_nameref_element / C09_fullname_element       context = element, its OWN name: Ok(p) ⇒ p reads back
                                  (element rule: unprefixed = default namespace if any) as the name's
                                  namespace; Err ⇔ (real namespace, no prefix at all bound) or (no namespace,
                                  default namespace in scope), and then MissingPrefix(ns) / MissingPrefix("")
    C09_nameref_other_name / C09_fullname_other_name context not an attribute node, name not its own element
                                  name: exactly prefix_for_namespace (default prefix included); a
                                  no-namespace name is never refused
    C09_fullname                  the property as worded, for node_name_ref on every element / attribute node
  The name types that consume these results (xmlname/*.rs, Model/XmlName.lean):
    C09_parse_full_name_inverse   OwnedName::parse_full_name / CreateName::parse_full_name with the element-rule
                                  lookup of the node's scope give back exactly what name_ref + to_owned
                                  reported, for the string full_name wrote — whenever that lookup resolves the
                                  written prefix to the name's namespace; C09_parse_full_name_resolves: which is
                                  always the case for a name in a real namespace, and for a no-namespace name
                                  iff no default namespace is in scope (the attribute-style spelling)
    C09_to_owned_round_trip       to_owned then to_ref / maybe_to_ref / to_create returns the ids, tables unchanged
                                  (C09_interned_found: the side conditions hold for duplicate-free tables)
    C09_has_unprefixed_namespace  = in_default_namespace of to_owned
    C09_with_suffix, C09_with_default_namespace
-/
import XotModel.Lemmas.Scope
import XotModel.Lemmas.ScopeStack
import XotModel.Lemmas.ScopeWalk
import XotModel.Lemmas.ScopeSerialise
import XotModel.Lemmas.ScopeUnres
import XotModel.Lemmas.ScopeFirst
import XotModel.Lemmas.ScopeName
import XotModel.Lemmas.XmlName
import XotModel.Lemmas.ReachScope
import XotModel.Lemmas.ReachHist
import XotModel.Props.C04

namespace XotModel.Props
open XotModel

/-- `namespaces_in_scope(node)` enumerates exactly the specification: `(p, ns)` is yielded iff `p`
    is bound to `ns`; each prefix at most once; `xmlns=""` never; `xml` always. -/
theorem C09_in_scope (t : Tree) (path : Path) (l : List (Nat × Nat))
    (h : namespacesInScope t path = some l) :
    (∀ p ns, (p, ns) ∈ l ↔ scopeSpec t path p = some ns) ∧
    (l.map Prod.fst).Nodup ∧
    (Env.emptyPrefix, Env.noNamespace) ∉ l ∧
    ∃ ns, (Env.xmlPrefix, ns) ∈ l := by
  simp only [namespacesInScope, Option.map_eq_some_iff] at h
  obtain ⟨chain, hc, rfl⟩ := h
  have hspec : ∀ p, scopeSpec t path p = scopeSpecChain chain p := by intro p; simp [scopeSpec, hc]
  refine ⟨fun p ns => by rw [hspec]; exact mem_namespacesInScopeChain chain p ns,
    namespacesInScopeChain_nodup chain, ?_, ?_⟩
  · intro hm
    exact scopeSpecChain_empty_ne chain ((mem_namespacesInScopeChain chain _ _).1 hm)
  · obtain ⟨ns, hns⟩ := scopeSpecChain_xml chain
    exact ⟨ns, (mem_namespacesInScopeChain chain _ _).2 hns⟩

/-- `namespace_for_prefix(p)` is the specification's binding of `p` — full strength since /repo
    debae56 (before, a non-empty prefix bound to the empty URI was reported as `None` while
    `namespaces_in_scope` listed it): every tree, every node, every prefix. -/
theorem C09_ns_for_prefix (t : Tree) (path : Path) (p : Nat) (r : Option Nat)
    (h : namespaceForPrefix t path p = some r) :
    r = scopeSpec t path p := by
  simp only [namespaceForPrefix, Option.map_eq_some_iff] at h
  obtain ⟨chain, hc, rfl⟩ := h
  simp [scopeSpec, hc, namespaceForPrefixChain_eq]

/-- `namespace_for_prefix` and `namespaces_in_scope` agree: `Some(ns)` iff the pair is listed. -/
theorem C09_ns_for_prefix_in_scope (t : Tree) (path : Path) (p ns : Nat) (l : List (Nat × Nat))
    (hl : namespacesInScope t path = some l) :
    namespaceForPrefix t path p = some (some ns) ↔ (p, ns) ∈ l := by
  rw [(C09_in_scope t path l hl).1 p ns]
  simp only [namespacesInScope, Option.map_eq_some_iff] at hl
  obtain ⟨chain, hc, _⟩ := hl
  simp [namespaceForPrefix, scopeSpec, hc, namespaceForPrefixChain_eq]

/-- `is_prefix_defined` holds for every bound prefix. -/
theorem C09_defined (t : Tree) (path : Path) (p ns : Nat) (h : scopeSpec t path p = some ns) :
    isPrefixDefined t path p = some true := by
  unfold scopeSpec at h
  cases hc : t.ancestorsOrSelf path with
  | none => simp [hc] at h
  | some chain =>
    simp only [hc] at h
    simp [isPrefixDefined, hc, isPrefixDefinedChain_eq, scopeSpecChain_some_lookup h]

/-- Soundness of `prefix_for_namespace` for a real namespace. -/
theorem C09_prefix_sound (t : Tree) (path : Path) (ns p : Nat)
    (h : prefixForNamespace t path ns = some (some p)) (hns : ns ≠ Env.noNamespace) :
    scopeSpec t path p = some ns := by
  simp only [prefixForNamespace, Option.map_eq_some_iff] at h
  obtain ⟨chain, hc, h⟩ := h
  simp only [scopeSpec, hc]
  exact (namespacePrefixChain_sound (by simpa [prefixForNamespaceChain] using h) hns).1

/-- Completeness, at full strength: if some prefix is bound to `ns` in the node's scope,
    `prefix_for_namespace` returns a prefix, and (for a real namespace) one bound to `ns`. -/
theorem C09_prefix_complete (t : Tree) (path : Path) (ns : Nat)
    (hex : ∃ p, scopeSpec t path p = some ns) :
    ∃ p, prefixForNamespace t path ns = some (some p) ∧
      (ns ≠ Env.noNamespace → scopeSpec t path p = some ns) := by
  obtain ⟨q, hq⟩ := hex
  unfold scopeSpec at hq
  cases hc : t.ancestorsOrSelf path with
  | none => simp [hc] at hq
  | some chain =>
    simp only [hc] at hq
    obtain ⟨p, hp⟩ := namespacePrefixChain_complete (ne := false) ⟨q, hq, rfl⟩
    have hres : prefixForNamespace t path ns = some (some p) := by
      simp [prefixForNamespace, hc, prefixForNamespaceChain, hp]
    exact ⟨p, hres, fun hns => C09_prefix_sound t path ns p hres hns⟩

/-- For a real namespace: `prefix_for_namespace` answers `Some(_)` exactly when the namespace is
    bound in the node's scope. -/
theorem C09_prefix_iff (t : Tree) (path : Path) (ns : Nat) (hns : ns ≠ Env.noNamespace) :
    (∃ p, prefixForNamespace t path ns = some (some p)) ↔ ∃ p, scopeSpec t path p = some ns :=
  ⟨fun ⟨p, hp⟩ => ⟨p, C09_prefix_sound t path ns p hp hns⟩,
   fun h => let ⟨p, hp, _⟩ := C09_prefix_complete t path ns h; ⟨p, hp⟩⟩

/-! ### `node_name_ref` -/

/-- `node_name_ref(node)` reports the node's own name (`node_name`) with `name_ref`'s prefix. -/
theorem C09_node_name_ref (env : Env) (t : Tree) (path : Path) (chain : List Tree) (sub : Tree)
    (name p : Nat) (hc : t.ancestorsOrSelf path = some chain) (hs : t.at? path = some sub)
    (h : nodeNameRef env t path = some (.ok (some (name, p)))) :
    nodeName sub.value = some name ∧ nameRefChain env chain name = .ok p := by
  have hh := ancestorsOrSelf_head path t chain hc
  rw [hs] at hh
  simp only [nodeNameRef, hc, Option.map_some, Option.some.injEq, nodeNameRefChain, hh] at h
  cases hn : nodeName sub.value with
  | none => simp [hn] at h
  | some n =>
    simp only [hn] at h
    cases hr : nameRefChain env chain n with
    | error e => simp [hr] at h
    | ok q =>
      simp only [hr, Except.ok.injEq, Option.some.injEq, Prod.mk.injEq] at h
      obtain ⟨rfl, rfl⟩ := h
      exact ⟨rfl, hr⟩

/-- `inherited_prefixes(node)` only lists bindings in scope at the parent. -/
theorem C09_inherited_sound (env : Env) (t : Tree) (path : Path) (l : List (Nat × Nat))
    (h : inheritedPrefixes env t path = some l) (p ns : Nat) (hm : (p, ns) ∈ l) :
    path ≠ [] ∧ scopeSpec t path.dropLast p = some ns := by
  unfold inheritedPrefixes at h
  cases hs : t.at? path with
  | none => simp [hs] at h
  | some sub =>
    simp only [hs, Option.some.injEq] at h
    subst h
    simp only [List.mem_filter] at hm
    cases path with
    | nil => simp at hm
    | cons i rest =>
      refine ⟨by simp, ?_⟩
      simp only [List.isEmpty_cons, Bool.false_eq_true, ↓reduceIte] at hm
      cases hn : namespacesInScope t (i :: rest).dropLast with
      | none => simp [hn] at hm
      | some l' =>
        simp only [hn, Option.getD_some] at hm
        exact ((C09_in_scope t _ l' hn).1 p ns).1 hm.1

/-- `unresolved_namespaces(node)` depends on the subtree only and is the recursive function
    `unresolvedRec` started from an EMPTY frame: the edge loop, the push-if-non-empty /
    pop-if-had-declarations discipline are discharged. -/
theorem C09_unresolved_recursive (env : Env) (t : Tree) (path : Path) :
    unresolvedNamespaces env t path = (t.at? path).map (unresolvedRec env []) := by
  unfold unresolvedNamespaces
  cases t.at? path <;> simp [unresolvedNamespacesSub_eq]

/-- What one element contributes, read against the nearest-declaration bindings of the frames
    pushed inside the subtree (stack invariant of `C09_stack_invariant`): the namespace of the
    element name if it is real, not the XML namespace and bound to no prefix; the namespace of an
    attribute name if it is real, not the XML namespace and bound to no non-empty prefix. -/
theorem C09_unresolved_element (env : Env) (s : FStack) (frames : List (List (Nat × Nat)))
    (h : FrameInv s.top frames) (t : Tree) (name ns : Nat) :
    ns ∈ unresolvedOfElement env s.top t name ↔
      (env.nsOfName name = ns ∧ ns ≠ Env.noNamespace ∧ ns ≠ Env.xmlNamespace ∧
        ∀ p, scopeOf frames p ≠ some ns) ∨
      (∃ a ∈ t.attrs.map (·.1), env.nsOfName a = ns ∧ ns ≠ Env.noNamespace ∧
        ns ≠ Env.xmlNamespace ∧ ∀ p, p ≠ Env.emptyPrefix → scopeOf frames p ≠ some ns) :=
  mem_unresolvedOfElement_gen env s.top frames h t name ns

/-- The no-namespace id and the XML namespace are never reported as unresolved. -/
theorem C09_unresolved_real (env : Env) (t : Tree) (path : Path) (l : List Nat)
    (h : unresolvedNamespaces env t path = some l) (ns : Nat) (hm : ns ∈ l) :
    ns ≠ Env.noNamespace ∧ ns ≠ Env.xmlNamespace := by
  rw [C09_unresolved_recursive] at h
  cases hs : t.at? path with
  | none => simp [hs] at h
  | some sub =>
    simp only [hs, Option.map_some, Option.some.injEq] at h
    subst h
    exact unresolvedRec_real env ns sub [] hm

/-- The name stack of the serialisers (`FullnameSerializer`): after pushing the declarations of
    the elements `frames` (innermost first, unique prefixes per element) the top frame holds
    exactly the nearest-declaration bindings, each prefix once; `pop` undoes `push`. -/
theorem C09_stack_invariant (s : FStack) (frames : List (List (Nat × Nat))) (decls : List (Nat × Nat))
    (h : FrameInv s.top frames) (hd : (decls.map Prod.fst).Nodup) :
    FrameInv (s.push decls).top (decls :: frames) ∧ (s.push decls).pop (!decls.isEmpty) = s :=
  ⟨h.push decls hd, FStack.pop_push_sc s decls⟩

/-! ### `unresolved_namespaces` and `inherited_prefixes` over the whole subtree -/

/-- `unresolved_namespaces(node)`, one statement for the whole subtree.  The result is a list in
    document order WITH repetitions (one entry per name that cannot be written; the code does not
    deduplicate), so the statement is about membership: `ns` is reported iff there is an element
    `e` (at raw path `q` below `node`, `chain` = the nodes from `e` up to `node`) with
    `NeedsNs … e ns`: `ns` is real and not the XML namespace, and either `e`'s element name is in
    `ns` and NO prefix is bound to `ns`, or one of `e`'s attribute names is in `ns` and no
    NON-EMPTY prefix is bound to `ns` — bindings read by the nearest-declaration rule `scopeOf`
    over the declarations of the elements of `chain` only (`elementFrames chain`, innermost first):
    the name stack starts from an EMPTY frame, nothing above `node` counts.
    Hypothesis: no element of the subtree declares a prefix twice. -/
theorem C09_unresolved (env : Env) (t : Tree) (path : Path) (sub : Tree) (l : List Nat)
    (hs : t.at? path = some sub) (hu : UniqueDeclsBelow sub)
    (h : unresolvedNamespaces env t path = some l) (ns : Nat) :
    ns ∈ l ↔ ∃ q chain e, sub.ancestorsOrSelf q = some chain ∧ sub.at? q = some e ∧
      NeedsNs env (scopeOf (elementFrames chain)) e ns := by
  simp only [unresolvedNamespaces, hs, Option.map_some, Option.some.injEq] at h
  subst h
  rw [mem_unresolvedNamespacesSub env sub hu ns]
  simp [UnresolvedIn]

/-- `NeedsNs` spelled out. -/
theorem C09_unresolved_needs (env : Env) (sc : Nat → Option Nat) (e : Tree) (ns : Nat) :
    NeedsNs env sc e ns ↔
      ∃ name, e.value = .element name ∧ ns ≠ Env.noNamespace ∧ ns ≠ Env.xmlNamespace ∧
        ((env.nsOfName name = ns ∧ ∀ p, sc p ≠ some ns) ∨
         (∃ a ∈ e.attrs.map (·.1), env.nsOfName a = ns ∧
            ∀ p, p ≠ Env.emptyPrefix → sc p ≠ some ns)) := Iff.rfl

/-- The hypothesis of `C09_unresolved` is needed: `<a xmlns:p="A" xmlns:p="B"/>` with `a` in `B`
    (a state the namespace map of the API cannot produce). `FullnameInfo::new` keeps both entries,
    so `B` counts as bound, while a lookup of `p` gives `A`. -/
theorem C09_unresolved_unique_needed :
    ¬ ∀ (env : Env) (sub : Tree) (ns : Nat), ns ∈ unresolvedNamespacesSub env sub ↔ UnresolvedIn env [] sub ns := by
  intro h
  have h1 := (h { namespaces := [], prefixes := [], names := [(['a'], 3)] }
    (.node (.element 0) [.node (.namespace 2 2) [], .node (.namespace 2 3) []]) 3).2
    ⟨[], _, _, rfl, rfl, 0, rfl, by decide, by decide, .inl ⟨by decide, by
      intro p
      have hd : (Tree.node (.element 0) [.node (.namespace 2 2) [], .node (.namespace 2 3) []]).nsDecls =
          [(2, 2), (2, 3)] := by decide
      simp only [elementFrames, Tree.value, Value.isElement, List.filter_cons_of_pos, List.filter_nil,
        List.map_cons, List.map_nil, List.append_nil, scopeOf, hd]
      by_cases hp : p = 2
      · subst hp; decide
      · have : (p == 2) = false := by simpa using hp
        simp [List.lookup, this]⟩⟩
  revert h1
  decide

/-- `inherited_prefixes(node)`, exactly: the pairs `(p, ns)` such that `p` is bound to `ns` in the
    PARENT's scope (`scopeSpec`, so never `xmlns=""`, and including the `xml` binding in
    principle — but see `C09_unresolved_real`: the XML namespace is never reported) and `ns` is
    among `unresolved_namespaces(node)`.  Nothing is selected per namespace: if several prefixes
    are bound to a needed namespace ALL of them are inherited, and the default prefix is inherited
    like any other (also when the only name needing `ns` is an attribute name, which the default
    prefix cannot serve).  Each prefix occurs once; a root (no parent) inherits nothing. -/
theorem C09_inherited (env : Env) (t : Tree) (path : Path) (l : List (Nat × Nat))
    (h : inheritedPrefixes env t path = some l) :
    (∀ p ns, (p, ns) ∈ l ↔
      path ≠ [] ∧ scopeSpec t path.dropLast p = some ns ∧
        ∃ u, unresolvedNamespaces env t path = some u ∧ ns ∈ u) ∧
    (l.map Prod.fst).Nodup := by
  unfold inheritedPrefixes at h
  cases hs : t.at? path with
  | none => simp [hs] at h
  | some sub =>
    simp only [hs, Option.some.injEq] at h
    subst h
    simp only [unresolvedNamespaces, hs, Option.map_some, Option.some.injEq, exists_eq_left']
    cases path with
    | nil => simp
    | cons i rest =>
      simp only [List.isEmpty_cons, Bool.false_eq_true, ↓reduceIte, ne_eq, reduceCtorEq,
        not_false_eq_true, true_and, List.mem_filter, List.contains_eq_mem, decide_eq_true_eq]
      cases hn : namespacesInScope t (i :: rest).dropLast with
      | none =>
        have : t.ancestorsOrSelf (i :: rest).dropLast = none := by
          simpa [namespacesInScope] using hn
        simp [scopeSpec, this]
      | some l' =>
        obtain ⟨hmem, hnd, _, _⟩ := C09_in_scope t _ l' hn
        simp only [Option.getD_some]
        refine ⟨fun p ns => by rw [hmem], ?_⟩
        exact (List.filter_sublist.map Prod.fst).nodup hnd

/-- "A binding is inherited iff some name in the subtree needs it": with `C09_unresolved`. -/
theorem C09_inherited_iff (env : Env) (t : Tree) (path : Path) (sub : Tree) (l : List (Nat × Nat))
    (hs : t.at? path = some sub) (hu : UniqueDeclsBelow sub)
    (h : inheritedPrefixes env t path = some l) (p ns : Nat) :
    (p, ns) ∈ l ↔
      path ≠ [] ∧ scopeSpec t path.dropLast p = some ns ∧
        ∃ q chain e, sub.ancestorsOrSelf q = some chain ∧ sub.at? q = some e ∧
          NeedsNs env (scopeOf (elementFrames chain)) e ns := by
  rw [(C09_inherited env t path l h).1 p ns]
  simp only [unresolvedNamespaces, hs, Option.map_some, Option.some.injEq, exists_eq_left']
  rw [C09_unresolved env t path sub _ hs hu (by simp [unresolvedNamespaces, hs]) ns]

/-! ### Qualified names (`full_name`, `name_ref`, `node_name_ref`; `/repo` 7303420, 84c8828) -/

/-- `full_name` spells the prefix `name_ref` reports: `prefix:local`, or `local` for the empty
    prefix string; the same error otherwise. -/
theorem C09_fullname_string (env : Env) (chain : List Tree) (name : Nat) :
    fullNameChain env chain name =
      match nameRefChain env chain name with
      | .ok p => .ok (qnameSpelling env p name)
      | .error e => .error e := fullNameChain_eq env chain name

/-- `name_ref(name, a)` where the context `a` is an ATTRIBUTE NODE (`chain` = `a` and its ancestors),
    for ANY name, in particular `a`'s own.  `Ok(p)`: `p` is non-empty for a name in a real namespace
    and reads back — by the attribute rule, unprefixed = no namespace — as the name's namespace.
    `Err(e)` exactly when the name is in a real namespace to which no NON-EMPTY prefix is bound in
    `a`'s scope, and then `e = MissingPrefix(ns)`.  So: `Ok` iff the name can be written. -/
theorem C09_nameref_attribute (env : Env) (chain : List Tree) (a : Tree) (n : Nat) (v : Str)
    (name : Nat) (hh : chain.head? = some a) (hv : a.value = .attribute n v) :
    (∀ p, nameRefChain env chain name = .ok p →
      (env.nsOfName name ≠ Env.noNamespace → p ≠ Env.emptyPrefix) ∧
      resolveQName chain true p = some (env.nsOfName name)) ∧
    (∀ e, nameRefChain env chain name = .error e ↔
      e = .missingPrefix (env.nsOfName name) ∧ env.nsOfName name ≠ Env.noNamespace ∧
      ∀ q, q ≠ Env.emptyPrefix → scopeSpecChain chain q ≠ some (env.nsOfName name)) ∧
    ((∃ p, nameRefChain env chain name = .ok p) ↔
      env.nsOfName name = Env.noNamespace ∨
      ∃ q, q ≠ Env.emptyPrefix ∧ scopeSpecChain chain q = some (env.nsOfName name)) :=
  nameRefChain_attribute env chain a n v name hh hv

/-- `name_ref(name, e)` where the context `e` is an ELEMENT and `name` is its OWN name.  `Ok(p)`: `p`
    (possibly empty) reads back — by the element rule, unprefixed = the default namespace if any —
    as the name's namespace.  `Err(e)` exactly when (real namespace, NO prefix at all bound to it)
    or (no namespace, a default namespace in scope: nothing can say "no namespace" there), and then
    `e = MissingPrefix(ns)` (`MissingPrefix("")` in the second case). -/
theorem C09_nameref_element (env : Env) (chain : List Tree) (e : Tree) (name : Nat)
    (hh : chain.head? = some e) (hv : e.value = .element name) :
    (∀ p, nameRefChain env chain name = .ok p →
      resolveQName chain false p = some (env.nsOfName name)) ∧
    (∀ err, nameRefChain env chain name = .error err ↔
      err = .missingPrefix (env.nsOfName name) ∧
      ((env.nsOfName name ≠ Env.noNamespace ∧
          ∀ q, scopeSpecChain chain q ≠ some (env.nsOfName name)) ∨
       (env.nsOfName name = Env.noNamespace ∧
          ∃ d, scopeSpecChain chain Env.emptyPrefix = some d))) :=
  nameRefChain_element env chain e name hh hv

/-- What the code does when the context `c` is NOT an attribute node (an element, but also a
    document, text, comment, processing instruction or namespace node) and `name` is NOT its own
    element name — e.g. one of an element's attribute names queried with the element as context.
    A name in no namespace gets the empty prefix, whatever is in scope (no refusal under a default
    namespace).  A name in a real namespace gets exactly `prefix_for_namespace(c, ns)`: the first
    unshadowed prefix bound to `ns`, the DEFAULT PREFIX INCLUDED (element rule, also for a name
    that is an attribute name), and `MissingPrefix(ns)` exactly when no prefix is bound to `ns`. -/
theorem C09_nameref_other_name (env : Env) (chain : List Tree) (c : Tree) (name : Nat)
    (hh : chain.head? = some c) (hna : valueIsAttribute c.value = false)
    (hne : c.value ≠ .element name) :
    (env.nsOfName name = Env.noNamespace → nameRefChain env chain name = .ok Env.emptyPrefix) ∧
    (env.nsOfName name ≠ Env.noNamespace →
      (nameRefChain env chain name =
        match prefixForNamespaceChain chain (env.nsOfName name) with
        | some p => .ok p
        | none => .error (.missingPrefix (env.nsOfName name))) ∧
      (∀ p, nameRefChain env chain name = .ok p →
        resolveQName chain false p = some (env.nsOfName name)) ∧
      (∀ e, nameRefChain env chain name = .error e ↔
        e = .missingPrefix (env.nsOfName name) ∧
        ∀ q, scopeSpecChain chain q ≠ some (env.nsOfName name))) :=
  nameRefChain_other_name env chain c name hh hna hne

/-! #### The same for `full_name`, for every tree and every node -/

/-- `full_name(a, name)` for an ATTRIBUTE NODE `a` of any tree (any `name`; `name = n` is `a`'s own
    name).  `Ok(s)`: `s` spells a prefix `p` (the one `name_ref` reports) that is non-empty if the
    name is in a real namespace and that resolves in `a`'s scope, by the attribute rule, to the
    name's namespace.  `Err(e)` exactly when the name is in a real namespace with no non-empty
    prefix bound to it in `a`'s scope (`scopeSpec`), and then `e = MissingPrefix(ns)`. -/
theorem C09_fullname_attribute (env : Env) (t : Tree) (path : Path) (chain : List Tree) (a : Tree)
    (n : Nat) (v : Str) (name : Nat) (hc : t.ancestorsOrSelf path = some chain)
    (ha : t.at? path = some a) (hv : a.value = .attribute n v) :
    (∀ s, fullName env t path name = some (.ok s) →
      ∃ p, nameRef env t path name = some (.ok p) ∧ s = qnameSpelling env p name ∧
        (env.nsOfName name ≠ Env.noNamespace → p ≠ Env.emptyPrefix) ∧
        resolveQName chain true p = some (env.nsOfName name)) ∧
    (∀ e, fullName env t path name = some (.error e) ↔
      e = .missingPrefix (env.nsOfName name) ∧ env.nsOfName name ≠ Env.noNamespace ∧
      ∀ q, q ≠ Env.emptyPrefix → scopeSpec t path q ≠ some (env.nsOfName name)) := by
  have hh : chain.head? = some a := (ancestorsOrSelf_head path t chain hc).trans ha
  obtain ⟨hok, herr, _⟩ := C09_nameref_attribute env chain a n v name hh hv
  have hspec : ∀ q, scopeSpec t path q = scopeSpecChain chain q := by intro q; simp [scopeSpec, hc]
  simp only [fullName, nameRef, hc, Option.map_some, Option.some.injEq, hspec]
  refine ⟨fun s hs => ?_, fun e => ?_⟩
  · obtain ⟨p, hp, rfl⟩ := (fullNameChain_ok_iff env chain name s).1 hs
    exact ⟨p, hp, rfl, hok p hp⟩
  · rw [fullNameChain_error_iff]; exact herr e

/-- `full_name(e, name)` for an ELEMENT `e` of any tree and its OWN name.  `Ok(s)`: `s` spells a
    prefix `p` (possibly empty) that resolves in `e`'s scope, by the element rule, to the name's
    namespace.  `Err(err)` exactly when (real namespace, no prefix at all bound to it) or
    (no namespace, a default namespace in scope), and then `err = MissingPrefix(ns)`. -/
theorem C09_fullname_element (env : Env) (t : Tree) (path : Path) (chain : List Tree) (e : Tree)
    (name : Nat) (hc : t.ancestorsOrSelf path = some chain)
    (he : t.at? path = some e) (hv : e.value = .element name) :
    (∀ s, fullName env t path name = some (.ok s) →
      ∃ p, nameRef env t path name = some (.ok p) ∧ s = qnameSpelling env p name ∧
        resolveQName chain false p = some (env.nsOfName name)) ∧
    (∀ err, fullName env t path name = some (.error err) ↔
      err = .missingPrefix (env.nsOfName name) ∧
      ((env.nsOfName name ≠ Env.noNamespace ∧
          ∀ q, scopeSpec t path q ≠ some (env.nsOfName name)) ∨
       (env.nsOfName name = Env.noNamespace ∧
          ∃ d, scopeSpec t path Env.emptyPrefix = some d))) := by
  have hh : chain.head? = some e := (ancestorsOrSelf_head path t chain hc).trans he
  obtain ⟨hok, herr⟩ := C09_nameref_element env chain e name hh hv
  have hspec : ∀ q, scopeSpec t path q = scopeSpecChain chain q := by intro q; simp [scopeSpec, hc]
  simp only [fullName, nameRef, hc, Option.map_some, Option.some.injEq, hspec]
  refine ⟨fun s hs => ?_, fun err => ?_⟩
  · obtain ⟨p, hp, rfl⟩ := (fullNameChain_ok_iff env chain name s).1 hs
    exact ⟨p, hp, rfl, hok p hp⟩
  · rw [fullNameChain_error_iff]; exact herr err

/-- `full_name(c, name)` where `c` is not an attribute node and `name` is not `c`'s own element
    name: exactly the spelling of `prefix_for_namespace(c, ns)` (default prefix included) for a
    name in a real namespace, `MissingPrefix(ns)` iff that is `None`; the bare local name for a
    name in no namespace, whatever default namespace is in scope. -/
theorem C09_fullname_other_name (env : Env) (t : Tree) (path : Path) (chain : List Tree) (c : Tree)
    (name : Nat) (hc : t.ancestorsOrSelf path = some chain) (hs : t.at? path = some c)
    (hna : valueIsAttribute c.value = false) (hne : c.value ≠ .element name) :
    (env.nsOfName name = Env.noNamespace →
      fullName env t path name = some (.ok (qnameSpelling env Env.emptyPrefix name))) ∧
    (env.nsOfName name ≠ Env.noNamespace →
      ∃ r, prefixForNamespace t path (env.nsOfName name) = some r ∧
        fullName env t path name = some (match r with
          | some p => .ok (qnameSpelling env p name)
          | none => .error (.missingPrefix (env.nsOfName name)))) := by
  have hh : chain.head? = some c := (ancestorsOrSelf_head path t chain hc).trans hs
  obtain ⟨h0, h1⟩ := C09_nameref_other_name env chain c name hh hna hne
  simp only [fullName, prefixForNamespace, hc, Option.map_some, Option.some.injEq, exists_eq_left']
  refine ⟨fun h => ?_, fun h => ?_⟩
  · rw [fullNameChain_eq, h0 h]
  · rw [fullNameChain_eq, (h1 h).1]
    cases prefixForNamespaceChain chain (env.nsOfName name) <;> rfl

/-- The property as worded: the qualified name `node_name_ref` reports for an element or attribute
    node uses a prefix which, resolved in that node's scope by the XML-Namespaces rule for its
    kind, gives back the node's expanded name.  Full strength: every tree, every such node. -/
theorem C09_fullname (env : Env) (t : Tree) (path : Path) (chain : List Tree) (sub : Tree)
    (name p : Nat) (hc : t.ancestorsOrSelf path = some chain) (hs : t.at? path = some sub)
    (hk : sub.value.isElement = true ∨ valueIsAttribute sub.value = true)
    (h : nodeNameRef env t path = some (.ok (some (name, p)))) :
    nodeName sub.value = some name ∧
      resolveQName chain (valueIsAttribute sub.value) p = some (env.nsOfName name) := by
  obtain ⟨hn, hr⟩ := C09_node_name_ref env t path chain sub name p hc hs h
  have hh : chain.head? = some sub := (ancestorsOrSelf_head path t chain hc).trans hs
  refine ⟨hn, ?_⟩
  rcases hk with hk | hk
  · obtain ⟨m, hv⟩ : ∃ m, sub.value = .element m := by
      cases hv : sub.value <;> simp_all [Value.isElement]
    simp only [hv, nodeName, Option.some.injEq] at hn
    subst hn
    rw [hv]
    exact (C09_nameref_element env chain sub m hh hv).1 p hr
  · obtain ⟨m, v, hv⟩ : ∃ m v, sub.value = .attribute m v := by
      cases hv : sub.value <;> simp_all [valueIsAttribute]
    rw [hv]
    exact ((C09_nameref_attribute env chain sub m v name hh hv).1 p hr).2

/-- WHICH prefix `namespace_prefix(node, ns, non_empty)` reports for a real namespace: the prefix
    of the first pair `namespaces_in_scope(node)` yields with that namespace — with `non_empty`
    (attribute nodes) the first such pair with a non-empty prefix. -/
theorem C09_namespace_prefix_first (t : Tree) (path : Path) (ns : Nat) (nonEmpty : Bool)
    (hns : ns ≠ Env.noNamespace) (l : List (Nat × Nat)) (h : namespacesInScope t path = some l) :
    namespacePrefix t path ns nonEmpty =
      some ((l.find? (fun kv => kv.2 == ns && !(nonEmpty && kv.1 == Env.emptyPrefix))).map Prod.fst) := by
  simp only [namespacesInScope, Option.map_eq_some_iff] at h
  obtain ⟨chain, hc, rfl⟩ := h
  simp only [namespacePrefix, hc, Option.map_some, namespacePrefixChain_eq_find chain ns nonEmpty hns]
  rfl

/-- WHICH prefix `prefix_for_namespace` reports for a real namespace: the prefix of the first pair
    `namespaces_in_scope(node)` yields with that namespace (nearest element first, declaration
    order within an element, shadowed declarations skipped). -/
theorem C09_prefix_first (t : Tree) (path : Path) (ns : Nat) (hns : ns ≠ Env.noNamespace)
    (l : List (Nat × Nat)) (h : namespacesInScope t path = some l) :
    prefixForNamespace t path ns = some ((l.find? (fun kv => kv.2 == ns)).map Prod.fst) := by
  simp only [namespacesInScope, Option.map_eq_some_iff] at h
  obtain ⟨chain, hc, rfl⟩ := h
  simp [prefixForNamespace, hc, prefixForNamespaceChain_eq_find chain ns hns]

/-! ### Non-vacuity -/

/-- `<a xmlns:p="A" xmlns:q="B"><b xmlns:p="C"/></a>` at `b`, namespace `B`: found past the
    shadowed `p` (the former counterexample). -/
example : prefixForNamespace (.node (.element 2) [.node (.namespace 2 2) [], .node (.namespace 3 3) [],
    .node (.element 3) [.node (.namespace 2 4) []]]) [2] 3 = some (some 3) := by decide

example : namespacesInScope (.node (.element 2) [.node (.namespace 2 2) [], .node (.namespace 0 0) [],
    .node (.element 3) [.node (.namespace 2 4) []]]) [2] = some [(2, 4), (1, 1)] := by decide

/-- `<a xmlns:p=""/>` (the former witness; only reachable through the API now): `namespaces_in_scope`
    lists `(p, "")` and `namespace_for_prefix(p)` is `Some("")`; `xmlns=""` still hides. -/
example : namespaceForPrefix (.node (.element 2) [.node (.namespace 2 0) []]) [] 2 = some (some 0) := by decide
example : namespacesInScope (.node (.element 2) [.node (.namespace 2 0) []]) [] = some [(2, 0), (1, 1)] := by decide
example : namespaceForPrefix (.node (.element 2) [.node (.namespace 0 3) [],
    .node (.element 2) [.node (.namespace 0 0) []]]) [1] 0 = some none := by decide

/-- `<a xmlns:p="A"><b B:x=""/></a>` (b in A, x in B): unique declarations; `B` is reported for the
    whole tree, `A` only for `b` alone, and `b` inherits exactly `p ↦ A`. -/
def c09UnresTree : Tree :=
  .node (.element 0) [.node (.namespace 2 2) [], .node (.element 0) [.node (.attribute 1 []) []]]
def c09UnresEnv : Env := { namespaces := [], prefixes := [], names := [(['a'], 2), (['x'], 3)] }

example : UniqueDeclsBelow c09UnresTree := uniqueDeclsB_sound _ (by decide)
example : unresolvedNamespaces c09UnresEnv c09UnresTree [] = some [3] := by decide
example : unresolvedNamespaces c09UnresEnv c09UnresTree [1] = some [2, 3] := by decide
example : inheritedPrefixes c09UnresEnv c09UnresTree [1] = some [(2, 2)] := by decide

/-- Two prefixes and the default bound to the needed namespace: all three are inherited. -/
example : inheritedPrefixes c09UnresEnv (.node (.element 5) [.node (.namespace 2 2) [], .node (.namespace 3 2) [],
    .node (.namespace 0 2) [], .node (.element 0) []]) [3] = some [(2, 2), (3, 2), (0, 2)] := by decide

/-- `<a xmlns:p="A"><A:b/></a>`: element `b` in `A`, bound only by prefix: `Ok(p)`; unbound `B`: error. -/
example : nameRefChain c09UnresEnv [.node (.element 0) [], c09UnresTree] 0 = .ok 2 := by rfl
example : nameRefChain c09UnresEnv [.node (.element 1) [], c09UnresTree] 1 = .error (.missingPrefix 3) := by rfl

/-! #### Qualified names: the two former findings, closed.  Names: 0 = `{A}x`, 1 = `b`, 2 = `c` (no
    namespace), 3 = `{A}a`; namespace `A` = 2; prefixes `""` = 0, `xml` = 1, `p` = 2. -/
def c09QnEnv : Env :=
  { namespaces := [[], ['X'], ['A']], prefixes := [[], ['x', 'm', 'l'], ['p']],
    names := [(['x'], 2), (['b'], 0), (['c'], 0), (['a'], 2)] }
def c09Attr : Tree := .node (.attribute 0 []) []
def c09El (name : Nat) (decls : List (Nat × Nat)) (kids : List Tree) : Tree :=
  .node (.element name) (decls.map (fun d => .node (.namespace d.1 d.2) []) ++ kids)

/-- `<a xmlns="A" A:x=""/>` at the attribute (the former witness): `A` is bound only as default
    namespace, which an attribute cannot use: `MissingPrefix(A)` (was: `Ok("")`, i.e. `x`). -/
example : nameRefChain c09QnEnv [c09Attr, c09El 3 [(0, 2)] [c09Attr]] 0 = .error (.missingPrefix 2) := by rfl
example : fullName c09QnEnv (c09El 3 [(0, 2)] [c09Attr]) [1] 0 = some (.error (.missingPrefix 2)) := by rfl
/-- Default AND prefix, both declaration orders, and across ancestor levels: the prefix `p`. -/
example : nameRefChain c09QnEnv [c09Attr, c09El 3 [(0, 2), (2, 2)] [c09Attr]] 0 = .ok 2 := by rfl
example : nameRefChain c09QnEnv [c09Attr, c09El 3 [(2, 2), (0, 2)] [c09Attr]] 0 = .ok 2 := by rfl
example : nameRefChain c09QnEnv [c09Attr, c09El 3 [(0, 2)] [c09Attr], c09El 1 [(2, 2)] []] 0 = .ok 2 := by rfl
example : nameRefChain c09QnEnv [c09Attr, c09El 3 [(2, 2)] [c09Attr], c09El 3 [(0, 2)] []] 0 = .ok 2 := by rfl
example : fullName c09QnEnv (c09El 3 [(0, 2), (2, 2)] [c09Attr]) [2] 0 = some (.ok ['p', ':', 'x']) := by rfl
example : resolveQName [c09Attr, c09El 3 [(0, 2), (2, 2)] [c09Attr]] true 2 = some 2 := by decide
/-- a no-namespace name at an attribute node: unprefixed. -/
example : nameRefChain c09QnEnv [c09Attr, c09El 3 [(0, 2)] [c09Attr]] 2 = .ok 0 := by rfl

/-- `<a xmlns="A"><b/></a>` at `b` (in no namespace; the former witness), default namespace at
    distance 0, 1, 2: `MissingPrefix("")` (was: `Ok("")`, which there means `{A}b`). -/
example : nameRefChain c09QnEnv [c09El 1 [(0, 2)] []] 1 = .error (.missingPrefix 0) := by rfl
example : nameRefChain c09QnEnv [c09El 1 [] [], c09El 3 [(0, 2)] []] 1 = .error (.missingPrefix 0) := by rfl
example : nameRefChain c09QnEnv [c09El 1 [] [], c09El 3 [] [], c09El 3 [(0, 2)] []] 1 =
    .error (.missingPrefix 0) := by rfl
example : fullName c09QnEnv (c09El 3 [(0, 2)] [c09El 1 [] []]) [1] 1 = some (.error (.missingPrefix 0)) := by rfl
/-- … with `xmlns=""` on the element or in between: unprefixed, and that reads back as no namespace. -/
example : nameRefChain c09QnEnv [c09El 1 [(0, 0)] [], c09El 3 [(0, 2)] []] 1 = .ok 0 := by rfl
example : nameRefChain c09QnEnv [c09El 1 [] [], c09El 2 [(0, 0)] [], c09El 3 [(0, 2)] []] 1 = .ok 0 := by rfl
example : resolveQName [c09El 1 [] [], c09El 2 [(0, 0)] [], c09El 3 [(0, 2)] []] false 0 = some 0 := by decide
/-- an element in `A` under `xmlns="A"`: the empty prefix, read back by the element rule as `A`;
    nothing bound: `MissingPrefix(A)`. -/
example : nameRefChain c09QnEnv [c09El 3 [(0, 2)] []] 3 = .ok 0 := by rfl
example : resolveQName [c09El 3 [(0, 2)] []] false 0 = some 2 := by decide
example : nameRefChain c09QnEnv [c09El 3 [] []] 3 = .error (.missingPrefix 2) := by rfl

/-- Other names at an element `b` under `xmlns="A"`: the no-namespace name `c` is NOT refused, and
    the attribute name `{A}x` queried with the element as context gets the default prefix. -/
example : nameRefChain c09QnEnv [c09El 1 [] [], c09El 3 [(0, 2)] []] 2 = .ok 0 := by rfl
example : nameRefChain c09QnEnv [c09El 1 [] [], c09El 3 [(0, 2)] []] 0 = .ok 0 := by rfl
example : fullName c09QnEnv (c09El 3 [(0, 2)] [c09El 1 [] []]) [1] 0 = some (.ok ['x']) := by rfl

/-- `node_name_ref` on the attribute of `<a xmlns="A" xmlns:p="A" p:x=""/>`. -/
example : nodeNameRef c09QnEnv (c09El 3 [(0, 2), (2, 2)] [c09Attr]) [2] = some (.ok (some (0, 2))) := by rfl

/-- `namespace_prefix(…, A, non_empty)` on `<a xmlns="A" xmlns:p="A"/>`: `""` without, `p` with. -/
example : namespacePrefix (c09El 3 [(0, 2), (2, 2)] []) [] 2 false = some (some 0) := by decide
example : namespacePrefix (c09El 3 [(0, 2), (2, 2)] []) [] 2 true = some (some 2) := by decide

/-! ### The name types (xmlname/*.rs, Model/XmlName.lean): how `name_ref` / `full_name` are consumed -/

/-- **`parse_full_name` is the inverse of `full_name` in the scope that produced it.**  If
    `name_ref(name, node) = Ok(p)`, then `full_name(node, name)` is the `full_name()` of
    `to_owned()`, and parsing that string back with the element-rule lookup of the node's scope
    (`elementLookup`: a known prefix bound here; the empty prefix without default namespace = no
    namespace) gives the same `OwnedName` — local name, namespace AND prefix — and, through
    `CreateName::parse_full_name`, the same name id without touching the tables.  Hypotheses: neither
    the prefix nor the local name contains `:` (the parser splits at the first colon), and the lookup
    resolves the written prefix to the name's namespace (`C09_parse_full_name_resolves`). -/
theorem C09_parse_full_name_inverse (env : Env) (chain : List Tree) (name p : Nat)
    (hp : nameRefChain env chain name = .ok p)
    (hcp : ':' ∉ env.prefixStr p) (hcl : ':' ∉ env.localName name)
    (hres : elementLookup env chain (env.prefixStr p) = some (env.nsOfName name)) :
    fullNameChain env chain name = .ok (RefName.toOwned env ⟨name, p⟩).fullName ∧
    OwnedName.parseFullName (RefName.toOwned env ⟨name, p⟩).fullName (elementLookupStr env chain) =
      .ok (RefName.toOwned env ⟨name, p⟩) ∧
    (env.nameId? (env.localName name) (env.nsOfName name) = some name →
      createParseFullName env (RefName.toOwned env ⟨name, p⟩).fullName (elementLookup env chain) =
        .ok (env, name)) := by
  have hsplit : splitFullName (RefName.toOwned env ⟨name, p⟩).fullName = (env.prefixStr p, env.localName name) := by
    unfold OwnedName.fullName RefName.toOwned
    cases he : (env.prefixStr p).isEmpty
    · simp only [Bool.not_false, if_true]
      exact splitFullName_prefixed _ _ hcp
    · simp only [Bool.not_true, Bool.false_eq_true, if_false]
      rw [splitFullName_nocolon _ hcl, List.isEmpty_iff.mp he]
  refine ⟨?_, ?_, ?_⟩
  · rw [fullNameChain_eq, hp, toOwned_fullName]
  · unfold OwnedName.parseFullName OwnedName.prefixed elementLookupStr
    rw [hsplit]
    simp [hres, RefName.toOwned]
  · intro hname
    unfold createParseFullName createPrefixed
    rw [hsplit]
    simp [hres, Env.addNameNs, hname]

/-- When the lookup of `C09_parse_full_name_inverse` resolves the reported prefix (`hfound`: the prefix
    string is found again under its id, true for duplicate-free tables, `C09_interned_found`).  A name
    in a REAL namespace: always — the prefix `name_ref` reports is bound to the namespace
    (`C09_prefix_sound`), the default prefix included.  A name in NO namespace is written unprefixed
    and reads back (element rule) as no namespace exactly when no default namespace is in scope;
    under a default namespace the unprefixed spelling — which `full_name` uses for attribute-style
    names — parses into that default namespace: there the inverse does not hold, by design. -/
theorem C09_parse_full_name_resolves (env : Env) (chain : List Tree) (name p : Nat)
    (hp : nameRefChain env chain name = .ok p)
    (hfound : env.prefixId? (env.prefixStr p) = some p) :
    (env.nsOfName name ≠ Env.noNamespace →
      elementLookup env chain (env.prefixStr p) = some (env.nsOfName name)) ∧
    (env.nsOfName name = Env.noNamespace → env.prefixStr Env.emptyPrefix = [] →
      (elementLookup env chain (env.prefixStr p) = some (env.nsOfName name) ↔
        namespaceForPrefixChain chain Env.emptyPrefix = none)) := by
  refine ⟨fun hns => elementLookup_of_nameRef env chain name p hp hns hfound, ?_⟩
  intro hns hempty
  have hp0 := nameRef_noNamespace env chain name p hp hns
  subst hp0
  simp only [elementLookup, hfound, hns]
  cases hq : namespaceForPrefixChain chain Env.emptyPrefix with
  | none => simp [hempty]
  | some ns' =>
    have hne : ns' ≠ Env.noNamespace := by
      intro e
      have := scopeSpecChain_empty_ne chain
      rw [← namespaceForPrefixChain_eq, hq, e] at this
      exact this rfl
    simpa using hne

/-- `to_owned` followed by `to_ref` / `maybe_to_ref` / `to_create` gives the ids back and leaves the
    tables alone, when each of the three strings is found again under its id. -/
theorem C09_to_owned_round_trip (env : Env) (r : RefName)
    (hp : env.prefixId? (env.prefixStr r.prefixId) = some r.prefixId)
    (hn : env.namespaceId? (env.namespaceStr (env.nsOfName r.nameId)) = some (env.nsOfName r.nameId))
    (hname : env.nameId? (env.localName r.nameId) (env.nsOfName r.nameId) = some r.nameId) :
    (r.toOwned env).toRef env = (env, r) ∧ (r.toOwned env).maybeToRef env = some r ∧
    (r.toOwned env).toCreate env = (env, r.nameId) := by
  have hp' : List.findIdx? (fun x => x == env.prefixStr r.prefixId) env.prefixes = some r.prefixId := hp
  refine ⟨?_, ?_, ?_⟩
  · simp [OwnedName.toRef, RefName.toOwned, Env.addPrefix, Env.addNamespace, Env.addNameNs, hp', hn, hname]
  · simp [OwnedName.maybeToRef, RefName.toOwned, hp, hn, hname]
  · simp [OwnedName.toCreate, RefName.toOwned, Env.addNamespace, Env.addNameNs, hn, hname]

/-- The side conditions above hold for every id in range of duplicate-free tables (interning: C08). -/
theorem C09_interned_found (env : Env) :
    (env.prefixes.Nodup → ∀ p, p < env.prefixes.length → env.prefixId? (env.prefixStr p) = some p) ∧
    (env.namespaces.Nodup → ∀ ns, ns < env.namespaces.length →
      env.namespaceId? (env.namespaceStr ns) = some ns) ∧
    (env.names.Nodup → ∀ n, n < env.names.length →
      env.nameId? (env.localName n) (env.nsOfName n) = some n) := by
  refine ⟨fun hnd p h => ?_, fun hnd ns h => ?_, fun hnd n h => ?_⟩
  · have := findIdx?_getElem_of_nodup env.prefixes p h hnd
    simpa [Env.prefixId?, Env.prefixStr, List.getD_eq_getElem?_getD, h] using this
  · have := findIdx?_getElem_of_nodup env.namespaces ns h hnd
    simpa [Env.namespaceId?, Env.namespaceStr, List.getD_eq_getElem?_getD, h] using this
  · have := findIdx?_getElem_of_nodup env.names n h hnd
    simpa [Env.nameId?, Env.localName, Env.nsOfName, List.getD_eq_getElem?_getD, h] using this

/-- `RefName::has_unprefixed_namespace` (on ids) is `OwnedName::in_default_namespace` (on strings) of
    `to_owned()`, when only the no-namespace id has the empty URI and only the empty prefix id the
    empty string. -/
theorem C09_has_unprefixed_namespace (env : Env) (r : RefName)
    (hns : env.namespaceStr (env.nsOfName r.nameId) = [] ↔ env.nsOfName r.nameId = Env.noNamespace)
    (hpf : env.prefixStr r.prefixId = [] ↔ r.prefixId = Env.emptyPrefix) :
    r.hasUnprefixedNamespace env = (r.toOwned env).inDefaultNamespace := by
  unfold RefName.hasUnprefixedNamespace OwnedName.inDefaultNamespace RefName.toOwned
  have a : (env.nsOfName r.nameId != Env.noNamespace) = !(env.namespaceStr (env.nsOfName r.nameId)).isEmpty := by
    cases hE : (env.namespaceStr (env.nsOfName r.nameId)).isEmpty
    · have : env.nsOfName r.nameId ≠ Env.noNamespace := fun e => by
        have := hns.mpr e
        simp [this] at hE
      simpa using this
    · have := hns.mp (List.isEmpty_iff.mp hE)
      simp [this]
  have b : (Env.emptyPrefix == r.prefixId) = (env.prefixStr r.prefixId).isEmpty := by
    cases hE : (env.prefixStr r.prefixId).isEmpty
    · have : Env.emptyPrefix ≠ r.prefixId := fun e => by
        have := hpf.mpr e.symm
        simp [this] at hE
      simpa using this
    · have := hpf.mp (List.isEmpty_iff.mp hE)
      simp [this]
  simp only [a, b]

/-- `with_suffix` appends `*` to the local name only: same namespace, same prefix, and the written
    name gets the `*` at its end. -/
theorem C09_with_suffix (o : OwnedName) :
    o.withSuffix.fullName = o.fullName ++ ['*'] ∧ o.withSuffix.namespaceStr = o.namespaceStr ∧
    o.withSuffix.prefixStr = o.prefixStr ∧ o.withSuffix.localName = o.localName ++ ['*'] := by
  unfold OwnedName.withSuffix OwnedName.fullName
  cases o.prefixStr.isEmpty <;> simp

/-- `with_default_namespace(ns)` puts an unprefixed no-namespace name into `ns` (it is then
    `in_default_namespace` for a non-empty `ns`) and leaves every other name alone. -/
theorem C09_with_default_namespace (o : OwnedName) (ns : Str) :
    (o.prefixStr = [] → o.namespaceStr = [] →
      o.withDefaultNamespace ns = { o with namespaceStr := ns } ∧
      (o.withDefaultNamespace ns).inDefaultNamespace = !ns.isEmpty) ∧
    (¬ (o.prefixStr = [] ∧ o.namespaceStr = []) → o.withDefaultNamespace ns = o) := by
  unfold OwnedName.withDefaultNamespace OwnedName.inDefaultNamespace
  constructor
  · intro h1 h2; simp [h1, h2]
  · intro h
    by_cases h1 : o.prefixStr = []
    · have h2 : o.namespaceStr ≠ [] := fun e => h ⟨h1, e⟩
      simp [h1, h2]
    · simp [h1]

/-- Non-vacuity, on `<a xmlns="A" xmlns:p="A" p:x=""/>` at the attribute: `{A}x` is written `p:x`, parsed
    back to `(x, A, p)` and to name id 0; the tables of `c09QnEnv` are duplicate-free; the element `a`
    itself is written unprefixed and parsed back through the default namespace. -/
example : nameRefChain c09QnEnv [c09Attr, c09El 3 [(0, 2), (2, 2)] [c09Attr]] 0 = .ok 2 ∧
    (RefName.toOwned c09QnEnv ⟨0, 2⟩) = ⟨['x'], ['A'], ['p']⟩ ∧
    OwnedName.parseFullName ['p', ':', 'x']
      (elementLookupStr c09QnEnv [c09Attr, c09El 3 [(0, 2), (2, 2)] [c09Attr]]) = .ok ⟨['x'], ['A'], ['p']⟩ ∧
    (createParseFullName c09QnEnv ['p', ':', 'x']
      (elementLookup c09QnEnv [c09Attr, c09El 3 [(0, 2), (2, 2)] [c09Attr]])).toOption.map (·.2) = some 0 ∧
    c09QnEnv.prefixes.Nodup ∧ c09QnEnv.namespaces.Nodup ∧ c09QnEnv.names.Nodup ∧
    nameRefChain c09QnEnv [c09El 3 [(0, 2)] []] 3 = .ok 0 ∧
    OwnedName.parseFullName ['a'] (elementLookupStr c09QnEnv [c09El 3 [(0, 2)] []]) = .ok ⟨['a'], ['A'], []⟩ :=
  ⟨by rfl, by decide, by rfl, by rfl, by decide, by decide, by decide, by rfl, by rfl⟩
/-- The limit: the no-namespace name `c` at an element under `xmlns="A"` is written `c` (attribute
    style) and parses, by the element rule, into `A`. -/
example : nameRefChain c09QnEnv [c09El 1 [] [], c09El 3 [(0, 2)] []] 2 = .ok 0 ∧
    OwnedName.parseFullName ['c'] (elementLookupStr c09QnEnv [c09El 1 [] [], c09El 3 [(0, 2)] []]) =
      .ok ⟨['c'], ['A'], []⟩ ∧
    namespaceForPrefixChain [c09El 1 [] [], c09El 3 [(0, 2)] []] Env.emptyPrefix = some 2 :=
  ⟨by rfl, by rfl, by decide⟩
example : (RefName.toOwned c09QnEnv ⟨0, 2⟩).withSuffix.fullName = ['p', ':', 'x', '*'] ∧
    (OwnedName.withDefaultNamespace ⟨['c'], [], []⟩ ['B']).inDefaultNamespace = true ∧
    (RefName.hasUnprefixedNamespace c09QnEnv ⟨3, 0⟩) = true := by decide

end XotModel.Props

/-! # ================================================================================================
    # REACHABLE TREES (branch wt-reach): the hypothesis `UniqueDeclsBelow` is a theorem
    # ================================================================================================

  Most theorems of this file have NO structural hypothesis (`C09_in_scope`: `namespaces_in_scope` =
  `scopeSpec`, `C09_ns_for_prefix`, `C09_prefix_*`, `C09_fullname*`, `C09_nameref_*`, `C09_inherited`, … hold for
  every tree and every path, ill-ordered trees included).  Two do: `C09_unresolved` and
  `C09_inherited_iff` assume `UniqueDeclsBelow sub` — no element of the subtree declares a prefix twice —
  and `C09_unresolved_unique_needed` shows the assumption cannot be dropped for arbitrary trees.  The
  public API cannot build such a tree: every forest reachable from the empty store by an extended
  history (`Store.xrun` over `Forest.XCall`, Model/FhistSpec.lean; arbitrary arguments, every outcome)
  has the invariant `Forest.Inv` (`C04_reach_ext` = `Reach.inv_reachable`), whose clause `keysUnique
  .namespace` at every node gives `UniqueDeclsBelow` of every subtree of the erasure of every parentless
  tree (Lemmas/ReachNode.lean, ReachScope.lean).  The two theorems restated with NO structural
  hypothesis; `env'` (the name table the names are read in) is arbitrary, in particular the table of
  the store after the history. -/

namespace XotModel.Props
open XotModel

/-- ⟦C09_reachable_unique⟧ No element of any subtree of any parentless tree of any reachable forest
    declares a prefix twice. -/
theorem C09_reachable_unique (env : Env) (cs : List Forest.XCall) (hw : ∀ c ∈ cs, c.wellKinded) :
    ∀ r ∈ ((⟨Forest.init, env⟩ : Store).xrun cs).forest.roots, ∀ (path : Path) (sub : Tree),
      r.erase.at? path = some sub → UniqueDeclsBelow sub :=
  fun _ hr _ _ hs => Reach.uniqueDeclsBelow_root (Reach.inv_reachable env cs hw) hr hs

/-- ⟦C09_reachable_unresolved⟧ **`unresolved_namespaces(node)` for every node of every reachable tree**:
    `ns` is reported iff some element `e` of the subtree (at raw path `q` below the node, `chain` = the
    nodes from `e` up to the node) needs it — its own name or one of its attribute names is in `ns`,
    real and not the XML namespace, and the declarations on the way from the node to `e` (EMPTY frame
    below) give no usable prefix. -/
theorem C09_reachable_unresolved (env : Env) (cs : List Forest.XCall) (hw : ∀ c ∈ cs, c.wellKinded) :
    ∀ r ∈ ((⟨Forest.init, env⟩ : Store).xrun cs).forest.roots, ∀ (path : Path) (sub : Tree),
      r.erase.at? path = some sub → ∀ (env' : Env) (l : List Nat),
      unresolvedNamespaces env' r.erase path = some l → ∀ ns : Nat,
      (ns ∈ l ↔ ∃ q chain e, sub.ancestorsOrSelf q = some chain ∧ sub.at? q = some e ∧
        NeedsNs env' (scopeOf (elementFrames chain)) e ns) :=
  fun r hr path sub hs env' l hl ns =>
    C09_unresolved env' r.erase path sub l hs (C09_reachable_unique env cs hw r hr path sub hs) hl ns

/-- ⟦C09_reachable_inherited_iff⟧ **`inherited_prefixes(node)` for every node of every reachable tree**: a
    binding `(p, ns)` is inherited iff the node is not a root, `p` is bound to `ns` in the parent's
    scope (`scopeSpec`: nearest declaration wins) and some name of the subtree needs `ns`. -/
theorem C09_reachable_inherited_iff (env : Env) (cs : List Forest.XCall) (hw : ∀ c ∈ cs, c.wellKinded) :
    ∀ r ∈ ((⟨Forest.init, env⟩ : Store).xrun cs).forest.roots, ∀ (path : Path) (sub : Tree),
      r.erase.at? path = some sub → ∀ (env' : Env) (l : List (Nat × Nat)),
      inheritedPrefixes env' r.erase path = some l → ∀ p ns : Nat,
      ((p, ns) ∈ l ↔
        path ≠ [] ∧ scopeSpec r.erase path.dropLast p = some ns ∧
          ∃ q chain e, sub.ancestorsOrSelf q = some chain ∧ sub.at? q = some e ∧
            NeedsNs env' (scopeOf (elementFrames chain)) e ns) :=
  fun r hr path sub hs env' l hl p ns =>
    C09_inherited_iff env' r.erase path sub l hs (C09_reachable_unique env cs hw r hr path sub hs) hl p ns

/-! ### Non-vacuity: the history of Props/C04 (`Reach.exCalls`) after 7 steps — before the repair

  `<e xmlns:p="u"><e xmlns:p="u">x</e></e>`, name `e` in namespace 3 (`w`), for which no prefix is declared:
  `unresolved_namespaces` reports 3 (twice: one entry per name) at the root and at the inner element;
  the inner element inherits nothing (its parent's scope has no binding for 3).  After the whole
  history the repaired tree `Reach.exRoot` has nothing unresolved, and before the clone the inner
  element inherits `n0 ↦ w` — the order handed to `clone_with_prefixes` in the history. -/

def c09ReachRoot : HTree :=
  .node 0 (.element 1) [.node 3 (.namespace 2 2) [],
    .node 1 (.element 1) [.node 4 (.namespace 2 2) [], .node 2 (.text ['x']) []]]
theorem c09ReachRoot_mem :
    c09ReachRoot ∈ ((⟨Forest.init, Reach.exEnv⟩ : Store).xrun (Reach.exCalls.take 7)).forest.roots := by
  have : ((⟨Forest.init, Reach.exEnv⟩ : Store).xrun (Reach.exCalls.take 7)).forest.roots = [c09ReachRoot] := by
    decide +kernel
  rw [this]; exact List.mem_singleton.mpr rfl

example : unresolvedNamespaces Reach.exEnv c09ReachRoot.erase [] = some [3, 3] ∧
    unresolvedNamespaces Reach.exEnv c09ReachRoot.erase [1] = some [3] ∧
    inheritedPrefixes Reach.exEnv c09ReachRoot.erase [1] = some [] := by decide
example : ∃ q chain e, c09ReachRoot.erase.ancestorsOrSelf q = some chain ∧ c09ReachRoot.erase.at? q = some e ∧
    NeedsNs Reach.exEnv (scopeOf (elementFrames chain)) e 3 :=
  (C09_reachable_unresolved Reach.exEnv (Reach.exCalls.take 7) (Reach.exCalls_take_wellKinded 7)
    c09ReachRoot c09ReachRoot_mem [] _ rfl Reach.exEnv [3, 3] (by decide) 3).mp (by decide)
example : unresolvedNamespaces Reach.exEnv Reach.exRoot.erase [] = some [] ∧
    inheritedPrefixes Reach.exEnv Reach.exRootA.erase [2] = some [(3, 3)] := by decide
example : scopeSpec Reach.exRootA.erase [] 3 = some 3 :=
  ((C09_reachable_inherited_iff Reach.exEnv (Reach.exCalls.take 10) (Reach.exCalls_take_wellKinded 10)
    Reach.exRootA Reach.exRootA_mem [2] (.node (.element 1) [.node (.text ['x']) []]) (by decide) Reach.exEnv [(3, 3)] (by decide) 3 3).mp (by decide)).2.1

end XotModel.Props

/-! # ================================================================================================
    # REACHABLE TREES, histories that PARSE and edit (branch wt-reachfull)
    # ================================================================================================

  The restatements above quantify over extended API histories (`Forest.XCall` on a `Store`).  Model/FparseHist.lean
  has the history type with BOTH kinds of step — `PCall` = an extended API call, or `parse mode text` of an
  ARBITRARY text (reference tokenizer + builder on the tables of the store; an accepted tree is installed,
  a rejected one leaves forest and index alone) — on `PStore`; Props/C04.lean proves the invariant for every
  such history from `Xot::new()` (`C04_reach_full`) and the bridge `C04_reachable_hypotheses_full`
  (`UniqueDeclsBelow` of every subtree of every tree of every such store).  The same restatements over them;
  `env'` is arbitrary, in particular the tables of the store after the history (parses intern names). -/

namespace XotModel.Props
open XotModel

/-- ⟦C09_reachable_unique_full⟧ No element of any subtree of any parentless tree of any store a full history
    reaches — parsed documents, whatever was done to them afterwards, included — declares a prefix twice. -/
theorem C09_reachable_unique_full (env : Env) (cs : List PCall) (hw : ∀ c ∈ cs, c.wellKinded) :
    ∀ r ∈ ((PStore.init env).run cs).forest.roots, ∀ (path : Path) (sub : Tree),
      r.erase.at? path = some sub → UniqueDeclsBelow sub :=
  fun r hr => (C04_reachable_hypotheses_full env cs hw r hr).2.2.2.1

/-- ⟦C09_reachable_unresolved_full⟧ **`unresolved_namespaces(node)` for every node of every tree of every store a
    history of parses and API calls reaches**: the statement of `C09_reachable_unresolved`. -/
theorem C09_reachable_unresolved_full (env : Env) (cs : List PCall) (hw : ∀ c ∈ cs, c.wellKinded) :
    ∀ r ∈ ((PStore.init env).run cs).forest.roots, ∀ (path : Path) (sub : Tree),
      r.erase.at? path = some sub → ∀ (env' : Env) (l : List Nat),
      unresolvedNamespaces env' r.erase path = some l → ∀ ns : Nat,
      (ns ∈ l ↔ ∃ q chain e, sub.ancestorsOrSelf q = some chain ∧ sub.at? q = some e ∧
        NeedsNs env' (scopeOf (elementFrames chain)) e ns) :=
  fun r hr path sub hs env' l hl ns =>
    C09_unresolved env' r.erase path sub l hs (C09_reachable_unique_full env cs hw r hr path sub hs) hl ns

/-- ⟦C09_reachable_inherited_iff_full⟧ **`inherited_prefixes(node)` for every node of every tree of every store a
    history of parses and API calls reaches**: the statement of `C09_reachable_inherited_iff`. -/
theorem C09_reachable_inherited_iff_full (env : Env) (cs : List PCall) (hw : ∀ c ∈ cs, c.wellKinded) :
    ∀ r ∈ ((PStore.init env).run cs).forest.roots, ∀ (path : Path) (sub : Tree),
      r.erase.at? path = some sub → ∀ (env' : Env) (l : List (Nat × Nat)),
      inheritedPrefixes env' r.erase path = some l → ∀ p ns : Nat,
      ((p, ns) ∈ l ↔
        path ≠ [] ∧ scopeSpec r.erase path.dropLast p = some ns ∧
          ∃ q chain e, sub.ancestorsOrSelf q = some chain ∧ sub.at? q = some e ∧
            NeedsNs env' (scopeOf (elementFrames chain)) e ns) :=
  fun r hr path sub hs env' l hl p ns =>
    C09_inherited_iff env' r.erase path sub l hs (C09_reachable_unique_full env cs hw r hr path sub hs) hl p ns

/-! ### Non-vacuity: parse, edit, ask (`fullCalls` / `fullCallsB` of Props/C04.lean, from the tables of `Xot::new()`)

  `c09FullCalls` = `fullCallsB` without its last step (the repair): PARSE `<r xmlns:p="urn:a"><p:a>t</p:a></r>`,
  REMOVE the declaration of `p`, create a new element `{urn:a}a`, append it, give it the attribute `p:a="v"`,
  parse a REJECTED text.  Namespace 2 (`urn:a`) now has no prefix: `unresolved_namespaces` reports it three
  times at the document (two element names, one attribute name), twice at the new element, which inherits
  nothing.  After the repair (`fullCallsB`) nothing is unresolved; in `fullCalls` (declaration kept) the new
  element inherits `p ↦ urn:a`, bound in its parent's scope. -/

def c09FullCalls : List PCall := fullCallsB.dropLast
def c09FullRoot : HTree :=
  .node 0 .document [.node 1 (.element 2) [
    .node 3 (.element 3) [.node 4 (.text ['t']) []],
    .node 5 (.element 3) [.node 6 (.attribute 3 ['v']) []]]]
def c09FullEnv : Env := ((PStore.init Env.fresh).run c09FullCalls).env
theorem c09FullCalls_wellKinded : ∀ c ∈ c09FullCalls, c.wellKinded := by decide
theorem c09FullRoot_mem : c09FullRoot ∈ ((PStore.init Env.fresh).run c09FullCalls).forest.roots := by
  have : ((PStore.init Env.fresh).run c09FullCalls).forest.roots = [c09FullRoot] := by decide +kernel
  rw [this]; exact List.mem_singleton.mpr rfl

example : c09FullCalls ++ [.api (.createMissingPrefixes 0)] = fullCallsB := rfl
example : c09FullEnv.names =
    [(['s', 'p', 'a', 'c', 'e'], 1), (['i', 'd'], 1), (['r'], 0), (['a'], 2), (['a'], 0), (['b'], 0)] := by
  decide +kernel
example : unresolvedNamespaces c09FullEnv c09FullRoot.erase [] = some [2, 2, 2] ∧
    unresolvedNamespaces c09FullEnv c09FullRoot.erase [0, 1] = some [2, 2] ∧
    inheritedPrefixes c09FullEnv c09FullRoot.erase [0, 1] = some [] := by decide +kernel
example : ∃ q chain e, c09FullRoot.erase.ancestorsOrSelf q = some chain ∧ c09FullRoot.erase.at? q = some e ∧
    NeedsNs c09FullEnv (scopeOf (elementFrames chain)) e 2 :=
  (C09_reachable_unresolved_full Env.fresh c09FullCalls c09FullCalls_wellKinded
    c09FullRoot c09FullRoot_mem [] _ rfl c09FullEnv [2, 2, 2] (by decide +kernel) 2).mp (by decide)
example : unresolvedNamespaces ((PStore.init Env.fresh).run fullCallsB).env fullRootB.erase [] = some [] ∧
    inheritedPrefixes ((PStore.init Env.fresh).run fullCalls).env fullRoot.erase [0, 2] = some [(2, 2)] := by
  decide +kernel
example : scopeSpec fullRoot.erase [0] 2 = some 2 :=
  ((C09_reachable_inherited_iff_full Env.fresh fullCalls fullCalls_wellKinded fullRoot fullRoot_mem [0, 2]
    (.node (.element 3) [.node (.attribute 3 ['v']) []]) (by decide) ((PStore.init Env.fresh).run fullCalls).env
    [(2, 2)] (by decide +kernel) 2 2).mp (by decide)).2.1

/-! ## Histories with the convenience calls

  The same for histories mixing the calls of `Op` and the convenience calls (`Forest.COp`; `creationRun`,
  `C04_reach_creation` in Props/C04.lean): no side condition at all. -/

/-- ⟦C09_reachable_creation_unique⟧ No element of any subtree of any tree reached by a history of `Op` calls and
    convenience calls (`set_namespace`, `append_namespace`, … included) declares a prefix twice. -/
theorem C09_reachable_creation_unique (ops : List (Op ⊕ Forest.COp)) :
    ∀ r ∈ (creationRun ops).roots, ∀ (path : Path) (sub : Tree),
      r.erase.at? path = some sub → UniqueDeclsBelow sub :=
  fun _ hr _ _ hs => Reach.uniqueDeclsBelow_root (C04_reach_creation ops) hr hs

/-- ⟦C09_reachable_creation_unresolved⟧ `unresolved_namespaces(node)` for every node of every such tree
    (`C09_reachable_unresolved` for these histories). -/
theorem C09_reachable_creation_unresolved (ops : List (Op ⊕ Forest.COp)) :
    ∀ r ∈ (creationRun ops).roots, ∀ (path : Path) (sub : Tree),
      r.erase.at? path = some sub → ∀ (env' : Env) (l : List Nat),
      unresolvedNamespaces env' r.erase path = some l → ∀ ns : Nat,
      (ns ∈ l ↔ ∃ q chain e, sub.ancestorsOrSelf q = some chain ∧ sub.at? q = some e ∧
        NeedsNs env' (scopeOf (elementFrames chain)) e ns) :=
  fun r hr path sub hs env' l hl ns =>
    C09_unresolved env' r.erase path sub l hs (C09_reachable_creation_unique ops r hr path sub hs) hl ns

/-- ⟦C09_reachable_creation_inherited_iff⟧ `inherited_prefixes(node)` for every node of every such tree
    (`C09_reachable_inherited_iff` for these histories). -/
theorem C09_reachable_creation_inherited_iff (ops : List (Op ⊕ Forest.COp)) :
    ∀ r ∈ (creationRun ops).roots, ∀ (path : Path) (sub : Tree),
      r.erase.at? path = some sub → ∀ (env' : Env) (l : List (Nat × Nat)),
      inheritedPrefixes env' r.erase path = some l → ∀ p ns : Nat,
      ((p, ns) ∈ l ↔
        path ≠ [] ∧ scopeSpec r.erase path.dropLast p = some ns ∧
          ∃ q chain e, sub.ancestorsOrSelf q = some chain ∧ sub.at? q = some e ∧
            NeedsNs env' (scopeOf (elementFrames chain)) e ns) :=
  fun r hr path sub hs env' l hl p ns =>
    C09_inherited_iff env' r.erase path sub l hs (C09_reachable_creation_unique ops r hr path sub hs) hl p ns

/-- ⟦C09_inv_unresolved⟧ **`unresolved_namespaces` from the invariant alone**: the characterisation of
    `C09_reachable_unresolved` at every node of every tree of ANY forest with `Forest.Inv` (however it was reached). -/
theorem C09_inv_unresolved (f : Forest) (hi : f.Inv) :
    ∀ r ∈ f.roots, ∀ (path : Path) (sub : Tree),
      r.erase.at? path = some sub → ∀ (env' : Env) (l : List Nat),
      unresolvedNamespaces env' r.erase path = some l → ∀ ns : Nat,
      (ns ∈ l ↔ ∃ q chain e, sub.ancestorsOrSelf q = some chain ∧ sub.at? q = some e ∧
        NeedsNs env' (scopeOf (elementFrames chain)) e ns) :=
  fun r hr path sub hs env' l hl ns =>
    C09_unresolved env' r.erase path sub l hs (Reach.uniqueDeclsBelow_root hi hr hs) hl ns

end XotModel.Props
