/-
  C09 — Namespace scope queries agree with nearest-declaration-wins scoping.
  Property theorems only; for every tree, every path, every prefix / namespace / name id.

  Specification: `scopeSpec t path p` (Model/Scope.lean) — recursion on the ancestor-or-self chain,
  nearest declaration of `p` wins, `xmlns=""` removes the default binding, `xml` bound above the root.

    C09_in_scope                  namespaces_in_scope enumerates exactly scopeSpec, each prefix once,
                                  never xmlns="", always xml
    C09_ns_for_prefix             namespace_for_prefix = scopeSpec, except that a binding to the
                                  no-namespace id is hidden (exact, all trees)
    C09_ns_for_prefix_partial     … = scopeSpec when no prefix is bound to the empty URI
    C09_ns_for_prefix_false       closed witness <a xmlns:p=""/>
    C09_defined                   is_prefix_defined is implied by a binding
    C09_prefix_sound              prefix_for_namespace(ns) = p, ns real  ⇒  p is bound to ns
    C09_prefix_complete           whenever some prefix is bound to ns, prefix_for_namespace finds one
                                  (full strength since /repo 6df2c0f: a shadowed prefix is skipped);
                                  C09_prefix_iff: for a real namespace, Some(_) iff bound
    C09_fullname_string           full_name is the spelling of name_ref's prefix
    C09_fullname_element_partial / _attribute_partial / _false_…   the reported prefix resolves back
                                  to the name's namespace by the rule for its kind, outside the two
                                  defects (no-namespace element under a default namespace; attribute
                                  whose namespace is the default namespace)
    C09_node_name_ref             node_name_ref reports the node's own name with name_ref's prefix
    C09_inherited_sound           inherited_prefixes ⊆ bindings in scope at the parent
    C09_unresolved_recursive      unresolved_namespaces = a recursive function of the declarations inside the
                                  subtree only (name stack starts empty)
    C09_unresolved_element        per element, under the stack invariant: exactly the namespace of its name if
                                  real, not XML and bound to no prefix, and the namespaces of its attribute
                                  names that are real, not XML and bound to no NON-EMPTY prefix
    C09_unresolved_real           the no-namespace id and the XML namespace are never reported
    C09_stack_invariant           FullnameSerializer: top frame = nearest-declaration bindings of the
                                  frames pushed (unique prefixes per element)
    C09_unresolved                ONE path-indexed iff over the whole subtree: ns is reported iff some
                                  element e of the subtree has a name in ns that the declarations on the
                                  way from the node to e (inclusive, EMPTY frame below) give no usable prefix
    C09_unresolved_unique_needed  closed witness: with a prefix declared twice on one element the iff fails
    C09_inherited                 inherited_prefixes = ALL bindings in scope at the parent (default prefix
                                  included, every prefix of a namespace) whose namespace is reported
                                  unresolved; each prefix once
    C09_inherited_iff             … = bindings of the parent's scope that some name of the subtree needs
    C09_fullname_element_real     GUARD-FREE, element name in a real namespace: Ok(prefix) resolves back to the
                                  expanded name; Ok(_) iff some prefix (default included) is bound to the
                                  namespace; otherwise exactly MissingPrefix(ns)
    C09_fullname_element_iff      elements, exact boundary: an Ok answer is wrong iff the name is in no namespace
                                  and a default namespace is in scope
    C09_fullname_attribute_iff    attributes, exact boundary: an Ok answer is wrong iff the name is in a real
                                  namespace and the EMPTY prefix is reported; C09_fullname_attribute_guard_not_needed:
                                  the guard of _attribute_partial is sufficient, not necessary (closed witness)
    C09_prefix_first              WHICH prefix: for a real namespace, the prefix of the first pair that
                                  namespaces_in_scope yields with that namespace
    C09_fullname_attribute_boundary   input-level boundary of the attribute finding: misreported iff the first
                                  pair namespaces_in_scope yields with the attribute's namespace is the default prefix
-/
import XotModel.Lemmas.Scope
import XotModel.Lemmas.ScopeStack
import XotModel.Lemmas.ScopeWalk
import XotModel.Lemmas.ScopeSerialise
import XotModel.Lemmas.ScopeUnres
import XotModel.Lemmas.ScopeFirst

namespace XotModel.Props
open XotModel

/-- `namespaces_in_scope(node)` enumerates exactly the specification: `(p, ns)` is yielded iff `p`
    is bound to `ns`; each prefix at most once; `xmlns=""` never; `xml` always. -/
theorem C09_in_scope (t : Tree) (path : Path) (l : List (Nat × Nat))
    (h : namespacesInScope t path = some l) :
    (∀ p ns, (p, ns) ∈ l ↔ scopeSpec t path p = some ns) ∧
    (l.map Prod.fst).Nodup ∧
    (Env.emptyPrefix, Env.noNamespace) ∉ l ∧
    ∃ ns, (Env.xmlPrefix, ns) ∈ l := by
  simp only [namespacesInScope, Option.map_eq_some_iff] at h
  obtain ⟨chain, hc, rfl⟩ := h
  have hspec : ∀ p, scopeSpec t path p = scopeSpecChain chain p := by intro p; simp [scopeSpec, hc]
  refine ⟨fun p ns => by rw [hspec]; exact mem_namespacesInScopeChain chain p ns,
    namespacesInScopeChain_nodup chain, ?_, ?_⟩
  · intro hm
    exact scopeSpecChain_empty_ne chain ((mem_namespacesInScopeChain chain _ _).1 hm)
  · obtain ⟨ns, hns⟩ := scopeSpecChain_xml chain
    exact ⟨ns, (mem_namespacesInScopeChain chain _ _).2 hns⟩

/-- `namespace_for_prefix(p)` is the specification's binding of `p`, with a binding to the
    no-namespace id reported as `None`. -/
theorem C09_ns_for_prefix (t : Tree) (path : Path) (p : Nat) (r : Option Nat)
    (h : namespaceForPrefix t path p = some r) :
    r = (scopeSpec t path p).bind realNs := by
  simp only [namespaceForPrefix, Option.map_eq_some_iff] at h
  obtain ⟨chain, hc, rfl⟩ := h
  simp [scopeSpec, hc, namespaceForPrefixChain_eq]

/-- The statement of the property at full strength. -/
def C09_ns_for_prefix_statement : Prop :=
  ∀ (t : Tree) (path : Path) (p : Nat) (r : Option Nat),
    namespaceForPrefix t path p = some r → r = scopeSpec t path p

/-- No element on the way to the node binds a non-empty prefix to the empty URI (`xmlns:p=""`,
    which Namespaces in XML 1.0 forbids but `Xot` accepts). -/
def NoPrefixToEmptyUri (chain : List Tree) : Prop :=
  ∀ a ∈ chain, ∀ q n, (q, n) ∈ a.nsDecls → n = Env.noNamespace → q = Env.emptyPrefix

theorem C09_ns_for_prefix_partial (t : Tree) (path : Path) (chain : List Tree) (p : Nat)
    (r : Option Nat) (hc : t.ancestorsOrSelf path = some chain) (hg : NoPrefixToEmptyUri chain)
    (h : namespaceForPrefix t path p = some r) : r = scopeSpec t path p := by
  rw [C09_ns_for_prefix t path p r h]
  simp only [scopeSpec, hc]
  cases hs : scopeSpecChain chain p with
  | none => rfl
  | some n =>
    simp only [Option.bind_some, realNs]
    have hn : n ≠ Env.noNamespace := by
      intro h0
      subst h0
      have hm := mem_of_lookup_eq_some (scopeSpecChain_some_lookup hs)
      simp only [allDecls, flatDecls, List.mem_append, List.mem_flatMap, basePrefixes,
        List.mem_singleton, Prod.mk.injEq] at hm
      rcases hm with ⟨a, ha, hm⟩ | ⟨_, h2⟩
      · have := hg a ha p _ hm rfl
        subst this
        exact scopeSpecChain_empty_ne chain hs
      · simp [Env.noNamespace, Env.xmlNamespace] at h2
    have : (n == Env.noNamespace) = false := by simpa using hn
    simp [this]

/-- `<a xmlns:p=""/>`: `namespaces_in_scope` lists `(p, "")`, `namespace_for_prefix(p)` is `None`. -/
theorem C09_ns_for_prefix_false : ¬ C09_ns_for_prefix_statement := by
  intro h
  have := h (.node (.element 2) [.node (.namespace 2 0) []]) [] 2 none (by decide)
  revert this
  decide

/-- `is_prefix_defined` holds for every bound prefix. -/
theorem C09_defined (t : Tree) (path : Path) (p ns : Nat) (h : scopeSpec t path p = some ns) :
    isPrefixDefined t path p = some true := by
  unfold scopeSpec at h
  cases hc : t.ancestorsOrSelf path with
  | none => simp [hc] at h
  | some chain =>
    simp only [hc] at h
    simp [isPrefixDefined, hc, isPrefixDefinedChain_eq, scopeSpecChain_some_lookup h]

/-- Soundness of `prefix_for_namespace` for a real namespace. -/
theorem C09_prefix_sound (t : Tree) (path : Path) (ns p : Nat)
    (h : prefixForNamespace t path ns = some (some p)) (hns : ns ≠ Env.noNamespace) :
    scopeSpec t path p = some ns := by
  simp only [prefixForNamespace, Option.map_eq_some_iff] at h
  obtain ⟨chain, hc, h⟩ := h
  simp only [scopeSpec, hc]
  unfold prefixForNamespaceChain at h
  rw [pfnChain_eq] at h
  cases hd : pfnDecls ns [] (allDecls chain) with
  | cont s => simp [hd, pfnResult] at h
  | ret r =>
    simp only [hd, pfnResult] at h
    subst h
    exact scopeSpecChain_of_lookup (pfnDecls_sound ns _ _ _ hd).2 hns

/-- Completeness, at full strength: if some prefix is bound to `ns` in the node's scope,
    `prefix_for_namespace` returns a prefix, and (for a real namespace) one bound to `ns`. -/
theorem C09_prefix_complete (t : Tree) (path : Path) (ns : Nat)
    (hex : ∃ p, scopeSpec t path p = some ns) :
    ∃ p, prefixForNamespace t path ns = some (some p) ∧
      (ns ≠ Env.noNamespace → scopeSpec t path p = some ns) := by
  obtain ⟨q, hq⟩ := hex
  unfold scopeSpec at hq
  cases hc : t.ancestorsOrSelf path with
  | none => simp [hc] at hq
  | some chain =>
    simp only [hc] at hq
    obtain ⟨p, hp⟩ := pfnDecls_complete ns (allDecls chain) []
      ⟨q, by simp, scopeSpecChain_some_lookup hq⟩
    have hres : prefixForNamespace t path ns = some (some p) := by
      simp [prefixForNamespace, hc, prefixForNamespaceChain, pfnChain_eq, hp, pfnResult]
    exact ⟨p, hres, fun hns => C09_prefix_sound t path ns p hres hns⟩

/-- For a real namespace: `prefix_for_namespace` answers `Some(_)` exactly when the namespace is
    bound in the node's scope. -/
theorem C09_prefix_iff (t : Tree) (path : Path) (ns : Nat) (hns : ns ≠ Env.noNamespace) :
    (∃ p, prefixForNamespace t path ns = some (some p)) ↔ ∃ p, scopeSpec t path p = some ns :=
  ⟨fun ⟨p, hp⟩ => ⟨p, C09_prefix_sound t path ns p hp hns⟩,
   fun h => let ⟨p, hp, _⟩ := C09_prefix_complete t path ns h; ⟨p, hp⟩⟩

/-! ### Qualified names -/

/-- `full_name` spells the prefix `name_ref` reports (`""` is prefix 0 in every `Xot`). -/
theorem C09_fullname_string (env : Env) (chain : List Tree) (name : Nat)
    (henv : env.prefixStr Env.emptyPrefix = []) :
    fullNameChain env chain name =
      match nameRefChain env chain name with
      | .ok p =>
        .ok (if (env.prefixStr p).isEmpty then env.localName name
             else env.prefixStr p ++ [':'] ++ env.localName name)
      | .error e => .error e := by
  unfold fullNameChain nameRefChain
  by_cases hns : env.nsOfName name = Env.noNamespace
  · simp [hns, henv]
  · have h1 : (env.nsOfName name == Env.noNamespace) = false := by simpa using hns
    have h2 : (env.nsOfName name != Env.noNamespace) = true := by simp [bne, h1]
    simp only [h1, h2, Bool.false_eq_true, ↓reduceIte]
    cases prefixForNamespaceChain chain (env.nsOfName name) with
    | none => rfl
    | some p => cases h : (env.prefixStr p).isEmpty <;> simp [h]

/-- The statement at full strength: the reported prefix, resolved by the rule for the kind of
    name, gives back the name's namespace. -/
def C09_fullname_statement : Prop :=
  ∀ (env : Env) (chain : List Tree) (isAttribute : Bool) (name p : Nat),
    nameRefChain env chain name = .ok p →
    resolveQName chain isAttribute p = some (env.nsOfName name)

/-- Element names: correct unless the name is in no namespace while a default namespace is in
    scope (then no prefix could say so; the name is reported unprefixed all the same). -/
theorem C09_fullname_element_partial (env : Env) (chain : List Tree) (name p : Nat)
    (h : nameRefChain env chain name = .ok p)
    (hg : env.nsOfName name = Env.noNamespace → scopeSpecChain chain Env.emptyPrefix = none) :
    resolveQName chain false p = some (env.nsOfName name) := by
  rcases nameRefChain_ok h with ⟨h0, rfl⟩ | ⟨_, hs⟩
  · simp [resolveQName, hg h0, h0]
  · unfold resolveQName
    by_cases hp : p = Env.emptyPrefix
    · subst hp; simp [hs]
    · have : (p == Env.emptyPrefix) = false := by simpa using hp
      simp [this, hs]

/-- Attribute names: correct unless the attribute's namespace is the default namespace in scope
    at the point where the walk meets it first. A sufficient guard: it is not the default
    namespace at all. -/
theorem C09_fullname_attribute_partial (env : Env) (chain : List Tree) (name p : Nat)
    (h : nameRefChain env chain name = .ok p)
    (hg : scopeSpecChain chain Env.emptyPrefix ≠ some (env.nsOfName name)) :
    resolveQName chain true p = some (env.nsOfName name) := by
  rcases nameRefChain_ok h with ⟨h0, rfl⟩ | ⟨_, hs⟩
  · simp [resolveQName, h0]
  · unfold resolveQName
    by_cases hp : p = Env.emptyPrefix
    · subst hp; exact absurd hs hg
    · have : (p == Env.emptyPrefix) = false := by simpa using hp
      simp [this, hs]

/-- `<a xmlns="A" A:x="…"/>`: the attribute `{A}x` is reported with the empty prefix, which for an
    attribute means no namespace. -/
theorem C09_fullname_false_attribute : ¬ C09_fullname_statement := by
  intro h
  have := h { namespaces := [], prefixes := [[]], names := [(['x'], 2)] }
    [.node (.attribute 0 []) [], .node (.element 0) [.node (.namespace 0 2) [], .node (.attribute 0 []) []]]
    true 0 0 (by rfl)
  revert this
  decide

/-- `<a xmlns="A"><b/></a>` with `b` in no namespace: reported unprefixed, which under the default
    namespace means `{A}b`. -/
theorem C09_fullname_false_element : ¬ C09_fullname_statement := by
  intro h
  have := h { namespaces := [], prefixes := [[]], names := [(['b'], 0)] }
    [.node (.element 0) [], .node (.element 5) [.node (.namespace 0 2) [], .node (.element 0) []]]
    false 0 0 (by rfl)
  revert this
  decide

/-- `node_name_ref(node)` reports the node's own name (`node_name`) with `name_ref`'s prefix. -/
theorem C09_node_name_ref (env : Env) (t : Tree) (path : Path) (chain : List Tree) (sub : Tree)
    (name p : Nat) (hc : t.ancestorsOrSelf path = some chain) (hs : t.at? path = some sub)
    (h : nodeNameRef env t path = some (.ok (some (name, p)))) :
    nodeName sub.value = some name ∧ nameRefChain env chain name = .ok p := by
  have hh := ancestorsOrSelf_head path t chain hc
  rw [hs] at hh
  simp only [nodeNameRef, hc, Option.map_some, Option.some.injEq, nodeNameRefChain, hh] at h
  cases hn : nodeName sub.value with
  | none => simp [hn] at h
  | some n =>
    simp only [hn] at h
    cases hr : nameRefChain env chain n with
    | error e => simp [hr] at h
    | ok q =>
      simp only [hr, Except.ok.injEq, Option.some.injEq, Prod.mk.injEq] at h
      obtain ⟨rfl, rfl⟩ := h
      exact ⟨rfl, hr⟩

/-- `inherited_prefixes(node)` only lists bindings in scope at the parent. -/
theorem C09_inherited_sound (env : Env) (t : Tree) (path : Path) (l : List (Nat × Nat))
    (h : inheritedPrefixes env t path = some l) (p ns : Nat) (hm : (p, ns) ∈ l) :
    path ≠ [] ∧ scopeSpec t path.dropLast p = some ns := by
  unfold inheritedPrefixes at h
  cases hs : t.at? path with
  | none => simp [hs] at h
  | some sub =>
    simp only [hs, Option.some.injEq] at h
    subst h
    simp only [List.mem_filter] at hm
    cases path with
    | nil => simp at hm
    | cons i rest =>
      refine ⟨by simp, ?_⟩
      simp only [List.isEmpty_cons, Bool.false_eq_true, ↓reduceIte] at hm
      cases hn : namespacesInScope t (i :: rest).dropLast with
      | none => simp [hn] at hm
      | some l' =>
        simp only [hn, Option.getD_some] at hm
        exact ((C09_in_scope t _ l' hn).1 p ns).1 hm.1

/-- `unresolved_namespaces(node)` depends on the subtree only and is the recursive function
    `unresolvedRec` started from an EMPTY frame: the edge loop, the push-if-non-empty /
    pop-if-had-declarations discipline are discharged. -/
theorem C09_unresolved_recursive (env : Env) (t : Tree) (path : Path) :
    unresolvedNamespaces env t path = (t.at? path).map (unresolvedRec env []) := by
  unfold unresolvedNamespaces
  cases t.at? path <;> simp [unresolvedNamespacesSub_eq]

/-- What one element contributes, read against the nearest-declaration bindings of the frames
    pushed inside the subtree (stack invariant of `C09_stack_invariant`): the namespace of the
    element name if it is real, not the XML namespace and bound to no prefix; the namespace of an
    attribute name if it is real, not the XML namespace and bound to no non-empty prefix. -/
theorem C09_unresolved_element (env : Env) (s : FStack) (frames : List (List (Nat × Nat)))
    (h : FrameInv s.top frames) (t : Tree) (name ns : Nat) :
    ns ∈ unresolvedOfElement env s.top t name ↔
      (env.nsOfName name = ns ∧ ns ≠ Env.noNamespace ∧ ns ≠ Env.xmlNamespace ∧
        ∀ p, scopeOf frames p ≠ some ns) ∨
      (∃ a ∈ t.attrs.map (·.1), env.nsOfName a = ns ∧ ns ≠ Env.noNamespace ∧
        ns ≠ Env.xmlNamespace ∧ ∀ p, p ≠ Env.emptyPrefix → scopeOf frames p ≠ some ns) :=
  mem_unresolvedOfElement_gen env s.top frames h t name ns

/-- The no-namespace id and the XML namespace are never reported as unresolved. -/
theorem C09_unresolved_real (env : Env) (t : Tree) (path : Path) (l : List Nat)
    (h : unresolvedNamespaces env t path = some l) (ns : Nat) (hm : ns ∈ l) :
    ns ≠ Env.noNamespace ∧ ns ≠ Env.xmlNamespace := by
  rw [C09_unresolved_recursive] at h
  cases hs : t.at? path with
  | none => simp [hs] at h
  | some sub =>
    simp only [hs, Option.map_some, Option.some.injEq] at h
    subst h
    exact unresolvedRec_real env ns sub [] hm

/-- The name stack of the serialisers (`FullnameSerializer`): after pushing the declarations of
    the elements `frames` (innermost first, unique prefixes per element) the top frame holds
    exactly the nearest-declaration bindings, each prefix once; `pop` undoes `push`. -/
theorem C09_stack_invariant (s : FStack) (frames : List (List (Nat × Nat))) (decls : List (Nat × Nat))
    (h : FrameInv s.top frames) (hd : (decls.map Prod.fst).Nodup) :
    FrameInv (s.push decls).top (decls :: frames) ∧ (s.push decls).pop (!decls.isEmpty) = s :=
  ⟨h.push decls hd, FStack.pop_push_sc s decls⟩

/-! ### `unresolved_namespaces` and `inherited_prefixes` over the whole subtree -/

/-- `unresolved_namespaces(node)`, one statement for the whole subtree.  The result is a list in
    document order WITH repetitions (one entry per name that cannot be written; the code does not
    deduplicate), so the statement is about membership: `ns` is reported iff there is an element
    `e` (at raw path `q` below `node`, `chain` = the nodes from `e` up to `node`) with
    `NeedsNs … e ns`: `ns` is real and not the XML namespace, and either `e`'s element name is in
    `ns` and NO prefix is bound to `ns`, or one of `e`'s attribute names is in `ns` and no
    NON-EMPTY prefix is bound to `ns` — bindings read by the nearest-declaration rule `scopeOf`
    over the declarations of the elements of `chain` only (`elementFrames chain`, innermost first):
    the name stack starts from an EMPTY frame, nothing above `node` counts.
    Hypothesis: no element of the subtree declares a prefix twice. -/
theorem C09_unresolved (env : Env) (t : Tree) (path : Path) (sub : Tree) (l : List Nat)
    (hs : t.at? path = some sub) (hu : UniqueDeclsBelow sub)
    (h : unresolvedNamespaces env t path = some l) (ns : Nat) :
    ns ∈ l ↔ ∃ q chain e, sub.ancestorsOrSelf q = some chain ∧ sub.at? q = some e ∧
      NeedsNs env (scopeOf (elementFrames chain)) e ns := by
  simp only [unresolvedNamespaces, hs, Option.map_some, Option.some.injEq] at h
  subst h
  rw [mem_unresolvedNamespacesSub env sub hu ns]
  simp [UnresolvedIn]

/-- `NeedsNs` spelled out. -/
theorem C09_unresolved_needs (env : Env) (sc : Nat → Option Nat) (e : Tree) (ns : Nat) :
    NeedsNs env sc e ns ↔
      ∃ name, e.value = .element name ∧ ns ≠ Env.noNamespace ∧ ns ≠ Env.xmlNamespace ∧
        ((env.nsOfName name = ns ∧ ∀ p, sc p ≠ some ns) ∨
         (∃ a ∈ e.attrs.map (·.1), env.nsOfName a = ns ∧
            ∀ p, p ≠ Env.emptyPrefix → sc p ≠ some ns)) := Iff.rfl

/-- The hypothesis of `C09_unresolved` is needed: `<a xmlns:p="A" xmlns:p="B"/>` with `a` in `B`
    (a state the namespace map of the API cannot produce). `FullnameInfo::new` keeps both entries,
    so `B` counts as bound, while a lookup of `p` gives `A`. -/
theorem C09_unresolved_unique_needed :
    ¬ ∀ (env : Env) (sub : Tree) (ns : Nat), ns ∈ unresolvedNamespacesSub env sub ↔ UnresolvedIn env [] sub ns := by
  intro h
  have h1 := (h { namespaces := [], prefixes := [], names := [(['a'], 3)] }
    (.node (.element 0) [.node (.namespace 2 2) [], .node (.namespace 2 3) []]) 3).2
    ⟨[], _, _, rfl, rfl, 0, rfl, by decide, by decide, .inl ⟨by decide, by
      intro p
      have hd : (Tree.node (.element 0) [.node (.namespace 2 2) [], .node (.namespace 2 3) []]).nsDecls =
          [(2, 2), (2, 3)] := by decide
      simp only [elementFrames, Tree.value, Value.isElement, List.filter_cons_of_pos, List.filter_nil,
        List.map_cons, List.map_nil, List.append_nil, scopeOf, hd]
      by_cases hp : p = 2
      · subst hp; decide
      · have : (p == 2) = false := by simpa using hp
        simp [List.lookup, this]⟩⟩
  revert h1
  decide

/-- `inherited_prefixes(node)`, exactly: the pairs `(p, ns)` such that `p` is bound to `ns` in the
    PARENT's scope (`scopeSpec`, so never `xmlns=""`, and including the `xml` binding in
    principle — but see `C09_unresolved_real`: the XML namespace is never reported) and `ns` is
    among `unresolved_namespaces(node)`.  Nothing is selected per namespace: if several prefixes
    are bound to a needed namespace ALL of them are inherited, and the default prefix is inherited
    like any other (also when the only name needing `ns` is an attribute name, which the default
    prefix cannot serve).  Each prefix occurs once; a root (no parent) inherits nothing. -/
theorem C09_inherited (env : Env) (t : Tree) (path : Path) (l : List (Nat × Nat))
    (h : inheritedPrefixes env t path = some l) :
    (∀ p ns, (p, ns) ∈ l ↔
      path ≠ [] ∧ scopeSpec t path.dropLast p = some ns ∧
        ∃ u, unresolvedNamespaces env t path = some u ∧ ns ∈ u) ∧
    (l.map Prod.fst).Nodup := by
  unfold inheritedPrefixes at h
  cases hs : t.at? path with
  | none => simp [hs] at h
  | some sub =>
    simp only [hs, Option.some.injEq] at h
    subst h
    simp only [unresolvedNamespaces, hs, Option.map_some, Option.some.injEq, exists_eq_left']
    cases path with
    | nil => simp
    | cons i rest =>
      simp only [List.isEmpty_cons, Bool.false_eq_true, ↓reduceIte, ne_eq, reduceCtorEq,
        not_false_eq_true, true_and, List.mem_filter, List.contains_eq_mem, decide_eq_true_eq]
      cases hn : namespacesInScope t (i :: rest).dropLast with
      | none =>
        have : t.ancestorsOrSelf (i :: rest).dropLast = none := by
          simpa [namespacesInScope] using hn
        simp [scopeSpec, this]
      | some l' =>
        obtain ⟨hmem, hnd, _, _⟩ := C09_in_scope t _ l' hn
        simp only [Option.getD_some]
        refine ⟨fun p ns => by rw [hmem], ?_⟩
        exact (List.filter_sublist.map Prod.fst).nodup hnd

/-- "A binding is inherited iff some name in the subtree needs it": with `C09_unresolved`. -/
theorem C09_inherited_iff (env : Env) (t : Tree) (path : Path) (sub : Tree) (l : List (Nat × Nat))
    (hs : t.at? path = some sub) (hu : UniqueDeclsBelow sub)
    (h : inheritedPrefixes env t path = some l) (p ns : Nat) :
    (p, ns) ∈ l ↔
      path ≠ [] ∧ scopeSpec t path.dropLast p = some ns ∧
        ∃ q chain e, sub.ancestorsOrSelf q = some chain ∧ sub.at? q = some e ∧
          NeedsNs env (scopeOf (elementFrames chain)) e ns := by
  rw [(C09_inherited env t path l h).1 p ns]
  simp only [unresolvedNamespaces, hs, Option.map_some, Option.some.injEq, exists_eq_left']
  rw [C09_unresolved env t path sub _ hs hu (by simp [unresolvedNamespaces, hs]) ns]

/-! ### Qualified names: the exact boundaries -/

/-- The common case, no guard: an ELEMENT name in a real namespace.  `name_ref` / `full_name` /
    `node_name_ref` answer `Ok(prefix)` exactly when some prefix — the default prefix included — is
    bound to the namespace in the node's scope, the reported prefix then resolves (by the rule for
    element names) to the name's namespace, and otherwise the answer is `MissingPrefix(ns)`. -/
theorem C09_fullname_element_real (env : Env) (chain : List Tree) (name : Nat)
    (hns : env.nsOfName name ≠ Env.noNamespace) :
    (∀ p, nameRefChain env chain name = .ok p →
      resolveQName chain false p = some (env.nsOfName name)) ∧
    ((∃ p, nameRefChain env chain name = .ok p) ↔
      ∃ q, scopeSpecChain chain q = some (env.nsOfName name)) ∧
    ((∀ q, scopeSpecChain chain q ≠ some (env.nsOfName name)) →
      nameRefChain env chain name = .error (.missingPrefix (env.nsOfName name))) := by
  have hb : (env.nsOfName name != Env.noNamespace) = true := by simpa [bne] using hns
  have hsound : ∀ p, nameRefChain env chain name = .ok p →
      scopeSpecChain chain p = some (env.nsOfName name) := by
    intro p h
    rcases nameRefChain_ok h with ⟨h0, _⟩ | ⟨_, hs⟩
    · exact absurd h0 hns
    · exact hs
  have hcomplete : (∃ q, scopeSpecChain chain q = some (env.nsOfName name)) →
      ∃ p, nameRefChain env chain name = .ok p := by
    rintro ⟨q, hq⟩
    obtain ⟨p, hp⟩ := pfnDecls_complete (env.nsOfName name) (allDecls chain) []
      ⟨q, by simp, scopeSpecChain_some_lookup hq⟩
    exact ⟨p, by simp [nameRefChain, hb, prefixForNamespaceChain, pfnChain_eq, hp, pfnResult]⟩
  refine ⟨fun p h => C09_fullname_element_partial env chain name p h (fun h0 => absurd h0 hns),
    ⟨fun ⟨p, h⟩ => ⟨p, hsound p h⟩, hcomplete⟩, fun hall => ?_⟩
  unfold nameRefChain
  simp only [hb, ↓reduceIte]
  cases hp : prefixForNamespaceChain chain (env.nsOfName name) with
  | none => rfl
  | some p =>
    exfalso
    exact hall p (hsound p (by simp [nameRefChain, hb, hp]))

/-- Elements, exact boundary of the open finding: an `Ok(prefix)` resolves back to the name's
    namespace iff it is NOT the case that the name is in no namespace while a default namespace
    is in scope. -/
theorem C09_fullname_element_iff (env : Env) (chain : List Tree) (name p : Nat)
    (h : nameRefChain env chain name = .ok p) :
    resolveQName chain false p = some (env.nsOfName name) ↔
      ¬ (env.nsOfName name = Env.noNamespace ∧ ∃ d, scopeSpecChain chain Env.emptyPrefix = some d) := by
  constructor
  · rintro hr ⟨h0, d, hd⟩
    rcases nameRefChain_ok h with ⟨_, rfl⟩ | ⟨hne, _⟩
    · simp only [resolveQName, beq_self_eq_true, ↓reduceIte, Bool.false_eq_true, hd, Option.getD_some,
        h0, Option.some.injEq] at hr
      exact scopeSpecChain_empty_ne chain (hr ▸ hd)
    · exact hne h0
  · intro hg
    apply C09_fullname_element_partial env chain name p h
    intro h0
    cases hd : scopeSpecChain chain Env.emptyPrefix with
    | none => rfl
    | some d => exact absurd ⟨h0, d, hd⟩ hg

/-- Attributes, exact boundary of the open finding: an `Ok(prefix)` resolves back to the name's
    namespace iff it is NOT the case that the name is in a real namespace and the EMPTY prefix is
    reported (which happens when `prefix_for_namespace` meets the default declaration of that
    namespace before any other unshadowed prefix bound to it). -/
theorem C09_fullname_attribute_iff (env : Env) (chain : List Tree) (name p : Nat)
    (h : nameRefChain env chain name = .ok p) :
    resolveQName chain true p = some (env.nsOfName name) ↔
      ¬ (env.nsOfName name ≠ Env.noNamespace ∧ p = Env.emptyPrefix) := by
  constructor
  · rintro hr ⟨hne, rfl⟩
    simp only [resolveQName, beq_self_eq_true, ↓reduceIte, Option.some.injEq] at hr
    exact hne hr.symm
  · intro hg
    rcases nameRefChain_ok h with ⟨h0, rfl⟩ | ⟨hne, hs⟩
    · simp [resolveQName, h0]
    · have hp : p ≠ Env.emptyPrefix := fun hp => hg ⟨hne, hp⟩
      have : (p == Env.emptyPrefix) = false := by simpa using hp
      simp [resolveQName, this, hs]

/-- The guard of `C09_fullname_attribute_partial` (the namespace is not the default namespace in
    scope) is sufficient but NOT necessary: in `<a xmlns:p="A" xmlns="A" A:x=""/>` the walk meets
    `p` first and the attribute is reported correctly as `p:x` although `A` is the default
    namespace.  The exact boundary is `C09_fullname_attribute_iff`. -/
theorem C09_fullname_attribute_guard_not_needed :
    ∃ (env : Env) (chain : List Tree) (name p : Nat), nameRefChain env chain name = .ok p ∧
      scopeSpecChain chain Env.emptyPrefix = some (env.nsOfName name) ∧
      resolveQName chain true p = some (env.nsOfName name) :=
  ⟨{ namespaces := [], prefixes := [[]], names := [(['x'], 2)] },
    [.node (.attribute 0 []) [],
     .node (.element 0) [.node (.namespace 2 2) [], .node (.namespace 0 2) [], .node (.attribute 0 []) []]],
    0, 2, by rfl, by decide, by decide⟩

/-- WHICH prefix `prefix_for_namespace` reports for a real namespace: the prefix of the first pair
    `namespaces_in_scope(node)` yields with that namespace (nearest element first, declaration
    order within an element, shadowed declarations skipped). -/
theorem C09_prefix_first (t : Tree) (path : Path) (ns : Nat) (hns : ns ≠ Env.noNamespace)
    (l : List (Nat × Nat)) (h : namespacesInScope t path = some l) :
    prefixForNamespace t path ns = some ((l.find? (fun kv => kv.2 == ns)).map Prod.fst) := by
  simp only [namespacesInScope, Option.map_eq_some_iff] at h
  obtain ⟨chain, hc, rfl⟩ := h
  simp [prefixForNamespace, hc, prefixForNamespaceChain_eq_find chain ns hns]

/-- The attribute finding at input level: an attribute name in a real namespace gets an `Ok`
    answer that does not resolve back iff the FIRST pair `namespaces_in_scope` yields with its
    namespace is the default prefix. -/
theorem C09_fullname_attribute_boundary (env : Env) (chain : List Tree) (name : Nat)
    (hns : env.nsOfName name ≠ Env.noNamespace) :
    (∃ p, nameRefChain env chain name = .ok p ∧
        resolveQName chain true p ≠ some (env.nsOfName name)) ↔
      ((namespacesInScopeChain chain).find? (fun kv => kv.2 == env.nsOfName name)).map Prod.fst =
        some Env.emptyPrefix := by
  rw [← prefixForNamespaceChain_eq_find chain _ hns]
  have hb : (env.nsOfName name != Env.noNamespace) = true := by simpa [bne] using hns
  constructor
  · rintro ⟨p, hp, hr⟩
    have hp0 : p = Env.emptyPrefix := by
      by_cases hp0 : p = Env.emptyPrefix
      · exact hp0
      · exact absurd ((C09_fullname_attribute_iff env chain name p hp).2 (fun h => hp0 h.2)) hr
    subst hp0
    simp only [nameRefChain, hb, ↓reduceIte] at hp
    cases hq : prefixForNamespaceChain chain (env.nsOfName name) with
    | none => simp [hq] at hp
    | some q => simp only [hq, Except.ok.injEq] at hp; rw [hp]
  · intro h
    refine ⟨Env.emptyPrefix, by simp [nameRefChain, hb, h], ?_⟩
    simp only [resolveQName, beq_self_eq_true, ↓reduceIte, ne_eq, Option.some.injEq]
    exact fun h0 => hns h0.symm

/-! ### Non-vacuity -/

/-- `<a xmlns:p="A" xmlns:q="B"><b xmlns:p="C"/></a>` at `b`, namespace `B`: found past the
    shadowed `p` (the former counterexample). -/
example : prefixForNamespace (.node (.element 2) [.node (.namespace 2 2) [], .node (.namespace 3 3) [],
    .node (.element 3) [.node (.namespace 2 4) []]]) [2] 3 = some (some 3) := by decide

example : namespacesInScope (.node (.element 2) [.node (.namespace 2 2) [], .node (.namespace 0 0) [],
    .node (.element 3) [.node (.namespace 2 4) []]]) [2] = some [(2, 4), (1, 1)] := by decide

example : NoPrefixToEmptyUri [.node (.element 2) [.node (.namespace 0 0) [], .node (.namespace 2 3) []]] := by
  intro a ha q n hm hn
  simp only [List.mem_singleton] at ha
  subst ha
  revert hm
  simp only [Tree.nsDecls, Tree.namespaceNodes, Tree.kids, Tree.value]
  simp [Value.category]
  rintro (⟨rfl, rfl⟩ | ⟨rfl, rfl⟩)
  · rfl
  · simp [Env.noNamespace] at hn

/-- `<a xmlns:p="A"><b B:x=""/></a>` (b in A, x in B): unique declarations; `B` is reported for the
    whole tree, `A` only for `b` alone, and `b` inherits exactly `p ↦ A`. -/
def c09UnresTree : Tree :=
  .node (.element 0) [.node (.namespace 2 2) [], .node (.element 0) [.node (.attribute 1 []) []]]
def c09UnresEnv : Env := { namespaces := [], prefixes := [], names := [(['a'], 2), (['x'], 3)] }

example : UniqueDeclsBelow c09UnresTree := uniqueDeclsB_sound _ (by decide)
example : unresolvedNamespaces c09UnresEnv c09UnresTree [] = some [3] := by decide
example : unresolvedNamespaces c09UnresEnv c09UnresTree [1] = some [2, 3] := by decide
example : inheritedPrefixes c09UnresEnv c09UnresTree [1] = some [(2, 2)] := by decide

/-- Two prefixes and the default bound to the needed namespace: all three are inherited. -/
example : inheritedPrefixes c09UnresEnv (.node (.element 5) [.node (.namespace 2 2) [], .node (.namespace 3 2) [],
    .node (.namespace 0 2) [], .node (.element 0) []]) [3] = some [(2, 2), (3, 2), (0, 2)] := by decide

/-- `<a xmlns:p="A"><A:b/></a>`: element `b` in `A`, bound only by prefix: `Ok(p)`; unbound `B`: error. -/
example : nameRefChain c09UnresEnv [.node (.element 0) [], c09UnresTree] 0 = .ok 2 := by rfl
example : nameRefChain c09UnresEnv [.node (.element 1) [], c09UnresTree] 1 = .error (.missingPrefix 3) := by rfl

end XotModel.Props
