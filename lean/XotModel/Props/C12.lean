/-
  C12 — A clone is equal to its source and shares nothing with it.
  Property theorems only (proofs by reference to Lemmas/Fclone*.lean).

  For ALL forests satisfying the invariant `Forest.Inv` (C04) and every live source node of any
  kind.  `cloneNode` is the edge replay of manipulation.rs `clone_node` through `any_append`
  (Model/Manip2.lean); the lemmas prove it equal to a structural copy with fresh handles
  (`copyRoot`, Model/FcloneSpec.lean) and read the statements below off that copy.
-/
import XotModel.Lemmas.FcloneMain
import XotModel.Lemmas.FcloneStrict
import XotModel.Lemmas.FcloneLocal4
import XotModel.Lemmas.FcloneLocal5
import XotModel.Lemmas.FlocalAll3
import XotModel.Lemmas.FhistLocal
import XotModel.Lemmas.FparseHistLocal
import XotModel.Lemmas.FclonePrefix8
import XotModel.Lemmas.FclonePrefixFresh
import XotModel.Lemmas.FcloneRoundTrip
import XotModel.Lemmas.FcloneRepr2
import XotModel.Model.FcloneModel
import XotModel.Generated

namespace XotModel.Props
open XotModel

/-- `clone_node` of a live node does not panic (the `any_append(...).unwrap()` and
    `first_child(top).unwrap()` inside it cannot fail) and returns a parentless node. -/
theorem C12_total (f : Forest) (inv : f.Inv) (node : Nat) (live : f.isLive node = true) :
    ∃ c, (f.cloneNode node).2 = some c ∧ (f.cloneNode node).1.isRoot c = true := by
  obtain ⟨src, hsrc⟩ := (Forest.isLive_iff f node).mp live
  obtain ⟨C, f', h1, h2, -⟩ := cloneNode_full f inv node src hsrc
  refine ⟨C.handle, by rw [h1], ?_⟩
  rw [h1]
  show f'.isRoot C.handle = true
  unfold Forest.isRoot
  rw [h2]
  simp

/-- Every handle of the clone is at least the old `next`: it was never handed out before, so the
    clone is made entirely of new nodes (none live, none removed earlier). -/
theorem C12_fresh (f : Forest) (inv : f.Inv) (node c : Nat) (live : f.isLive node = true)
    (hc : (f.cloneNode node).2 = some c) :
    ∃ C, (f.cloneNode node).1.get? c = some C ∧
      ∀ h ∈ HTree.handles C, f.next ≤ h ∧ h < (f.cloneNode node).1.next ∧ h ∉ f.allHandles ∧
        f.isRemoved h = false := by
  obtain ⟨src, hsrc⟩ := (Forest.isLive_iff f node).mp live
  obtain ⟨C, f', h1, h2, h3, h4, -⟩ := cloneNode_full f inv node src hsrc
  rw [h1] at hc ⊢
  cases hc
  refine ⟨C, h3, ?_⟩
  intro h hm
  obtain ⟨a, b⟩ := h4 h hm
  refine ⟨a, b, ?_, ?_⟩
  · intro hh
    have := inv.below h hh
    omega
  · simp [Forest.isRemoved]
    intro hlt
    omega

/-- Cloning changes nothing that existed: the old roots are, unchanged and in the same order, the
    roots of the new forest, followed by exactly one new root, the clone; the consolidation flag
    and the corruption flag are untouched. In particular the source subtree is unchanged. -/
theorem C12_frame (f : Forest) (inv : f.Inv) (node c : Nat) (live : f.isLive node = true)
    (hc : (f.cloneNode node).2 = some c) :
    ∃ C, (f.cloneNode node).1.roots = f.roots ++ [C] ∧ C.handle = c ∧
      (f.cloneNode node).1.consolidation = f.consolidation ∧
      (f.cloneNode node).1.everOff = f.everOff ∧ (f.cloneNode node).1.corrupt = f.corrupt := by
  obtain ⟨src, hsrc⟩ := (Forest.isLive_iff f node).mp live
  obtain ⟨C, f', h1, h2, _, _, _, _, h7, h8, h9, _⟩ := cloneNode_full f inv node src hsrc
  rw [h1] at hc ⊢
  cases hc
  exact ⟨C, h2, rfl, h7, h8, h9⟩

/-- Every node that was live keeps its subtree. -/
theorem C12_frame_get (f : Forest) (inv : f.Inv) (node h : Nat) (t : HTree)
    (live : f.isLive node = true) (ht : f.get? h = some t) :
    (f.cloneNode node).1.get? h = some t := by
  obtain ⟨src, hsrc⟩ := (Forest.isLive_iff f node).mp live
  obtain ⟨C, f', h1, h2, -⟩ := cloneNode_full f inv node src hsrc
  rw [h1]
  unfold Forest.get? at ht ⊢
  rw [h2]
  exact findList?_append_some h t _ _ ht

/-- The clone, handles forgotten, is the source with every run of adjacent text nodes merged when
    consolidation is on, and the source itself when it is off: same values, same namespace
    declarations and attributes in the same order, for every kind of source node. -/
theorem C12_equal (f : Forest) (inv : f.Inv) (node c : Nat) (src : HTree)
    (hsrc : f.get? node = some src) (hc : (f.cloneNode node).2 = some c) :
    ∃ C, (f.cloneNode node).1.get? c = some C ∧
      C.erase = (if f.consolidation then mergeAdjacentText src.erase else src.erase) := by
  obtain ⟨C, f', h1, _, h3, _, _, h6, -⟩ := cloneNode_full f inv node src hsrc
  rw [h1] at hc ⊢
  cases hc
  exact ⟨C, h3, h6⟩

/-- While consolidation has never been switched off (`everOff = false`) a forest has no adjacent
    text nodes, so the clone is literally equal to the source. -/
theorem C12_equal_strict (f : Forest) (inv : f.Inv) (hoff : f.everOff = false) (node c : Nat)
    (src : HTree) (hsrc : f.get? node = some src) (hc : (f.cloneNode node).2 = some c) :
    ∃ C, (f.cloneNode node).1.get? c = some C ∧ C.erase = src.erase := by
  obtain ⟨C, f', h1, _, h3, _, _, h6, -⟩ := cloneNode_full f inv node src hsrc
  rw [h1] at hc ⊢
  cases hc
  refine ⟨C, h3, ?_⟩
  rw [h6]
  have hv := inv.valid_get hsrc
  rw [hoff] at hv
  exact expectedClone_strict _ src hv

/-- Locality: a root that shares no handle with the other roots is left exactly as it is by any
    history of `append / prepend / insert_after / insert_before / detach / remove` and of the
    text / comment / PI / element-name setters whose node arguments all lie outside it (whatever
    the calls return). -/
theorem C12_locality (f : Forest) (r : HTree) (ops : List EditOp) (hs : Sep r f)
    (hargs : ∀ op ∈ ops, ∀ a ∈ op.args, a ∉ HTree.handles r) :
    r ∈ (f.edits ops).roots ∧ Sep r (f.edits ops) :=
  ⟨(hs.edits ops hargs).mem, hs.edits ops hargs⟩

/-- Independence: after `clone_node`, any later history of such calls on nodes outside the clone
    (in particular: on the source's tree) leaves the clone untouched, and any history on nodes
    outside an old tree `r` (in particular: on the clone; `r` = the tree containing the source)
    leaves `r` untouched. -/
theorem C12_independent (f : Forest) (inv : f.Inv) (node c : Nat) (live : f.isLive node = true)
    (hc : (f.cloneNode node).2 = some c) :
    ∃ C, (f.cloneNode node).1.get? c = some C ∧
      (∀ ops : List EditOp, (∀ op ∈ ops, ∀ a ∈ op.args, a ∉ HTree.handles C) →
        C ∈ ((f.cloneNode node).1.edits ops).roots) ∧
      (∀ r ∈ f.roots, ∀ ops : List EditOp, (∀ op ∈ ops, ∀ a ∈ op.args, a ∉ HTree.handles r) →
        r ∈ ((f.cloneNode node).1.edits ops).roots) := by
  obtain ⟨src, hsrc⟩ := (Forest.isLive_iff f node).mp live
  obtain ⟨C, f', h1, h2, h3, h4, -⟩ := cloneNode_full f inv node src hsrc
  obtain ⟨g3, g4⟩ := sep_after_clone f inv C f' h2 (fun a ha => (h4 a ha).1)
  rw [h1] at hc ⊢
  cases hc
  exact ⟨C, h3, fun ops h => (g3.edits ops h).mem, fun r hr ops h => ((g4 r hr).edits ops h).mem⟩

/-- `clone_with_prefixes`, for EVERY iteration order of the hash map returned by
    `inherited_prefixes` (`order` is any list at all): every tree that existed before is still a
    root of the resulting forest, unchanged. -/
theorem C12_prefixes_frame (f : Forest) (inv : f.Inv) (node : Nat) (live : f.isLive node = true)
    (order : List (Nat × Nat)) :
    ∀ r ∈ f.roots, r ∈ (f.cloneWithPrefixes node order).1.roots := by
  obtain ⟨src, hsrc⟩ := (Forest.isLive_iff f node).mp live
  exact cloneWithPrefixes_frame f inv node src hsrc order

/-- On a source that is not an element (document, text, comment, PI, attribute or namespace
    node) `clone_with_prefixes` is `clone_node`, whatever the order. -/
theorem C12_prefixes_non_element (f : Forest) (inv : f.Inv) (node : Nat) (src : HTree)
    (hsrc : f.get? node = some src) (hne : src.value.isElement = false) (order : List (Nat × Nat)) :
    f.cloneWithPrefixes node order = f.cloneNode node := by
  obtain ⟨C, f', h1, _, h3, _, _, h6, -⟩ := cloneNode_full f inv node src hsrc
  unfold Forest.cloneWithPrefixes
  rw [h1]
  have hv : C.value.isElement = false := by
    have e : C.erase.value = (expectedClone f.consolidation src.erase).value := by rw [h6]
    have e1 : (expectedClone f.consolidation src.erase).value = src.value := by
      unfold expectedClone
      cases src with
      | node h v ks => cases f.consolidation <;> simp [HTree.erase, mergeAdjacentText, Tree.value, HTree.value]
    rw [erase_value, e1] at e
    rw [e]; exact hne
  have : f'.isElement C.handle = false := by
    simp [Forest.isElement, Forest.value?, h3, hv]
  simp [this]

/-- `clone_with_prefixes` of a live node cannot panic, whatever the iteration order: on an
    element the insertion loop is `addSpec` (each missing prefix becomes a new namespace node
    right after the namespace nodes already there). -/
theorem C12_prefixes_total (f : Forest) (inv : f.Inv) (node : Nat) (live : f.isLive node = true)
    (order : List (Nat × Nat)) : ∃ c, (f.cloneWithPrefixes node order).2 = some c := by
  obtain ⟨src, hsrc⟩ := (Forest.isLive_iff f node).mp live
  exact cloneWithPrefixes_total f inv node src hsrc order

/-- The clone serialises on its own whenever the source serialised in place: if `to_string` of the
    root of the tree containing the source element succeeds (`serialises` = no `MissingPrefix`, no
    namespaced PI target), then `to_string(clone_with_prefixes(source))` succeeds — for EVERY
    enumeration `order` of the hash map `inherited_prefixes(source)` (same entries, each prefix
    once), every vocabulary `env`, and whether or not adjacent text nodes get merged in the clone. -/
theorem C12_prefixes (env : Env) (f : Forest) (inv : f.Inv)
    (node : Nat) (src : HTree) (rest : List HTree) (hpath : f.pathTo node = src :: rest)
    (hel : src.value.isElement = true)
    (hroot : ∀ r ∈ f.roots, HTree.pathTo node r = some (src :: rest) → f.serialises env r.handle = true)
    (order : List (Nat × Nat)) (hord : ∀ b, b ∈ order ↔ b ∈ f.inheritedPrefixes env node)
    (hfun : ∀ a ∈ order, ∀ b ∈ order, a.1 = b.1 → a = b) :
    ∃ c, (f.cloneWithPrefixes node order).2 = some c ∧
      (f.cloneWithPrefixes node order).1.serialises env c = true := by
  cases src with
  | node hs v Ks =>
    cases v with
    | element name =>
      exact cloneWithPrefixes_serialises env f inv node hs name Ks rest hpath
        (fun r hr hp => by rw [← serialises_root env f inv r hr]; exact hroot r hr hp) order hord hfun
    | document => simp [HTree.value, Value.isElement] at hel
    | text s => simp [HTree.value, Value.isElement] at hel
    | pi t d => simp [HTree.value, Value.isElement] at hel
    | comment s => simp [HTree.value, Value.isElement] at hel
    | «attribute» a s => simp [HTree.value, Value.isElement] at hel
    | «namespace» a s => simp [HTree.value, Value.isElement] at hel

/-- `Xot::clone()` is the identity on the model value … -/
theorem C12_store (s : Store) : s.clone = s := rfl

/-- … which is what `#[derive(Clone)]` gives because every field of `struct Xot` is owned data:
    the field list read off xotdata.rs is the one the model accounts for (arena and consolidation
    flag = `Forest`; the three lookups = `Env`; `id_nodes_map` is a cache keyed by node; the six
    ids are constants of `Xot::new`), `Clone` is derived, and the extractor found no component
    type that could share ownership. -/
theorem C12_store_fields :
    Gen.xotDerivesClone = true ∧ Gen.xotFields.all (fun x => x.2.2) = true ∧
    Gen.xotFields.map (fun x => String.ofList x.1) =
      ["arena", "id_nodes_map", "namespace_lookup", "prefix_lookup", "name_lookup", "no_namespace_id",
       "empty_prefix_id", "xml_namespace_id", "xml_prefix_id", "xml_space_id", "xml_id_id",
       "text_consolidation"] := by
  decide

/-! ### Non-vacuity -/

/-- A forest with declarations on an ancestor, attributes, and text. -/
def exForest : Forest :=
  { roots := [.node 0 .document [.node 1 (.element 2) [.node 2 (.namespace 2 2) [],
      .node 3 (.element 6) [.node 4 (.attribute 3 ['v']) [], .node 5 (.text ['x']) []]]]], next := 6 }

example : exForest.Inv := (Forest.inv_iff _).mp (by decide)
example : exForest.isLive 3 = true := by decide
example : (exForest.cloneNode 3).2 = some 7 := by decide +kernel
example : (exForest.cloneNode 0).2 = some 6 := by decide +kernel
example : exForest.everOff = false := rfl
/-- a vocabulary in which name 6 lies in namespace 2 (declared with prefix 2 on the ancestor) -/
def exEnv : Env :=
  { namespaces := [[], ['x'], ['u']], prefixes := [[], ['x','m','l'], ['p']],
    names := [(['s'], 1), (['i'], 1), (['a'], 0), (['b'], 0), (['c'], 0), (['d'], 0), (['a'], 2)] }
example : (exForest.pathTo 3).map HTree.handle = [3, 1, 0] := by decide +kernel
example : exForest.serialises exEnv 0 = true := by decide +kernel
example : exForest.inheritedPrefixes exEnv 3 = [(2, 2)] := by decide +kernel
example : (exForest.cloneNode 3).1.serialises exEnv 7 = false := by decide +kernel
example : (exForest.cloneWithPrefixes 3 [(2, 2)]).1.serialises exEnv 7 = true := by decide +kernel
/-- a history on the source's tree whose arguments avoid the clone -/
example : ∀ op ∈ [EditOp.setText 5 ['y'], EditOp.remove 4, EditOp.append 1 5], ∀ a ∈ op.args, a < 6 := by decide

/-! ### The clone reparses: `parse(to_string(clone_with_prefixes(source)))`

`Forest.serialises` IS "`to_string(node)` succeeds" for a parentless node (`C12_serialises_is_to_string`),
`to_string` of a parentless element writes what `to_string` of the document holding just that element
writes (Lemmas/RoundTripElement.lean), so the tree-level round trip C01_roundtrip_identical applies to
the clone. -/

/-- What `Forest.serialises` means for a root (a parentless node, e.g. a clone): `to_string(root)`
    succeeds — for every table set in which `xml` and the declared prefixes have a spelling. -/
theorem C12_serialises_is_to_string (env : Env) (f : Forest) (inv : f.Inv) (r : HTree) (hr : r ∈ f.roots)
    (hx : env.prefixStr Env.xmlPrefix ≠ []) (ht : r.erase.allNodes (declsNamed env) = true) :
    f.serialises env r.handle = true ↔ ∃ s, toXmlString env r.erase [] = .ok s := by
  rw [serialises_root env f inv r hr]
  exact (serializeString_root_ok_iff (env := env) {} rfl r.erase hx ht).symm

/-- **C12_clone_roundtrip**: under the hypotheses of `C12_prefixes` (the source element serialises in
    place; `order` is any enumeration of `inherited_prefixes(source)`), if moreover the CLONE lies in
    the round-trip domain of C01 (`hrep`: the document holding just the erased clone is
    `Representable`: tables with the built-in values, `nodeOK` at every node of the clone — the added
    namespace nodes included —, no repeated `xml:id` value), then: the clone `c` is a parentless
    element, `to_string(c)` succeeds with some text `s`, `parse(s)` succeeds, the parsed tree is the
    document holding exactly the clone — id for id, the added declarations included —, the interning
    tables are unchanged, and the parsed document is `deep_equal` to the document holding the source
    subtree (with adjacent text nodes merged when consolidation is on, as `clone_node` does:
    C12_equal).  Proved with the hypothesis on the clone; `C12_clone_roundtrip_strict` replaces the
    merged source by the source itself. -/
theorem C12_clone_roundtrip (env : Env) (f : Forest) (inv : f.Inv)
    (node : Nat) (src : HTree) (rest : List HTree) (hpath : f.pathTo node = src :: rest)
    (hel : src.value.isElement = true)
    (hroot : ∀ r ∈ f.roots, HTree.pathTo node r = some (src :: rest) → f.serialises env r.handle = true)
    (order : List (Nat × Nat)) (hord : ∀ b, b ∈ order ↔ b ∈ f.inheritedPrefixes env node)
    (hfun : ∀ a ∈ order, ∀ b ∈ order, a.1 = b.1 → a = b)
    (hrep : ∀ c C, (f.cloneWithPrefixes node order).2 = some c →
      (f.cloneWithPrefixes node order).1.get? c = some C →
      Representable env (.node .document [C.erase]) = true) :
    ∃ c C s p, (f.cloneWithPrefixes node order).2 = some c ∧
      (f.cloneWithPrefixes node order).1.get? c = some C ∧
      (f.cloneWithPrefixes node order).1.isRoot c = true ∧ C.value.isElement = true ∧
      serializeString env {} C.erase [] = .ok s ∧ parseString .document env s = .ok p ∧
      p.tree = .node .document [C.erase] ∧ p.env = env ∧
      deepEqual p.tree (.node .document
        [if f.consolidation then mergeAdjacentText src.erase else src.erase]) = true := by
  cases src with
  | node hs v Ks =>
    cases v with
    | element name =>
      obtain ⟨c, C, s, p, h1, h2, h3, h4, h5, h6, h7, h8, h9⟩ :=
        cloneWithPrefixes_roundtrip env f inv node hs name Ks rest hpath
          (fun r hr hp => by rw [← serialises_root env f inv r hr]; exact hroot r hr hp) order hord hfun hrep
      exact ⟨c, C, s, p, h1, h2, h3, by rw [h4]; rfl, h5, h6, h7, h8, h9⟩
    | document => simp [HTree.value, Value.isElement] at hel
    | text s => simp [HTree.value, Value.isElement] at hel
    | pi t d => simp [HTree.value, Value.isElement] at hel
    | comment s => simp [HTree.value, Value.isElement] at hel
    | «attribute» a s => simp [HTree.value, Value.isElement] at hel
    | «namespace» a s => simp [HTree.value, Value.isElement] at hel

/-- While consolidation has never been switched off (no adjacent text nodes anywhere) the reparsed
    clone is `deep_equal` to the document holding the source subtree itself. -/
theorem C12_clone_roundtrip_strict (env : Env) (f : Forest) (inv : f.Inv) (hoff : f.everOff = false)
    (node : Nat) (src : HTree) (rest : List HTree) (hpath : f.pathTo node = src :: rest)
    (hel : src.value.isElement = true)
    (hroot : ∀ r ∈ f.roots, HTree.pathTo node r = some (src :: rest) → f.serialises env r.handle = true)
    (order : List (Nat × Nat)) (hord : ∀ b, b ∈ order ↔ b ∈ f.inheritedPrefixes env node)
    (hfun : ∀ a ∈ order, ∀ b ∈ order, a.1 = b.1 → a = b)
    (hrep : ∀ c C, (f.cloneWithPrefixes node order).2 = some c →
      (f.cloneWithPrefixes node order).1.get? c = some C →
      Representable env (.node .document [C.erase]) = true) :
    ∃ c C s p, (f.cloneWithPrefixes node order).2 = some c ∧
      (f.cloneWithPrefixes node order).1.get? c = some C ∧
      serializeString env {} C.erase [] = .ok s ∧ parseString .document env s = .ok p ∧
      p.tree = .node .document [C.erase] ∧ p.env = env ∧
      deepEqual p.tree (.node .document [src.erase]) = true := by
  obtain ⟨c, C, s, p, h1, h2, _, _, h5, h6, h7, h8, h9⟩ :=
    C12_clone_roundtrip env f inv node src rest hpath hel hroot order hord hfun hrep
  refine ⟨c, C, s, p, h1, h2, h5, h6, h7, h8, ?_⟩
  obtain ⟨hget, _⟩ := Forest.get?_of_pathTo hpath
  have hv := inv.valid_get hget
  rw [hoff] at hv
  have := expectedClone_strict f.consolidation src hv
  unfold expectedClone at this
  rw [this] at h9
  exact h9

/-- **C12_clone_roundtrip with the hypothesis on the SOURCE** instead of the clone: if the tables
    hold the built-in values (`envOK`), every node of the root tree containing the source is `nodeOK`
    (Model/SerTokens.lean: structure, no adjacent text, well-formed names and character data,
    declarations XML can express) and no `xml:id` value is repeated inside the source, then the clone
    — the copy of the source plus one namespace node per inherited prefix — lies in the round-trip
    domain (`cloneWithPrefixes_representable`: every added declaration is a declaration of an ancestor,
    no prefix is declared twice), so: `to_string(clone)` succeeds, the text parses, the parsed tree is
    the document holding exactly the clone, tables unchanged, and it is `deep_equal` to the document
    holding the source subtree itself. -/
theorem C12_clone_roundtrip_source (env : Env) (f : Forest) (inv : f.Inv)
    (node : Nat) (src : HTree) (rest : List HTree) (hpath : f.pathTo node = src :: rest)
    (hel : src.value.isElement = true)
    (hroot : ∀ r ∈ f.roots, HTree.pathTo node r = some (src :: rest) → f.serialises env r.handle = true)
    (order : List (Nat × Nat)) (hord : ∀ b, b ∈ order ↔ b ∈ f.inheritedPrefixes env node)
    (hfun : ∀ a ∈ order, ∀ b ∈ order, a.1 = b.1 → a = b)
    (henv : envOK env = true)
    (hok : ∀ r ∈ f.roots, HTree.pathTo node r = some (src :: rest) → r.erase.allNodes (nodeOK env) = true)
    (hids : (xmlIdValues env src.erase).Nodup) :
    ∃ c C s p, (f.cloneWithPrefixes node order).2 = some c ∧
      (f.cloneWithPrefixes node order).1.get? c = some C ∧
      (f.cloneWithPrefixes node order).1.isRoot c = true ∧ C.value.isElement = true ∧
      Representable env (.node .document [C.erase]) = true ∧
      serializeString env {} C.erase [] = .ok s ∧ parseString .document env s = .ok p ∧
      p.tree = .node .document [C.erase] ∧ p.env = env ∧
      deepEqual p.tree (.node .document [src.erase]) = true := by
  have hrep : ∀ c C, (f.cloneWithPrefixes node order).2 = some c →
      (f.cloneWithPrefixes node order).1.get? c = some C →
      Representable env (.node .document [C.erase]) = true ∧
        expectedClone f.consolidation src.erase = src.erase := by
    cases src with
    | node hs v Ks =>
      cases v with
      | element name =>
        exact cloneWithPrefixes_representable env f inv node hs name Ks rest hpath order
          (fun b hb => (hord b).mp hb) henv hok hids
      | document => simp [HTree.value, Value.isElement] at hel
      | text s => simp [HTree.value, Value.isElement] at hel
      | pi t d => simp [HTree.value, Value.isElement] at hel
      | comment s => simp [HTree.value, Value.isElement] at hel
      | «attribute» a s => simp [HTree.value, Value.isElement] at hel
      | «namespace» a s => simp [HTree.value, Value.isElement] at hel
  obtain ⟨c, C, s, p, h1, h2, h3, h4, h5, h6, h7, h8, h9⟩ :=
    C12_clone_roundtrip env f inv node src rest hpath hel hroot order hord hfun
      (fun c C hc hC => (hrep c C hc hC).1)
  have hfix := (hrep c C h1 h2).2
  unfold expectedClone at hfix
  rw [hfix] at h9
  exact ⟨c, C, s, p, h1, h2, h3, h4, (hrep c C h1 h2).1, h5, h6, h7, h8, h9⟩

/-- Non-vacuity, closed: tables with the built-in values in which name 6 lies in namespace 2,
    declared with prefix 2 on the ancestor of the source (element 3 of `exForest`); the clone with the
    inherited declaration is `<p:a xmlns:p="u" b="v">x</p:a>`, and every hypothesis of
    `C12_clone_roundtrip` / `_strict` holds by evaluation. -/
def exEnvR : Env :=
  { namespaces := [[], xmlNamespaceUri, ['u']], prefixes := [[], ['x', 'm', 'l'], ['p']],
    names := [(['s', 'p', 'a', 'c', 'e'], 1), (['i', 'd'], 1), (['a'], 0), (['b'], 0), (['c'], 0), (['d'], 0),
      (['a'], 2)] }

/-- the clone: handles 7 (root), 10 (the added declaration), 8, 9 -/
example : (exForest.cloneWithPrefixes 3 [(2, 2)]).2 = some 7 ∧
    ((exForest.cloneWithPrefixes 3 [(2, 2)]).1.get? 7).map HTree.handles = some [7, 10, 8, 9] := by
  decide +kernel
example : ((exForest.cloneWithPrefixes 3 [(2, 2)]).1.get? 7).map
    (fun C => Representable exEnvR (.node .document [C.erase])) = some true := by decide +kernel
example : ((exForest.cloneWithPrefixes 3 [(2, 2)]).1.get? 7).map
    (fun C => serializeString exEnvR {} C.erase []) =
      some (.ok "<p:a xmlns:p=\"u\" b=\"v\">x</p:a>".toList) := by decide +kernel

example : ∃ c C s p, (exForest.cloneWithPrefixes 3 [(2, 2)]).2 = some c ∧
    (exForest.cloneWithPrefixes 3 [(2, 2)]).1.get? c = some C ∧
    serializeString exEnvR {} C.erase [] = .ok s ∧ parseString .document exEnvR s = .ok p ∧
    p.tree = .node .document [C.erase] ∧ p.env = exEnvR ∧
    deepEqual p.tree (.node .document [.node (.element 6)
      [.node (.attribute 3 ['v']) [], .node (.text ['x']) []]]) = true := by
  have hp : exForest.pathTo 3 =
      [.node 3 (.element 6) [.node 4 (.attribute 3 ['v']) [], .node 5 (.text ['x']) []],
       .node 1 (.element 2) [.node 2 (.namespace 2 2) [],
         .node 3 (.element 6) [.node 4 (.attribute 3 ['v']) [], .node 5 (.text ['x']) []]],
       .node 0 .document [.node 1 (.element 2) [.node 2 (.namespace 2 2) [],
         .node 3 (.element 6) [.node 4 (.attribute 3 ['v']) [], .node 5 (.text ['x']) []]]]] := by
    rfl
  have hc1 : (exForest.cloneWithPrefixes 3 [(2, 2)]).2 = some 7 := by decide +kernel
  have hc2 : ((exForest.cloneWithPrefixes 3 [(2, 2)]).1.get? 7).map
      (fun C => Representable exEnvR (.node .document [C.erase])) = some true := by decide +kernel
  exact C12_clone_roundtrip_strict exEnvR exForest ((Forest.inv_iff _).mp (by decide)) rfl 3 _ _ hp rfl
    (fun r hr _ => by
      have : r = .node 0 .document [.node 1 (.element 2) [.node 2 (.namespace 2 2) [],
          .node 3 (.element 6) [.node 4 (.attribute 3 ['v']) [], .node 5 (.text ['x']) []]]] := by
        simpa [exForest] using hr
      subst this
      decide +kernel)
    [(2, 2)]
    (by rw [show exForest.inheritedPrefixes exEnvR 3 = [(2, 2)] from by decide +kernel]; intro b; exact Iff.rfl)
    (by decide)
    (fun c C h1 h2 => by
      rw [hc1] at h1
      cases h1
      rw [h2] at hc2
      simpa using hc2)

/-- The same from the hypotheses on the source (`C12_clone_roundtrip_source`), closed. -/
example : ∃ c C s p, (exForest.cloneWithPrefixes 3 [(2, 2)]).2 = some c ∧
    (exForest.cloneWithPrefixes 3 [(2, 2)]).1.get? c = some C ∧
    (exForest.cloneWithPrefixes 3 [(2, 2)]).1.isRoot c = true ∧ C.value.isElement = true ∧
    Representable exEnvR (.node .document [C.erase]) = true ∧
    serializeString exEnvR {} C.erase [] = .ok s ∧ parseString .document exEnvR s = .ok p ∧
    p.tree = .node .document [C.erase] ∧ p.env = exEnvR ∧
    deepEqual p.tree (.node .document [.node (.element 6)
      [.node (.attribute 3 ['v']) [], .node (.text ['x']) []]]) = true := by
  have hp : exForest.pathTo 3 =
      [.node 3 (.element 6) [.node 4 (.attribute 3 ['v']) [], .node 5 (.text ['x']) []],
       .node 1 (.element 2) [.node 2 (.namespace 2 2) [],
         .node 3 (.element 6) [.node 4 (.attribute 3 ['v']) [], .node 5 (.text ['x']) []]],
       .node 0 .document [.node 1 (.element 2) [.node 2 (.namespace 2 2) [],
         .node 3 (.element 6) [.node 4 (.attribute 3 ['v']) [], .node 5 (.text ['x']) []]]]] := by
    rfl
  have hr : ∀ r ∈ exForest.roots, r = .node 0 .document [.node 1 (.element 2) [.node 2 (.namespace 2 2) [],
      .node 3 (.element 6) [.node 4 (.attribute 3 ['v']) [], .node 5 (.text ['x']) []]]] := by
    intro r hr
    simpa [exForest] using hr
  exact C12_clone_roundtrip_source exEnvR exForest ((Forest.inv_iff _).mp (by decide)) 3 _ _ hp rfl
    (fun r h _ => by rw [hr r h]; decide +kernel)
    [(2, 2)]
    (by rw [show exForest.inheritedPrefixes exEnvR 3 = [(2, 2)] from by decide +kernel]; intro b; exact Iff.rfl)
    (by decide) (by decide)
    (fun r h _ => by rw [hr r h]; decide +kernel)
    (by decide)

/-- … and the hypotheses on the source of `C12_clone_roundtrip_source` hold for it as well. -/
example : envOK exEnvR = true ∧
    (Tree.node .document [.node (.element 2) [.node (.namespace 2 2) [],
      .node (.element 6) [.node (.attribute 3 ['v']) [], .node (.text ['x']) []]]]).allNodes (nodeOK exEnvR) = true ∧
    (xmlIdValues exEnvR (.node (.element 6) [.node (.attribute 3 ['v']) [], .node (.text ['x']) []])).Nodup := by
  decide

/-! ### Locality for EVERY call

`Forest.HStep` (Model/FlocalSpec.lean): a call of `Forest.Call` — append, prepend, insert_after,
insert_before, detach, remove, replace, element_wrap, element_unwrap, clone_node, any_append,
append_attribute_node / append_namespace_node, attributes_mut / namespaces_mut insert / remove /
clear, the setters, text_content_mut().set — or node creation, set_text_consolidation,
remove_insignificant_whitespace.  `SepB r f`: `r` is a root of `f`, shares no handle with another
root, and all its handles are below `f.next` (true of every root of a forest with the invariant,
`C12_sepB_of_inv`).  No invariant is needed for the step itself; the statements hold whatever the
call answers (`ok`, `err`, `panic`), and for arguments that are not live. -/

/-- Every root of a forest with the invariant qualifies. -/
theorem C12_sepB_of_inv (f : Forest) (inv : f.Inv) (r : HTree) (hr : r ∈ f.roots) : SepB r f :=
  SepB.of_inv inv hr

/-- One call none of whose node arguments is a node of the root tree `r` leaves `r`, handle for
    handle and value for value, a root of the forest (and still separated, so this iterates).
    For `clone_node` the source may even lie in `r`: cloning only reads it (`Call.args` lists it, so
    the hypothesis below asks more than needed; `C12_locality_cloneNode`). -/
theorem C12_locality_call (f : Forest) (r : HTree) (c : Forest.Call) (hs : SepB r f)
    (hargs : ∀ a ∈ c.args, a ∉ HTree.handles r) :
    r ∈ (c.run f).1.roots ∧ SepB r (c.run f).1 :=
  ⟨(hs.call c hargs).sep.mem, hs.call c hargs⟩

theorem C12_locality_cloneNode (f : Forest) (r : HTree) (n : Nat) (hs : SepB r f) :
    r ∈ (f.cloneNode n).1.roots ∧ SepB r (f.cloneNode n).1 :=
  ⟨(hs.cloneNode n).sep.mem, hs.cloneNode n⟩

/-- The same with the hypothesis read as "the root of every argument is not `r`". -/
theorem C12_locality_call_root (f : Forest) (inv : f.Inv) (r : HTree) (hr : r ∈ f.roots)
    (c : Forest.Call) (hargs : ∀ a ∈ c.args, ∀ t ∈ f.roots, a ∈ HTree.handles t → t ≠ r) :
    r ∈ (c.run f).1.roots :=
  (C12_locality_call f r c (SepB.of_inv inv hr) (fun a ha har => hargs a ha r hr har rfl)).1

/-- One step of a history (calls, node creation, set_text_consolidation,
    remove_insignificant_whitespace). -/
theorem C12_locality_step (f : Forest) (r : HTree) (st : Forest.HStep) (hs : SepB r f)
    (hargs : ∀ a ∈ st.args, a ∉ HTree.handles r) :
    r ∈ (f.stepAll st).roots ∧ SepB r (f.stepAll st) :=
  ⟨(hs.stepAll st hargs).sep.mem, hs.stepAll st hargs⟩

/-- Arbitrary histories: a root tree none of whose nodes is ever named as an argument is, at the
    end, exactly the tree it was. -/
theorem C12_locality_all (f : Forest) (r : HTree) (ss : List Forest.HStep) (hs : SepB r f)
    (hargs : ∀ st ∈ ss, ∀ a ∈ st.args, a ∉ HTree.handles r) :
    r ∈ (f.runAll ss).roots ∧ SepB r (f.runAll ss) :=
  ⟨(hs.runAll ss hargs).sep.mem, hs.runAll ss hargs⟩

/-- … in particular along the histories of C04 (`Op`, `Forest.run`). -/
theorem C12_locality_ops (f : Forest) (inv : f.Inv) (r : HTree) (hr : r ∈ f.roots) (ops : List Op)
    (hargs : ∀ o ∈ ops, ∀ a ∈ o.args, a ∉ HTree.handles r) : r ∈ (f.run ops).roots := by
  rw [Forest.run_eq_runAll]
  refine (C12_locality_all f r _ (SepB.of_inv inv hr) ?_).1
  intro st hst a ha
  obtain ⟨o, ho, rfl⟩ := List.mem_map.mp hst
  exact hargs o ho a ha

/-- Independence under arbitrary later histories: the clone is untouched by whatever is done to
    nodes outside it (in particular to the source and its tree), and every old tree (in particular
    the source's) is untouched by whatever is done to nodes outside it (in particular to the clone). -/
theorem C12_independent_all (f : Forest) (inv : f.Inv) (node c : Nat) (live : f.isLive node = true)
    (hc : (f.cloneNode node).2 = some c) :
    ∃ C, (f.cloneNode node).1.get? c = some C ∧
      (∀ ss : List Forest.HStep, (∀ st ∈ ss, ∀ a ∈ st.args, a ∉ HTree.handles C) →
        C ∈ ((f.cloneNode node).1.runAll ss).roots) ∧
      (∀ r ∈ f.roots, ∀ ss : List Forest.HStep, (∀ st ∈ ss, ∀ a ∈ st.args, a ∉ HTree.handles r) →
        r ∈ ((f.cloneNode node).1.runAll ss).roots) := by
  obtain ⟨src, hsrc⟩ := (Forest.isLive_iff f node).mp live
  obtain ⟨C, f', h1, h2, h3, h4, -⟩ := cloneNode_full f inv node src hsrc
  obtain ⟨g3, g4⟩ := sepB_after_clone f inv C f' h2 h4
  rw [h1] at hc ⊢
  cases hc
  exact ⟨C, h3, fun ss h => (g3.runAll ss h).sep.mem, fun r hr ss h => ((g4 r hr).runAll ss h).sep.mem⟩

/-- Non-vacuity: composite calls, map calls, whitespace removal, creation and a second cloning on the
    source's tree (handles below 6) leave the clone (root 7, handles 7, 8, 9) as it was, and the other
    way round; evaluated. -/
def exSteps : List Forest.HStep :=
  [.call (.elementWrap 3 9), .call (.mapInsert .attributes 3 (.attribute 4 ['w'])),
   .call (.replace 5 4), .removeInsignificantWhitespace 0, .newNode (.text []),
   .call (.cloneNode 3), .setConsolidation false, .call (.elementUnwrap 1), .call (.mapClear .namespaces 1)]
example : ∀ st ∈ exSteps, ∀ a ∈ st.args, a < 6 := by decide
example : (((exForest.cloneNode 3).1.get? 7).map HTree.handles = some [7, 8, 9]) ∧
    ((((exForest.cloneNode 3).1.runAll exSteps).get? 7).map HTree.handles = some [7, 8, 9]) ∧
    ((exForest.cloneNode 3).1.runAll exSteps).allHandles ≠ (exForest.cloneNode 3).1.allHandles := by
  decide +kernel
example : ∀ st ∈ [Forest.HStep.call (.setText 9 ['q']), .call (.elementWrap 7 3), .call (.remove 8)],
    ∀ a ∈ st.args, 6 ≤ a := by decide

end XotModel.Props

/-! # ================================================================================================
    # EXTENDED HISTORIES (branch wt-hist): locality for the composite calls as steps of the histories
    # ================================================================================================

  `Forest.XCall` (Model/FhistSpec.lean): a call of `Forest.Call`, node creation, set_text_consolidation,
  remove_insignificant_whitespace — i.e. the steps of `Forest.HStep` — and the composites
  `create_missing_prefixes`, `deduplicate_namespaces`, `clone_with_prefixes` (ANY iteration order of the
  inherited prefixes), run on a `Store` (forest + interning tables; `XCall.run`, `Store.xrun`).
  `XCall.args`: the node arguments; `XCall.writeArgs`: those the call may write below — all of them,
  except that `clone_node` and `clone_with_prefixes` only READ their source, so they have none.

  As for `C12_locality_step`, no invariant is needed, only `SepB r f` (`r` is a root sharing no handle
  with another root, all its handles below `next`: true of every root of a forest with the invariant,
  `C12_sepB_of_inv`); the statements hold whatever the calls answer and for arguments that are not live.
  For the composites this says: the root tree of the argument is the only root that can change — the
  `namespaces_mut(h).insert / remove` calls they consist of all have their target `h` in that tree, and
  `clone_with_prefixes` changes no existing root at all. -/

namespace XotModel.Props
open XotModel

/-- One extended call none of whose WRITTEN node arguments is a node of the root tree `r` leaves `r`,
    handle for handle and value for value, a root of the forest (and still separated, so this
    iterates). -/
theorem C12_locality_xcall (s : Store) (r : HTree) (c : Forest.XCall) (hs : SepB r s.forest)
    (hargs : ∀ a ∈ c.writeArgs, a ∉ HTree.handles r) :
    r ∈ (c.run s).1.forest.roots ∧ SepB r (c.run s).1.forest :=
  ⟨(hs.xcall c hargs).sep.mem, hs.xcall c hargs⟩

/-- ⟦C12_locality_ext⟧ **Arbitrary extended histories**: a root tree none of whose nodes is ever named
    as a written argument — of a move, a setter, a map call, `remove_insignificant_whitespace`,
    `create_missing_prefixes`, `deduplicate_namespaces`, … — is, at the end, exactly the tree it was.
    (Sources of `clone_node` / `clone_with_prefixes` may lie in `r`.) -/
theorem C12_locality_ext (s : Store) (r : HTree) (cs : List Forest.XCall) (hs : SepB r s.forest)
    (hargs : ∀ c ∈ cs, ∀ a ∈ c.writeArgs, a ∉ HTree.handles r) :
    r ∈ (s.xrun cs).forest.roots ∧ SepB r (s.xrun cs).forest :=
  ⟨(hs.xrun cs hargs).sep.mem, hs.xrun cs hargs⟩

/-- The same with the hypothesis on ALL node arguments (the form of `C12_locality_all`). -/
theorem C12_locality_ext_args (s : Store) (r : HTree) (cs : List Forest.XCall) (hs : SepB r s.forest)
    (hargs : ∀ c ∈ cs, ∀ a ∈ c.args, a ∉ HTree.handles r) :
    r ∈ (s.xrun cs).forest.roots ∧ SepB r (s.xrun cs).forest :=
  C12_locality_ext s r cs hs (fun c hc a ha => hargs c hc a (c.writeArgs_sub a ha))

/-- From a forest with the invariant, with the hypothesis read as "the root of every written argument
    is not `r`". -/
theorem C12_locality_xcall_root (s : Store) (inv : s.forest.Inv) (r : HTree) (hr : r ∈ s.forest.roots)
    (c : Forest.XCall)
    (hargs : ∀ a ∈ c.writeArgs, ∀ t ∈ s.forest.roots, a ∈ HTree.handles t → t ≠ r) :
    r ∈ (c.run s).1.forest.roots :=
  (C12_locality_xcall s r c (SepB.of_inv inv hr) (fun a ha har => hargs a ha r hr har rfl)).1

/-- The composites one by one, on a forest with the invariant: **the root of the argument is the only
    root that changes** — every root tree that does not contain `node` is a root afterwards, unchanged
    (for every vocabulary, for `node` live or not, whatever the call answers). -/
theorem C12_locality_createMissingPrefixes (f : Forest) (inv : f.Inv) (env : Env) (node : Nat) :
    ∀ r ∈ f.roots, node ∉ HTree.handles r → r ∈ (f.createMissingPrefixes env node).1.roots :=
  fun _ hr hn => ((SepB.of_inv inv hr).createMissingPrefixes env hn).sep.mem

theorem C12_locality_deduplicateNamespaces (f : Forest) (inv : f.Inv) (env : Env) (node : Nat) :
    ∀ r ∈ f.roots, node ∉ HTree.handles r → r ∈ (f.deduplicateNamespaces env node).1.roots :=
  fun _ hr hn => ((SepB.of_inv inv hr).deduplicateNamespaces env hn).sep.mem

theorem C12_locality_removeInsignificantWhitespace (f : Forest) (inv : f.Inv) (node : Nat) :
    ∀ r ∈ f.roots, node ∉ HTree.handles r → r ∈ (f.removeInsignificantWhitespace node).roots :=
  fun r hr hn => ((SepB.of_inv inv hr).stepAll (.removeInsignificantWhitespace node)
    (fun a ha => by simp only [Forest.HStep.args, List.mem_singleton] at ha; subst ha; exact hn)).sep.mem

/-- `clone_with_prefixes(node)`, for ANY node (in `r` or not, live or not) and any iteration order,
    leaves every separated root as it is; the node it returns lies outside every such root (so the
    declarations are added outside them). -/
theorem C12_locality_cloneWithPrefixes (f : Forest) (r : HTree) (n : Nat) (order : List (Nat × Nat))
    (hs : SepB r f) :
    r ∈ (f.cloneWithPrefixes n order).1.roots ∧ SepB r (f.cloneWithPrefixes n order).1 ∧
    ∀ c, (f.cloneNode n).2 = some c → c ∉ HTree.handles r :=
  ⟨(hs.cloneWithPrefixes n order).sep.mem, hs.cloneWithPrefixes n order, fun _ hc => hs.cloneNode_result n hc⟩

/-- The `HStep` histories of `C12_locality_all` are the extended histories without composites. -/
theorem C12_ext_run_ofStep (s : Store) (ss : List Forest.HStep) :
    s.xrun (ss.map Forest.XCall.ofStep) = ⟨s.forest.runAll ss, s.env⟩ := Store.xrun_ofStep ss s

/-- Independence under arbitrary later EXTENDED histories: after `clone_node`, the clone is untouched
    by whatever is done — repairs, deduplications, whitespace stripping, further clonings included — to
    nodes outside it, and every old tree (in particular the source's) is untouched by whatever is done
    to nodes outside it (in particular to the clone); for every vocabulary. -/
theorem C12_independent_ext (f : Forest) (inv : f.Inv) (env : Env) (node c : Nat) (live : f.isLive node = true)
    (hc : (f.cloneNode node).2 = some c) :
    ∃ C, (f.cloneNode node).1.get? c = some C ∧
      (∀ cs : List Forest.XCall, (∀ x ∈ cs, ∀ a ∈ x.writeArgs, a ∉ HTree.handles C) →
        C ∈ ((⟨(f.cloneNode node).1, env⟩ : Store).xrun cs).forest.roots) ∧
      (∀ r ∈ f.roots, ∀ cs : List Forest.XCall, (∀ x ∈ cs, ∀ a ∈ x.writeArgs, a ∉ HTree.handles r) →
        r ∈ ((⟨(f.cloneNode node).1, env⟩ : Store).xrun cs).forest.roots) := by
  obtain ⟨src, hsrc⟩ := (Forest.isLive_iff f node).mp live
  obtain ⟨C, f', h1, h2, h3, h4, -⟩ := cloneNode_full f inv node src hsrc
  obtain ⟨g3, g4⟩ := sepB_after_clone f inv C f' h2 h4
  rw [h1] at hc ⊢
  cases hc
  exact ⟨C, h3, fun cs h => (SepB.xrun (st := ⟨f', env⟩) cs g3 h).sep.mem,
    fun r hr cs h => (SepB.xrun (st := ⟨f', env⟩) cs (g4 r hr) h).sep.mem⟩

/-- Non-vacuity.  Start: `exForest` after `clone_with_prefixes(3)` (the clone is the root 7 with the nodes
    7, 10, 8, 9).  An extended history on the SOURCE's tree (written arguments below 6): a duplicate
    declaration is inserted and DEDUPLICATED away, the ancestor's declaration is removed and the
    document REPAIRED (`create_missing_prefixes` invents `n0`, interned as prefix 3), the source is
    CLONED WITH PREFIXES once more (second clone, root 14), then moves, a removal, whitespace stripping,
    creation, set_text_consolidation and an unwrap.  Every call answers `Ok`; the first clone is, node
    for node, what it was, while the source's tree has changed. -/
def exXStore : Store := ⟨(exForest.cloneWithPrefixes 3 [(2, 2)]).1, exEnv⟩
def exXCalls : List Forest.XCall :=
  [.call (.mapInsert .namespaces 3 (.namespace 2 2)), .deduplicateNamespaces 0,
   .call (.mapRemove .namespaces 1 2), .createMissingPrefixes 0,
   .cloneWithPrefixes 3 [(3, 2)], .call (.insertBefore 3 5), .call (.remove 4),
   .removeInsignificantWhitespace 0, .newNode (.text []), .setConsolidation false, .call (.elementUnwrap 3)]
example : ∀ c ∈ exXCalls, ∀ a ∈ c.writeArgs, a < 6 := by decide
/-- all there is to see of a tree of depth one: the node and its children, handle and value -/
def exXView (t : HTree) : Nat × Value × List (Nat × Value × Nat) :=
  (t.handle, t.value, t.kids.map (fun k => (k.handle, k.value, k.kids.length)))
example : (exXStore.forest.get? 7).map HTree.handles = some [7, 10, 8, 9] ∧
    exXStore.forest.isRoot 7 = true ∧ (exXStore.xrun exXCalls).forest.isRoot 7 = true ∧
    ((exXStore.xrun exXCalls).forest.get? 7).map exXView = (exXStore.forest.get? 7).map exXView ∧
    exXStore.xouts exXCalls = [.ok, .ok, .ok, .ok, .ok, .ok, .ok, .ok, .ok, .ok, .ok] ∧
    ((exXStore.xrun exXCalls).forest.get? 0).map HTree.handles = some [0, 1, 12, 5] ∧
    ((exXStore.xrun exXCalls).forest.get? 14).map (fun t => t.kids.map (·.value)) =
      some [.namespace 3 2, .attribute 3 ['v'], .text ['x']] ∧
    (exXStore.xrun exXCalls).env.prefixes = [[], ['x','m','l'], ['p'], ['n', '0']] := by
  decide +kernel
/-- … the order handed to the second cloning is the model's `inherited_prefixes` in that state. -/
example : (exXStore.xrun (exXCalls.take 4)).forest.inheritedPrefixes (exXStore.xrun (exXCalls.take 4)).env 3 =
    [(3, 2)] := by decide +kernel
/-- … and the other way round: calls on the clone (arguments 7 … 10). -/
example : ∀ c ∈ [Forest.XCall.createMissingPrefixes 7, .deduplicateNamespaces 7, .call (.remove 9),
    .removeInsignificantWhitespace 7], ∀ a ∈ c.writeArgs, 6 ≤ a := by decide

end XotModel.Props

/-! # ================================================================================================
    # FULL HISTORIES (branch wt-reachfull): locality along histories that PARSE and edit
    # ================================================================================================

  `PCall` on `PStore` (Model/FparseHist.lean): an extended API call, or `parse mode text` of an ARBITRARY text
  (an accepted tree is installed as a new parentless tree on fresh handles, `IdStore.parseInto`; a rejected
  one leaves the forest alone).  A parse step names no node, so it writes below none: locality and
  independence hold along these histories with the condition on the API steps only
  (Lemmas/FparseHistLocal.lean: `SepB` is kept by `parseInto` because the new handles are ≥ `next`). -/

namespace XotModel.Props
open XotModel

/-- One step of a full history — an extended call none of whose WRITTEN node arguments is a node of the
    root tree `r`, or the parse of ANY text (accepted: a new root on fresh handles; rejected: nothing) —
    leaves `r`, handle for handle and value for value, a root of the forest (and still separated). -/
theorem C12_locality_pcall (s : PStore) (r : HTree) (c : PCall) (hs : SepB r s.forest)
    (hargs : ∀ x, c = .api x → ∀ a ∈ x.writeArgs, a ∉ HTree.handles r) :
    r ∈ (s.step c).forest.roots ∧ SepB r (s.step c).forest :=
  ⟨(hs.fphl_step c hargs).sep.mem, hs.fphl_step c hargs⟩

/-- ⟦C12_locality_full⟧ **Arbitrary histories of parses and API calls**: a root tree none of whose nodes is
    ever named as a written argument of an API step is, at the end, exactly the tree it was — whatever is
    parsed in between, whatever the steps answer.  (`C12_locality_ext` with parse steps; no invariant.) -/
theorem C12_locality_full (s : PStore) (r : HTree) (cs : List PCall) (hs : SepB r s.forest)
    (hargs : ∀ c ∈ cs, ∀ x, c = .api x → ∀ a ∈ x.writeArgs, a ∉ HTree.handles r) :
    r ∈ (s.run cs).forest.roots ∧ SepB r (s.run cs).forest :=
  ⟨(hs.fphl_run cs hargs).sep.mem, hs.fphl_run cs hargs⟩

/-- ⟦C12_reachable_locality_full⟧ … from `Xot::new()`: `SepB` is a theorem for every parentless tree of every
    store a full history `pre` reaches (`SepB.of_inv`, the invariant by `PStore.fph_run_inv` = `C04_reach_full`);
    the only side condition is `PCall.wellKinded` of the steps of `pre`. -/
theorem C12_reachable_locality_full (env : Env) (pre : List PCall) (hw : ∀ c ∈ pre, c.wellKinded)
    (r : HTree) (hr : r ∈ ((PStore.init env).run pre).forest.roots) (cs : List PCall)
    (hargs : ∀ c ∈ cs, ∀ x, c = .api x → ∀ a ∈ x.writeArgs, a ∉ HTree.handles r) :
    r ∈ (((PStore.init env).run pre).run cs).forest.roots :=
  (C12_locality_full _ r cs
    (SepB.of_inv (PStore.fph_run_inv pre (PStore.fph_init_inv env) hw) hr) hargs).1

/-- ⟦C12_reachable_independent_full⟧ **Independence of a clone, in a store reached by parses and API calls, under
    arbitrary later histories of parses and API calls**: after `clone_node(node)` as a step (of a live
    node — of a parsed document, say), the clone is untouched by whatever is done or parsed later as long
    as no API step writes below one of ITS nodes, and every tree that existed before (in particular the
    source's) is untouched as long as no API step writes below one of its nodes (`C12_independent_ext`
    with parse steps, from `Xot::new()`). -/
theorem C12_reachable_independent_full (env : Env) (pre : List PCall) (hw : ∀ c ∈ pre, c.wellKinded)
    (node c : Nat) (live : ((PStore.init env).run pre).forest.isLive node = true)
    (hc : (((PStore.init env).run pre).forest.cloneNode node).2 = some c) :
    ∃ C, ((PStore.init env).run (pre ++ [.api (.call (.cloneNode node))])).forest.get? c = some C ∧
      (∀ cs : List PCall, (∀ y ∈ cs, ∀ x, y = .api x → ∀ a ∈ x.writeArgs, a ∉ HTree.handles C) →
        C ∈ ((PStore.init env).run (pre ++ .api (.call (.cloneNode node)) :: cs)).forest.roots) ∧
      (∀ r ∈ ((PStore.init env).run pre).forest.roots, ∀ cs : List PCall,
        (∀ y ∈ cs, ∀ x, y = .api x → ∀ a ∈ x.writeArgs, a ∉ HTree.handles r) →
        r ∈ ((PStore.init env).run (pre ++ .api (.call (.cloneNode node)) :: cs)).forest.roots) := by
  have inv := PStore.fph_run_inv pre (PStore.fph_init_inv env) hw
  generalize hS : (PStore.init env).run pre = S at inv live hc
  have hstep : ∀ cs : List PCall, (PStore.init env).run (pre ++ .api (.call (.cloneNode node)) :: cs) =
      (⟨(S.forest.cloneNode node).1, S.env, S.index⟩ : PStore).run cs := by
    intro cs
    rw [PStore.fph_run_append, hS, PStore.fph_run_cons]
    rfl
  obtain ⟨src, hsrc⟩ := (Forest.isLive_iff S.forest node).mp live
  obtain ⟨C, f', h1, h2, h3, h4, -⟩ := cloneNode_full S.forest inv node src hsrc
  obtain ⟨g3, g4⟩ := sepB_after_clone S.forest inv C f' h2 h4
  have e1 : (S.forest.cloneNode node).1 = f' := by rw [h1]
  rw [h1] at hc
  cases hc
  refine ⟨C, ?_, fun cs h => ?_, fun r hr cs h => ?_⟩
  · rw [hstep [], e1]; exact h3
  · rw [hstep cs, e1]
    exact (SepB.fphl_run (st := ⟨f', S.env, S.index⟩) cs g3 h).sep.mem
  · rw [hstep cs, e1]
    exact (SepB.fphl_run (st := ⟨f', S.env, S.index⟩) cs (g4 r hr) h).sep.mem

/-! Non-vacuity, closed, from the tables of `Xot::new()` (`Env.fresh`).  `pre`: PARSE
    `<r xmlns:p="urn:a"><p:a>t</p:a></r>` (the root `c12FullRoot`, handles 0 … 4).  Then twelve steps whose written
    arguments are all ≥ 5: a new element (5), a REJECTED parse, an accepted parse of `<x/>` (6, 7), a new text
    (8) appended to 5, a declaration on 5 (9), `clone_node(3)` — the SOURCE is a node of the parsed document,
    which is only read —, `deduplicate_namespaces(5)`, `create_missing_prefixes(6)`,
    `remove_insignificant_whitespace(6)`, `set_text_consolidation(false)`, `remove(7)`.  The parsed document
    is, node for node, what it was (by the theorem); the store around it has changed (evaluated). -/

def c12FullText : Str := "<r xmlns:p=\"urn:a\"><p:a>t</p:a></r>".toList
def c12FullPre : List PCall := [.parse .document c12FullText]
def c12FullRoot : HTree :=
  .node 0 .document [.node 1 (.element 2) [.node 2 (.namespace 2 2) [],
    .node 3 (.element 3) [.node 4 (.text ['t']) []]]]
def c12FullCalls : List PCall :=
  [.api (.newNode (.element 3)), .parse .document "<a><b></a>".toList, .parse .document "<x/>".toList,
   .api (.newNode (.text ['u'])), .api (.call (.append 5 8)),
   .api (.call (.mapInsert .namespaces 5 (.namespace 2 2))), .api (.call (.cloneNode 3)),
   .api (.deduplicateNamespaces 5), .api (.createMissingPrefixes 6), .api (.removeInsignificantWhitespace 6),
   .api (.setConsolidation false), .api (.call (.remove 7))]
/-- the written node arguments of a step (a parse has none) -/
def c12WriteArgs : PCall → List Nat
  | .api x => x.writeArgs
  | .parse _ _ => []

theorem c12FullRoot_mem : c12FullRoot ∈ ((PStore.init Env.fresh).run c12FullPre).forest.roots := by
  have : ((PStore.init Env.fresh).run c12FullPre).forest.roots = [c12FullRoot] := by decide +kernel
  rw [this]; exact List.mem_singleton.mpr rfl
theorem c12FullCalls_args : ∀ c ∈ c12FullCalls, ∀ a ∈ c12WriteArgs c, 5 ≤ a := by decide

example : c12FullRoot ∈ (((PStore.init Env.fresh).run c12FullPre).run c12FullCalls).forest.roots :=
  C12_reachable_locality_full Env.fresh c12FullPre (by decide) c12FullRoot c12FullRoot_mem c12FullCalls
    (fun c hc x hx a ha har => by
      subst hx
      have h1 := c12FullCalls_args _ hc a ha
      have h2 : ∀ b ∈ HTree.handles c12FullRoot, b < 5 := by decide
      exact absurd (h2 a har) (by omega))
example :
    let S := ((PStore.init Env.fresh).run c12FullPre).run c12FullCalls
    S.forest.roots.map HTree.handles = [[0, 1, 2, 3, 4], [5, 9, 8], [6], [11, 12]] ∧
    (PStore.outs ((PStore.init Env.fresh).run c12FullPre) c12FullCalls).map (fun o => decide (PCall.refused o)) =
      [false, true, false, false, false, false, false, false, false, false, false, false] ∧
    S.env.names = [(['s', 'p', 'a', 'c', 'e'], 1), (['i', 'd'], 1), (['r'], 0), (['a'], 2), (['a'], 0), (['b'], 0),
      (['x'], 0)] := by
  decide +kernel

end XotModel.Props

/-! # ================================================================================================
    # THE NAMESPACE NODES `clone_with_prefixes` ADDS ARE NEW (branch wt-c13small)
    # ================================================================================================

  `addSpec` (Lemmas/FclonePrefix5.lean) is the insertion loop of `clone_with_prefixes` as a function on the
  children of the clone's root; that the nodes it inserts are NEW is visible in it (handles `next`, `next+1`, …)
  and restated here as a property of `clone_with_prefixes` itself.  Lemmas: Lemmas/FclonePrefixFresh.lean. -/

namespace XotModel.Props
open XotModel HTree

/-- ⟦C12_clone_with_prefixes_fresh⟧ `clone_with_prefixes(source)` on a live element, for EVERY iteration order
    of the inherited prefixes.  Let `c`, root of `A ++ B`, be what `clone_node(source)` builds (`A` its namespace
    children, `B` the rest, which does not begin with a namespace node), `f1` the forest after it.  Then:
    * the answer is `c`, and the forest is the old trees, UNCHANGED and in place (the source's tree among them),
      followed by ONE new tree: `c` with children `A ++ New ++ B` — the added nodes are children of the clone's
      root only, after the namespace nodes it had and before its first non-namespace child; nothing else of the
      clone differs from the plain clone;
    * `New` are namespace leaves for (prefix, namespace) pairs of `order`;
    * their handles are `f1.next, f1.next + 1, …` in order: pairwise distinct, not below the allocation counter
      before the call (`f.next ≤ f1.next ≤ h`), hence handles of no node that existed before and of no other
      node of the clone (those lie in `[f.next, f1.next)`); the counter ends right after them. -/
theorem C12_clone_with_prefixes_fresh (f : Forest) (inv : f.Inv) (node : Nat) (src : HTree)
    (hsrc : f.get? node = some src) (hel : src.value.isElement = true) (order : List (Nat × Nat)) :
    ∃ (c : Nat) (A New B : List HTree) (f1 : Forest),
      f.cloneNode node = (f1, some c) ∧ f1.roots = f.roots ++ [.node c src.value (A ++ B)] ∧
      (∀ x ∈ A, x.value.category = .namespace) ∧ (∀ y, B.head? = some y → y.value.category ≠ .namespace) ∧
      (f.cloneWithPrefixes node order).2 = some c ∧
      (f.cloneWithPrefixes node order).1.roots = f.roots ++ [.node c src.value (A ++ New ++ B)] ∧
      (∀ r ∈ f.roots, r ∈ (f.cloneWithPrefixes node order).1.roots) ∧
      (∀ x ∈ New, ∃ h p ns, x = .node h (.namespace p ns) [] ∧ (p, ns) ∈ order) ∧
      handlesList New = List.range' f1.next New.length ∧ (handlesList New).Nodup ∧
      (f.cloneWithPrefixes node order).1.next = f1.next + New.length ∧
      (∀ h ∈ handlesList New, f.next ≤ h ∧ f1.next ≤ h ∧ h < (f.cloneWithPrefixes node order).1.next) ∧
      (∀ h ∈ f.allHandles, h < f.next) ∧
      (∀ h ∈ handles (.node c src.value (A ++ B)), f.next ≤ h ∧ h < f1.next) := by
  obtain ⟨hs, v, Ks⟩ := src
  cases v with
  | element name =>
    obtain ⟨c, Kc, f1, New, h1, h2, h3, h4, h5, h6, h7, h8⟩ := cloneWithPrefixes_fresh f inv node hs name Ks hsrc order
    have hsplit : Kc.takeWhile (fun k => k.value.category == .namespace) ++
        Kc.dropWhile (fun k => k.value.category == .namespace) = Kc := List.takeWhile_append_dropWhile
    have hrange := nsLeavesFrom_handles f1.next New
    refine ⟨c, _, nsLeavesFrom f1.next New, _, f1, h1, by rw [hsplit]; exact h2, ?_, ?_, h5, h6, ?_, ?_, ?_, ?_,
      ?_, ?_, ?_, by rw [hsplit]; exact h4⟩
    · intro x hx; simpa using mem_takeWhile_imp _ Kc x hx
    · intro y hy; simpa using head_dropWhile_not _ Kc y hy
    · intro r hr; rw [h6]; exact List.mem_append_left _ hr
    · intro x hx
      obtain ⟨h, p, ns, rfl, _, _, hm⟩ := nsLeavesFrom_mem _ _ x hx
      exact ⟨h, p, ns, rfl, h8 _ hm⟩
    · rw [hrange, nsLeavesFrom_length]
    · rw [hrange]; exact List.nodup_range'
    · rw [h7, nsLeavesFrom_length]
    · intro h hh
      rw [hrange, List.mem_range'_1] at hh
      rw [h7]; omega
    · intro h hh; exact inv.below h hh
  | document => simp [HTree.value, Value.isElement] at hel
  | text s => simp [HTree.value, Value.isElement] at hel
  | pi t d => simp [HTree.value, Value.isElement] at hel
  | comment s => simp [HTree.value, Value.isElement] at hel
  | «attribute» a s => simp [HTree.value, Value.isElement] at hel
  | «namespace» a s => simp [HTree.value, Value.isElement] at hel

/-- Non-vacuity (`exForest`, allocation counter 6; source = the inner element 3, whose prefix 2 is declared on
    its parent): `clone_node` builds 7 [8, 9] and leaves the counter at 10; `clone_with_prefixes` adds the ONE
    namespace leaf 10 in front of the attribute 8, the counter ends at 11, the document tree is untouched. -/
example : (exForest.cloneNode 3).1.next = 10 ∧
    (exForest.cloneWithPrefixes 3 [(2, 2)]).1.roots.map handles = [[0, 1, 2, 3, 4, 5], [7, 10, 8, 9]] ∧
    ((exForest.cloneWithPrefixes 3 [(2, 2)]).1.get? 7).map (fun t => t.kids.map (·.value)) =
      some [.namespace 2 2, .attribute 3 ['v'], .text ['x']] ∧
    (exForest.cloneWithPrefixes 3 [(2, 2)]).1.next = 11 ∧
    (exForest.cloneWithPrefixes 3 [(2, 2)]).1.roots.head? = exForest.roots.head? := by
  decide +kernel

end XotModel.Props
