/-
  C19 — HTML5 serialisation follows the HTML rules and never panics.  Property theorems only.

  Part 1 (this section): obligations on the constants and name tables `extract.py` reads off
  `output/html5elements.rs`, `output/html5_serializer.rs` and `serialize.rs`.
-/
import XotModel.Generated
import XotModel.Model.Basic

namespace XotModel.Props
open XotModel XotModel.Gen

/-! ### Constants -/

/-- The XHTML namespace URI (the property names it). -/
def realXhtmlNs : Str :=
  ['h','t','t','p',':','/','/','w','w','w','.','w','3','.','o','r','g','/','1','9','9','9','/','x','h','t','m','l']

/-- Full-strength obligation on the crate's `XHTML_NS`. -/
def C19_xhtml_const_Statement : Prop := xhtmlNs = realXhtmlNs

/-- DEFECT (src/output/html5elements.rs:8): the constant is `https://www.w3.org/1999/xhtml`, so the
    obligation is false.  Elements in the real XHTML namespace are not recognised as HTML elements. -/
theorem C19_xhtml_const_defect : ¬ C19_xhtml_const_Statement := by
  unfold C19_xhtml_const_Statement; decide

/-- What the constant is instead. -/
theorem C19_xhtml_const_actual : xhtmlNs = ['h','t','t','p','s'] ++ realXhtmlNs.drop 4 := by decide

theorem C19_mathml_const :
    mathmlNs = ['h','t','t','p',':','/','/','w','w','w','.','w','3','.','o','r','g','/','1','9','9','8','/',
                'M','a','t','h','/','M','a','t','h','M','L'] := by decide

theorem C19_svg_const :
    svgNs = ['h','t','t','p',':','/','/','w','w','w','.','w','3','.','o','r','g','/','2','0','0','0','/','s','v','g'] := by
  decide

/-- The three namespaces that must be written unprefixed are pairwise different and none is the
    empty (no-namespace) URI or the XML namespace. -/
theorem C19_ns_distinct :
    xhtmlNs ≠ mathmlNs ∧ xhtmlNs ≠ svgNs ∧ mathmlNs ≠ svgNs ∧
    xhtmlNs ≠ [] ∧ mathmlNs ≠ [] ∧ svgNs ≠ [] ∧
    xhtmlNs ≠ xmlNs ∧ mathmlNs ≠ xmlNs ∧ svgNs ≠ xmlNs := by decide

/-- The HTML doctype. -/
theorem C19_doctype_const :
    htmlDoctype = ['<','!','D','O','C','T','Y','P','E',' ','h','t','m','l','>'] := by decide

/-! ### Name tables -/

/-- ASCII lower-case letters, digits: what an HTML element name of the tables consists of. -/
def lowerName (n : Str) : Bool :=
  !n.isEmpty && n.all (fun c => ('a' ≤ c && c ≤ 'z') || ('0' ≤ c && c ≤ '9'))

/-- Every table holds lower-case names only (the lookup lower-cases the element's local name and
    compares with the table, so an upper-case entry would never match). -/
theorem C19_tables_lowercase :
    html5Names.all lowerName = true ∧ voidNames.all lowerName = true ∧
    phrasingContentNames.all lowerName = true ∧ formattedNames.all lowerName = true ∧
    noEscapeNames.all lowerName = true := by decide

/-- The void elements of the HTML standard (13.1.2 "Void elements"). -/
def specVoid : List Str :=
  [['a','r','e','a'], ['b','a','s','e'], ['b','r'], ['c','o','l'], ['e','m','b','e','d'], ['h','r'], ['i','m','g'],
   ['i','n','p','u','t'], ['l','i','n','k'], ['m','e','t','a'], ['s','o','u','r','c','e'], ['t','r','a','c','k'],
   ['w','b','r']]

/-- Every void element of the standard is in `void_names`; what the table has in addition are the
    void elements of older HTML versions the serialisation specification lists. -/
theorem C19_void_table :
    specVoid.all (voidNames.contains ·) = true ∧
    voidNames.filter (fun n => !specVoid.contains n) =
      [['k','e','y','g','e','n'], ['p','a','r','a','m'], ['b','a','s','e','f','o','n','t'], ['f','r','a','m','e'],
       ['i','s','i','n','d','e','x']] := by decide

/-- Raw-text elements: exactly `script` and `style`. -/
theorem C19_no_escape_table :
    noEscapeNames = [['s','c','r','i','p','t'], ['s','t','y','l','e']] := by decide

/-- `script` and `style` are formatted (no indentation inside) as well; the formatted elements are
    HTML elements; the current void elements are HTML elements. -/
theorem C19_tables_consistent :
    noEscapeNames.all (formattedNames.contains ·) = true ∧
    formattedNames.all (html5Names.contains ·) = true ∧
    specVoid.all (html5Names.contains ·) = true ∧
    (phrasingContentNames.filter (fun n => !html5Names.contains n)) = [['s','v','g']] := by decide

/-- No table lists a name twice. -/
theorem C19_tables_nodup :
    html5Names.Nodup ∧ voidNames.Nodup ∧ phrasingContentNames.Nodup ∧ formattedNames.Nodup ∧
    noEscapeNames.Nodup := by decide

end XotModel.Props
