/-
  C19 — HTML5 serialisation follows the HTML rules and never panics.  Property theorems only.

  Part 1: obligations on the constants and name tables `extract.py` reads off
  `output/html5elements.rs`, `output/html5_serializer.rs` and `serialize.rs`.
  Part 2: for every tree, start node, environment and parameter set — never a panic, the doctype,
  tags (`>` only, end tag ⇔ not void), unprefixed HTML / MathML / SVG names, text and attribute
  escaping, refusal of processing instructions containing `>`, and (full strength since /repo
  f19bbd2) MathML / SVG / XHTML elements under a default-namespace declaration (`C19_embedded`).
  Part 3 (`C19_normalizer_*`, Model/Normalizer.lean): the `*_with_normalizer` entry points, for EVERY normalizer —
  same outcome as without one, never a panic, what is written is the escaping of the NORMALISED string (markup
  characters the normalizer produces are escaped), and — under exactly stated side conditions — the output is the
  output for the normalised tree without a normalizer.
  Part 4 (`C19_write_nopanic_any_writer`, `C19_write_fails_with_io`, `C19_write_error_priority`): `serialize_write`
  in front of a writer that refuses a `write_all` call — `Error::Io`, never a panic.
  Part 6 (`C19_write_fails_with_io_bytes`, `C19_write_nopanic_any_writer_bytes`, `C19_write_error_priority_bytes`): the
  same in front of a BYTE-level writer (a refused call lets through `k` bytes, possibly ending inside a character).
  Defect kept visible: `C19_xhtml_const_defect` (so "XHTML_NS" below is the namespace the crate's
  constant names, the `https` spelling: the partial form of the property).
-/
import XotModel.Lemmas.Html5Esc
import XotModel.Lemmas.Html5Names
import XotModel.Lemmas.Html5Stream
import XotModel.Lemmas.Html5Ctx
import XotModel.Lemmas.Html5Token
import XotModel.Lemmas.Html5Embedded
import XotModel.Lemmas.Html5Top
import XotModel.Lemmas.Html5Decode
import XotModel.Lemmas.Html5Pretty
import XotModel.Lemmas.Html5PrettyWhere
import XotModel.Lemmas.NormalizerFullwidth
import XotModel.Lemmas.WriterHtml
import XotModel.Lemmas.WriterBytes
import XotModel.Lemmas.Html5PrettyBetween
import XotModel.Lemmas.Html5Suppress

namespace XotModel.Props
open XotModel XotModel.Gen

/-! ### Constants -/

/-- The XHTML namespace URI (the property names it). -/
def realXhtmlNs : Str :=
  ['h','t','t','p',':','/','/','w','w','w','.','w','3','.','o','r','g','/','1','9','9','9','/','x','h','t','m','l']

/-- Full-strength obligation on the crate's `XHTML_NS`. -/
def C19_xhtml_const_Statement : Prop := xhtmlNs = realXhtmlNs

/-- DEFECT (src/output/html5elements.rs:8): the constant is `https://www.w3.org/1999/xhtml`, so the
    obligation is false.  Elements in the real XHTML namespace are not recognised as HTML elements. -/
theorem C19_xhtml_const_defect : ¬ C19_xhtml_const_Statement := by
  unfold C19_xhtml_const_Statement; decide

/-- What the constant is instead. -/
theorem C19_xhtml_const_actual : xhtmlNs = ['h','t','t','p','s'] ++ realXhtmlNs.drop 4 := by decide

theorem C19_mathml_const :
    mathmlNs = ['h','t','t','p',':','/','/','w','w','w','.','w','3','.','o','r','g','/','1','9','9','8','/',
                'M','a','t','h','/','M','a','t','h','M','L'] := by decide

theorem C19_svg_const :
    svgNs = ['h','t','t','p',':','/','/','w','w','w','.','w','3','.','o','r','g','/','2','0','0','0','/','s','v','g'] := by
  decide

/-- The three namespaces that must be written unprefixed are pairwise different and none is the
    empty (no-namespace) URI or the XML namespace. -/
theorem C19_ns_distinct :
    xhtmlNs ≠ mathmlNs ∧ xhtmlNs ≠ svgNs ∧ mathmlNs ≠ svgNs ∧
    xhtmlNs ≠ [] ∧ mathmlNs ≠ [] ∧ svgNs ≠ [] ∧
    xhtmlNs ≠ xmlNs ∧ mathmlNs ≠ xmlNs ∧ svgNs ≠ xmlNs := by decide

/-- The HTML doctype. -/
theorem C19_doctype_const :
    htmlDoctype = ['<','!','D','O','C','T','Y','P','E',' ','h','t','m','l','>'] := by decide

/-! ### Name tables -/

/-- ASCII lower-case letters, digits: what an HTML element name of the tables consists of. -/
def lowerName (n : Str) : Bool :=
  !n.isEmpty && n.all (fun c => ('a' ≤ c && c ≤ 'z') || ('0' ≤ c && c ≤ '9'))

/-- Every table holds lower-case names only (the lookup lower-cases the element's local name and
    compares with the table, so an upper-case entry would never match). -/
theorem C19_tables_lowercase :
    html5Names.all lowerName = true ∧ voidNames.all lowerName = true ∧
    phrasingContentNames.all lowerName = true ∧ formattedNames.all lowerName = true ∧
    noEscapeNames.all lowerName = true := by decide

/-- The void elements of the HTML standard (13.1.2 "Void elements"). -/
def specVoid : List Str :=
  [['a','r','e','a'], ['b','a','s','e'], ['b','r'], ['c','o','l'], ['e','m','b','e','d'], ['h','r'], ['i','m','g'],
   ['i','n','p','u','t'], ['l','i','n','k'], ['m','e','t','a'], ['s','o','u','r','c','e'], ['t','r','a','c','k'],
   ['w','b','r']]

/-- Every void element of the standard is in `void_names`; what the table has in addition are the
    void elements of older HTML versions the serialisation specification lists. -/
theorem C19_void_table :
    specVoid.all (voidNames.contains ·) = true ∧
    voidNames.filter (fun n => !specVoid.contains n) =
      [['k','e','y','g','e','n'], ['p','a','r','a','m'], ['b','a','s','e','f','o','n','t'], ['f','r','a','m','e'],
       ['i','s','i','n','d','e','x']] := by decide

/-- Raw-text elements: exactly `script` and `style`. -/
theorem C19_no_escape_table :
    noEscapeNames = [['s','c','r','i','p','t'], ['s','t','y','l','e']] := by decide

/-- `script` and `style` are formatted (no indentation inside) as well; the formatted elements are
    HTML elements; the current void elements are HTML elements. -/
theorem C19_tables_consistent :
    noEscapeNames.all (formattedNames.contains ·) = true ∧
    formattedNames.all (html5Names.contains ·) = true ∧
    specVoid.all (html5Names.contains ·) = true ∧
    (phrasingContentNames.filter (fun n => !html5Names.contains n)) = [['s','v','g']] := by decide

/-- No table lists a name twice. -/
theorem C19_tables_nodup :
    html5Names.Nodup ∧ voidNames.Nodup ∧ phrasingContentNames.Nodup ∧ formattedNames.Nodup ∧
    noEscapeNames.Nodup := by decide

/-! ## Part 2: the serialiser.  Token-level theorems quantify over *every* call of `render_output`
(any state of the name stack, any node, any event), hence over every token of every serialisation. -/

/-! ### Never panics -/

/-- `serialize_write` never panics: any tree, any start path, any vocabulary, any parameters. -/
theorem C19_nopanic_write (env : Env) (p : HtmlParams) (t : Tree) (start : Path) :
    (serializeHtmlWrite env p t start).2 ≠ .panic := by
  have hall : ∀ po ∈ genOutputs t start, ∀ s, renderHtmlAt (htmlCtx env p) t s po.1 po.2 ≠ .panic :=
    fun po hpo s => renderHtmlAt_ne_panic _ t start s po.1 po.2 hpo
  unfold serializeHtmlWrite
  cases hi : p.indentation with
  | none => exact writeHtmlGo_ne_panic _ t _ hall _
  | some sup => exact writeHtmlPrettyGo_ne_panic _ sup t _ hall _ _

/-- `serialize_string` / `to_string` never panic. -/
theorem C19_nopanic (env : Env) (p : HtmlParams) (t : Tree) (start : Path) :
    serializeHtmlString env p t start ≠ .panic := by
  have h := C19_nopanic_write env p t start
  unfold serializeHtmlString bufferToString
  cases hr : (serializeHtmlWrite env p t start).2 with
  | ok u => simp
  | err e => simp
  | panic => exact absurd hr h

/-! ### Doctype -/

/-- Whatever is written starts with the doctype … -/
theorem C19_doctype_write (env : Env) (p : HtmlParams) (t : Tree) (start : Path) :
    ∃ body, (serializeHtmlWrite env p t start).1 = htmlDoctype ++ body := ⟨_, rfl⟩

/-- … so every returned string starts with `<!DOCTYPE html>`. -/
theorem C19_doctype (env : Env) (p : HtmlParams) (t : Tree) (start : Path) (out : Str)
    (h : serializeHtmlString env p t start = .ok out) :
    ∃ body, out = ['<','!','D','O','C','T','Y','P','E',' ','h','t','m','l','>'] ++ body := by
  unfold serializeHtmlString bufferToString at h
  cases hr : (serializeHtmlWrite env p t start).2 with
  | ok u =>
    rw [hr] at h
    simp only [Outcome.ok.injEq] at h
    obtain ⟨body, hb⟩ := C19_doctype_write env p t start
    exact ⟨body, by rw [← h, hb, C19_doctype_const]⟩
  | err e => rw [hr] at h; cases h
  | panic => rw [hr] at h; cases h

/-! ### Tags -/

/-- A start tag is always closed by `>`: there is no self-closing form. -/
theorem C19_tags_close (c : HtmlCtx) (s : HState) (node : Tree) (parent : Option Tree) :
    renderHtml c s node parent .startTagClose = .ok (s, ⟨false, ['>']⟩) := rfl

/-- Which elements are void: HTML namespace (none or `XHTML_NS`) and the lower-cased local name in
    the table. -/
theorem C19_tags_void_iff (c : HtmlCtx) (name : Nat) :
    c.h.void.matches c.env name =
      (c.h.isHtmlElement c.env name && voidNames.contains (asciiLower (c.env.localName name))) :=
  void_matches_eq c.h c.env name

/-- The end-tag token is empty exactly for void elements; otherwise it is `</name>`. -/
theorem C19_tags_end (c : HtmlCtx) (s s' : HState) (node : Tree) (parent : Option Tree) (name : Nat)
    (tok : OutputToken) (h : renderHtml c s node parent (.endTag name) = .ok (s', tok)) :
    (tok.text = [] ↔ c.h.void.matches c.env name = true) ∧
    (c.h.void.matches c.env name = false →
      ∃ full, s.stack.elementFullname c.env name = .ok full ∧ tok.text = ['<','/'] ++ full ++ ['>']) :=
  c19_tags_end c s s' node parent name tok h

/-! ### Unprefixed names -/

/-- An element in no namespace, in `XHTML_NS`, in the MathML or in the SVG namespace is written
    with its bare local name: `<name`, or `<name xmlns="…"` when the serialiser injects the default
    declaration.  (`hxml`: the namespace is not the XML namespace — true of every `Xot`, see
    `C19_ids_ne_xml`.) -/
theorem C19_unprefixed (c : HtmlCtx) (s s' : HState) (node : Tree) (parent : Option Tree) (name : Nat)
    (tok : OutputToken)
    (hns : c.h.isHtmlNamespace (c.env.nsOfName name) = true ∨ c.h.mustBeUnprefixed (c.env.nsOfName name) = true)
    (hxml : c.env.nsOfName name ≠ Env.xmlNamespace)
    (h : renderHtml c s node parent (.startTagOpen name) = .ok (s', tok)) :
    tok.text = ['<'] ++ c.env.localName name ∨
    tok.text = ['<'] ++ c.env.localName name ++ [' ','x','m','l','n','s','=','"']
      ++ serializeAttributeHtml (c.env.namespaceStr (c.env.nsOfName name)) ++ ['"'] :=
  c19_unprefixed c s s' node parent name tok hns hxml h

/-- The ids `xot.html5()` uses for the three namespaces are not the XML namespace's, in every
    environment that has the built-in registrations of `Xot::new`. -/
theorem C19_ids_ne_xml (env : Env) (p : HtmlParams) (hxml : env.namespaces[Env.xmlNamespace]? = some xmlNs) :
    (htmlCtx env p).h.xhtml ≠ Env.xmlNamespace ∧ (htmlCtx env p).h.mathml ≠ Env.xmlNamespace ∧
    (htmlCtx env p).h.svg ≠ Env.xmlNamespace := html5_new_ne_xml env hxml

/-- Token level: the default declaration of the element's own namespace is written into the start
    tag whenever the name stack (after the element's own written declarations) holds no default
    binding for that namespace; the binding gets a frame of its own. -/
theorem C19_embedded_inject (c : HtmlCtx) (s : HState) (node : Tree) (parent : Option Tree) (name : Nat)
    (hm : c.h.mustBeUnprefixed (c.env.nsOfName name) = true)
    (hno : (s.stack.push (htmlDeclarations node (c.env.nsOfName name))).hasEmptyPrefix (c.env.nsOfName name) = false) :
    ∃ s', renderHtml c s node parent (.startTagOpen name) = .ok (s',
      ⟨false, ['<'] ++ c.env.localName name ++ [' ','x','m','l','n','s','=','"']
        ++ serializeAttributeHtml (c.env.namespaceStr (c.env.nsOfName name)) ++ ['"']⟩) := by
  refine ⟨⟨(s.stack.push (htmlDeclarations node (c.env.nsOfName name))).push [(Env.emptyPrefix, c.env.nsOfName name)],
    ((if (htmlDeclarations node (c.env.nsOfName name)).isEmpty then 0 else 1) + 1) :: s.frames⟩, ?_⟩
  simp only [renderHtml, hm, hno]
  simp [fmt, fmtHtmlStartTagOpenNs]

/-! ### Text -/

/-- The text token is the text run through the function its parent selects. -/
theorem C19_text (c : HtmlCtx) (s s' : HState) (node : Tree) (parent : Option Tree) (text : Str)
    (tok : OutputToken) (h : renderHtml c s node parent (.text text) = .ok (s', tok)) :
    tok.space = false ∧ tok.text = htmlTextValue c parent text := by
  simp only [renderHtml, Outcome.ok.injEq, Prod.mk.injEq] at h
  obtain ⟨_, rfl⟩ := h
  exact ⟨rfl, rfl⟩

/-- Unless the parent is a raw-text element or a requested CDATA-section element, the token holds
    no `<`, and every `&` in it starts a character reference (`&amp;`, `&lt;`, `&gt;`, `&nbsp;`,
    `&#xD;`).  Text without an element parent (under a document node, detached) is included. -/
theorem C19_text_escaped (c : HtmlCtx) (parent : Option Tree) (text : Str)
    (hp : ∀ pn, parentElementName parent = some pn →
      c.h.noEscape.matches c.env pn = false ∧ c.cdata.contains pn = false) :
    '<' ∉ htmlTextValue c parent text ∧ refsOnly knownRefs (htmlTextValue c parent text) = true := by
  unfold htmlTextValue
  cases hpn : parentElementName parent with
  | none => exact serializeText_false_safe text
  | some pn =>
    obtain ⟨h1, h2⟩ := hp pn hpn
    simp only [h1, h2, Bool.false_eq_true, if_false]
    split
    · exact serializeTextHtml_safe text
    · exact serializeText_false_safe text

/-- Raw-text parents are exactly `script` / `style` (any letter case) in no namespace or `XHTML_NS`;
    their text is written verbatim. -/
theorem C19_text_raw (c : HtmlCtx) (parent : Option Tree) (text : Str) (pn : Nat)
    (hpn : parentElementName parent = some pn) :
    (c.h.noEscape.matches c.env pn =
      (c.h.isHtmlElement c.env pn && noEscapeNames.contains (asciiLower (c.env.localName pn)))) ∧
    (c.h.noEscape.matches c.env pn = true → htmlTextValue c parent text = text) := by
  refine ⟨noEscape_matches_eq c.h c.env pn, ?_⟩
  intro h
  simp [htmlTextValue, hpn, h]

/-- A requested CDATA-section element (not `script` / `style`): the text is written as CDATA
    sections, each ending at its first `]]>` (and `&#xD;` between sections for a carriage return),
    which read back as the text. -/
theorem C19_text_cdata (c : HtmlCtx) (parent : Option Tree) (text : Str) (pn : Nat)
    (hpn : parentElementName parent = some pn) (hraw : c.h.noEscape.matches c.env pn = false)
    (hcd : c.cdata.contains pn = true) :
    htmlTextValue c parent text = serializeCdata text ∧
    cdataSectionsContent (htmlTextValue c parent text) = some text :=
  c19_text_cdata c parent text pn hpn hraw hcd

/-! ### Attribute values -/

/-- An attribute token is the bare name (boolean attribute) or `name="value"` where the value
    holds no `"` and every `&` in it starts a character reference. -/
theorem C19_attr (c : HtmlCtx) (s s' : HState) (node : Tree) (parent : Option Tree) (name : Nat)
    (value : Str) (tok : OutputToken)
    (h : renderHtml c s node parent (.attribute name value) = .ok (s', tok)) :
    ∃ full, s.stack.attributeFullname c.env name = .ok full ∧ tok.space = true ∧
      ((tok.text = full ∧ asciiLower (c.env.localName name) = asciiLower value) ∨
       (∃ v, tok.text = full ++ ['=','"'] ++ v ++ ['"'] ∧ '"' ∉ v ∧ refsOnly knownRefs v = true)) :=
  c19_attr c s s' node parent name value tok h

/-- A namespace-declaration token is empty, `xmlns="uri"` or `xmlns:prefix="uri"`; the URI is
    escaped like an attribute value. -/
theorem C19_attr_xmlns (c : HtmlCtx) (s s' : HState) (node : Tree) (parent : Option Tree) (p ns : Nat)
    (tok : OutputToken) (h : renderHtml c s node parent (.pfx p ns) = .ok (s', tok)) :
    tok.text = [] ∨
    ∃ v, (tok.text = ['x','m','l','n','s','=','"'] ++ v ++ ['"'] ∨
          tok.text = ['x','m','l','n','s',':'] ++ c.env.prefixStr p ++ ['=','"'] ++ v ++ ['"']) ∧
      '"' ∉ v ∧ refsOnly knownRefs v = true :=
  c19_attr_xmlns c s s' node parent p ns tok h

/-! ### Processing instructions -/

/-- A processing instruction whose data contains `>` is refused, in every state. -/
theorem C19_pi (c : HtmlCtx) (s : HState) (node : Tree) (parent : Option Tree) (target : Nat) (d : Str)
    (hd : '>' ∈ d) : ∃ e, renderHtml c s node parent (.pi target (some d)) = .err e := by
  have hc : d.contains htmlPiForbidden = true := by
    simpa [htmlPiForbidden] using hd
  simp only [renderHtml]
  split
  · exact ⟨_, rfl⟩
  · exact ⟨_, rfl⟩

/-- Otherwise it is written `<?target data>` / `<?target>` (no `?` before the `>`). -/
theorem C19_pi_form (c : HtmlCtx) (s : HState) (node : Tree) (parent : Option Tree) (target : Nat)
    (data : Option Str) (s' : HState) (tok : OutputToken)
    (h : renderHtml c s node parent (.pi target data) = .ok (s', tok)) :
    (c.env.namespaceStr (c.env.nsOfName target)).isEmpty = true ∧
    match data with
    | some d => '>' ∉ d ∧ tok.text = ['<','?'] ++ c.env.localName target ++ [' '] ++ d ++ ['>']
    | none => tok.text = ['<','?'] ++ c.env.localName target ++ ['>'] :=
  c19_pi_form c s node parent target data s' tok h

/-- Stream level: if any processing instruction among the serialised nodes has `>` in its data,
    the whole call returns an error (never a string), with or without indentation. -/
theorem C19_pi_refused (env : Env) (p : HtmlParams) (t : Tree) (start : Path) (path : Path) (target : Nat)
    (d : Str) (hin : (path, Output.pi target (some d)) ∈ genOutputs t start) (hd : '>' ∈ d) :
    ∃ e, serializeHtmlString env p t start = .err e := by
  have hnot : (serializeHtmlWrite env p t start).2 ≠ .ok () := by
    intro hok
    have hall : ∃ s1 r, renderHtmlAt (htmlCtx env p) t s1 path (Output.pi target (some d)) = .ok r := by
      unfold serializeHtmlWrite at hok
      cases hi : p.indentation with
      | none =>
        rw [hi] at hok
        exact writeHtmlGo_ok_all _ t _ _ hok _ hin
      | some sup =>
        rw [hi] at hok
        exact writeHtmlPrettyGo_ok_all _ sup t _ _ _ hok _ hin
    obtain ⟨s1, r, hr⟩ := hall
    cases hat : t.at? path with
    | none => simp [renderHtmlAt, hat] at hr
    | some node =>
      simp only [renderHtmlAt, hat] at hr
      obtain ⟨e, he⟩ := C19_pi (htmlCtx env p) s1 node (t.parentAt? path) target d hd
      rw [he] at hr; cases hr
  have hnp := C19_nopanic_write env p t start
  unfold serializeHtmlString bufferToString
  cases hr : (serializeHtmlWrite env p t start).2 with
  | ok u => cases u; exact absurd hr hnot
  | err e => exact ⟨e, rfl⟩
  | panic => exact absurd hr hnp

/-! ### The written string consists of the rendered tokens -/

/-- A returned string is the doctype followed by the tokens of `render_output` in event order
    (each preceded by a space when flagged; with indentation, each also decorated with leading
    spaces and possibly a trailing newline), and every token is the result of one `render_output`
    call — so the token-level theorems above speak about every piece of every output. -/
theorem C19_tokens (env : Env) (p : HtmlParams) (t : Tree) (start : Path) (out : Str)
    (h : serializeHtmlString env p t start = .ok out) :
    ∃ l, renderHtmlAll (htmlCtx env p) t (htmlInitState (htmlCtx env p) t start) (genOutputs t start) = .ok l ∧
      (∀ k ∈ l, ∃ s1 s2 node, t.at? k.1 = some node ∧
        renderHtml (htmlCtx env p) s1 node (t.parentAt? k.1) k.2.1 = .ok (s2, k.2.2)) ∧
      ∃ decor : List (Nat × Bool), decor.length = l.length ∧
        (p.indentation = none → ∀ d ∈ decor, d = (0, false)) ∧
        out = htmlDoctype ++ (List.zip decor l).flatMap (fun dk =>
          (if dk.1.1 > 0 then htmlIndentBytes dk.1.1 else []) ++ htmlTokenBytes dk.2.2.2
            ++ (if dk.1.2 then htmlNewline else [])) :=
  c19_tokens env p t start out h

/-- End tags: in every successful serialisation, the end tag of an element in no namespace, in
    `XHTML_NS`, MathML or SVG is `</local>` — the bare local name, like its start tag
    (`C19_unprefixed`) — or nothing at all when the element is void (`C19_tags_end`).  This is a
    property of the whole run: the frames an element's start tag pushes are exactly the frames its
    end tag pops, so the name stack at the end tag is the one right after the start tag. -/
theorem C19_unprefixed_end (env : Env) (p : HtmlParams) (t : Tree) (start : Path)
    (l : List (Path × Output × OutputToken))
    (hl : renderHtmlAll (htmlCtx env p) t (htmlInitState (htmlCtx env p) t start) (genOutputs t start) = .ok l) :
    ∀ k ∈ l, ∀ name, k.2.1 = .endTag name →
      ((htmlCtx env p).h.isHtmlNamespace ((htmlCtx env p).env.nsOfName name) = true ∨
        (htmlCtx env p).h.mustBeUnprefixed ((htmlCtx env p).env.nsOfName name) = true) →
      (htmlCtx env p).env.nsOfName name ≠ Env.xmlNamespace →
      k.2.2.text = [] ∨ k.2.2.text = ['<','/'] ++ (htmlCtx env p).env.localName name ++ ['>'] := by
  intro k hk name hname hns hxml
  exact (run_top False (fun h => h.elim) (fun h => h.elim) t start l hl).2 k hk name hname ⟨hns, hxml⟩

/-! ### MathML / SVG / XHTML under a default-namespace declaration -/

/-- Full strength.  In every successful serialisation — any tree, start node, parameter set —
    every start tag of an element in the MathML, SVG or `XHTML_NS` namespace is written (unprefixed,
    `C19_unprefixed`) while the default namespace declared by the written start tags around it, its
    own included, is the element's namespace: `embeddedUnderDefault` replays the tokens, tracking
    only `xmlns="…"` as written.  Hypotheses on the vocabulary: namespace 1 is the XML namespace
    (`Xot::new`), and no local name or prefix contains a space (the replay tells `<name xmlns="…"`
    from `<name` by its text).
    Proof: the default binding on top of the name stack is, at every event, the default namespace
    the output has in force (`DefaultInv`) — the injected binding has a frame of its own that
    replaces older default bindings and ends with its element, and declarations the `Prefix` arm
    hides never enter the stack. -/
theorem C19_embedded (env : Env) (p : HtmlParams) (t : Tree) (start : Path)
    (l : List (Path × Output × OutputToken))
    (hxml : env.namespaces[Env.xmlNamespace]? = some xmlNs) (hsp : NoSpaces env)
    (hl : renderHtmlAll (htmlCtx env p) t (htmlInitState (htmlCtx env p) t start) (genOutputs t start) = .ok l) :
    embeddedUnderDefault (htmlCtx env p) l = true := by
  have hsp' : NoSpaces (htmlCtx env p).env := by
    obtain ⟨hn, hp⟩ := htmlCtx_names env p
    exact ⟨fun n => by simpa [Env.localName, hn] using hsp.1 n, fun q => by simpa [Env.prefixStr, hp] using hsp.2 q⟩
  have h := (run_top True (fun _ => htmlCtx_xml_not_unprefixed env p hxml) (fun _ => hsp') t start l hl).1 trivial
  simp [embeddedUnderDefault, h]

/-- The vocabulary of the examples: namespaces `""`, XML, SVG, `XHTML_NS`; names `div` (none),
    `svg` (SVG), `p` (`XHTML_NS`). -/
def witnessEnv : Env :=
  ⟨[[], xmlNs, svgNs, xhtmlNs], [[], ['x','m','l']],
   [(['s','p','a','c','e'], 1), (['i','d'], 1), (['d','i','v'], 0), (['s','v','g'], 2), (['p'], 3)]⟩

/-- The hypotheses of `C19_embedded` hold of it. -/
example : witnessEnv.namespaces[Env.xmlNamespace]? = some xmlNs ∧ NoSpaces witnessEnv := by
  refine ⟨by decide, fun n => ?_, fun q => ?_⟩
  · rcases n with _ | _ | _ | _ | _ | n <;> simp [Env.localName, witnessEnv]
  · rcases q with _ | _ | q <;> simp [Env.prefixStr, witnessEnv]

/-- The replay does refuse a bare `<svg>` with no declaration around it (what the serialiser wrote
    for the second `svg` of `<div><svg/><svg/></div>` before the fix). -/
example : embeddedUnderDefault (htmlCtx witnessEnv {})
    [([], .startTagOpen 3, ⟨false, ['<','s','v','g']⟩), ([], .startTagClose, ⟨false, ['>']⟩)] = false := by decide

/-- The three shapes that used to lose the declaration (fixed in /repo f19bbd2).
    `<div><svg/><svg/></div>`: each `svg` declares its namespace; -/
example : toHtmlString witnessEnv (.node (.element 2) [.node (.element 3) [], .node (.element 3) []]) [] = .ok
    ['<','!','D','O','C','T','Y','P','E',' ','h','t','m','l','>','<','d','i','v','>','<','s','v','g',' ','x','m','l','n','s','=','"','h','t','t','p',':','/','/','w','w','w','.','w','3','.','o','r','g','/','2','0','0','0','/','s','v','g','"','>','<','/','s','v','g','>','<','s','v','g',' ','x','m','l','n','s','=','"','h','t','t','p',':','/','/','w','w','w','.','w','3','.','o','r','g','/','2','0','0','0','/','s','v','g','"','>','<','/','s','v','g','>','<','/','d','i','v','>'] := by decide

/-- `svg > p > svg` with `p` in `XHTML_NS`: the inner `svg` declares its namespace again; -/
example : toHtmlString witnessEnv (.node (.element 3) [.node (.element 4) [.node (.element 3) []]]) [] = .ok
    ['<','!','D','O','C','T','Y','P','E',' ','h','t','m','l','>','<','s','v','g',' ','x','m','l','n','s','=','"','h','t','t','p',':','/','/','w','w','w','.','w','3','.','o','r','g','/','2','0','0','0','/','s','v','g','"','>','<','p',' ','x','m','l','n','s','=','"','h','t','t','p','s',':','/','/','w','w','w','.','w','3','.','o','r','g','/','1','9','9','9','/','x','h','t','m','l','"','>','<','s','v','g',' ','x','m','l','n','s','=','"','h','t','t','p',':','/','/','w','w','w','.','w','3','.','o','r','g','/','2','0','0','0','/','s','v','g','"','>','<','/','s','v','g','>','<','/','p','>','<','/','s','v','g','>'] := by decide

/-- `<div xmlns="…svg"><svg/></div>` with `div` in no namespace: the hidden declaration is no binding. -/
example :
    toHtmlString witnessEnv (.node (.element 2) [.node (.namespace 0 2) [], .node (.element 3) []]) [] = .ok
      ['<','!','D','O','C','T','Y','P','E',' ','h','t','m','l','>','<','d','i','v','>','<','s','v','g',' ','x','m','l','n','s','=','"','h','t','t','p',':','/','/','w','w','w','.','w','3','.','o','r','g','/','2','0','0','0','/','s','v','g','"','>','<','/','s','v','g','>','<','/','d','i','v','>'] := by decide

/-! ### Round trip: reading the escaped tokens back

`htmlDecode` (Lemmas/Html5Decode) is a strict reader of character references: `none` as soon as
an `&` does not start a complete `&amp; &lt; &gt; &quot; &apos; &nbsp;` or numeric reference. -/

/-- Text: unless the parent is a raw-text or requested CDATA-section element, decoding the token
    gives the text node's value back (so nothing is lost, and no `&` is raw). -/
theorem C19_text_roundtrip (c : HtmlCtx) (parent : Option Tree) (text : Str)
    (hp : ∀ pn, parentElementName parent = some pn →
      c.h.noEscape.matches c.env pn = false ∧ c.cdata.contains pn = false) :
    htmlDecode (htmlTextValue c parent text) = some text := by
  unfold htmlTextValue
  cases hpn : parentElementName parent with
  | none => exact htmlDecode_serializeText text
  | some pn =>
    obtain ⟨h1, h2⟩ := hp pn hpn
    simp only [h1, h2, Bool.false_eq_true, if_false]
    split
    · exact htmlDecode_serializeTextHtml text
    · exact htmlDecode_serializeText text

/-- Attribute values (the `v` of `C19_attr` is `htmlAttrValue`) and namespace URIs in `xmlns`
    tokens: decoding gives the value back. -/
theorem C19_attr_roundtrip (c : HtmlCtx) (name : Nat) (value uri : Str) :
    htmlDecode (htmlAttrValue c name value) = some value ∧
    htmlDecode (serializeAttributeHtml uri) = some uri := by
  refine ⟨?_, htmlDecode_serializeAttributeHtml uri⟩
  unfold htmlAttrValue
  split
  · exact htmlDecode_serializeAttribute value
  · exact htmlDecode_serializeAttributeHtml value

/-- The reader is strict: a raw `&`, an unknown name, an unterminated reference are refused. -/
example : htmlDecode ['a','&','b'] = none ∧ htmlDecode ['&','x','y',';'] = none ∧
    htmlDecode ['&','a','m','p'] = none ∧
    htmlDecode ['&','n','b','s','p',';','&','l','t',';'] = some ['\u00a0','<'] := by
  refine ⟨?_, ?_, ?_, ?_⟩ <;>
    simp [htmlDecode, splitSemi, htmlEntity, decodeEntity, namedEntity, namedEntities, List.lookup]

/-! ### Where indentation goes

With indentation, `serialize_pretty` decorates every token with `htmlPrettyTrace`: the
(indentation, newline) pairs `Pretty::prettify` computes along the event stream. -/

/-- The pretty string is the doctype and the rendered tokens decorated by `htmlPrettyTrace`. -/
theorem C19_pretty_tokens (env : Env) (p : HtmlParams) (sup : List Nat) (t : Tree) (start : Path) (out : Str)
    (hi : p.indentation = some sup) (h : serializeHtmlString env p t start = .ok out) :
    ∃ l, renderHtmlAll (htmlCtx env p) t (htmlInitState (htmlCtx env p) t start) (genOutputs t start) = .ok l ∧
      l.length = (genOutputs t start).length ∧
      out = htmlDoctype ++ (List.zip (htmlPrettyTrace (htmlCtx env p) sup t [] (genOutputs t start)) l).flatMap
        (fun dk => (if dk.1.1 > 0 then htmlIndentBytes dk.1.1 else []) ++ htmlTokenBytes dk.2.2.2
          ++ (if dk.1.2 then htmlNewline else [])) := by
  unfold serializeHtmlString bufferToString at h
  cases hr : (serializeHtmlWrite env p t start).2 with
  | err e => rw [hr] at h; cases h
  | panic => rw [hr] at h; cases h
  | ok u =>
    cases u
    rw [hr] at h
    simp only [Outcome.ok.injEq] at h
    subst h
    unfold serializeHtmlWrite at hr ⊢
    rw [hi] at hr ⊢
    simp only at hr ⊢
    obtain ⟨l, hl, hlen, hb⟩ := writeHtmlPrettyGo_trace _ sup t _ _ _ hr
    exact ⟨l, hl, hlen, by rw [hb]⟩

/-- The events of any subtree leave the `Pretty` stack as they found it (what `>` pushes the end
    tag pops), and inside mixed content — below an element with a text or inline-element child, a
    formatted element or a suppressed name, at any depth — no event gets indentation or a newline. -/
theorem C19_pretty_subtree (c : HtmlCtx) (sup : List Nat) (t : Tree) (inScope : List (Nat × Nat)) (n : Tree)
    (isTop : Bool) (path : Path) (ps : PStack) :
    htmlPrettyFinal c sup t ps (genNode inScope isTop path n) = ps ∧
    (ps.inMixed = true → htmlPrettyTrace c sup t ps (genNode inScope isTop path n) =
      List.replicate (genNode inScope isTop path n).length (0, false)) :=
  pretty_subtree c sup t inScope n isTop path ps

/-- A mixed element is written on one line: of all its events, children included, only the start
    tag can be indented and only the end tag can be followed by a newline (both as the content
    around the element decides) — so pretty printing never adds a character to its content. -/
theorem C19_pretty_mixed_element (c : HtmlCtx) (sup : List Nat) (t : Tree) (inScope : List (Nat × Nat))
    (name : Nat) (ks : List Tree) (isTop : Bool) (path : Path) (ps : PStack)
    (hat : t.at? path = some (.node (.element name) ks))
    (hc : (Tree.node (.element name) ks).firstChild?.isSome = true)
    (hm : htmlHasInlineChild c (.node (.element name) ks) = true ∨ htmlIsSuppressed c sup name = true) :
    htmlPrettyTrace c sup t ps (genNode inScope isTop path (.node (.element name) ks)) =
      (ps.getIndentation, false) ::
        (List.replicate ((declEvents inScope isTop path (.node (.element name) ks)).length + 1
          + (genNode.genKids inScope path 0 ks).length) (0, false) ++ [(0, ps.getNewline)]) :=
  mixed_element_trace c sup t inScope name ks isTop path ps hat hc hm

/-- What makes an element mixed, in terms of the tables: a text child or a child element that is
    inline (HTML namespace and phrasing content, or HTML namespace and not an HTML element name at
    all); suppressed = formatted (`pre`, `script`, `style`, `title`, `textarea` in the HTML
    namespace, any letter case) or matched by the suppress list. -/
theorem C19_pretty_mixed_iff (c : HtmlCtx) (sup : List Nat) (node : Tree) (name : Nat) :
    (htmlHasInlineChild c node = node.normalKids.any (fun k => match k.value with
      | .text _ => true
      | .element n => c.h.isHtmlElement c.env n &&
          (phrasingContentNames.contains (asciiLower (c.env.localName n))
            || !html5Names.contains (asciiLower (c.env.localName n)))
      | _ => false)) ∧
    (htmlIsSuppressed c sup name =
      ((c.h.isHtmlElement c.env name && formattedNames.contains (asciiLower (c.env.localName name)))
        || htmlMatchesSuppress c.h c.env sup name)) := by
  refine ⟨?_, by rw [htmlIsSuppressed, formatted_matches_eq]⟩
  unfold htmlHasInlineChild
  congr 1
  funext k
  cases k.value <;> simp only [isInline_eq]

/-- Outside mixed content the placement is the XML one (C14): indentation or a newline only where
    the stack is neither mixed nor in `xml:space="preserve"` scope. -/
theorem C19_pretty_where (ps : PStack) (h : ps.getIndentation > 0 ∨ ps.getNewline = true) :
    ps.inMixed = false ∧ ps.inSpacePreserve = false := by
  rcases h with h | h
  · cases hm : ps.inMixed <;> cases hp : ps.inSpacePreserve <;> simp [PStack.getIndentation, hm, hp] at h ⊢
  · simpa [PStack.getNewline] using h

/-- Exact indentation as a function of the tree (analogue of `C14_pretty_where_tree`): along the
    HTML run the `Pretty` stack before every event is `hpentriesFor` — the entries of the open
    elements (those with children) between the start node and the event's node, `Mixed` for a
    text / inline-element child, a formatted element or a suppressed name, else
    `Unmixed(xml:space)`.  So every decoration of `C19_pretty_tokens` (paired with its event) is
    `prettify` on that explicit function of the tree. -/
theorem C19_pretty_where_tree (c : HtmlCtx) (sup : List Nat) (t : Tree) (start : Path) (n : Tree)
    (inScope : List (Nat × Nat)) (hat : t.at? start = some n)
    (hs : namespacesInScope t start = some inScope) (x : (Nat × Bool) × Path × Output)
    (hx : x ∈ List.zip (htmlPrettyTrace c sup t [] (genOutputs t start)) (genOutputs t start)) :
    ∃ rel node, x.2.1 = start ++ rel ∧ n.at? rel = some node ∧
      x.1 = (prettifyHtml c sup (hpentriesFor c sup x.2.2 n rel) node x.2.2).2 := by
  obtain ⟨rel, node, h1, h2, h3, _⟩ := html_pretty_where_tree c sup t start n inScope hat hs x hx
  exact ⟨rel, node, h1, h2, h3⟩

/-- Mixed content in HTML's sense, on trees, full strength: an event is decorated with indentation
    or a newline only if no open element strictly above its node has a text or inline (phrasing)
    element child, is a formatted element, or matches the suppress list — at any depth. -/
theorem C19_pretty_where_tree_mixed (c : HtmlCtx) (sup : List Nat) (t : Tree) (start : Path) (n : Tree)
    (inScope : List (Nat × Nat)) (hat : t.at? start = some n)
    (hs : namespacesInScope t start = some inScope) (x : (Nat × Bool) × Path × Output)
    (hx : x ∈ List.zip (htmlPrettyTrace c sup t [] (genOutputs t start)) (genOutputs t start))
    (hw : x.1.1 > 0 ∨ x.1.2 = true) :
    ∃ rel, x.2.1 = start ++ rel ∧
      ∀ a name, OpenAbove n rel a → a.value = .element name → a.firstChild?.isSome = true →
        htmlHasInlineChild c a = false ∧ htmlIsSuppressed c sup name = false :=
  html_pretty_where_tree_mixed c sup t start n inScope hat hs x hx hw

/-- `xml:space="preserve"` on trees: indentation only if the entries the event finds (its own
    element's included for an end tag) are not in `preserve` scope, a newline only if the entries
    it lands in (its own element's included for `>`) are not. -/
theorem C19_pretty_where_tree_preserve (c : HtmlCtx) (sup : List Nat) (t : Tree) (start : Path) (n : Tree)
    (inScope : List (Nat × Nat)) (hat : t.at? start = some n)
    (hs : namespacesInScope t start = some inScope) (x : (Nat × Bool) × Path × Output)
    (hx : x ∈ List.zip (htmlPrettyTrace c sup t [] (genOutputs t start)) (genOutputs t start)) :
    ∃ rel, x.2.1 = start ++ rel ∧
      (x.1.1 > 0 → PStack.inSpacePreserve (hpentriesFor c sup x.2.2 n rel) = false) ∧
      (x.1.2 = true → PStack.inSpacePreserve (hpentriesAfter c sup x.2.2 n rel) = false) := by
  obtain ⟨rel, node, h1, _, _, h4, h5⟩ := html_pretty_where_tree c sup t start n inScope hat hs x hx
  exact ⟨rel, h1, fun h => (h4 h).2, fun h => (h5 h).2⟩

/-- Non-vacuity: in `<div><p>a</p><ul><li/></ul></div>` events are decorated (`<p` indentation 1,
    `<li` indentation 2, newlines) while nothing inside the mixed `p` is. -/
example :
    htmlPrettyTrace (htmlCtx ⟨[[], xmlNs], [[], ['x','m','l']],
        [(['s','p','a','c','e'], 1), (['i','d'], 1), (['d','i','v'], 0), (['p'], 0), (['b'], 0), (['u','l'], 0), (['l','i'], 0)]⟩
        ⟨some [], []⟩) []
      (.node (.element 2) [.node (.element 3) [.node (.text ['a']) []], .node (.element 5) [.node (.element 6) []]]) []
      (genOutputs (.node (.element 2) [.node (.element 3) [.node (.text ['a']) []], .node (.element 5) [.node (.element 6) []]]) [])
    = [(0, false), (0, false), (0, true), (1, false), (0, false), (0, false), (0, true), (1, false),
       (0, true), (2, false), (0, false), (0, true), (1, true), (0, true)] := by decide

/-- `<div><p>a<b>c</b></p><ul><li>x</li></ul></div>`: `p` and `li` are mixed (one line each), `div`
    and `ul` are not. -/
example :
    (serializeHtmlString
      ⟨[[], xmlNs], [[], ['x','m','l']],
       [(['s','p','a','c','e'], 1), (['i','d'], 1), (['d','i','v'], 0), (['p'], 0), (['b'], 0), (['u','l'], 0), (['l','i'], 0)]⟩
      ⟨some [], []⟩
      (.node (.element 2) [.node (.element 3) [.node (.text ['a']) [], .node (.element 4) [.node (.text ['c']) []]],
        .node (.element 5) [.node (.element 6) [.node (.text ['x']) []]]]) [])
    = .ok ['<','!','D','O','C','T','Y','P','E',' ','h','t','m','l','>','<','d','i','v','>','\n',' ',' ','<','p','>','a','<','b','>','c','<','/','b','>','<','/','p','>','\n',' ',' ','<','u','l','>','\n',' ',' ',' ',' ','<','l','i','>','x','<','/','l','i','>','\n',' ',' ','<','/','u','l','>','\n','<','/','d','i','v','>','\n'] := by decide

/-! ### Non-vacuity -/

/-- Void, raw text, nbsp, boolean attribute, upper-case names: `<div><BR></BR>…` never appears. -/
example :
    toHtmlString
      ⟨[[], xmlNs], [[], ['x','m','l']],
       [(['s','p','a','c','e'], 1), (['i','d'], 1), (['d','i','v'], 0), (['B','R'], 0), (['s','c','r','i','p','t'], 0),
        (['c','h','e','c','k','e','d'], 0), (['p'], 0)]⟩
      (.node (.element 2) [.node (.attribute 5 ['C','H','E','C','K','E','D']) [],
        .node (.element 3) [], .node (.element 4) [.node (.text ['a','<','b','&']) []],
        .node (.element 6) [.node (.text ['a','<','b','&','\u00a0','"']) []]]) []
    = .ok ['<','!','D','O','C','T','Y','P','E',' ','h','t','m','l','>','<','d','i','v',' ','c','h','e','c','k','e','d','>','<','B','R','>','<','s','c','r','i','p','t','>','a','<','b','&','<','/','s','c','r','i','p','t','>','<','p','>','a','&','l','t',';','b','&','a','m','p',';','&','n','b','s','p',';','"','<','/','p','>','<','/','d','i','v','>'] := by decide

/-- `C19_pi` / `C19_pi_refused` are not vacuous: `<?pi a>b>` is refused. -/
example :
    toHtmlString ⟨[[], xmlNs], [[], ['x','m','l']], [(['s','p','a','c','e'], 1), (['i','d'], 1), (['p','i'], 0)]⟩
      (.node .document [.node (.pi 2 (some ['a','>','b'])) []]) [] = .err .processingInstructionGtInHtml := by decide

/-- Text directly under a document node and a detached text node are escaped as XML text. -/
example :
    toHtmlString ⟨[[], xmlNs], [[], ['x','m','l']], [(['s','p','a','c','e'], 1), (['i','d'], 1)]⟩
      (.node .document [.node (.text ['a','<','&']) []]) [] = .ok ['<','!','D','O','C','T','Y','P','E',' ','h','t','m','l','>','a','&','l','t',';','&','a','m','p',';'] := by decide

/-- `C19_unprefixed` / `C19_ids_ne_xml`: the hypotheses hold in the witness vocabulary. -/
example : (htmlCtx witnessEnv {}).h.mustBeUnprefixed ((htmlCtx witnessEnv {}).env.nsOfName 3) = true ∧
    (htmlCtx witnessEnv {}).h.isHtmlNamespace ((htmlCtx witnessEnv {}).env.nsOfName 2) = true := by decide

/-! ### C19_normalizer: `serialize_string_with_normalizer` / `serialize_write_with_normalizer`

`serializeHtmlStringN N` (Model/Normalizer.lean) is the serialiser with the caller's normalizer `N` passed to
every escaping call, as `Html5Serializer<N>` does: character data, attribute values, the namespace URI of a
written or injected `xmlns` declaration.  Everything above is the `N = id` (`NoopNormalizer`) instance. -/

/-- `NoopNormalizer` is the `id` instance. -/
theorem C19_normalizer_noop (env : Env) (p : HtmlParams) (t : Tree) (start : Path) :
    serializeHtmlStringN id env p t start = serializeHtmlString env p t start ∧
    serializeHtmlWriteN id env p t start = serializeHtmlWrite env p t start :=
  ⟨serializeHtmlStringN_id env p t start, serializeHtmlWriteN_id env p t start⟩

/-- Under EVERY normalizer the call ends as it ends without one — success or the same error — hence never
    panics, and what is written starts with the doctype. -/
theorem C19_normalizer_outcome (N : Str → Str) (env : Env) (p : HtmlParams) (t : Tree) (start : Path) :
    (serializeHtmlWriteN N env p t start).2 = (serializeHtmlWrite env p t start).2 ∧
    serializeHtmlStringN N env p t start ≠ .panic ∧
    ∃ body, (serializeHtmlWriteN N env p t start).1 = htmlDoctype ++ body := by
  have ho := serializeHtmlWriteN_outcome N env p t start
  refine ⟨ho, ?_, ⟨_, rfl⟩⟩
  have hnp := C19_nopanic_write env p t start
  unfold serializeHtmlStringN bufferToString
  rw [ho]
  cases hr : (serializeHtmlWrite env p t start).2 with
  | ok u => simp
  | err e => simp
  | panic => exact absurd hr hnp

/-- Text under EVERY normalizer: the token is the function the parent selects applied to the NORMALISED text. -/
theorem C19_normalizer_text (N : Str → Str) (c : HtmlCtx) (s s' : HState) (node : Tree) (parent : Option Tree)
    (text : Str) (tok : OutputToken) (h : renderHtmlN N c s node parent (.text text) = .ok (s', tok)) :
    tok.space = false ∧ tok.text = htmlTextValue c parent (N text) := by
  simp only [renderHtmlN, Outcome.ok.injEq, Prod.mk.injEq] at h
  obtain ⟨_, rfl⟩ := h
  exact ⟨rfl, htmlTextValueN_eq N c parent text⟩

/-- **C19_normalizer_text_escaped**: `C19_text_escaped` holds of the output under ANY normalizer — unless the
    parent is a raw-text or requested CDATA-section element, the token holds no `<` and every `&` in it starts a
    character reference, whatever characters the normalizer produces (normalise first, THEN escape). -/
theorem C19_normalizer_text_escaped (N : Str → Str) (c : HtmlCtx) (parent : Option Tree) (text : Str)
    (hp : ∀ pn, parentElementName parent = some pn →
      c.h.noEscape.matches c.env pn = false ∧ c.cdata.contains pn = false) :
    '<' ∉ htmlTextValueN N c parent text ∧ refsOnly knownRefs (htmlTextValueN N c parent text) = true := by
  rw [htmlTextValueN_eq]
  exact C19_text_escaped c parent (N text) hp

/-- Decoding the escaped token gives back the NORMALISED text. -/
theorem C19_normalizer_text_roundtrip (N : Str → Str) (c : HtmlCtx) (parent : Option Tree) (text : Str)
    (hp : ∀ pn, parentElementName parent = some pn →
      c.h.noEscape.matches c.env pn = false ∧ c.cdata.contains pn = false) :
    htmlDecode (htmlTextValueN N c parent text) = some (N text) := by
  rw [htmlTextValueN_eq]
  exact C19_text_roundtrip c parent (N text) hp

/-- **C19_normalizer_attr_escaped**: `C19_attr` under ANY normalizer — the bare name (decided on the value as
    stored) or `name="v"` where `v` is the escaping of the NORMALISED value: no `"`, every `&` a reference. -/
theorem C19_normalizer_attr_escaped (N : Str → Str) (c : HtmlCtx) (s s' : HState) (node : Tree)
    (parent : Option Tree) (name : Nat) (value : Str) (tok : OutputToken)
    (h : renderHtmlN N c s node parent (.attribute name value) = .ok (s', tok)) :
    ∃ full, s.stack.attributeFullname c.env name = .ok full ∧ tok.space = true ∧
      ((tok.text = full ∧ asciiLower (c.env.localName name) = asciiLower value) ∨
       (tok.text = full ++ ['=','"'] ++ htmlAttrValue c name (N value) ++ ['"'] ∧
        '"' ∉ htmlAttrValue c name (N value) ∧ refsOnly knownRefs (htmlAttrValue c name (N value)) = true)) :=
  c19n_attr N c s s' node parent name value tok h

/-- `C19_attr_xmlns` under ANY normalizer: the URI is normalised, then escaped like an attribute value. -/
theorem C19_normalizer_attr_xmlns (N : Str → Str) (c : HtmlCtx) (s s' : HState) (node : Tree)
    (parent : Option Tree) (p ns : Nat) (tok : OutputToken)
    (h : renderHtmlN N c s node parent (.pfx p ns) = .ok (s', tok)) :
    tok.text = [] ∨
    ∃ v, (tok.text = ['x','m','l','n','s','=','"'] ++ v ++ ['"'] ∨
          tok.text = ['x','m','l','n','s',':'] ++ c.env.prefixStr p ++ ['=','"'] ++ v ++ ['"']) ∧
      v = serializeAttributeHtml (N (c.env.namespaceStr ns)) ∧ '"' ∉ v ∧ refsOnly knownRefs v = true :=
  c19n_attr_xmlns N c s s' node parent p ns tok h

/-- **C19_normalizer_is_premap**: serialising WITH the normalizer gives — same string or same error, same
    bytes written — what serialising the normalised tree gives without one, for every parameter set.
    Hypotheses, the weakest that work (`C19_normalizer_bool_necessary`; `hns` / `hsp` as for XML):
    `hns` — `N` fixes the namespace URIs of the serialiser's table (the caller's and the XHTML / MathML / SVG
    URIs `xot.html5()` registers): they are written through `serialize_attribute_html(.., normalizer)`;
    `hb` — `N` does not change the outcome of the boolean-attribute test, which compares the attribute's local
    name with the value AS STORED (`value.to_ascii_lowercase()`), for attributes in an HTML namespace;
    `hsp` — only with indentation: `N` leaves `element_space` (the `xml:space` attribute as stored) alone. -/
theorem C19_normalizer_is_premap (N : Str → Str) (env : Env) (p : HtmlParams) (t : Tree) (start : Path)
    (hns : ∀ ns, N ((htmlCtx env p).env.namespaceStr ns) = (htmlCtx env p).env.namespaceStr ns)
    (hb : BoolKept N (htmlCtx env p) (genOutputs t start))
    (hsp : p.indentation ≠ none → SpaceKept N t (genOutputs t start)) :
    serializeHtmlStringN N env p t start = serializeHtmlString env p (t.mapText N) start ∧
    serializeHtmlWriteN N env p t start = serializeHtmlWrite env p (t.mapText N) start :=
  ⟨serializeHtmlStringN_norm N env p t start hns hb hsp, serializeHtmlWriteN_norm N env p t start hns hb hsp⟩

/-- `hns` holds as soon as `N` fixes `""`, the strings of the caller's namespace table and the three URIs. -/
theorem C19_normalizer_hypotheses (N : Str → Str) (env : Env) (p : HtmlParams)
    (h0 : N [] = []) (h : ∀ u ∈ env.namespaces, N u = u)
    (hx : N xhtmlNs = xhtmlNs) (hm : N mathmlNs = mathmlNs) (hs : N svgNs = svgNs) :
    ∀ ns, N ((htmlCtx env p).env.namespaceStr ns) = (htmlCtx env p).env.namespaceStr ns :=
  fixes_htmlCtx_namespaceStr N env p h0 h hx hm hs

/-- `fullwidthNorm` on a namespace table without the five fullwidth forms: only the boolean-attribute
    condition remains. -/
theorem C19_normalizer_fullwidth (env : Env) (hc : nsClean env = true) (p : HtmlParams) (t : Tree) (start : Path)
    (hb : BoolKept fullwidthNorm (htmlCtx env p) (genOutputs t start)) :
    serializeHtmlStringN fullwidthNorm env p t start = serializeHtmlString env p (t.mapText fullwidthNorm) start :=
  (C19_normalizer_is_premap fullwidthNorm env p t start (fullwidthNorm_fixes_html_ns env p hc) hb
    (fun _ => spaceKept_of_stable _ fullwidthNorm_spaceStable t _)).1

/-- Non-vacuity, closed (`witnessEnv`): `<div div="＂a＆">＜x＆y＞<svg/></div>` under `fullwidthNorm`; `>` is not
    escaped in HTML text, the SVG URI is written through the normalizer. -/
def c19NormDoc : Tree :=
  .node (.element 2) [.node (.attribute 2 ['\uff02', 'a', '\uff06']) [],
    .node (.text ['\uff1c', 'x', '\uff06', 'y', '\uff1e']) [], .node (.element 3) []]
def c19NormText : Str :=
  "<!DOCTYPE html><div div=\"&quot;a&amp;\">&lt;x&amp;y><svg xmlns=\"http://www.w3.org/2000/svg\"></svg></div>".toList

example : serializeHtmlStringN fullwidthNorm witnessEnv {} c19NormDoc [] = .ok c19NormText := by decide
example : serializeHtmlString witnessEnv {} (c19NormDoc.mapText fullwidthNorm) [] = .ok c19NormText := by decide
example : nsClean witnessEnv = true ∧ BoolKept fullwidthNorm (htmlCtx witnessEnv {}) (genOutputs c19NormDoc []) := by
  decide
example : serializeHtmlStringN fullwidthNorm witnessEnv {} c19NormDoc [] =
    serializeHtmlString witnessEnv {} (c19NormDoc.mapText fullwidthNorm) [] :=
  C19_normalizer_fullwidth witnessEnv (by decide) {} c19NormDoc [] (by decide)

/-- `hb` is necessary: an attribute whose local name `a＜` (U+FF1C is an XML name character) equals its value is
    written as a boolean attribute under the normalizer; in the normalised tree the value is `a<`, no longer the
    name, and is written out. -/
def c19BoolEnv : Env :=
  ⟨[[], xmlNs], [[], ['x','m','l']],
   [(['s','p','a','c','e'], 1), (['i','d'], 1), (['d','i','v'], 0), (['a', '\uff1c'], 0)]⟩
theorem C19_normalizer_bool_necessary :
    let t : Tree := .node (.element 2) [.node (.attribute 3 ['a', '\uff1c']) []]
    serializeHtmlStringN fullwidthNorm c19BoolEnv {} t [] =
      .ok ("<!DOCTYPE html><div a".toList ++ ['\uff1c'] ++ "></div>".toList) ∧
    serializeHtmlString c19BoolEnv {} (t.mapText fullwidthNorm) [] =
      .ok ("<!DOCTYPE html><div a".toList ++ ['\uff1c'] ++ "=\"a<\"></div>".toList) ∧
    ¬ BoolKept fullwidthNorm (htmlCtx c19BoolEnv {}) (genOutputs t []) := by decide

/-- `serialize_write_with_normalizer`, the `Write` entry point called directly: `serialize_string_with_normalizer`
    is its output collected in a `Vec` — when the write succeeds having written `w` the string variant returns
    `w`, and conversely; the two fail together with the same error; and what reaches the sink always starts with
    the doctype line (written before anything can fail). -/
theorem C19_normalizer_write (N : Str → Str) (env : Env) (p : HtmlParams) (t : Tree) (start : Path) :
    (∀ w, serializeHtmlWriteN N env p t start = (w, .ok ()) → serializeHtmlStringN N env p t start = .ok w) ∧
    (∀ s, serializeHtmlStringN N env p t start = .ok s → serializeHtmlWriteN N env p t start = (s, .ok ())) ∧
    (∀ e, (serializeHtmlWriteN N env p t start).2 = .err e ↔ serializeHtmlStringN N env p t start = .err e) ∧
    (∃ body, (serializeHtmlWriteN N env p t start).1 = htmlDoctype ++ body) := by
  unfold serializeHtmlStringN bufferToString
  refine ⟨?_, ?_, ?_, ⟨_, rfl⟩⟩
  · intro w h; rw [h]
  · intro s h
    cases hw : serializeHtmlWriteN N env p t start with
    | mk w r =>
      rw [hw] at h
      cases r with
      | ok u => cases u; simp at h; rw [h]
      | err e => simp at h
      | panic => simp at h
  · intro e
    cases hw : serializeHtmlWriteN N env p t start with
    | mk w r =>
      cases r with
      | ok u => cases u; simp
      | err e' => simp
      | panic => simp

example : serializeHtmlWriteN fullwidthNorm witnessEnv {} c19NormDoc [] = (c19NormText, .ok ()) := by decide

/-! ## Part 4: a writer that fails

`serializeHtmlWriteNW P N` (Model/Normalizer.lean; `serializeHtmlWriteW P` without normalizer, Model/Html5.lean) is
`Html5::serialize_write_with_normalizer` in front of ANY writer `P` (`WriterPolicy`, Model/Writer.lean: what the
writer answers to each `write_all` call given the calls it accepted so far), threaded through the calls in the order
the Rust makes them — the doctype, then per event indentation / token space / token text / newline, each one
`w.write_all(..)?`.  `serializeHtmlCallsN` lists those calls as they happen when none is refused.  The model of
Parts 1–3 (`serializeHtmlWrite`, `serializeHtmlWriteN`) is the writer that never fails. -/

/-- The never-failing model is the unlimited-budget instance, and `N = id` is the entry point without normalizer. -/
theorem C19_write_unlimited (N : Str → Str) (env : Env) (p : HtmlParams) (t : Tree) (start : Path) :
    serializeHtmlWriteNW WriterPolicy.unlimited N env p t start = serializeHtmlWriteN N env p t start ∧
    serializeHtmlWriteNW (WriterPolicy.budget none) N env p t start = serializeHtmlWriteN N env p t start ∧
    serializeHtmlWriteW WriterPolicy.unlimited env p t start = serializeHtmlWrite env p t start ∧
    (∀ P, serializeHtmlWriteNW P id env p t start = serializeHtmlWriteW P env p t start) :=
  ⟨serializeHtmlWriteNW_unlimited N env p t start, serializeHtmlWriteNW_unlimited N env p t start,
   serializeHtmlWriteW_unlimited env p t start, fun P => serializeHtmlWriteNW_id P env p t start⟩

/-- **`serialize_write` never panics whatever the writer does**: any writer, any normalizer, any tree, start path,
    vocabulary and parameter set. -/
theorem C19_write_nopanic_any_writer (P : WriterPolicy) (N : Str → Str) (env : Env) (p : HtmlParams) (t : Tree)
    (start : Path) :
    (serializeHtmlWriteNW P N env p t start).2 ≠ .panic ∧ (serializeHtmlWriteW P env p t start).2 ≠ .panic := by
  have key : ∀ N, (serializeHtmlWriteNW P N env p t start).2 ≠ .panic := by
    intro N h
    rw [serializeHtmlWriteNW_eq_replayCalls] at h
    have h2 := replayCalls_panic P [] _ h
    have h3 : (serializeHtmlCallsN N env p t start).2 = (serializeHtmlWriteN N env p t start).2 :=
      congrArg Prod.snd (serializeHtmlCallsN_eq N env p t start)
    rw [h3, serializeHtmlWriteN_outcome] at h2
    exact C19_nopanic_write env p t start h2
  refine ⟨key N, ?_⟩
  rw [← serializeHtmlWriteNW_id]
  exact key id

/-- **A failing writer gives `Error::Io`.**  For every writer and normalizer:
    (1) either the writer refuses one of the calls — the call returns `Err(Io)`, the writer holding what it had
        accepted — or it accepts them all and the result is that of the never-failing writer;
    (2) what the writer holds when the call returns is a PREFIX of what the never-failing writer receives, in
        particular of the string `serialize_string_with_normalizer` returns;
    (3) unless the call ends in `Io`, what was written starts with the doctype;
    (4) `FailingWriter { fail_at_call: k }`: enough budget gives the old result; less gives `Io` with exactly the
        first `k` calls held; `k = 0` refuses the doctype itself. -/
theorem C19_write_fails_with_io (P : WriterPolicy) (N : Str → Str) (env : Env) (p : HtmlParams) (t : Tree)
    (start : Path) :
    ((∃ b, writeCalls P [] (serializeHtmlCallsN N env p t start).1 = .error b ∧
          serializeHtmlWriteNW P N env p t start = (b, .err .io)) ∨
      (writeCalls P [] (serializeHtmlCallsN N env p t start).1 = .ok (serializeHtmlCallsN N env p t start).1 ∧
          serializeHtmlWriteNW P N env p t start = serializeHtmlWriteN N env p t start)) ∧
    (∃ rest, (serializeHtmlWriteN N env p t start).1 = (serializeHtmlWriteNW P N env p t start).1 ++ rest) ∧
    (∀ s, serializeHtmlStringN N env p t start = .ok s →
        ∃ rest, s = (serializeHtmlWriteNW P N env p t start).1 ++ rest) ∧
    ((serializeHtmlWriteNW P N env p t start).2 ≠ .err .io →
        ∃ body, (serializeHtmlWriteNW P N env p t start).1 = htmlDoctype ++ body) ∧
    (∀ k, (serializeHtmlCallsN N env p t start).1.length ≤ k →
        serializeHtmlWriteNW (WriterPolicy.budget (some k)) N env p t start = serializeHtmlWriteN N env p t start) ∧
    (∀ k, k < (serializeHtmlCallsN N env p t start).1.length →
        serializeHtmlWriteNW (WriterPolicy.budget (some k)) N env p t start
          = (((serializeHtmlCallsN N env p t start).1.take k).flatten, .err .io)) ∧
    serializeHtmlWriteNW (WriterPolicy.budget (some 0)) N env p t start = ([], .err .io) := by
  have hcalls := serializeHtmlCallsN_eq N env p t start
  have h1 : (serializeHtmlCallsN N env p t start).1.flatten = (serializeHtmlWriteN N env p t start).1 :=
    congrArg Prod.fst hcalls
  have hpre : ∃ rest, (serializeHtmlWriteN N env p t start).1 = (serializeHtmlWriteNW P N env p t start).1 ++ rest := by
    obtain ⟨rest, h⟩ := replayCalls_prefix P [] (serializeHtmlCallsN N env p t start)
    rw [← serializeHtmlWriteNW_eq_replayCalls, List.nil_append, h1] at h
    exact ⟨rest, h⟩
  have hdich : (∃ b, writeCalls P [] (serializeHtmlCallsN N env p t start).1 = .error b ∧
          serializeHtmlWriteNW P N env p t start = (b, .err .io)) ∨
      (writeCalls P [] (serializeHtmlCallsN N env p t start).1 = .ok (serializeHtmlCallsN N env p t start).1 ∧
          serializeHtmlWriteNW P N env p t start = serializeHtmlWriteN N env p t start) := by
    rw [serializeHtmlWriteNW_eq_replayCalls]
    unfold replayCalls
    cases hw : writeCalls P [] (serializeHtmlCallsN N env p t start).1 with
    | error b => exact Or.inl ⟨b, rfl, rfl⟩
    | ok h =>
      have hh := writeCalls_ok P _ _ _ hw
      rw [List.nil_append] at hh
      subst hh
      exact Or.inr ⟨rfl, hcalls⟩
  have hlen : 0 < (serializeHtmlCallsN N env p t start).1.length := by
    unfold serializeHtmlCallsN; simp
  refine ⟨hdich, hpre, ?_, ?_, ?_, ?_, ?_⟩
  · intro s hs
    have hw := (C19_normalizer_write N env p t start).2.1 s hs
    obtain ⟨rest, h⟩ := hpre
    rw [hw] at h
    exact ⟨rest, h⟩
  · intro hne
    rcases hdich with ⟨b, _, hb⟩ | ⟨_, hall⟩
    · rw [hb] at hne; exact absurd rfl hne
    · rw [hall]; exact ⟨_, rfl⟩
  · intro k hk
    rw [serializeHtmlWriteNW_eq_replayCalls, replayCalls_budget, if_pos hk]
    exact hcalls
  · intro k hk
    rw [serializeHtmlWriteNW_eq_replayCalls, replayCalls_budget, if_neg (by omega)]
  · rw [serializeHtmlWriteNW_eq_replayCalls, replayCalls_budget, if_neg (by omega)]
    simp

/-- **Which error wins** when the serialisation itself fails (`ProcessingInstructionGtInHtml`, `MissingPrefix`,
    `NamespaceInProcessingInstruction`): whichever comes first in the event order.  The error `e` of the string entry
    point arises after exactly the calls `serializeHtmlCallsN.1` — the doctype first, so at least one; a writer that
    accepts all of them sees `e` reported as the string entry point reports it, a writer that refuses one of them
    makes the call return `Io`. -/
theorem C19_write_error_priority (P : WriterPolicy) (N : Str → Str) (env : Env) (p : HtmlParams) (t : Tree)
    (start : Path) (e : XotError) (he : serializeHtmlStringN N env p t start = .err e) :
    (writeCalls P [] (serializeHtmlCallsN N env p t start).1 = .ok (serializeHtmlCallsN N env p t start).1 →
        serializeHtmlWriteNW P N env p t start = ((serializeHtmlCallsN N env p t start).1.flatten, .err e)) ∧
    (∀ b, writeCalls P [] (serializeHtmlCallsN N env p t start).1 = .error b →
        serializeHtmlWriteNW P N env p t start = (b, .err .io)) ∧
    (∀ k, (serializeHtmlCallsN N env p t start).1.length ≤ k →
        (serializeHtmlWriteNW (WriterPolicy.budget (some k)) N env p t start).2 = .err e) ∧
    (∀ k, k < (serializeHtmlCallsN N env p t start).1.length →
        (serializeHtmlWriteNW (WriterPolicy.budget (some k)) N env p t start).2 = .err .io) := by
  have he' : (serializeHtmlWriteN N env p t start).2 = .err e := ((C19_normalizer_write N env p t start).2.2.1 e).2 he
  have h2 : (serializeHtmlCallsN N env p t start).2 = .err e := by
    rw [← he']; exact congrArg Prod.snd (serializeHtmlCallsN_eq N env p t start)
  refine ⟨?_, ?_, ?_, ?_⟩
  · intro hw
    rw [serializeHtmlWriteNW_eq_replayCalls]
    simp only [replayCalls, hw, h2]
  · intro b hw
    rw [serializeHtmlWriteNW_eq_replayCalls]
    simp only [replayCalls, hw]
  · intro k hk
    rw [(C19_write_fails_with_io (WriterPolicy.budget (some k)) N env p t start).2.2.2.2.1 k hk, he']
  · intro k hk
    rw [(C19_write_fails_with_io (WriterPolicy.budget (some k)) N env p t start).2.2.2.2.2.1 k hk]

/-- Non-vacuity: `<?pi a>b?>` in a document.  The calls before `ProcessingInstructionGtInHtml` arises are the doctype
    alone: the writer that refuses its first call gives `Io`, every other one the serialisation error. -/
example :
    let env : Env := ⟨[[], xmlNs], [[], ['x','m','l']], [(['s','p','a','c','e'], 1), (['i','d'], 1), (['p','i'], 0)]⟩
    let t : Tree := .node .document [.node (.pi 2 (some ['a','>','b'])) []]
    (serializeHtmlCalls env {} t []).1 = [htmlDoctype] ∧
    serializeHtmlWriteW (.budget (some 0)) env {} t [] = ([], .err .io) ∧
    serializeHtmlWriteW (.budget (some 1)) env {} t [] = (htmlDoctype, .err .processingInstructionGtInHtml) ∧
    serializeHtmlWriteW (.budget none) env {} t [] = (htmlDoctype, .err .processingInstructionGtInHtml) := by decide

/-- `<div><p>a</p></div>` with indentation: the calls (the third is the empty token of the inherited `xml` prefix
    event of the top element: the call is made all the same), a writer that fails in the middle, and one with
    enough budget. -/
example :
    let env : Env := ⟨[[], xmlNs], [[], ['x','m','l']],
       [(['s','p','a','c','e'], 1), (['i','d'], 1), (['d','i','v'], 0), (['p'], 0)]⟩
    let t : Tree := .node (.element 2) [.node (.element 3) [.node (.text ['a']) []]]
    let p : HtmlParams := ⟨some [], []⟩
    (serializeHtmlCalls env p t []).1.map String.ofList
      = ["<!DOCTYPE html>", "<div", "", ">", "\n", "  ", "<p", ">", "a", "</p>", "\n", "</div>", "\n"] ∧
    (fun r : Str × Outcome XotError Unit => (String.ofList r.1, r.2)) (serializeHtmlWriteW (.budget (some 6)) env p t [])
      = ("<!DOCTYPE html><div>\n  ", .err .io) ∧
    (fun r : Str × Outcome XotError Unit => (String.ofList r.1, r.2)) (serializeHtmlWriteW (.budget (some 13)) env p t [])
      = ("<!DOCTYPE html><div>\n  <p>a</p>\n</div>\n", .ok ()) := by decide

/-! ## Part 5: the inserted whitespace stands between markup tokens; what the suppress list means

`serialize_pretty` (html5_serializer.rs) writes, per event, `" ".repeat(indentation * 2)`, the token, `"\n"` —
`(indentation, newline)` from `Pretty::prettify` (pretty.rs) with the HTML closures.  The decorated token stream
below is the list `C19_pretty_tokens` flattens: `List.zip (htmlPrettyTrace …) l`, `l` the rendered tokens. -/

/-- Every character the pretty machine adds is a space or a newline. -/
theorem C19_pretty_adds_whitespace (n : Nat) :
    (∀ ch ∈ htmlIndentBytes n, ch = ' ') ∧ htmlNewline = ['\n'] ∧ (htmlIndentBytes n).length = 2 * n := by
  refine ⟨?_, rfl, ?_⟩
  · intro ch h
    simp only [htmlIndentBytes, htmlIndentUnit, List.mem_flatten, List.mem_replicate] at h
    obtain ⟨l, ⟨_, rfl⟩, hc⟩ := h
    simpa using hc
  · simp [htmlIndentBytes, htmlIndentUnit, htmlIndentWidth, Nat.mul_comm]

/-- Per event, EVERY tree, any state of the `Pretty` stack: indentation is written only in front of an event that
    opens markup (`<name`, end tag, comment, PI), a newline only behind one that closes markup (`>`, end tag,
    comment, PI).  In particular text, attribute and `xmlns` tokens are never decorated. -/
theorem C19_pretty_token_kinds (c : HtmlCtx) (sup : List Nat) (t : Tree) (ps : PStack) (evs : List (Path × Output))
    (x : (Nat × Bool) × Path × Output) (hx : x ∈ List.zip (htmlPrettyTrace c sup t ps evs) evs) :
    (x.1.1 > 0 → x.2.2.opensMarkup = true) ∧ (x.1.2 = true → x.2.2.closesMarkup = true) := by
  rw [htmlPrettyTrace_zip] at hx
  obtain ⟨y, _, rfl⟩ := List.mem_map.mp hx
  exact ⟨fun h => (hpb_indent_before c sup t _ _ _ h).1, fun h => (hpb_newline_after c sup t _ _ _ h).1⟩

/-- **C19_pretty_only_whitespace** (the HTML counterpart of `C14_pretty_only_whitespace`).  On the trees the
    indentation clause ranges over (`TextOk`: leaf kinds are leaves, no text directly under a document node —
    well-formed documents and element-rooted subtrees), any start node, suppress list, serializer state: if the
    pretty writer puts whitespace between two consecutive tokens `x1 x2` of a successful run (a newline behind
    `x1` or indentation in front of `x2`), then
    * `x1` closes markup and its text ends with `>`, `x2` opens markup, has no space flag and its text begins
      with `<` — the one markup token without characters being the EMPTY end-tag token of a void element
      (`C19_tags_end`; what that exception amounts to: `C19_pretty_void_element_boundary`);
    * the stack between them (the entries of the open elements the whitespace lands in, `x2`'s own element
      included for an end tag) is neither mixed nor in `xml:space="preserve"` scope; so NO open element strictly
      above `x2`'s node has a text or inline (phrasing / unknown HTML) element child, is a formatted element
      (`pre`, `script`, `style`, `title`, `textarea` in the HTML namespaces, any letter case) or matches the
      suppress list (`C19_pretty_mixed_iff` reads both predicates off the tables).
    So an HTML parser reads every inserted run as inter-element whitespace between two tags, comments or PIs. -/
theorem C19_pretty_only_whitespace (c : HtmlCtx) (sup : List Nat) (t : Tree) (start : Path) (n : Tree)
    (inScope : List (Nat × Nat)) (hat : t.at? start = some n) (hs : namespacesInScope t start = some inScope)
    (hok : TextOk n) (s0 : HState) (l : List (Path × Output × OutputToken))
    (hl : renderHtmlAll c t s0 (genOutputs t start) = .ok l)
    (pre post : List ((Nat × Bool) × Path × Output × OutputToken)) (x1 x2 : (Nat × Bool) × Path × Output × OutputToken)
    (hz : List.zip (htmlPrettyTrace c sup t [] (genOutputs t start)) l = pre ++ x1 :: x2 :: post)
    (hw : x1.1.2 = true ∨ x2.1.1 > 0) :
    (x1.2.2.1.closesMarkup = true ∧
      (x1.2.2.2.text.getLast? = some '>' ∨
        (∃ name, x1.2.2.1 = .endTag name ∧ c.h.void.matches c.env name = true) ∧ x1.2.2.2.text = [])) ∧
    (x2.2.2.1.opensMarkup = true ∧ x2.2.2.2.space = false ∧
      (x2.2.2.2.text.head? = some '<' ∨
        (∃ name, x2.2.2.1 = .endTag name ∧ c.h.void.matches c.env name = true) ∧ x2.2.2.2.text = [])) ∧
    ∃ rel, x2.2.1 = start ++ rel ∧
      PStack.inMixed (hpentriesFor c sup x2.2.2.1 n rel) = false ∧
      PStack.inSpacePreserve (hpentriesFor c sup x2.2.2.1 n rel) = false ∧
      ∀ a name, OpenAbove n rel a → a.value = .element name → a.firstChild?.isSome = true →
        htmlHasInlineChild c a = false ∧ htmlIsSuppressed c sup name = false :=
  hpb_between_tokens_ok c sup t start n inScope hat hs hok s0 l hl pre post x1 x2 hz hw

/-- The same for EVERY tree (no `TextOk`): each of the two tokens is a markup token as above or the token of a
    text node that is NOT the child of an element (a text node directly under a document node, under a node that
    should be a leaf, or the start node itself with children) — around a text node whose parent is an element the
    stack holds that parent's `Mixed` entry, so nothing is ever inserted next to it. -/
theorem C19_pretty_only_whitespace_any_tree (c : HtmlCtx) (sup : List Nat) (t : Tree) (start : Path) (n : Tree)
    (inScope : List (Nat × Nat)) (hat : t.at? start = some n) (hs : namespacesInScope t start = some inScope)
    (s0 : HState) (l : List (Path × Output × OutputToken))
    (hl : renderHtmlAll c t s0 (genOutputs t start) = .ok l)
    (pre post : List ((Nat × Bool) × Path × Output × OutputToken)) (x1 x2 : (Nat × Bool) × Path × Output × OutputToken)
    (hz : List.zip (htmlPrettyTrace c sup t [] (genOutputs t start)) l = pre ++ x1 :: x2 :: post)
    (hw : x1.1.2 = true ∨ x2.1.1 > 0) :
    ((x1.2.2.1.closesMarkup = true ∧
        (x1.2.2.2.text.getLast? = some '>' ∨
          (∃ name, x1.2.2.1 = .endTag name ∧ c.h.void.matches c.env name = true) ∧ x1.2.2.2.text = [])) ∨
      ∃ x rel node, x1.2.2.1 = .text x ∧ x1.2.1 = start ++ rel ∧ n.at? rel = some node ∧ node.value = .text x ∧
        ∀ rel0 i a name, rel = rel0 ++ [i] → n.at? rel0 = some a → a.value ≠ .element name) ∧
    ((x2.2.2.1.opensMarkup = true ∧ x2.2.2.2.space = false ∧
        (x2.2.2.2.text.head? = some '<' ∨
          (∃ name, x2.2.2.1 = .endTag name ∧ c.h.void.matches c.env name = true) ∧ x2.2.2.2.text = [])) ∨
      ∃ x rel node, x2.2.2.1 = .text x ∧ x2.2.1 = start ++ rel ∧ n.at? rel = some node ∧ node.value = .text x ∧
        ∀ rel0 i a name, rel = rel0 ++ [i] → n.at? rel0 = some a → a.value ≠ .element name) ∧
    ∃ rel, x2.2.1 = start ++ rel ∧
      PStack.inMixed (hpentriesFor c sup x2.2.2.1 n rel) = false ∧
      PStack.inSpacePreserve (hpentriesFor c sup x2.2.2.1 n rel) = false :=
  hpb_between_tokens c sup t start n inScope hat hs s0 l hl pre post x1 x2 hz hw

/-- Nothing is written in front of the first token (the `Pretty` stack starts empty). -/
theorem C19_pretty_first_token (c : HtmlCtx) (sup : List Nat) (t : Tree) (p : Path) (o : Output)
    (rest : List (Path × Output)) :
    (htmlPrettyTrace c sup t [] ((p, o) :: rest)).head?.map (·.1) = some 0 := by
  simp only [htmlPrettyTrace, List.head?_cons, Option.map_some, Option.some.injEq]
  unfold prettifyHtmlAt
  cases t.at? p with
  | none => rfl
  | some node =>
    cases o <;> simp [prettifyHtml, PStack.getIndentation, PStack.inMixed, PStack.inSpacePreserve]
    split
    · split <;> rfl
    · rfl

/-- The vocabulary of the examples of this part: `div p hr ul li` in no namespace (2 … 6), `g circle` in SVG. -/
def c19WsEnv : Env :=
  ⟨[[], xmlNs, svgNs], [[], ['x','m','l']],
   [(['s','p','a','c','e'], 1), (['i','d'], 1), (['d','i','v'], 0), (['p'], 0), (['h','r'], 0), (['u','l'], 0),
    (['l','i'], 0), (['g'], 2), (['c','i','r','c','l','e'], 2)]⟩

/-- Non-vacuity of `C19_pretty_only_whitespace`: `<div><hr><p/></div>` satisfies `TextOk`; its decorated tokens
    (decoration, text) — whitespace behind `>`, `</p>`, `</div>` and behind the EMPTY end-tag token of the void `hr`
    (whose start tag was closed by the `>` just before it), indentation in front of `<hr`, `<p`. -/
example : TextOk (.node (.element 2) [.node (.element 4) [], .node (.element 3) []]) := by
  simp [TextOk, Tree.Forall, Tree.Forall.forallList, TextOkAt, Value.isLeafKind, Value.isText, Tree.value]

example :
    let t : Tree := .node (.element 2) [.node (.element 4) [], .node (.element 3) []]
    let c := htmlCtx c19WsEnv ⟨some [], []⟩
    (List.zip (htmlPrettyTrace c [] t [] (genOutputs t []))
        ((renderHtmlAll c t (htmlInitState c t []) (genOutputs t [])).okValue?.getD [])).map
      (fun x => (x.1, String.ofList x.2.2.2.text))
    = [((0, false), "<div"), ((0, false), ""), ((0, true), ">"), ((1, false), "<hr"), ((0, false), ">"),
       ((0, true), ""), ((1, false), "<p"), ((0, false), ">"), ((0, true), "</p>"), ((0, true), "</div>")] := by
  decide

/-- What the exception for the empty end-tag token of a VOID element amounts to (closed; `hr` is void and not
    phrasing content).  A void element without children: the token before the empty one is its `>`.  A void element
    WITH children (not valid HTML; the tree API allows it) is treated by `Pretty` like any element: with a text
    child the newline behind the empty end tag follows the text directly (`<hr>x⏎`), with a comment child the
    indentation of the empty end tag gives a whitespace-only line. -/
theorem C19_pretty_void_element_boundary :
    serializeHtmlString c19WsEnv ⟨some [], []⟩ (.node (.element 2) [.node (.element 4) [], .node (.element 3) []]) []
      = .ok "<!DOCTYPE html><div>\n  <hr>\n  <p></p>\n</div>\n".toList ∧
    serializeHtmlString c19WsEnv ⟨some [], []⟩
        (.node (.element 2) [.node (.element 4) [.node (.text ['x']) []], .node (.element 3) []]) []
      = .ok "<!DOCTYPE html><div>\n  <hr>x\n  <p></p>\n</div>\n".toList ∧
    serializeHtmlString c19WsEnv ⟨some [], []⟩
        (.node (.element 2) [.node (.element 4) [.node (.comment ['c']) []], .node (.element 3) []]) []
      = .ok "<!DOCTYPE html><div>\n  <hr>\n    <!--c-->\n  \n  <p></p>\n</div>\n".toList := by decide

/-- Why `TextOk` excludes text directly under a document node (a fragment): `Pretty` keeps no stack entry for the
    document node, so in the fragment `<div></div>x` the newline behind `</div>` lands in front of the text. -/
theorem C19_pretty_fragment_text_gets_newline :
    serializeHtmlString c19WsEnv ⟨some [], []⟩ (.node .document [.node (.element 2) [], .node (.text ['x']) []]) []
      = .ok "<!DOCTYPE html><div></div>\nx".toList := by decide

/-! ### The suppress list -/

/-- **What `html_matches_suppress` computes**, every suppress list, every element name.  The two `return false`
    of the loop leave the whole search, so: for an element in the HTML namespaces (no namespace or `XHTML_NS`,
    one class) only the listed names BEFORE the first listed name outside the HTML namespaces count, compared by
    local name up to ASCII case; for an element outside the HTML namespaces only the FIRST listed name counts,
    compared by id. -/
theorem C19_suppress_exact (h : Html5Elements) (env : Env) (sup : List Nat) (name : Nat) :
    htmlMatchesSuppress h env sup name =
      if h.isHtmlNamespace (env.nsOfName name) then
        (sup.takeWhile (fun s => h.isHtmlNamespace (env.nsOfName s))).any
          (fun s => asciiLower (env.localName s) == asciiLower (env.localName name))
      else sup.head? == some name :=
  c19sup_exact h env sup name

/-- **C19_suppress_semantics**: for a suppress list all of whose names are in the HTML namespaces the function is
    "some listed name equals the element's name up to ASCII case and the HTML namespaces": the element is in an
    HTML namespace and its lower-cased local name is the lower-cased local name of a listed name. -/
theorem C19_suppress_semantics (h : Html5Elements) (env : Env) (sup : List Nat) (name : Nat)
    (hall : ∀ s ∈ sup, h.isHtmlNamespace (env.nsOfName s) = true) :
    htmlMatchesSuppress h env sup name =
      (h.isHtmlNamespace (env.nsOfName name) &&
        sup.any (fun s => asciiLower (env.localName s) == asciiLower (env.localName name))) ∧
    (htmlMatchesSuppress h env sup name = true ↔
      ∃ s ∈ sup, h.isHtmlNamespace (env.nsOfName s) = true ∧ h.isHtmlNamespace (env.nsOfName name) = true ∧
        asciiLower (env.localName s) = asciiLower (env.localName name)) := by
  have h1 := c19sup_html_list h env sup name hall
  refine ⟨h1, ?_⟩
  rw [h1]
  simp only [Bool.and_eq_true, List.any_eq_true, beq_iff_eq]
  constructor
  · rintro ⟨hn, s, hs, he⟩; exact ⟨s, hs, hall s hs, hn, he⟩
  · rintro ⟨s, hs, _, hn, he⟩; exact ⟨hn, s, hs, he⟩

/-- The early exit, general form: a listed name outside the HTML namespaces that is not the element's own name
    ends the search — whatever follows it in the list; and an element outside the HTML namespaces is matched by
    the first listed name or not at all. -/
theorem C19_suppress_early_exit_general (h : Html5Elements) (env : Env) (f : Nat) (rest sup : List Nat) (name : Nat) :
    (h.isHtmlNamespace (env.nsOfName f) = false → name ≠ f → htmlMatchesSuppress h env (f :: rest) name = false) ∧
    (h.isHtmlNamespace (env.nsOfName name) = false →
      htmlMatchesSuppress h env sup name = (sup.head? == some name)) := by
  refine ⟨fun hf hne => by simp [htmlMatchesSuppress, hf, hne], fun hn => ?_⟩
  rw [c19sup_exact]; simp [hn]

/-- **C19_suppress_early_exit**, closed witness (`c19WsEnv`: `ul` = 5 in no namespace, `g` = 7 in SVG): a non-HTML
    name in front hides a later HTML name; alone, or in front of it, the HTML name matches; and a non-HTML name is
    honoured in first position only.  The real crate does the same: the model is `html_matches_suppress` as
    written, and the `html` suite's corpus serialises `<div><ul><li/></ul>…</div>` under exactly these lists and
    compares the bytes with the model (harness/src/suite_html.rs, "C19_suppress_early_exit"). -/
theorem C19_suppress_early_exit :
    let c := htmlCtx c19WsEnv {}
    htmlMatchesSuppress c.h c.env [7, 5] 5 = false ∧
    htmlMatchesSuppress c.h c.env [5] 5 = true ∧ htmlMatchesSuppress c.h c.env [5, 7] 5 = true ∧
    htmlMatchesSuppress c.h c.env [7, 5] 7 = true ∧ htmlMatchesSuppress c.h c.env [5, 7] 7 = false ∧
    c.h.isHtmlNamespace (c.env.nsOfName 5) = true ∧ c.h.isHtmlNamespace (c.env.nsOfName 7) = false := by decide

/-- The same seen in the output, `<div><ul><li/></ul><g><circle/></g></div>` with indentation: under `[ul]` and
    `[ul, g]` the `ul` is written on one line and `g` is not; under `[g, ul]` it is the other way round. -/
example :
    let t : Tree := .node (.element 2) [.node (.element 5) [.node (.element 6) []], .node (.element 7) [.node (.element 8) []]]
    serializeHtmlString c19WsEnv ⟨some [5], []⟩ t [] = .ok "<!DOCTYPE html><div>\n  <ul><li></li></ul>\n  <g xmlns=\"http://www.w3.org/2000/svg\">\n    <circle></circle>\n  </g>\n</div>\n".toList ∧
    serializeHtmlString c19WsEnv ⟨some [5, 7], []⟩ t [] = serializeHtmlString c19WsEnv ⟨some [5], []⟩ t [] ∧
    serializeHtmlString c19WsEnv ⟨some [7, 5], []⟩ t [] = .ok "<!DOCTYPE html><div>\n  <ul>\n    <li></li>\n  </ul>\n  <g xmlns=\"http://www.w3.org/2000/svg\"><circle></circle></g>\n</div>\n".toList := by
  decide +kernel

/-- `C19_suppress_semantics` is not vacuous: `[ul, div]` is a list of HTML names. -/
example : ∀ s ∈ [5, 2], (htmlCtx c19WsEnv {}).h.isHtmlNamespace ((htmlCtx c19WsEnv {}).env.nsOfName s) = true := by
  decide

/-! ## Part 6: a writer that fails, at BYTE level

Part 4 counts what a refused call lets through in CHARACTERS.  A real `io::Write` receives the UTF-8 bytes of each
piece and may stop anywhere, also inside a multi-byte character.  `Model/WriterBytes.lean`: `utf8` (the encoder; it is
Lean's `String.toUTF8` for every text, `Lemmas/WriterBytes.lean: utf8_toUTF8`), `BytePolicy` (`some k` = refused
after `k` BYTES of this call), `serializeHtmlWriteNB B N` / `serializeHtmlWriteB B` = the trace `serializeHtmlCallsN`
replayed against `B`.  The trace is the same for every writer (`serializeHtmlWriteNW_eq_replayCalls`: for every
character-level writer the threaded function is this trace replayed); (6) ties the byte-level result back to the
threaded function in front of `B.chars`. -/

/-- **A failing BYTE-level writer gives `Error::Io`, never a panic**, and holds a prefix of the UTF-8 bytes of the
    string serialisation — possibly ending inside a character.  For every byte-level writer `B`, normalizer, tree,
    start path, vocabulary and parameter set:
    (1) either one call is refused: the calls are `pre ++ c :: post`, `B` accepts `pre` and answers `some k` to `c`;
        the call returns `Err(Io)` and the writer holds the bytes of `pre` followed by the first `k` bytes of `c`;
        or none is, and the result is that of the never-failing writer as bytes;
    (2) never a panic;
    (3) what the writer holds is a PREFIX of `utf8` of what the never-failing writer receives;
    (4) when `serialize_string_with_normalizer` returns `Ok(s)`: no refusal gives `Ok` with exactly `utf8 s`, a
        refusal gives `Io`, and in both cases the writer holds a prefix of `utf8 s`;
    (5) `ByteBudgetWriter { remaining: n }`: enough budget gives the old result; less gives `Io` and the writer
        holds exactly the first `n` bytes — wherever in a character that falls;
    (6) the character level: the outcome is that of the threaded `serializeHtmlWriteNW` in front of `B.chars`, the
        bytes held are the `utf8` of the characters that one holds plus at most 3 bytes (none unless `Io`);
    (7) the never-failing writer holds `utf8` of the never-failing model's text;
    (8) `N = id` is the entry point without normalizer. -/
theorem C19_write_fails_with_io_bytes (B : BytePolicy) (N : Str → Str) (env : Env) (p : HtmlParams) (t : Tree)
    (start : Path) :
    ((∃ pre c post k, (serializeHtmlCallsN N env p t start).1 = pre ++ c :: post ∧
          writeCallsB B [] pre = .ok (pre.map utf8) ∧ B (pre.map utf8) (utf8 c) = some k ∧
          serializeHtmlWriteNB B N env p t start = (utf8 pre.flatten ++ (utf8 c).take k, .err .io)) ∨
      (writeCallsB B [] (serializeHtmlCallsN N env p t start).1 = .ok ((serializeHtmlCallsN N env p t start).1.map utf8) ∧
          serializeHtmlWriteNB B N env p t start
            = (utf8 (serializeHtmlWriteN N env p t start).1, (serializeHtmlWriteN N env p t start).2))) ∧
    (serializeHtmlWriteNB B N env p t start).2 ≠ .panic ∧
    (∃ rest, utf8 (serializeHtmlWriteN N env p t start).1 = (serializeHtmlWriteNB B N env p t start).1 ++ rest) ∧
    (∀ s, serializeHtmlStringN N env p t start = .ok s →
        (writeCallsB B [] (serializeHtmlCallsN N env p t start).1 = .ok ((serializeHtmlCallsN N env p t start).1.map utf8) →
          serializeHtmlWriteNB B N env p t start = (utf8 s, .ok ())) ∧
        (∀ b, writeCallsB B [] (serializeHtmlCallsN N env p t start).1 = .error b →
          serializeHtmlWriteNB B N env p t start = (b, .err .io)) ∧
        ∃ rest, utf8 s = (serializeHtmlWriteNB B N env p t start).1 ++ rest) ∧
    (∀ n, serializeHtmlWriteNB (BytePolicy.byteBudget n) N env p t start =
        if (utf8 (serializeHtmlWriteN N env p t start).1).length ≤ n
        then (utf8 (serializeHtmlWriteN N env p t start).1, (serializeHtmlWriteN N env p t start).2)
        else ((utf8 (serializeHtmlWriteN N env p t start).1).take n, .err .io)) ∧
    ((serializeHtmlWriteNB B N env p t start).2 = (serializeHtmlWriteNW B.chars N env p t start).2 ∧
      ∃ tail, (serializeHtmlWriteNB B N env p t start).1
          = utf8 (serializeHtmlWriteNW B.chars N env p t start).1 ++ tail ∧ tail.length ≤ 3 ∧
        ((serializeHtmlWriteNB B N env p t start).2 ≠ .err .io → tail = [])) ∧
    serializeHtmlWriteNB BytePolicy.unlimited N env p t start
      = (utf8 (serializeHtmlWriteN N env p t start).1, (serializeHtmlWriteN N env p t start).2) ∧
    serializeHtmlWriteNB B id env p t start = serializeHtmlWriteB B env p t start := by
  have hcalls := serializeHtmlCallsN_eq N env p t start
  have h1 : (serializeHtmlCallsN N env p t start).1.flatten = (serializeHtmlWriteN N env p t start).1 :=
    congrArg Prod.fst hcalls
  have h2 : (serializeHtmlCallsN N env p t start).2 = (serializeHtmlWriteN N env p t start).2 :=
    congrArg Prod.snd hcalls
  have hpre : ∃ rest, utf8 (serializeHtmlWriteN N env p t start).1
      = (serializeHtmlWriteNB B N env p t start).1 ++ rest := by
    rw [← h1]; exact replayCallsB_prefix_utf8 B _
  refine ⟨?_, ?_, hpre, ?_, ?_, ?_, ?_, ?_⟩
  · rcases replayCallsB_cases B (serializeHtmlCallsN N env p t start) with ⟨pre, c, post, k, a1, a2, a3, _, a5⟩ | ⟨a1, a2⟩
    · exact Or.inl ⟨pre, c, post, k, a1, a2, a3, a5⟩
    · rw [h1, h2] at a2; exact Or.inr ⟨a1, a2⟩
  · intro h
    have h3 := replayCallsB_panic B [] _ h
    rw [h2, serializeHtmlWriteN_outcome] at h3
    exact C19_nopanic_write env p t start h3
  · intro s hs
    have hw := (C19_normalizer_write N env p t start).2.1 s hs
    refine ⟨?_, ?_, ?_⟩
    · intro hok
      unfold serializeHtmlWriteNB replayCallsB
      rw [hok]
      simp only []
      rw [← utf8_flatten, h1, h2, hw]
    · intro b hb
      unfold serializeHtmlWriteNB replayCallsB
      rw [hb]
    · obtain ⟨rest, h⟩ := hpre
      rw [hw] at h
      exact ⟨rest, h⟩
  · intro n
    unfold serializeHtmlWriteNB
    rw [replayCallsB_byteBudget, h1, h2]
  · unfold serializeHtmlWriteNB
    rw [serializeHtmlWriteNW_eq_replayCalls]
    exact replayCallsB_chars B _
  · unfold serializeHtmlWriteNB
    rw [replayCallsB_unlimited, List.nil_append, ← utf8_flatten, h1, h2]
  · unfold serializeHtmlWriteNB serializeHtmlWriteB
    rw [serializeHtmlCallsN_id]

/-- `serialize_write` never panics whatever the byte-level writer does (with or without normalizer). -/
theorem C19_write_nopanic_any_writer_bytes (B : BytePolicy) (N : Str → Str) (env : Env) (p : HtmlParams) (t : Tree)
    (start : Path) :
    (serializeHtmlWriteNB B N env p t start).2 ≠ .panic ∧ (serializeHtmlWriteB B env p t start).2 ≠ .panic := by
  refine ⟨(C19_write_fails_with_io_bytes B N env p t start).2.1, ?_⟩
  rw [← (C19_write_fails_with_io_bytes B N env p t start).2.2.2.2.2.2.2]
  exact (C19_write_fails_with_io_bytes B id env p t start).2.1

/-- **Which error wins, byte level**: when the string entry point fails with `e`, a byte-level writer that accepts
    every call made before `e` arises (the doctype, the tokens before) sees `e`; one that refuses any of them — after
    however many bytes — makes the call return `Io`; with a byte budget the boundary is the byte length of those
    calls. -/
theorem C19_write_error_priority_bytes (B : BytePolicy) (N : Str → Str) (env : Env) (p : HtmlParams) (t : Tree)
    (start : Path) (e : XotError) (he : serializeHtmlStringN N env p t start = .err e) :
    (writeCallsB B [] (serializeHtmlCallsN N env p t start).1 = .ok ((serializeHtmlCallsN N env p t start).1.map utf8) →
        serializeHtmlWriteNB B N env p t start = (utf8 (serializeHtmlCallsN N env p t start).1.flatten, .err e)) ∧
    (∀ b, writeCallsB B [] (serializeHtmlCallsN N env p t start).1 = .error b →
        serializeHtmlWriteNB B N env p t start = (b, .err .io)) ∧
    (∀ n, (utf8 (serializeHtmlCallsN N env p t start).1.flatten).length ≤ n →
        (serializeHtmlWriteNB (BytePolicy.byteBudget n) N env p t start).2 = .err e) ∧
    (∀ n, n < (utf8 (serializeHtmlCallsN N env p t start).1.flatten).length →
        serializeHtmlWriteNB (BytePolicy.byteBudget n) N env p t start
          = ((utf8 (serializeHtmlCallsN N env p t start).1.flatten).take n, .err .io)) := by
  have he' : (serializeHtmlWriteN N env p t start).2 = .err e := ((C19_normalizer_write N env p t start).2.2.1 e).2 he
  have h2 : (serializeHtmlCallsN N env p t start).2 = .err e := by
    rw [← he']; exact congrArg Prod.snd (serializeHtmlCallsN_eq N env p t start)
  refine ⟨?_, ?_, ?_, ?_⟩
  · intro hok
    unfold serializeHtmlWriteNB replayCallsB
    rw [hok]
    simp only []
    rw [← utf8_flatten, h2]
  · intro b hb
    unfold serializeHtmlWriteNB replayCallsB
    rw [hb]
  · intro n hn
    unfold serializeHtmlWriteNB
    rw [replayCallsB_byteBudget, if_pos hn, h2]
  · intro n hn
    unfold serializeHtmlWriteNB
    rw [replayCallsB_byteBudget, if_neg (by omega)]

/-- Non-vacuity: `<p>é😀</p>` (env: name 2 = `p`): the calls are the doctype (15 bytes), `<p`, the empty token of the
    inherited `xml` prefix, `>`, `é😀` (2 + 4 bytes), `</p>`: 28 bytes.  Budget 14 stops inside the doctype; 19 inside
    `é`, 22 inside `😀` (the character-level writer seen through it holds only `…<p>é`); 28 is enough. -/
example :
    let env : Env := ⟨[[], xmlNs], [[], ['x','m','l']], [(['s','p','a','c','e'], 1), (['i','d'], 1), (['p'], 0)]⟩
    let t : Tree := .node (.element 2) [.node (.text ['é', '😀']) []]
    (serializeHtmlCalls env {} t []).1.map String.ofList = ["<!DOCTYPE html>", "<p", "", ">", "é😀", "</p>"] ∧
    serializeHtmlWriteB (.byteBudget 14) env {} t [] = (utf8 "<!DOCTYPE html".toList, .err .io) ∧
    serializeHtmlWriteB (.byteBudget 19) env {} t [] = (utf8 "<!DOCTYPE html><p>".toList ++ [0xC3], .err .io) ∧
    serializeHtmlWriteB (.byteBudget 22) env {} t [] = (utf8 "<!DOCTYPE html><p>é".toList ++ [0xF0, 0x9F], .err .io) ∧
    serializeHtmlWriteW (BytePolicy.byteBudget 22).chars env {} t [] = ("<!DOCTYPE html><p>é".toList, .err .io) ∧
    serializeHtmlWriteB (.byteBudget 27) env {} t [] = (utf8 "<!DOCTYPE html><p>é😀</p".toList, .err .io) ∧
    serializeHtmlWriteB (.byteBudget 28) env {} t [] = (utf8 "<!DOCTYPE html><p>é😀</p>".toList, .ok ()) ∧
    "<!DOCTYPE html><p>é😀</p>".toUTF8.data.toList = utf8 "<!DOCTYPE html><p>é😀</p>".toList := by decide

/-- Error priority at byte level: `<?pi a>b?>` in a document fails with `ProcessingInstructionGtInHtml` after the
    doctype's 15 bytes: budget 14 gives `Io`, budget 15 the serialisation error. -/
example :
    let env : Env := ⟨[[], xmlNs], [[], ['x','m','l']], [(['s','p','a','c','e'], 1), (['i','d'], 1), (['p','i'], 0)]⟩
    let t : Tree := .node .document [.node (.pi 2 (some ['a','>','b'])) []]
    (serializeHtmlWriteB (.byteBudget 14) env {} t []).2 = .err .io ∧
    (serializeHtmlWriteB (.byteBudget 14) env {} t []).1.length = 14 ∧
    serializeHtmlWriteB (.byteBudget 15) env {} t [] = (utf8 htmlDoctype, .err .processingInstructionGtInHtml) := by decide

end XotModel.Props
