/-
  C04 — Every reachable forest is structurally valid and handles stay meaningful.
  Property theorems only.  `Forest.inv` (Model/ForestInv.lean) is the invariant: not corrupt,
  handles distinct and below `next`, every tree structurally valid (ordering namespaces /
  attributes / normal, unique attribute names and prefixes per element, attribute and
  namespace nodes only under elements, documents only as roots, leaves are leaves), and no
  adjacent text nodes while consolidation has never been switched off.

  Full statement (goal): `∀ ops, (ops.foldl step init).inv` for the whole mutating API, and
  `isRemoved` monotone along every history.
-/
import XotModel.Lemmas.ForestBasic

namespace XotModel.Props
open XotModel

/-- The empty store satisfies the invariant. -/
theorem C04_init : Forest.init.inv = true := by decide

/-- Switching consolidation on or off preserves the invariant (`everOff` is remembered, so the
    no-adjacent-text clause is only claimed while it has never been off). -/
theorem C04_setConsolidation (f : Forest) (b : Bool) (h : f.inv = true) :
    (f.setConsolidation b).inv = true := by
  rw [Forest.inv_iff] at *
  obtain ⟨h1, h2, h3, h4, h5⟩ := h
  refine ⟨h1, h2, h3, ?_, ?_⟩
  · show validList (!(f.everOff || !b)) f.roots = true
    cases b with
    | true => simpa using h4
    | false => simpa using validList_weaken' _ _ h4
  · show b = true ∨ (f.everOff || !b) = true
    cases b <;> simp

/-- Value updates (`set_element_name`, text / comment / PI setters, map updates of an existing
    key) never create, lose or reorder a handle. -/
theorem C04_setValue_handles (f : Forest) (h : Nat) (v : Value) :
    (f.setValue h v).allHandles = f.allHandles := Forest.allHandles_setValue f h v

/-- Non-vacuity: a concrete non-trivial forest satisfying the invariant. -/
example : ({ roots := [.node 0 .document [.node 1 (.element 2) [.node 2 (.namespace 0 2) [], .node 3 (.attribute 3 ['v']) [], .node 4 (.text ['x']) []]]], next := 5 } : Forest).inv = true := by decide

end XotModel.Props
