/-
  C04 — Every reachable forest is structurally valid and handles stay meaningful.
  Property theorems only.  `Forest.inv` (Model/ForestInv.lean) is the invariant: not corrupt,
  handles distinct and below `next`, every tree structurally valid (ordering namespaces /
  attributes / normal, unique attribute names and prefixes per element, attribute and
  namespace nodes only under elements, documents only as roots, leaves are leaves), and no
  adjacent text nodes while consolidation has never been switched off.

  Full statement (goal): `∀ ops, (ops.foldl step init).inv` for the whole mutating API, and
  `isRemoved` monotone along every history.

  Status: proved for every call of the forest model (`C04_step_all`, `C04_reach_all`);
  `isRemoved` monotone for every call.  All preservation
  theorems hold for arbitrary numbers as handle arguments — no liveness hypothesis is needed,
  because a call on a handle that is not live is refused by the argument checks or is the
  identity; so "non-live arguments" are in scope, not excluded.  (What the Rust does with a
  stale `NodeId` is below this model: handles here are creation-order numbers.)
-/
import XotModel.Lemmas.FinvReach2
import XotModel.Lemmas.FinvStable
import XotModel.Lemmas.FinvValue7
import XotModel.Lemmas.FinvComposite
import XotModel.Lemmas.FinvEditHV
import XotModel.Lemmas.FinvUnwrapSites
import XotModel.Lemmas.FinvReads
import XotModel.Lemmas.FinvPrefix
import XotModel.Lemmas.FinvIdIndex
import XotModel.Lemmas.Fcreation
import XotModel.Lemmas.FinvTrav
import XotModel.Lemmas.ArenaExamples
import XotModel.Lemmas.ArenaStaleExamples
import XotModel.Lemmas.ArenaSim
import XotModel.Lemmas.ArenaRemoveRoot
import XotModel.Lemmas.FpxRefineMain
import XotModel.Lemmas.FpxRefineDedupLoop
import XotModel.Lemmas.FhistMono
import XotModel.Lemmas.ReachHist
import XotModel.Lemmas.ReachAxes
import XotModel.Lemmas.ReachScope
import XotModel.Lemmas.ReachRepresentable
import XotModel.Lemmas.FparseHistIds
import XotModel.Lemmas.FparseHistTables
import XotModel.Lemmas.ParseWitness

namespace XotModel.Props
open XotModel

/-- The empty store satisfies the invariant. -/
theorem C04_init : Forest.init.inv = true := by decide

/-- Switching consolidation on or off preserves the invariant (`everOff` is remembered, so the
    no-adjacent-text clause is only claimed while it has never been off). -/
theorem C04_setConsolidation (f : Forest) (b : Bool) (h : f.inv = true) :
    (f.setConsolidation b).inv = true := by
  rw [Forest.inv_iff] at *
  obtain ⟨h1, h2, h3, h4, h5⟩ := h
  refine ⟨h1, h2, h3, ?_, ?_⟩
  · show validList (!(f.everOff || !b)) f.roots = true
    cases b with
    | true => simpa using h4
    | false => simpa using validList_weaken' _ _ h4
  · show b = true ∨ (f.everOff || !b) = true
    cases b <;> simp

/-- Value updates (`set_element_name`, text / comment / PI setters, map updates of an existing
    key) never create, lose or reorder a handle. -/
theorem C04_setValue_handles (f : Forest) (h : Nat) (v : Value) :
    (f.setValue h v).allHandles = f.allHandles := Forest.allHandles_setValue f h v

/-- Non-vacuity: a concrete non-trivial forest satisfying the invariant. -/
example : ({ roots := [.node 0 .document [.node 1 (.element 2) [.node 2 (.namespace 0 2) [], .node 3 (.attribute 3 ['v']) [], .node 4 (.text ['x']) []]]], next := 5 } : Forest).inv = true := by decide

/-! ### Handle bookkeeping of the primitives

Arguments that are not live handles are outside the scope of these statements (hypothesis
`isLive` / `get? = some`); for such arguments the primitives are the identity or drop the tree,
see the definitions. -/

/-- `new_node` adds exactly the fresh handle `f.next`. -/
theorem C04_newNode_handles (f : Forest) (v : Value) :
    (f.newNode v).1.allHandles = f.allHandles ++ [f.next] ∧ (f.newNode v).2 = f.next ∧
    (f.newNode v).1.next = f.next + 1 := ⟨Forest.allHandles_newNode f v, rfl, rfl⟩

/-- `cut` (indextree `detach`): the remaining handles and the handles of the cut subtree
    partition the old handles. -/
theorem C04_cut_handles (f f' : Forest) (h : Nat) (t : HTree) (nd : f.allHandles.Nodup)
    (hc : f.cut h = (f', some t)) : (f'.allHandles ++ HTree.handles t).Perm f.allHandles :=
  Forest.cut_perm nd hc

/-- `remove_subtree`. -/
theorem C04_dropSubtree_handles (f : Forest) (h : Nat) (t : HTree) (nd : f.allHandles.Nodup)
    (hg : f.get? h = some t) : ((f.dropSubtree h).allHandles ++ HTree.handles t).Perm f.allHandles :=
  Forest.dropSubtree_perm nd hg

/-- indextree `remove`: exactly the handle `h` disappears, its children stay. -/
theorem C04_spliceOut_handles (f : Forest) (h : Nat) (nd : f.allHandles.Nodup) (hl : f.isLive h = true) :
    ((f.spliceOut h).allHandles ++ [h]).Perm f.allHandles := Forest.spliceOut_perm nd hl

/-- Raw insertion of a tree next to a live non-root node / under a live node: the new handles
    are the old ones and the tree's. -/
theorem C04_placeAfter_handles (f : Forest) (ref : Nat) (t : HTree) (nd : f.allHandles.Nodup)
    (hl : f.isLive ref = true) (hr : f.isRoot ref = false) :
    (f.placeAfter ref t).allHandles.Perm (f.allHandles ++ HTree.handles t) :=
  Forest.placeAfter_perm t nd hl hr

theorem C04_placeBefore_handles (f : Forest) (ref : Nat) (t : HTree) (nd : f.allHandles.Nodup)
    (hl : f.isLive ref = true) (hr : f.isRoot ref = false) :
    (f.placeBefore ref t).allHandles.Perm (f.allHandles ++ HTree.handles t) :=
  Forest.placeBefore_perm t nd hl hr

theorem C04_placeLast_handles (f : Forest) (p : Nat) (t : HTree) (nd : f.allHandles.Nodup)
    (hl : f.isLive p = true) : (f.placeLast p t).allHandles.Perm (f.allHandles ++ HTree.handles t) :=
  Forest.placeLast_perm t nd hl

theorem C04_placeFirst_handles (f : Forest) (p : Nat) (t : HTree) (nd : f.allHandles.Nodup)
    (hl : f.isLive p = true) : (f.placeFirst p t).allHandles.Perm (f.allHandles ++ HTree.handles t) :=
  Forest.placeFirst_perm t nd hl

/-! ### Preservation of the invariant, operation by operation

Every statement below holds for ALL forests satisfying the invariant and ALL arguments (live
or not: a call on a handle that is not live is refused by the argument checks or is the
identity), and for every outcome of the call (`ok`, `err`, `panic`). -/

/-- Node creation. -/
theorem C04_newNode (f : Forest) (v : Value) (h : f.Inv) : (f.newNode v).1.Inv := Forest.newNode_inv h v
theorem C04_newDocument (f : Forest) (h : f.Inv) : f.newDocument.1.Inv := Forest.newNode_inv h _
theorem C04_newElement (f : Forest) (n : Nat) (h : f.Inv) : (f.newElement n).1.Inv := Forest.newNode_inv h _
theorem C04_newText (f : Forest) (s : Str) (h : f.Inv) : (f.newText s).1.Inv := Forest.newNode_inv h _
theorem C04_newComment (f : Forest) (s : Str) (h : f.Inv) : (f.newComment s).1.Inv := Forest.newNode_inv h _
theorem C04_newPi (f : Forest) (t : Nat) (d : Option Str) (h : f.Inv) : (f.newPi t d).1.Inv :=
  Forest.newNode_inv h _
theorem C04_newAttributeNode (f : Forest) (n : Nat) (v : Str) (h : f.Inv) :
    (f.newAttributeNode n v).1.Inv := Forest.newNode_inv h _
theorem C04_newNamespaceNode (f : Forest) (p n : Nat) (h : f.Inv) :
    (f.newNamespaceNode p n).1.Inv := Forest.newNode_inv h _

/-- The text-consolidation helpers of manipulation.rs keep the invariant for all arguments. -/
theorem C04_removeConsolidate (f : Forest) (prev next : Option Nat) (h : f.Inv) :
    (f.removeConsolidate prev next).1.Inv := Forest.removeConsolidate_inv h prev next
theorem C04_addConsolidate (f : Forest) (node : Nat) (prev next : Option Nat) (h : f.Inv) :
    (f.addConsolidate node prev next).1.Inv := Forest.addConsolidate_inv h node prev next

/-- The moves. -/
theorem C04_append (f : Forest) (parent child : Nat) (h : f.Inv) : (f.append parent child).1.Inv :=
  Forest.append_inv h parent child

theorem C04_prepend (f : Forest) (parent child : Nat) (h : f.Inv) : (f.prepend parent child).1.Inv :=
  Forest.prepend_inv h parent child

theorem C04_insertAfter (f : Forest) (ref new : Nat) (h : f.Inv) : (f.insertAfter ref new).1.Inv :=
  Forest.insertAfter_inv h ref new

theorem C04_insertBefore (f : Forest) (ref new : Nat) (h : f.Inv) : (f.insertBefore ref new).1.Inv :=
  Forest.insertBefore_inv h ref new

theorem C04_detach (f : Forest) (node : Nat) (h : f.Inv) : (f.detach node).1.Inv :=
  Forest.detach_inv h node

theorem C04_remove (f : Forest) (node : Nat) (h : f.Inv) : (f.remove node).1.Inv :=
  Forest.remove_inv h node

/-- Setters: the kind of the value does not change, so neither does validity; in strict mode
    `setText` keeps "no adjacent text" because text-ness does not change. -/
theorem C04_setElementName (f : Forest) (node name : Nat) (h : f.Inv) : (f.setElementName node name).1.Inv :=
  Forest.setElementName_inv h node name

theorem C04_setText (f : Forest) (node : Nat) (s : Str) (h : f.Inv) : (f.setText node s).1.Inv :=
  Forest.setText_inv h node s

theorem C04_setComment (f : Forest) (node : Nat) (s : Str) (h : f.Inv) : (f.setComment node s).1.Inv :=
  Forest.setComment_inv h node s

theorem C04_setPiData (f : Forest) (node : Nat) (d : Option Str) (h : f.Inv) : (f.setPiData node d).1.Inv :=
  Forest.setPiData_inv h node d

/-- A value update that stays within the kind of the old value. -/
theorem C04_setValue (f : Forest) (n : Nat) (v v' : Value) (h : f.Inv) (hv : f.value? n = some v)
    (hk : SameKind v v') (ha : ∀ x, kidAllowed v' x = kidAllowed v x) : (f.setValue n v').Inv :=
  Forest.setValue_inv h hv hk ha

/-- Map removal and what is built from `remove`. -/
theorem C04_mapRemove (f : Forest) (k : Forest.MapKind) (parent key : Nat) (h : f.Inv) :
    (f.mapRemove k parent key).1.Inv := Forest.mapRemove_inv h k parent key

theorem C04_mapClear (f : Forest) (k : Forest.MapKind) (parent : Nat) (h : f.Inv) :
    (f.mapClear k parent).1.Inv := Forest.mapClear_inv h k parent

theorem C04_removeInsignificantWhitespace (f : Forest) (node : Nat) (h : f.Inv) :
    (f.removeInsignificantWhitespace node).Inv := Forest.removeInsignificantWhitespace_inv h node

/-- Non-vacuity of the move theorems: an invariant forest in strict mode on which `append` has to
    merge text on both sides (`<a>x<b/>y</a>`, `<c>z</c>`; append the element `b` to `c`, then the
    text `y`+`x` merge), checked by evaluation. -/
example : let f : Forest := { roots := [.node 0 (.element 1) [.node 1 (.text ['x']) [], .node 2 (.element 2) [], .node 3 (.text ['y']) []], .node 4 (.element 3) [.node 5 (.text ['z']) []]], next := 6 }
    f.inv = true ∧ (f.append 4 2).2 = .ok ∧ (f.append 4 2).1.inv = true ∧
    (f.append 4 1).2 = .ok ∧ (f.append 4 1).1.inv = true ∧ (f.insertAfter 5 3).1.inv = true := by decide

/-! ### Node maps, `any_append`, `text_content_mut` -/

/-- `MutableNodeMap::insert(key, value)`.  The entry value must be of the map's kind — the Rust API
    builds it from the key and the value, so it always is; the model's function takes a raw
    `Value`, and for a value of another kind the statement is false (witness below). -/
theorem C04_mapInsert (f : Forest) (k : Forest.MapKind) (parent : Nat) (entry : Value) (h : f.Inv)
    (hm : k.matches entry = true) : (f.mapInsert k parent entry).1.Inv :=
  Forest.mapInsert_inv h k parent entry hm

/-- `MutableNodeMap::insert_node` (crate-private; the public entry points `append_attribute_node`,
    `append_namespace_node`, `any_append` check that the parent is an element first). -/
theorem C04_mapInsertNode (f : Forest) (k : Forest.MapKind) (parent node : Nat) (h : f.Inv)
    (he : f.isElement parent = true) : (f.mapInsertNode k parent node).1.Inv :=
  Forest.mapInsertNode_inv h k node he

theorem C04_appendEntryNode (f : Forest) (k : Forest.MapKind) (parent child : Nat) (h : f.Inv) :
    (f.appendEntryNode k parent child).1.Inv := Forest.appendEntryNode_inv h k parent child

theorem C04_anyAppend (f : Forest) (parent child : Nat) (h : f.Inv) : (f.anyAppend parent child).1.Inv :=
  Forest.anyAppend_inv h parent child

theorem C04_textContentSet (f : Forest) (node : Nat) (s : Str) (h : f.Inv) :
    (f.textContentSet node s).1.Inv := Forest.textContentSet_inv h node s

/-- Outside the API the two guarded statements above are false of the model: a document value
    inserted as an "attribute", and `insert_node` under a text node. -/
example : let f : Forest := { roots := [.node 0 (.element 1) [], .node 1 (.text ['x']) [], .node 2 (.attribute 3 ['v']) []], next := 3 }
    f.inv = true ∧ (f.mapInsert .attributes 0 .document).1.inv = false ∧
    (f.mapInsertNode .attributes 1 2).1.inv = false := by decide

/-! ### Handles are never re-used: `is_removed` is monotone

`Forest.Le f f'`: `next` has not decreased and every handle of `f'` is a handle of `f` or at least
`f.next`.  It holds for every call of the model — including `replace`, `element_wrap`,
`element_unwrap`, `clone_node` — for all forests and all arguments, without any invariant. -/

theorem C04_step_le (f : Forest) (o : Op) : Forest.Le f (f.step o) := Forest.le_step f o

/-- A removed handle stays removed by any single call … -/
theorem C04_isRemoved_monotone (f : Forest) (o : Op) (h : Nat) (hr : f.isRemoved h = true) :
    (f.step o).isRemoved h = true := Forest.isRemoved_mono (Forest.le_step f o) hr

/-- … and along every history. -/
theorem C04_isRemoved_history (f : Forest) (ops : List Op) (h : Nat) (hr : f.isRemoved h = true) :
    (f.run ops).isRemoved h = true := Forest.isRemoved_mono (Forest.le_run f ops) hr

/-- A handle handed out by a creation call is fresh: it was neither live nor removed before. -/
theorem C04_fresh_handle (f : Forest) (v : Value) (hi : f.Inv) :
    f.isLive (f.newNode v).2 = false ∧ f.isRemoved (f.newNode v).2 = false := by
  constructor
  · cases hl : f.isLive (f.newNode v).2 with
    | false => rfl
    | true => exact absurd (hi.below _ (Forest.mem_allHandles_of_isLive hl)) (Nat.lt_irrefl _)
  · simp [Forest.isRemoved, Forest.newNode]

/-! ### Histories -/

/-- One step: every call in `Op.core` (which is every call) preserves the invariant, whatever
    its arguments and outcome. -/
theorem C04_step (f : Forest) (o : Op) (h : f.Inv) (hc : o.core = true) : (f.step o).Inv :=
  Forest.step_inv h o hc

/-- The handle part of one step: handles stay distinct and below `next`. -/
theorem C04_handles_step (f : Forest) (o : Op) (h : f.Inv) (hc : o.core = true) :
    (f.step o).allHandles.Nodup ∧ ∀ x ∈ (f.step o).allHandles, x < (f.step o).next :=
  ⟨(Forest.step_inv h o hc).nodup, (Forest.step_inv h o hc).below⟩

/-- Every forest reachable from the empty store by calls in `Op.core`, with arbitrary arguments
    (live, removed, or never created), satisfies the invariant. -/
theorem C04_reach (ops : List Op) (hc : ∀ o ∈ ops, o.core = true) : (Forest.init.run ops).Inv :=
  Forest.run_inv ((Forest.inv_iff _).mp C04_init) ops hc

theorem C04_reach_bool (ops : List Op) (hc : ∀ o ∈ ops, o.core = true) : (Forest.init.run ops).inv = true :=
  (Forest.inv_iff _).mpr (C04_reach ops hc)
/-- The same without the (now vacuous) side condition. -/
theorem C04_step_all (f : Forest) (o : Op) (h : f.Inv) : (f.step o).Inv :=
  Forest.step_inv h o (by cases o <;> rfl)

/-- Every forest reachable from the empty store by any sequence of calls of the mutating API,
    with arbitrary arguments and whatever the calls answer, satisfies the invariant. -/
theorem C04_reach_all (ops : List Op) : (Forest.init.run ops).Inv :=
  C04_reach ops (fun o _ => by cases o <;> rfl)

theorem C04_reach_all_bool (ops : List Op) : (Forest.init.run ops).inv = true :=
  (Forest.inv_iff _).mpr (C04_reach_all ops)

/-- Non-vacuity: a history that creates, moves, merges text, removes, and calls on a removed
    handle; evaluated. -/
example : let ops : List Op := [.newElement 1, .newText ['x'], .newElement 2, .newText ['y'],
      .append 0 1, .append 0 2, .append 0 3, .attrInsert 0 7 ['v'], .remove 2, .append 0 2, .setText 1 ['z']]
    (∀ o ∈ ops, o.core = true) ∧ (Forest.init.run ops).inv = true ∧
    (Forest.init.run ops).isRemoved 2 = true ∧ (Forest.init.run ops).isRemoved 3 = true ∧
    (Forest.init.run ops).allHandles = [0, 4, 1] := by decide

/-! ### `replace`, `element_wrap`, `element_unwrap`, `clone_node`

These four take a node out *without* consolidating its former neighbours (`remove_subtree`,
raw `detach`, indextree `remove`) and repair the text adjacency in a later step, so their
intermediate states do not satisfy the invariant in strict mode, and the step lemmas of the moves
cannot simply be chained.  All four statements are proved in full:
`element_wrap` / `element_unwrap` by evaluating their steps on the explicit forest;
`replace` in the gap case (`Forest.textGap = true`: the replaced node sits between two text nodes)
by showing that `insert_after` on the state after `remove_subtree(replaced)` is, step by step, the
same step on the valid forest followed by `remove_subtree(replaced)` — a text replacing node is
merged into the left text and the final consolidation then is `remove(replaced)` on a valid
forest; any other replacing node lands exactly in the hole;
`clone_node` with the C06 lemmas for its guard. -/

def C04_replaceStatement : Prop := ∀ (f : Forest) (a b : Nat), f.Inv → (f.replace a b).1.Inv
def C04_elementWrapStatement : Prop := ∀ (f : Forest) (n name : Nat), f.Inv → (f.elementWrap n name).1.Inv
def C04_elementUnwrapStatement : Prop := ∀ (f : Forest) (n : Nat), f.Inv → (f.elementUnwrap n).1.Inv
def C04_cloneNodeStatement : Prop := ∀ (f : Forest) (n : Nat), f.Inv → (f.cloneNode n).1.Inv

/-- `replace` when the replaced node does not sit between two text nodes in strict mode. -/
theorem C04_replace_partial (f : Forest) (a b : Nat) (h : f.Inv) (hg : f.textGap a = false) :
    (f.replace a b).1.Inv := Forest.replace_inv_of_noGap h a b hg

/-- `replace` in the gap case: the final `remove_consolidate_text_nodes(previous, …)` repairs the
    gap (or the replacing node fills it). -/
theorem C04_replace_gap (f : Forest) (a b : Nat) (h : f.Inv) (hg : f.textGap a = true) :
    (f.replace a b).1.Inv := Forest.replace_inv_of_gap h a b hg

/-- `replace`: full statement. -/
theorem C04_replace (f : Forest) (a b : Nat) (h : f.Inv) : (f.replace a b).1.Inv :=
  Forest.replace_inv h a b

theorem C04_replaceStatement_holds : C04_replaceStatement := fun f a b h => C04_replace f a b h
/-- `element_wrap`: full statement (the gap case by evaluating its steps on the explicit forest). -/
theorem C04_elementWrap (f : Forest) (node name : Nat) (h : f.Inv) : (f.elementWrap node name).1.Inv :=
  Forest.elementWrap_inv h node name

theorem C04_elementWrapStatement_holds : C04_elementWrapStatement := fun f n name h => C04_elementWrap f n name h
/-- The guard is vacuous once consolidation has ever been off. -/
theorem C04_textGap_off (f : Forest) (a : Nat) (h : f.everOff = true) : f.textGap a = false := by
  unfold Forest.textGap; cases f.ctx? a <;> simp [h]

/-- `element_unwrap`: full statement (`remove_element` evaluated on the explicit forest, then the
    two consolidations at the seams). -/
theorem C04_elementUnwrap (f : Forest) (node : Nat) (h : f.Inv) : (f.elementUnwrap node).1.Inv :=
  Forest.elementUnwrap_inv h node

theorem C04_elementUnwrapStatement_holds : C04_elementUnwrapStatement := fun f n h => C04_elementUnwrap f n h
/-- The replay loop of `clone_node` (`new_node` + `any_append` per source node) preserves the
    invariant; `clone_node` of a document or of a leaf node does; for an element the state before
    the final indextree `remove` of the temporary top does. -/
theorem C04_cloneInto (f f' : Forest) (current : Nat) (t : HTree) (h : f.Inv)
    (hc : Forest.cloneInto f current t = some f') : f'.Inv := Forest.cloneInto_inv current t f f' h hc

theorem C04_cloneKids (f f' : Forest) (current : Nat) (ks : List HTree) (h : f.Inv)
    (hc : Forest.cloneKids f current ks = some f') : f'.Inv := Forest.cloneKids_inv current ks f f' h hc

theorem C04_cloneNode_partial (f : Forest) (node : Nat) (h : f.Inv) (hne : f.isElement node = false) :
    (f.cloneNode node).1.Inv := Forest.cloneNode_inv_of_not_element h node hne

/-- `clone_node` of an element, under the decidable guard `Forest.cloneTopOK`: after the replay
    the temporary top element is still parentless and has at most one child, which is what the
    final indextree `remove` of the top needs. -/
theorem C04_cloneNode_guarded (f : Forest) (node : Nat) (h : f.Inv) (hok : f.cloneTopOK node = true) :
    (f.cloneNode node).1.Inv := Forest.cloneNode_inv_of_topOK h node hok

/-- The guard always holds under the invariant (the argument of the C06 lemmas: during the replay
    nothing but the clone's root is ever given the scratch element as parent, and the scratch
    element keeps having no parent). -/
theorem C04_cloneTopOK (f : Forest) (node : Nat) (h : f.Inv) : f.cloneTopOK node = true :=
  Forest.cloneTopOK_of_inv h node

/-- `clone_node`: full statement. -/
theorem C04_cloneNode (f : Forest) (node : Nat) (h : f.Inv) : (f.cloneNode node).1.Inv :=
  Forest.cloneNode_inv h node

theorem C04_cloneNodeStatement_holds : C04_cloneNodeStatement := fun f n h => C04_cloneNode f n h
/-- Non-vacuity: a strict forest with a gap (`<a>x<b/>y</a>`, `b` between two texts) and one
    without; the gap case is not empty. -/
def gapForest : Forest := { roots := [.node 0 (.element 1) [.node 1 (.text ['x']) [], .node 2 (.element 2) [], .node 3 (.text ['y']) []], .node 4 (.text ['z']) [], .node 5 (.element 3) []], next := 6 }
example : gapForest.inv = true ∧ gapForest.textGap 2 = true ∧ gapForest.textGap 1 = false := by decide
example : (gapForest.replace 2 4).1.inv = true := by decide
example : (gapForest.replace 2 5).1.inv = true := by decide
example : (gapForest.replace 1 5).1.inv = true := by decide
example : (gapForest.elementWrap 2 9).1.inv = true := by decide
example : gapForest.cloneTopOK 0 = true := by decide

/-! ### A handle keeps denoting the same value

For creation, the four moves, `detach` and `remove`: a live node that is not text and does not lie
in the subtree the call moves or removes has the same value afterwards (so it is still live).
Text nodes are excluded on purpose: text consolidation rewrites the content of the text node next
to the old or the new site, so for a text node only "still a text node, or merged away" holds.
The setters change exactly the value of their target (`C04_setValue`); the remaining composite
calls are not covered by a stability theorem. -/

theorem C04_value_stable_newNode (f : Forest) (w : Value) (h : Nat) (v : Value)
    (hv : f.value? h = some v) : (f.newNode w).1.value? h = some v :=
  Forest.value_stable_newNode f w hv

theorem C04_value_stable_append (f : Forest) (p c h : Nat) (v : Value) (hi : f.Inv)
    (hv : f.value? h = some v) (hnt : v.isText = false) (hc : c ∉ f.ancestors h) :
    (f.append p c).1.value? h = some v :=
  Forest.value_stable_of_outcome (Forest.append_outcome hi.toW p c) hv hnt hc

theorem C04_value_stable_prepend (f : Forest) (p c h : Nat) (v : Value) (hi : f.Inv)
    (hv : f.value? h = some v) (hnt : v.isText = false) (hc : c ∉ f.ancestors h) :
    (f.prepend p c).1.value? h = some v :=
  Forest.value_stable_of_outcome (Forest.prepend_outcome hi.toW p c) hv hnt hc

theorem C04_value_stable_insertAfter (f : Forest) (r n h : Nat) (v : Value) (hi : f.Inv)
    (hv : f.value? h = some v) (hnt : v.isText = false) (hc : n ∉ f.ancestors h) :
    (f.insertAfter r n).1.value? h = some v :=
  Forest.value_stable_of_outcome (Forest.insertAfter_outcome hi.toW r n) hv hnt hc

theorem C04_value_stable_insertBefore (f : Forest) (r n h : Nat) (v : Value) (hi : f.Inv)
    (hv : f.value? h = some v) (hnt : v.isText = false) (hc : n ∉ f.ancestors h) :
    (f.insertBefore r n).1.value? h = some v :=
  Forest.value_stable_of_outcome (Forest.insertBefore_outcome hi.toW r n) hv hnt hc

theorem C04_value_stable_remove (f : Forest) (n h : Nat) (v : Value) (hi : f.Inv)
    (hv : f.value? h = some v) (hnt : v.isText = false)
    (hsub : ∀ t, f.get? n = some t → h ∉ HTree.handles t) : (f.remove n).1.value? h = some v :=
  Forest.value_stable_remove hi n hv hnt hsub

theorem C04_value_stable_detach (f : Forest) (n h : Nat) (v : Value) (hi : f.Inv)
    (hv : f.value? h = some v) (hnt : v.isText = false)
    (hsub : ∀ t, f.get? n = some t → h ∉ HTree.handles t) : (f.detach n).1.value? h = some v :=
  Forest.value_stable_detach hi n hv hnt hsub

/-- Non-vacuity, and the reason text is excluded: removing `b` from `<a>x<b/>y</a>` keeps the value
    of `a` and rewrites the text `x`. -/
example : (gapForest.remove 2).1.value? 0 = some (.element 1) ∧
    (gapForest.remove 2).1.value? 1 = some (.text ['x', 'y']) := by decide

/-! ### A handle keeps its meaning: every call, every history

`Forest.Call` / `Forest.HStep` / `Op`: all calls of the mutating API.  `c.targets f`
(Model/FlocalSpec.lean) are the handles whose value the call may overwrite: the argument of
`set_element_name` and of the text / comment / PI setters, the text node `text_content_mut` hands
out, and for a map insertion (`insert`, `append_attribute_node`, `append_namespace_node`,
`any_append` of an entry node) the existing entry node of that key; empty for every other call.
`Forest.TextExt v v'`: both are text and the old content is a contiguous part of the new one (what
consolidation does to the text node that survives a merge: `old ++ merged` when the surviving node
is the earlier one, `merged ++ old` when a text node is placed in front of it). -/

/-- One call, whatever its arguments and outcome: a handle live before and after denotes a node
    of the same kind; unless it is a target its value is the same or, for text, extended; a node
    that is not text and not a target has exactly the same value. -/
theorem C04_value_call (f : Forest) (hi : f.Inv) (c : Forest.Call) (x : Nat) (v v' : Value)
    (hv : f.value? x = some v) (hv' : (c.run f).1.value? x = some v') :
    SameKind v v' ∧ (x ∉ c.targets f → v' = v ∨ Forest.TextExt v v') ∧
    (x ∉ c.targets f → v.isText = false → v' = v) :=
  ((Forest.vstep_call (S := fun y => y ∈ c.targets f) hi c (fun _ h => h)).value hi hv hv').cases_any

/-- The same for the steps that are not calls on nodes (creation, set_text_consolidation,
    remove_insignificant_whitespace: no targets). -/
theorem C04_value_step (f : Forest) (hi : f.Inv) (st : Forest.HStep) (x : Nat) (v v' : Value)
    (hv : f.value? x = some v) (hv' : (f.stepAll st).value? x = some v') :
    SameKind v v' ∧ (x ∉ st.targets f → v' = v ∨ Forest.TextExt v v') ∧
    (x ∉ st.targets f → v.isText = false → v' = v) :=
  ((Forest.vstep_stepAll (S := fun y => y ∈ st.targets f) hi st (fun _ h => h)).value hi hv hv').cases_any

/-- A handle that was live is afterwards live or removed (and then stays removed,
    `C04_isRemoved_history`). -/
theorem C04_live_or_removed (f : Forest) (hi : f.Inv) (st : Forest.HStep) (x : Nat)
    (hl : f.isLive x = true) : (f.stepAll st).isLive x = true ∨ (f.stepAll st).isRemoved x = true :=
  (Forest.vstep_stepAll (S := fun _ => True) hi st (fun _ _ => trivial)).live_or_removed hi hl

/-- `clone_node` changes no value at all. -/
theorem C04_value_cloneNode (f : Forest) (hi : f.Inv) (n x : Nat) (v : Value)
    (hv : f.value? x = some v) (hl : (f.cloneNode n).1.isLive x = true) :
    (f.cloneNode n).1.value? x = some v := by
  rw [Forest.isLive_iff_value?] at hl
  cases hv' : (f.cloneNode n).1.value? x with
  | none => rw [hv'] at hl; cases hl
  | some v' =>
    rcases (Forest.vstep_cloneNode (S := fun _ => False) (T := fun _ => False) hi n).value hi hv hv' with h | h | h
    · rw [h]
    · exact h.1.elim
    · exact h.1.elim

/-- Exactly which values a move can change (text included): `append(p, c)` the previous sibling of
    `c` and the last child of `p` (read after the old-site merge); `prepend` the first child;
    `insert_after` / `insert_before` the reference node and its neighbour on the other side;
    `detach` / `remove` the previous sibling. -/
theorem C04_value_exact_append (f : Forest) (hi : f.Inv) (p c x : Nat) (v v' : Value)
    (hv : f.value? x = some v) (hv' : (f.append p c).1.value? x = some v')
    (hx : x ∉ f.appendSites p c) : v' = v := Forest.append_value_exact hi p c hv hv' hx
theorem C04_value_exact_prepend (f : Forest) (hi : f.Inv) (p c x : Nat) (v v' : Value)
    (hv : f.value? x = some v) (hv' : (f.prepend p c).1.value? x = some v')
    (hx : x ∉ f.prependSites p c) : v' = v := Forest.prepend_value_exact hi p c hv hv' hx
theorem C04_value_exact_insertAfter (f : Forest) (hi : f.Inv) (r c x : Nat) (v v' : Value)
    (hv : f.value? x = some v) (hv' : (f.insertAfter r c).1.value? x = some v')
    (hx : x ∉ f.insertAfterSites r c) : v' = v := Forest.insertAfter_value_exact hi r c hv hv' hx
theorem C04_value_exact_insertBefore (f : Forest) (hi : f.Inv) (r c x : Nat) (v v' : Value)
    (hv : f.value? x = some v) (hv' : (f.insertBefore r c).1.value? x = some v')
    (hx : x ∉ f.insertBeforeSites r c) : v' = v := Forest.insertBefore_value_exact hi r c hv hv' hx
theorem C04_value_exact_detach (f : Forest) (hi : f.Inv) (n x : Nat) (v v' : Value)
    (hv : f.value? x = some v) (hv' : (f.detach n).1.value? x = some v')
    (hx : f.prevSibling n ≠ some x) : v' = v := Forest.detach_value_exact hi n hv hv' hx
theorem C04_value_exact_remove (f : Forest) (hi : f.Inv) (n x : Nat) (v v' : Value)
    (hv : f.value? x = some v) (hv' : (f.remove n).1.value? x = some v')
    (hx : f.prevSibling n ≠ some x) : v' = v := Forest.remove_value_exact hi n hv hv' hx

/-- The root `c` of a moved subtree, if still live after the move, has exactly its old value: a
    text node arriving next to a text node is merged into it and removed (the earlier node, or the
    node already there, survives), otherwise nothing writes to the moved node. -/
theorem C04_value_moved_root (f : Forest) (hi : f.Inv) (a c : Nat) (v v' : Value) (hv : f.value? c = some v) :
    ((f.append a c).1.value? c = some v' → v' = v) ∧ ((f.prepend a c).1.value? c = some v' → v' = v) ∧
    ((f.insertAfter a c).1.value? c = some v' → v' = v) ∧
    ((f.insertBefore a c).1.value? c = some v' → v' = v) :=
  ⟨Forest.append_root_exact hi a c hv, Forest.prepend_root_exact hi a c hv,
   Forest.insertAfter_root_exact hi a c hv, Forest.insertBefore_root_exact hi a c hv⟩
/-- Inside a moved subtree every other node keeps its value exactly, text nodes too. -/
theorem C04_value_moved_append (f : Forest) (hi : f.Inv) (p c x : Nat) (tc : HTree) (v v' : Value)
    (hg : f.get? c = some tc) (hx : x ∈ HTree.handles tc) (hxc : x ≠ c)
    (hv : f.value? x = some v) (hv' : (f.append p c).1.value? x = some v') : v' = v :=
  Forest.append_subtree_exact hi p c hg hx hxc hv hv'
theorem C04_value_moved_prepend (f : Forest) (hi : f.Inv) (p c x : Nat) (tc : HTree) (v v' : Value)
    (hg : f.get? c = some tc) (hx : x ∈ HTree.handles tc) (hxc : x ≠ c)
    (hv : f.value? x = some v) (hv' : (f.prepend p c).1.value? x = some v') : v' = v :=
  Forest.prepend_subtree_exact hi p c hg hx hxc hv hv'
theorem C04_value_moved_insertAfter (f : Forest) (hi : f.Inv) (r c x : Nat) (tc : HTree) (v v' : Value)
    (hg : f.get? c = some tc) (hx : x ∈ HTree.handles tc) (hxc : x ≠ c)
    (hv : f.value? x = some v) (hv' : (f.insertAfter r c).1.value? x = some v') : v' = v :=
  Forest.insertAfter_subtree_exact hi r c hg hx hxc hv hv'
theorem C04_value_moved_insertBefore (f : Forest) (hi : f.Inv) (r c x : Nat) (tc : HTree) (v v' : Value)
    (hg : f.get? c = some tc) (hx : x ∈ HTree.handles tc) (hxc : x ≠ c)
    (hv : f.value? x = some v) (hv' : (f.insertBefore r c).1.value? x = some v') : v' = v :=
  Forest.insertBefore_subtree_exact hi r c hg hx hxc hv hv'

/-- Summary.  Along any history of calls, between any two points of time `pre` and `pre ++ mid` at
    which the handle `h` is live (it is then live throughout, `C04_isRemoved_history`): the node
    kind is the same; if no call in between had `h` among its targets (each call judged in the
    state it is issued in, `Forest.neverTarget`) the value is the same, text content possibly
    extended by consolidation; so a node that is not text has exactly the same value. -/
theorem C04_handle_meaning (f : Forest) (hi : f.Inv) (pre mid : List Op) (h : Nat) (v v' : Value)
    (hv : (f.run pre).value? h = some v) (hv' : ((f.run pre).run mid).value? h = some v') :
    SameKind v v' ∧ ((f.run pre).neverTarget h mid → v' = v ∨ Forest.TextExt v v') ∧
    ((f.run pre).neverTarget h mid → v.isText = false → v' = v) := by
  have hi1 : (f.run pre).Inv := Forest.run_inv hi pre (fun o _ => by cases o <;> rfl)
  have key := Forest.history_value mid hi1 hv hv'
  refine ⟨key.1, key.2, fun hn hnt => ?_⟩
  rcases key.2 hn with e | e
  · exact e
  · exact (e.of_nontext hnt).elim

/-- Non-vacuity: wrap / replace / map update / clone / whitespace removal on `gapForest`
    (`<a>x<b/>y</a>`, text `z`, element 5): element 0 keeps its value, the text 1 is extended when
    `b` is replaced by the text `z`; the attribute update is a target. -/
def hmOps : List Op := [.elementWrap 2 9, .attrInsert 0 7 ['v'], .cloneNode 0, .replace 2 4,
  .removeInsignificantWhitespace 0, .attrInsert 0 7 ['w'], .elementUnwrap 6]
example : gapForest.Inv := (Forest.inv_iff _).mp (by decide)
example : gapForest.value? 0 = some (.element 1) ∧ (gapForest.run hmOps).value? 0 = some (.element 1) ∧
    gapForest.value? 1 = some (.text ['x']) ∧ (gapForest.run hmOps).value? 1 = some (.text ['x', 'z', 'y']) ∧
    gapForest.neverTarget 0 hmOps ∧ (gapForest.run hmOps).isRemoved 3 = true := by decide +kernel
example : (gapForest.run (hmOps.take 2)).value? 7 = some (.attribute 7 ['v']) ∧
    (gapForest.run hmOps).value? 7 = some (.attribute 7 ['w']) ∧
    ¬ (gapForest.run (hmOps.take 2)).neverTarget 7 (hmOps.drop 2) := by decide +kernel
example : gapForest.appendSites 5 2 = [1] ∧ gapForest.insertAfterSites 3 4 = [3] := by decide +kernel

/-! ### No read hands out a removed node -/

/-- Every handle returned by a node-returning read (`Forest.Read`: parent, first_child, last_child,
    next_sibling, previous_sibling, ancestors, children, descendants, the nodes of the attribute /
    namespace maps, the map lookup, the roots) is live, hence not removed. -/
theorem C04_reads_live (f : Forest) (hi : f.Inv) (r : Forest.Read) (x : Nat) (hx : x ∈ r.result f) :
    f.isLive x = true ∧ f.isRemoved x = false :=
  ⟨Forest.reads_live hi r x hx, Forest.isRemoved_false_of_live (Forest.reads_live hi r x hx)⟩

/-- `is_removed(h)`: handed out earlier and not in the forest any more. -/
theorem C04_isRemoved_iff (f : Forest) (h : Nat) :
    f.isRemoved h = true ↔ h < f.next ∧ f.isLive h = false := by simp [Forest.isRemoved]

/-- What a lookup returns is the node asked for, and all its nodes are live. -/
theorem C04_get_live (f : Forest) (h x : Nat) (t : HTree) (hg : f.get? h = some t)
    (hx : x ∈ HTree.handles t) : t.handle = h ∧ f.isLive x = true :=
  ⟨Forest.get?_handle hg, Forest.live_of_get?_mem hg hx⟩

example : (Forest.Read.children 0).result gapForest = [1, 2, 3] ∧
    (Forest.Read.previousSibling 2).result gapForest = [1] := by decide

/-! ### `create_missing_prefixes`, `deduplicate_namespaces` in the forest model

Model/FatomSpec2.lean: after a read-only walk (the tree-level models of Repair.lean / Scope.lean on
the erased root tree) both change the store only through `namespaces_mut(n).insert(prefix, ns)` /
`namespaces_mut(n).remove(prefix)`, i.e. through `Forest.Call`s, run in the order the Rust issues
them (`Forest.repairCalls`, `Forest.dedupCalls` — one pass —, `Forest.runCalls`). -/

/-- Every call of `Forest.Call` preserves the invariant (a map insertion carrying an entry of the
    map's kind, as the Rust API constructs it). -/
theorem C04_call_inv (f : Forest) (hi : f.Inv) (c : Forest.Call) (hw : c.wellKinded) : (c.run f).1.Inv :=
  Forest.call_inv hi c hw

/-- … hence every sequence of them. -/
theorem C04_runCalls (f : Forest) (hi : f.Inv) (cs : List Forest.Call) (hw : ∀ c ∈ cs, c.wellKinded) :
    (f.runCalls cs).1.Inv := Forest.runCalls_inv cs hi hw

/-- `create_missing_prefixes(node)`: for every vocabulary, every node (element, document with
    several top-level elements, or a node it refuses), whatever it answers. -/
theorem C04_step_prefixes (f : Forest) (hi : f.Inv) (env : Env) (node : Nat) :
    (f.createMissingPrefixes env node).1.Inv := Forest.createMissingPrefixes_inv hi env node

/-- `deduplicate_namespaces(node)`: passes until one removes nothing; every pass is a sequence of
    `remove` calls, so the invariant holds after each of them and at the end. -/
theorem C04_step_dedup (f : Forest) (hi : f.Inv) (env : Env) (node : Nat) :
    (f.deduplicateNamespaces env node).1.Inv := Forest.deduplicateNamespaces_inv hi env node

/-- … for every pass: the loop cut off after any number of rounds leaves a forest with the invariant. -/
theorem C04_step_dedup_passes (f : Forest) (hi : f.Inv) (env : Env) (node fuel : Nat) :
    (Forest.dedupLoop env node fuel f).1.Inv := Forest.dedupLoop_inv env node fuel hi

/-- Non-vacuity: `<a:e xmlns:p="urn:u"><a:e xmlns:p="urn:u"/></a:e>` with name 1 in namespace 2 and
    no prefix for it in scope … one `n0` declaration is created; the inner duplicate of `p` is removed. -/
def pfxEnv : Env :=
  { namespaces := [[], ['x'], ['u'], ['w']], prefixes := [[], ['x','m','l'], ['p']],
    names := [(['s'], 1), (['e'], 3)] }
def pfxForest : Forest := { roots := [.node 0 (.element 1) [.node 1 (.namespace 2 2) [],
  .node 2 (.element 1) [.node 3 (.namespace 2 2) []]]], next := 4 }
example : pfxForest.inv = true := by decide
example : ((pfxForest.createMissingPrefixes pfxEnv 0).1.get? 0).map (fun t => t.kids.map (·.value)) =
    some [.namespace 2 2, .namespace 3 3, .element 1] ∧
    (pfxForest.createMissingPrefixes pfxEnv 0).2.2 = .ok ∧
    (pfxForest.createMissingPrefixes pfxEnv 0).2.1.prefixes = [[], ['x','m','l'], ['p'], ['n', '0']] ∧
    (pfxForest.createMissingPrefixes pfxEnv 2).2.2 = .ok ∧
    (pfxForest.createMissingPrefixes pfxEnv 1).2.2 = .err .notElement := by decide +kernel
example : (pfxForest.deduplicateNamespaces pfxEnv 0).1.allHandles = [0, 1, 2] ∧
    (pfxForest.deduplicateNamespaces pfxEnv 0).2 = .ok := by decide +kernel

/-! ### `create_missing_prefixes`: the forest model refines the tree model of C10

The forest model (`Forest.createMissingPrefixes`, Model/FatomSpec2.lean) computes its insertions from
the erased root tree and runs them through handles, re-erasing after every top-level element; the
tree model (`createMissingPrefixes`, Model/Repair.lean, the subject of every `C10_repair_*` theorem in
Props/C10) rebuilds the subtree in one pass and threads the tree through the document loop.  The
theorems below (Lemmas/FpxRefine*.lean) say the two agree on every forest satisfying the invariant:
same interning tables, same outcome, and the erased root tree of the forest model IS the tree model's
result — so the C10 theorems hold of forest histories (`C10_forest_repair_writable`; with the round trip:
`C10_reachable_repair_roundtrip` in Props/C10.lean, which imports this file).  They live here
(not in Props/C10) because they are about handles staying meaningful: the handles of existing nodes
are unchanged, every other parentless tree is untouched.

`r` is the parentless tree containing `node` and `path` the path of `node` in it; both exist for every
live handle (`Forest.rootOf?_of_live`). -/

/-- ELEMENT.  `create_missing_prefixes(node)` on an element of a forest with the invariant answers
    `Ok`; the tree model on `(r.erase, path)` answers `Ok` with the SAME interning tables and the erasure
    of the new root tree `r'`; `r'` is the root tree of `node` afterwards, `node` is found at the same
    path; every other parentless tree is untouched; the handles of `r'` that existed before the call
    are exactly the handles of `r`, in the same document order (new namespace nodes get fresh
    handles); the path of every node that is not strictly below `node` is unchanged. -/
theorem C10_forest_repair_refines_tree (f : Forest) (hi : f.Inv) (env : Env) (node : Nat)
    (he : f.isElement node = true) (r : HTree) (hr : f.rootOf? node = some r) (path : Path)
    (hp : r.pathOf node = some path) :
    ∃ r' : HTree,
      (f.createMissingPrefixes env node).2.2 = .ok ∧
      createMissingPrefixes env r.erase path = .ok ((f.createMissingPrefixes env node).2.1, r'.erase) ∧
      (f.createMissingPrefixes env node).1.rootOf? node = some r' ∧
      r'.pathOf node = some path ∧
      (f.createMissingPrefixes env node).1.roots =
        f.roots.map (fun y => if (y.pathOf node).isSome then r' else y) ∧
      r'.handles.filter (· < f.next) = r.handles ∧
      f.next ≤ (f.createMissingPrefixes env node).1.next ∧
      ∀ x q, r.pathOf x = some q → (path <+: q → q = path) → r'.pathOf x = some q := by
  obtain ⟨r', h1, _, h3, h4, h5, h6, h7, h8, _, h10⟩ := Forest.fpxr_element hi env he hr hp
  exact ⟨r', h1, h3, h4, h5, h6, h7, h8, h10⟩

/-- On an element both models are their `create_missing_prefixes_for_element`. -/
theorem C10_forest_repair_element_branch (f : Forest) (hi : f.Inv) (env : Env) (node : Nat)
    (he : f.isElement node = true) (r : HTree) (hr : f.rootOf? node = some r) (path : Path)
    (hp : r.pathOf node = some path) :
    f.createMissingPrefixes env node = f.repairElementF env node ∧
      createMissingPrefixes env r.erase path = repairElement env r.erase path :=
  Forest.fpxr_cmp_element hi env he hr hp

/-- DOCUMENT / FRAGMENT with at least one element child: the loop over the top-level elements.  The
    forest model re-erases the root after every element, the tree model threads the tree; they agree
    because a call changes nothing outside the strict subtree of its element.  Same conclusions as
    for an element; paths are unchanged for every node at most one level below `node` (the document,
    its ancestors, its children — the repaired elements themselves). -/
theorem C10_forest_repair_refines_tree_document (f : Forest) (hi : f.Inv) (env : Env) (node : Nat)
    (hd : f.isDocument node = true)
    (hk : ∃ D k, f.get? node = some D ∧ k ∈ D.kids ∧ k.value.isElement = true)
    (r : HTree) (hr : f.rootOf? node = some r) (path : Path) (hp : r.pathOf node = some path) :
    ∃ r' : HTree,
      (f.createMissingPrefixes env node).2.2 = .ok ∧
      createMissingPrefixes env r.erase path = .ok ((f.createMissingPrefixes env node).2.1, r'.erase) ∧
      (f.createMissingPrefixes env node).1.rootOf? node = some r' ∧
      r'.pathOf node = some path ∧
      (f.createMissingPrefixes env node).1.roots =
        f.roots.map (fun y => if (y.pathOf node).isSome then r' else y) ∧
      r'.handles.filter (· < f.next) = r.handles ∧
      f.next ≤ (f.createMissingPrefixes env node).1.next ∧
      ∀ x q, r.pathOf x = some q → q.length ≤ path.length + 1 → r'.pathOf x = some q := by
  obtain ⟨r', h1, _, h3, h4, h5, h6, h7, h8, _, h10⟩ := Forest.fpxr_document hi env hd hk hr hp
  exact ⟨r', h1, h3, h4, h5, h6, h7, h8, h10⟩

/-- REFUSALS.  `NotElement` (neither element nor document) and `NoElementAtTopLevel` (a document
    without element child): both models refuse with the same error, the forest and the interning
    tables are returned as they were. -/
theorem C10_forest_repair_refusals (f : Forest) (hi : f.Inv) (env : Env) (node : Nat)
    (r : HTree) (hr : f.rootOf? node = some r) (path : Path) (hp : r.pathOf node = some path) :
    (f.isElement node = false → f.isDocument node = false →
      f.createMissingPrefixes env node = (f, env, .err .notElement) ∧
      createMissingPrefixes env r.erase path = .err .notElement) ∧
    (f.isDocument node = true → (∀ D, f.get? node = some D → ∀ k ∈ D.kids, k.value.isElement = false) →
      f.createMissingPrefixes env node = (f, env, .err .noElementAtTopLevel) ∧
      createMissingPrefixes env r.erase path = .err .noElementAtTopLevel) :=
  ⟨fun he hd => Forest.fpxr_cmp_notElement hi env he hd hr hp,
   fun hd hno => (Forest.fpxr_createMissingPrefixes_document hi env hd hr hp).1 hno⟩

/-- The side condition of the tree-level C10 theorems (no element declares a prefix twice below the
    node) holds of the erasure of every live subtree of a forest with the invariant. -/
theorem C10_forest_uniqueBelow (f : Forest) (hi : f.Inv) (node : Nat) (S : HTree) (hg : f.get? node = some S) :
    UniqueBelow S.erase := Forest.fpxr_uniqueBelow hi hg

/-- COROLLARY (WRITABLE of C10, `C10_repair_writable`, for forest histories): after
    `create_missing_prefixes` on a live element of a forest with the invariant, the serialiser's
    `MissingPrefix` checks (`namesWritable`) pass on the erased root tree at the path of the node —
    with no hypothesis on the tree beyond `Forest.Inv`. -/
theorem C10_forest_repair_writable (f : Forest) (hi : f.Inv) (env : Env) (hok : Repair.EnvOk env) (node : Nat)
    (he : f.isElement node = true) (r : HTree) (hr : f.rootOf? node = some r) (path : Path)
    (hp : r.pathOf node = some path) :
    ∃ r' : HTree, (f.createMissingPrefixes env node).1.rootOf? node = some r' ∧ r'.pathOf node = some path ∧
      namesWritable (f.createMissingPrefixes env node).2.1 r'.erase path = some true :=
  Forest.fpxr_element_writable hi env hok he hr hp

/-- Non-vacuity on `pfxForest`: the hypotheses hold for the root element (path `[]`) and the inner
    element (handle 2, path `[1]`: one namespace node before it); before the call the names are not
    writable, the tree model answers `Ok`, afterwards they are writable; the inner element keeps its
    handle and its path shifts by the one new namespace node (it is strictly below the repaired
    element), the old handles keep their order. -/
example : pfxForest.Inv ∧ Repair.EnvOk pfxEnv ∧ pfxForest.isElement 0 = true ∧ pfxForest.isElement 2 = true ∧
    (pfxForest.rootOf? 2).map (·.handle) = some 0 ∧
    (pfxForest.rootOf? 2).bind (·.pathOf 2) = some [1] ∧
    (pfxForest.rootOf? 0).bind (·.pathOf 0) = some [] :=
  ⟨(Forest.inv_iff _).mp (by decide), rfl, by decide, by decide, by decide, by decide, by decide⟩
example : (pfxForest.rootOf? 0).bind (fun r => namesWritable pfxEnv r.erase []) = some false ∧
    (pfxForest.rootOf? 0).map (fun r => match createMissingPrefixes pfxEnv r.erase [] with
      | .ok _ => true
      | _ => false) = some true ∧
    ((pfxForest.createMissingPrefixes pfxEnv 0).1.rootOf? 0).bind
      (fun r' => namesWritable (pfxForest.createMissingPrefixes pfxEnv 0).2.1 r'.erase []) = some true ∧
    ((pfxForest.createMissingPrefixes pfxEnv 0).1.rootOf? 2).bind (·.pathOf 2) = some [2] ∧
    ((pfxForest.createMissingPrefixes pfxEnv 0).1.rootOf? 0).map (·.handles) = some [0, 1, 4, 2, 3] ∧
    ((pfxForest.createMissingPrefixes pfxEnv 2).1.rootOf? 2).bind (·.pathOf 2) = some [1] := by
  decide +kernel

/-- Non-vacuity of the document case: a fragment with two top-level elements, both needing a prefix;
    the second element is found at the same path after the first was repaired. -/
def pfxDocForest : Forest := { roots := [.node 0 .document [.node 1 (.element 1) [],
  .node 2 (.element 1) [.node 3 (.namespace 2 2) []]], .node 4 (.text ['z']) []], next := 5 }
example : pfxDocForest.Inv ∧ pfxDocForest.isDocument 0 = true ∧
    (pfxDocForest.rootOf? 0).bind (·.pathOf 0) = some [] ∧
    (∃ D k, pfxDocForest.get? 0 = some D ∧ k ∈ D.kids ∧ k.value.isElement = true) :=
  ⟨(Forest.inv_iff _).mp (by decide), by decide, by decide,
   ⟨_, .node 1 (.element 1) [], rfl, by simp [HTree.kids], rfl⟩⟩
example : (pfxDocForest.createMissingPrefixes pfxEnv 0).2.2 = .ok ∧
    ((pfxDocForest.createMissingPrefixes pfxEnv 0).1.rootOf? 0).map (·.handles) = some [0, 1, 5, 2, 3, 6] ∧
    ((pfxDocForest.createMissingPrefixes pfxEnv 0).1.rootOf? 2).bind (·.pathOf 2) = some [1] ∧
    (pfxDocForest.createMissingPrefixes pfxEnv 0).1.roots.map (·.handle) = [0, 4] ∧
    (pfxDocForest.createMissingPrefixes pfxEnv 4).2.2 = .err .notElement := by
  decide +kernel

/-! ### `deduplicate_namespaces`: the forest model refines the tree model of C15

The forest model (`Forest.deduplicateNamespaces`, `Forest.dedupLoop`, `Forest.dedupCalls` — one pass —,
Model/FatomSpec2.lean) takes `to_remove` of every pass from the erased root tree (the same
`dedupToRemove` the tree model uses) and removes through HANDLES, in traversal order, as the Rust does;
the tree model (`deduplicateNamespaces`, `dedupLoop`, `dedupPass`, Model/Scope.lean, the subject of every
theorem of Props/C15) names nodes by PATHS of raw child indices, which a removal on an ancestor shifts,
and therefore removes last entry first.  The theorems below (Lemmas/FpxRefineDedup*.lean) say the two
agree on every forest satisfying the invariant — removals on different elements touch different child
lists, two removals on one child list commute (`removeNsKid_comm`) —, pass by pass and for the loop (both
models give it the size of the erased root tree plus one as fuel).  So the C15 theorems hold of forest
histories (`C15_forest_dedup_idem`, `C15_forest_dedup_serialises`; with the reparse clause:
`C15_reachable_dedup` in Props/C15.lean, which imports this file).  They live here because they are about handles
staying meaningful: no handle is created, the handles afterwards are the old ones without those of the
removed namespace nodes, every other parentless tree is untouched.

`r` is the parentless tree containing `node`, `path` the path of `node` in it. -/

/-- ONE PASS (`deduplicate_namespaces_pass`).  Running the calls of one pass (`Forest.dedupCalls`) on a
    forest with the invariant answers `Ok`; the tree-level pass on `(r.erase, path, S.erase)` (`S` the
    subtree of `node`) reports a removal exactly if the forest-level call list is not empty, and its
    tree is the erasure of the new root tree `r'`; `r'` is the root tree of `node` afterwards and `node`
    is found at the same path; every other parentless tree is untouched, `next` is unchanged; the handles
    of `r'` are a sublist of the handles of `r` (document order kept, none new), the `(handle, value)`
    pairs of the nodes that are not namespace nodes are unchanged (`C15_forest_dedup_only_namespace_nodes_go`
    reads this handle by handle); the path of every node that is not strictly below `node` is unchanged. -/
theorem C15_forest_dedup_pass_refines_tree (f : Forest) (hi : f.Inv) (env : Env) (node : Nat)
    (r : HTree) (hr : f.rootOf? node = some r) (path : Path) (hp : r.pathOf node = some path) :
    ∃ S r' : HTree, r.at? path = some S ∧
      (f.runCalls (f.dedupCalls env node)).2 = .ok ∧
      (dedupPass env r.erase path S.erase).2 = !(f.dedupCalls env node).isEmpty ∧
      (dedupPass env r.erase path S.erase).1 = r'.erase ∧
      (f.runCalls (f.dedupCalls env node)).1.rootOf? node = some r' ∧
      r'.pathOf node = some path ∧
      (f.runCalls (f.dedupCalls env node)).1.roots =
        f.roots.map (fun y => if (y.pathOf node).isSome then r' else y) ∧
      (f.runCalls (f.dedupCalls env node)).1.next = f.next ∧
      r'.handles.Sublist r.handles ∧
      (hv r').filter HTree.notNsPair = (hv r).filter HTree.notNsPair ∧
      ∀ x q, r.pathOf x = some q → (path <+: q → q = path) → r'.pathOf x = some q := by
  obtain ⟨S, r', h1, _, h3, h4, h5, _, h7, h8, h9, h10, h11⟩ := Forest.fpxd_pass hi env hr hp
  refine ⟨S, r', h1, by rw [h4], by rw [h3]; rfl, h5.symm, h7, h8, by rw [h4], by rw [h4], h9, h10, h11⟩

/-- **`deduplicate_namespaces(node)`: the forest model refines the tree model.**  On a forest with the
    invariant the call answers `Ok`; the tree model on `(r.erase, path)` returns the erasure of the new
    root tree `r'` — so every theorem of Props/C15 about `deduplicateNamespaces env r.erase path` is a
    theorem about the forest after the call —; `r'` is the root tree of `node` afterwards, `node` is
    found at the same path; every other parentless tree is untouched; `next` is unchanged; the handles
    of `r'` are a sublist of the handles of `r`; the `(handle, value)` pairs of the nodes that are not
    namespace nodes are unchanged; the path of every node not strictly below `node` is unchanged. -/
theorem C15_forest_dedup_refines_tree (f : Forest) (hi : f.Inv) (env : Env) (node : Nat)
    (r : HTree) (hr : f.rootOf? node = some r) (path : Path) (hp : r.pathOf node = some path) :
    ∃ r' : HTree,
      (f.deduplicateNamespaces env node).2 = .ok ∧
      deduplicateNamespaces env r.erase path = some r'.erase ∧
      (f.deduplicateNamespaces env node).1.rootOf? node = some r' ∧
      r'.pathOf node = some path ∧
      (f.deduplicateNamespaces env node).1.roots =
        f.roots.map (fun y => if (y.pathOf node).isSome then r' else y) ∧
      (f.deduplicateNamespaces env node).1.next = f.next ∧
      r'.handles.Sublist r.handles ∧
      (hv r').filter HTree.notNsPair = (hv r).filter HTree.notNsPair ∧
      ∀ x q, r.pathOf x = some q → (path <+: q → q = path) → r'.pathOf x = some q := by
  obtain ⟨r', h1, h2, _, h4, h5, h6, h7, h8⟩ := Forest.fpxd_deduplicateNamespaces hi env hr hp
  exact ⟨r', by rw [h1], h2, h4, h5, by rw [h1], by rw [h1], h6, h7, h8⟩

/-- … the loop cut off after ANY number of rounds (the `fuel` of both models): the forest-level loop
    erases to the tree-level loop with the same fuel. -/
theorem C15_forest_dedup_passes_refine_tree (f : Forest) (hi : f.Inv) (env : Env) (node fuel : Nat)
    (r : HTree) (hr : f.rootOf? node = some r) (path : Path) (hp : r.pathOf node = some path) :
    ∃ r' : HTree,
      (Forest.dedupLoop env node fuel f).2 = .ok ∧
      dedupLoop env path fuel r.erase = r'.erase ∧
      (Forest.dedupLoop env node fuel f).1.rootOf? node = some r' ∧
      r'.pathOf node = some path ∧
      (Forest.dedupLoop env node fuel f).1.roots =
        f.roots.map (fun y => if (y.pathOf node).isSome then r' else y) := by
  obtain ⟨r', h1, h2, _, h4, h5, _⟩ := Forest.fpxd_loop env node path fuel hi hr hp
  exact ⟨r', by rw [h1], h2.symm, h4, h5, by rw [h1]⟩

/-- What the unchanged non-namespace `(handle, value)` pairs say handle by handle: a handle of the old
    root tree that the new root tree lacks was a namespace node; all other handles are kept. -/
theorem C15_forest_dedup_only_namespace_nodes_go (f : Forest) (hi : f.Inv) (r r' : HTree) (hrm : r ∈ f.roots)
    (hv' : (hv r').filter HTree.notNsPair = (hv r).filter HTree.notNsPair) :
    ∀ x ∈ r.handles, x ∉ r'.handles → ∃ p ns, f.value? x = some (.namespace p ns) :=
  Forest.fpxd_only_namespace_nodes_go hi hrm hv'

/-- COROLLARY (`C15_idem` for forest histories): **a second forest-level call changes nothing** — for
    every forest with the invariant, every vocabulary, every node argument (live or not); the first
    pass of the second call finds nothing to remove. -/
theorem C15_forest_dedup_idem (f : Forest) (hi : f.Inv) (env : Env) (node : Nat) :
    (f.deduplicateNamespaces env node).1.deduplicateNamespaces env node =
      ((f.deduplicateNamespaces env node).1, .ok) :=
  Forest.fpxd_idem hi env node

/-- COROLLARY (`C15_serialises` for forest histories): **a tree that serialised before still
    serialises** — if the serialiser's `MissingPrefix` checks (`namesWritable` = `to_string` finds a
    prefix for every element and attribute name) passed on the erased root tree before
    `deduplicate_namespaces(node)`, at the root or at the call node, they pass on the erased root tree
    afterwards; more generally for every start path `q` that is not strictly inside the subtree of
    `node`.  No hypothesis beyond `Forest.Inv`: the tree-level side condition (no element declares a
    prefix twice) comes from the invariant (`C10_forest_uniqueBelow`). -/
theorem C15_forest_dedup_serialises (f : Forest) (hi : f.Inv) (env : Env) (node : Nat)
    (r : HTree) (hr : f.rootOf? node = some r) (path : Path) (hp : r.pathOf node = some path) :
    ∃ r' : HTree, (f.deduplicateNamespaces env node).1.rootOf? node = some r' ∧ r'.pathOf node = some path ∧
      (namesWritable env r.erase [] = some true → namesWritable env r'.erase [] = some true) ∧
      (namesWritable env r.erase path = some true → namesWritable env r'.erase path = some true) ∧
      ∀ q, (∀ s, q = path ++ s → s = []) → namesWritable env r.erase q = some true →
        namesWritable env r'.erase q = some true := by
  obtain ⟨r', h1, h2, h3⟩ := Forest.fpxd_serialises hi env hr hp
  exact ⟨r', h1, h2, h3 [] (fun _ h => (List.append_eq_nil_iff.1 h.symm).2),
    h3 path (fun _ h => List.self_eq_append_right.1 h), h3⟩

/-- Non-vacuity: `<r xmlns:q="N" xmlns:r="M"><e xmlns:p="N"><x xmlns:q="M"/></e></r>` (the tree
    `c15TwoPassWitness` of Props/C15 with handles, plus a second parentless tree).  The call on the root
    element needs TWO removing passes: pass 1 issues one call (`remove(q)` on `x`, handle 4), pass 2 one
    call (`remove(p)` on `e`, handle 2), pass 3 none.  The hypotheses hold for the root (path `[]`) and
    for `e` (handle 2, path `[2]`); the names are writable before and after; the innermost element keeps
    its handle 4 while its path changes from `[2, 1]` to `[2, 0]`; the handles of the two removed
    namespace nodes (3 and 5) are gone, the other tree is untouched, a second call changes nothing. -/
def dedupForest : Forest := { roots := [.node 0 (.element 0) [.node 1 (.namespace 2 2) [],
  .node 6 (.namespace 3 3) [], .node 2 (.element 0) [.node 3 (.namespace 4 2) [],
    .node 4 (.element 0) [.node 5 (.namespace 2 3) []]]], .node 7 (.text ['z']) []], next := 8 }
example : dedupForest.Inv ∧
    (dedupForest.rootOf? 0).map (·.handle) = some 0 ∧ (dedupForest.rootOf? 0).bind (·.pathOf 0) = some [] ∧
    (dedupForest.rootOf? 2).map (·.handle) = some 0 ∧ (dedupForest.rootOf? 2).bind (·.pathOf 2) = some [2] :=
  ⟨(Forest.inv_iff _).mp (by decide), by decide, by decide, by decide, by decide⟩
/-- A removal call as `(element, prefix)`. -/
def dedupCallView : Forest.Call → Option (Nat × Nat)
  | .mapRemove .namespaces h p => some (h, p)
  | _ => none
example : (dedupForest.dedupCalls {} 0).map dedupCallView = [some (4, 2)] ∧
    ((dedupForest.runCalls (dedupForest.dedupCalls {} 0)).1.dedupCalls {} 0).map dedupCallView = [some (2, 4)] ∧
    (((dedupForest.runCalls (dedupForest.dedupCalls {} 0)).1.runCalls
      ((dedupForest.runCalls (dedupForest.dedupCalls {} 0)).1.dedupCalls {} 0)).1.dedupCalls {} 0).length = 0 := by
  decide +kernel
example : (dedupForest.deduplicateNamespaces {} 0).2 = .ok ∧
    (dedupForest.deduplicateNamespaces {} 0).1.allHandles = [0, 1, 6, 2, 4, 7] ∧
    (dedupForest.deduplicateNamespaces {} 0).1.next = 8 ∧
    ((dedupForest.deduplicateNamespaces {} 0).1.rootOf? 0).map (fun r' => declsOfTree r'.erase) =
      (dedupForest.rootOf? 0).bind (fun r => (deduplicateNamespaces {} r.erase []).map declsOfTree) ∧
    ((dedupForest.deduplicateNamespaces {} 0).1.rootOf? 0).map (fun r' => declsOfTree r'.erase) =
      some [[(2, 2), (3, 3)], [], []] ∧
    (dedupForest.rootOf? 4).bind (·.pathOf 4) = some [2, 1] ∧
    ((dedupForest.deduplicateNamespaces {} 0).1.rootOf? 4).bind (·.pathOf 4) = some [2, 0] ∧
    ((dedupForest.deduplicateNamespaces {} 0).1.rootOf? 2).bind (·.pathOf 2) = some [2] ∧
    (dedupForest.deduplicateNamespaces {} 0).1.roots.map (·.handle) = [0, 7] ∧
    ((dedupForest.deduplicateNamespaces {} 0).1.deduplicateNamespaces {} 0).2 = .ok ∧
    ((dedupForest.deduplicateNamespaces {} 0).1.deduplicateNamespaces {} 0).1.allHandles = [0, 1, 6, 2, 4, 7] ∧
    ((dedupForest.deduplicateNamespaces {} 0).1.dedupCalls {} 0).length = 0 := by
  decide +kernel
example : (dedupForest.rootOf? 0).bind (fun r => namesWritable {} r.erase []) = some true ∧
    ((dedupForest.deduplicateNamespaces {} 0).1.rootOf? 0).bind (fun r' => namesWritable {} r'.erase []) =
      some true ∧
    ((dedupForest.deduplicateNamespaces {} 2).1.rootOf? 2).bind (fun r' => namesWritable {} r'.erase [2]) =
      some true ∧
    (dedupForest.deduplicateNamespaces {} 2).1.allHandles = [0, 1, 6, 2, 3, 4, 5, 7] := by
  decide +kernel

/-! ### The xml:id index: `xml_id_node` never hands out a removed node

`Model/FidIndex.lean`: `IdStore` = forest + index `(document, ID value) ↦ element`, written only by
`parseInto` (= `Xot::parse` / `parse_fragment` into the existing store), read by `xmlIdNode`
(= `Xot::xml_id_node`: lookup, then the liveness filter); histories `IdOp` = any call of `Op`, or a
parse.  Slot reuse is below the model; the `fidx` suite ties `xmlIdNode` to the real accessor on
histories that remove ID elements and refill the freed arena slots. -/

/-- Whatever `xml_id_node` hands out is live, hence not removed: for EVERY store and index (no
    invariant needed), in particular after every history of calls and parses. -/
theorem C04_xml_id_live (s : IdStore) (doc h : Nat) (v : Str) (hx : s.xmlIdNode doc v = some h) :
    s.forest.isLive h = true ∧ s.forest.isRemoved h = false :=
  ⟨((IdStore.xmlIdNode_eq_some_iff s doc v h).mp hx).2,
   Forest.isRemoved_false_of_live ((IdStore.xmlIdNode_eq_some_iff s doc v h).mp hx).2⟩

theorem C04_xml_id_live_history (s : IdStore) (ops : List IdOp) (doc h : Nat) (v : Str)
    (hx : (s.run ops).xmlIdNode doc v = some h) :
    (s.run ops).forest.isLive h = true ∧ (s.run ops).forest.isRemoved h = false :=
  C04_xml_id_live _ doc h v hx

/-- The index invariant (keys and entries were handed out earlier, keys unique) holds of every
    store reachable from the empty one. -/
theorem C04_xml_id_wf (ops : List IdOp) : (IdStore.init.run ops).Wf := IdStore.wf_run IdStore.wf_init ops

/-- Right after a parse (tree without duplicate IDs; `hb` is part of `Forest.Inv`): every ID of the
    tree is found in the new document and what is found is the element that carries an xml:id
    attribute with that value; no other value is found there; other documents answer as before. -/
theorem C04_xml_id_parse (s : IdStore) (hw : s.Wf) (hb : ∀ x ∈ s.forest.allHandles, x < s.forest.next)
    (t : Tree) (hn : (Tree.idValues t).Nodup) :
    (∀ v ∈ Tree.idValues t, ∃ h name ks, (s.parseInto t).1.xmlIdNode (s.parseInto t).2 v = some h ∧
        (s.parseInto t).1.forest.get? h = some (.node h (.element name) ks) ∧ v ∈ HTree.idAttrValues ks) ∧
    (∀ v, v ∉ Tree.idValues t → (s.parseInto t).1.xmlIdNode (s.parseInto t).2 v = none) ∧
    (∀ d v, d ≠ (s.parseInto t).2 → (s.parseInto t).1.lookup d v = s.lookup d v ∧
        (s.parseInto t).1.xmlIdNode d v = s.xmlIdNode d v) := by
  have hfst := idEntries_ofTree_fst s.forest.next 0 t
  refine ⟨fun v hv => ?_, fun v hv => ?_, fun d v hd => ?_⟩
  · obtain ⟨e, he, rfl⟩ := List.mem_map.mp (show v ∈ (HTree.idEntries (HTree.ofTree s.forest.next t)).map (·.1) from hfst ▸ hv)
    obtain ⟨name, ks, hf, hm⟩ := idEntries_ofTree_find _ t e he
    have hmem := idEntries_mem_handles _ e he
    have hl : (s.parseInto t).1.lookup s.forest.next e.1 = some e.2 := by
      rw [IdStore.lookup_parseInto_new]; exact fi_lookup_of_mem_nodup _ (hfst ▸ hn) e he
    have hlive : (s.parseInto t).1.forest.isLive e.2 = true :=
      Forest.isLive_of_mem_allHandles (by rw [IdStore.parseInto_allHandles]; exact List.mem_append_right _ hmem)
    refine ⟨e.2, name, ks, (IdStore.xmlIdNode_eq_some_iff _ _ _ _).mpr ⟨hl, hlive⟩, ?_, hm⟩
    rw [IdStore.get?_parseInto_new s hb t _ (handles_ofTree _ t _ hmem).1]; exact hf
  · apply IdStore.xmlIdNode_of_lookup_none
    show (s.parseInto t).1.lookup s.forest.next v = none
    rw [IdStore.lookup_parseInto_new]; exact lookup_none_of_not_mem _ v (hfst ▸ hv)
  · have hl := IdStore.lookup_parseInto_other s t d v hd
    refine ⟨hl, ?_⟩
    cases hs : s.lookup d v with
    | none => rw [IdStore.xmlIdNode_of_lookup_none _ _ _ (hl.trans hs), IdStore.xmlIdNode_of_lookup_none _ _ _ hs]
    | some h =>
      rw [IdStore.xmlIdNode_of_lookup _ _ _ h (hl.trans hs), IdStore.xmlIdNode_of_lookup _ _ _ h hs,
        IdStore.isLive_parseInto_old s t h (IdStore.lookup_below hw hs).2]

/-- The index is never rewritten: along any history, the entry of an existing document stays. -/
theorem C04_xml_id_index_frozen (s : IdStore) (ops : List IdOp) (d : Nat) (v : Str) (hd : d < s.forest.next) :
    (s.run ops).lookup d v = s.lookup d v := IdStore.lookup_run s ops d v hd

/-- As long as the element is not removed, `xml_id_node(doc, v)` keeps answering the same handle,
    whatever is called or parsed (moving it to another document, renaming it, dropping its
    attribute included); once it is removed the answer is `none` for ever. -/
theorem C04_xml_id_stable (s : IdStore) (hw : s.Wf) (ops : List IdOp) (doc h : Nat) (v : Str)
    (hx : s.xmlIdNode doc v = some h) :
    ((s.run ops).forest.isRemoved h = false → (s.run ops).xmlIdNode doc v = some h) ∧
    ((s.run ops).forest.isRemoved h = true →
      ∀ more : List IdOp, ((s.run ops).run more).xmlIdNode doc v = none) := by
  have hl := ((IdStore.xmlIdNode_eq_some_iff s doc v h).mp hx).1
  have hlt := IdStore.lookup_below hw hl
  constructor
  · intro hr
    have hn := (IdStore.le_run s ops).next
    rw [IdStore.xmlIdNode_of_lookup _ _ _ h ((IdStore.lookup_run s ops doc v hlt.1).trans hl)]
    have : (s.run ops).forest.isLive h = true := by
      cases hlv : (s.run ops).forest.isLive h with
      | true => rfl
      | false => simp [Forest.isRemoved, hlv, Nat.lt_of_lt_of_le hlt.2 hn] at hr
    rw [this]; rfl
  · intro hr more
    have hr' := Forest.isRemoved_mono (IdStore.le_run (s.run ops) more) hr
    rw [← IdStore.run_append] at hr' ⊢
    rw [IdStore.xmlIdNode_of_lookup _ _ _ h ((IdStore.lookup_run s _ doc v hlt.1).trans hl)]
    have : (s.run (ops ++ more)).forest.isLive h = false := by
      simp only [Forest.isRemoved, Bool.and_eq_true, Bool.not_eq_true'] at hr'; exact hr'.2
    rw [this]; rfl

/-- Parsing into an existing store keeps the forest invariant (for a tree that is valid, which is
    what the parser builds), hence so does every history of calls and such parses. -/
theorem C04_parse_inv (s : IdStore) (hi : s.forest.Inv) (t : Tree) (hv : s.parseOK t) :
    (s.parseInto t).1.forest.Inv := IdStore.inv_parseInto hi t hv

theorem C04_reach_parse (ops : List IdOp) (hok : IdStore.init.runOK ops) : (IdStore.init.run ops).forest.Inv :=
  IdStore.inv_run ((Forest.inv_iff _).mp C04_init) ops hok

/-- Non-vacuity: `<doc><a xml:id="x"><c/></a><b xml:id="y"/></doc>` parsed next to an API-built
    element (handle 0; document 1, doc 2, a 3, its attribute 4, c 5, b 6, its attribute 7). -/
def idDoc : Tree := .node .document [.node (.element 2) [
  .node (.element 3) [.node (.attribute 1 ['x']) [], .node (.element 5) []],
  .node (.element 4) [.node (.attribute 1 ['y']) []]]]
def idOps : List IdOp := [.call (.newElement 9), .parse idDoc]
example : Tree.idValues idDoc = [['x'], ['y']] := by decide
example : IdStore.init.runOK idOps := ⟨trivial, (by show validTree _ _ = true; decide), trivial⟩
example : (IdStore.init.run idOps).xmlIdNode 1 ['x'] = some 3 ∧ (IdStore.init.run idOps).xmlIdNode 1 ['y'] = some 6 ∧
    (IdStore.init.run idOps).xmlIdNode 1 ['z'] = none ∧ (IdStore.init.run idOps).xmlIdNode 0 ['x'] = none ∧
    (IdStore.init.run idOps).forest.next = 8 := by decide
/-- remove a; refill; move b into the API-built element; parse the same text again (document 10). -/
def idOps2 : List IdOp := idOps ++ [.call (.remove 3), .call (.newElement 9), .call (.newText ['t']),
  .call (.append 0 6), .parse idDoc]
example : (IdStore.init.run idOps2).xmlIdNode 1 ['x'] = none ∧ (IdStore.init.run idOps2).forest.isRemoved 3 = true ∧
    (IdStore.init.run idOps2).xmlIdNode 1 ['y'] = some 6 ∧ (IdStore.init.run idOps2).forest.parent? 6 = some 0 ∧
    (IdStore.init.run idOps2).xmlIdNode 10 ['x'] = some 12 ∧ (IdStore.init.run idOps2).forest.inv = true := by
  decide +kernel
/-- a tree with a duplicate ID is refused and the store is unchanged (`DuplicateId`). -/
example : (IdStore.init.parse (.node .document [.node (.element 2) [.node (.attribute 1 ['x']) [],
    .node (.element 3) [.node (.attribute 1 ['x']) []]]])).2 = none := by decide

/-! ### The convenience calls of the public API (`Model/Fcreation.lean`)

  `new_document_with_element`, `append_text` / `_element` / `_comment` /
  `_processing_instruction`, `append_namespace`, the `set_` / `remove_` `attribute` / `namespace`
  wrappers and the value setters reached through `element_mut`, `attribute_node_mut`,
  `namespace_node_mut`, `processing_instruction_mut().set_target`, `text_mut().get_mut()`,
  `value_mut`.  Each is a composition of calls `C04_step_all` covers (a node creation, then
  `append` / `append_namespace_node`; a node-map `insert` / `remove`; a value written with the
  kind unchanged), so each preserves the invariant — for ALL arguments and whatever it answers. -/

theorem C04_step_creation (f : Forest) (c : Forest.COp) (hi : f.Inv) : (c.run f).1.Inv :=
  Forest.COp.run_inv hi c

/-- The compositions, spelled out as histories of `Op` (so that `C04_handle_meaning`,
    `C04_isRemoved_history` … apply to them as they stand). -/
theorem C04_creation_as_history (f : Forest) :
    (∀ p s, (f.appendText p s).1 = f.run [.newText s, .append p f.next]) ∧
    (∀ p n, (f.appendElement p n).1 = f.run [.newElement n, .append p f.next]) ∧
    (∀ p s, (f.appendComment p s).1 = f.run [.newComment s, .append p f.next]) ∧
    (∀ p t d, (f.appendPi p t d).1 = f.run [.newPi t d, .append p f.next]) ∧
    (∀ p pfx ns, (f.appendNamespace p pfx ns).1 = f.run [.newNamespaceNode pfx ns, .appendNamespaceNode p f.next]) ∧
    (∀ n, f.isElement n = true → (f.newDocumentWithElement n).1 = f.run [.newDocument, .append f.next n]) ∧
    (∀ n, f.isElement n = false → (f.newDocumentWithElement n).1 = f) ∧
    (∀ e k v, (f.setAttribute e k v).1 = f.run [.attrInsert e k v]) ∧
    (∀ e k, (f.removeAttribute e k).1 = f.run [.attrRemove e k]) ∧
    (∀ e p ns, (f.setNamespace e p ns).1 = f.run [.nsInsert e p ns]) ∧
    (∀ e p, (f.removeNamespace e p).1 = f.run [.nsRemove e p]) := by
  refine ⟨fun _ _ => rfl, fun _ _ => rfl, fun _ _ => rfl, fun _ _ _ => rfl, fun _ _ _ => rfl, ?_, ?_,
    fun _ _ _ => rfl, fun _ _ => rfl, fun _ _ _ => rfl, fun _ _ => rfl⟩
  · intro n he; simp [Forest.newDocumentWithElement, he, Forest.run, Forest.step]; rfl
  · intro n he; simp [Forest.newDocumentWithElement, he]

/-- Histories mixing the calls of `Op` and the convenience calls: every reachable forest
    satisfies the invariant. -/
theorem C04_reach_creation (ops : List (Op ⊕ Forest.COp)) :
    (ops.foldl (fun f o => match o with | .inl o => f.step o | .inr c => (c.run f).1) Forest.init).Inv := by
  suffices h : ∀ (f : Forest), f.Inv →
      (ops.foldl (fun f o => match o with | .inl o => f.step o | .inr c => (c.run f).1) f).Inv from
    h _ ((Forest.inv_iff _).mp C04_init)
  induction ops with
  | nil => exact fun f hi => hi
  | cons o ops ih =>
    intro f hi
    rw [List.foldl_cons]
    cases o with
    | inl o => exact ih _ (C04_step_all f o hi)
    | inr c => exact ih _ (C04_step_creation f c hi)

/-- Non-vacuity: `<doc>a<e>x</e>b</doc>`; `new_document_with_element(e)` takes `e` out from between
    two text nodes (they are merged: no adjacent text nodes are left behind), a refused
    `append_text` leaves its fresh node parentless; the invariant holds after each. -/
example :
    let f : Forest := { roots := [.node 0 (.element 2) [.node 1 (.text ['a']) [], .node 2 (.element 3) [.node 3 (.text ['x']) []],
                                    .node 4 (.text ['b']) []]], next := 5 }
    f.inv = true ∧ (f.newDocumentWithElement 2).1.inv = true ∧
      (f.newDocumentWithElement 2).1.allHandles = [0, 1, 5, 2, 3] ∧
      (Forest.COp.run f (.appendNew 1 (.text ['c']))).2 = .err .invalidOperation ∧
      (Forest.COp.run f (.appendNew 1 (.text ['c']))).1.inv = true ∧
      (Forest.COp.run f (.appendNew 1 (.text ['c']))).1.allHandles = [0, 1, 2, 3, 4, 5] ∧
      (Forest.COp.run f (.namespaceSetNamespace 1 3)).2 = .err .invalidOperation := by
  decide

/-! =====================================================================================
  ### The arena under the forest: indextree 4.7.2, pointer level (`Model/Arena*.lean`)

  `Arena.Rep a g`: the arena `a` (slots with five pointers, stamp, data / free-list link; the two
  free-list heads) stores the list-level content `g : Arena.Shape` (`par`, `kids`, `free`, keyed by
  slot index); `Arena.Wf a := ∃ g, Rep a g` is the pointer invariant.  `Arena.Call a a'`: one call
  (`new_node`, `detach`, `checked_append`, `checked_prepend`, `checked_insert_after`,
  `checked_insert_before`, `remove`, `remove_subtree`) with live arguments — the sibling insertions
  next to a node that has a parent and is not below the inserted node, `remove` of a node with a
  parent or without children: exactly the calls the forest model does not send to its `corrupt`
  sink (except `remove` of a parentless node with exactly one child, which is fine:
  `C04_arena_refines_remove_root_one` below, outside `Arena.Call`).
  `Arena.Abs a g w rs f`: the state `f` of the forest model (`Model/Forest.lean`: `HTree`s with
  creation-order handles) is the arena read through `g`, the handle numbering and values `w`
  (injective on live slots, below `f.next`) and the parentless live slots `rs` in the forest's root
  order.  (`traverse` / `descendants` / `reverse_traverse`: `Props/C07`.)
  ===================================================================================== -/

/-- Every arena reached from the empty one by such calls satisfies the pointer invariant. -/
theorem C04_arena_wf_reachable (a : Arena) (h : Arena.Steps {} a) : Arena.Wf a :=
  (h.wf Arena.Wf.empty).1

/-- One call preserves the invariant; no stamp's magnitude decreases. -/
theorem C04_arena_wf_step (a a' : Arena) (w : Arena.Wf a) (c : Arena.Call a a') :
    Arena.Wf a' ∧ Arena.StampMono a a' := by
  obtain ⟨g, r⟩ := w
  exact c.rep r

/-- `new_node` on a well-formed arena cannot panic; the id it hands out is the current id of a live,
    parentless, childless slot that was not live before; no other slot changes; the free list loses
    its head (FIFO reuse: `free_node` appends at the end, see `Arena.FreeNodeOk`). -/
theorem C04_arena_new_node (a : Arena) (g : Arena.Shape) (r : Arena.Rep a g) (v : Nat) :
    ∃ a' id g', Arena.newNode a v = .done a' id ∧ Arena.Rep a' g' ∧ Arena.LiveId a' id ∧
      ¬ Arena.Live a id.index0 ∧ g'.par = g.par ∧ g'.kids = g.kids ∧ g'.par id.index0 = none ∧
      g'.kids id.index0 = [] ∧ g'.free = g.free.tail ∧ (∀ j, j ≠ id.index0 → a'.slot j = a.slot j) := by
  obtain ⟨a', id, g', h, ok⟩ := r.newNode v
  exact ⟨a', id, g', h, ok.rep, ok.liveId, ok.fresh, ok.par, ok.kids, ok.parNone, ok.kidsNil, ok.free, ok.others⟩

/-- `NodeId::is_removed` of a live id is `false`. -/
theorem C04_arena_is_removed_live (a : Arena) (x : Arena.NodeId) (hx : Arena.LiveId a x) :
    Arena.isRemoved a x = .done a false := hx.isRemoved

/-- Removed is for ever: once `remove` has freed a live id whose stamp is below 32767 (the slot has
    been reused fewer than 32767 times), `is_removed` answers `true` after every further history,
    however often the slot is reused; in particular the id is never a live id again. -/
theorem C04_arena_is_removed_forever (a a1 a2 : Arena) (x : Arena.NodeId) (w : Arena.Wf a)
    (hx : Arena.LiveId a x) (hcond : Arena.HasParent a x ∨ Arena.Childless a x) (hlt : x.stamp < 32767)
    (hrm : Arena.remove a x = .done a1 ()) (hist : Arena.Steps a1 a2) :
    Arena.isRemoved a2 x = .done a2 true ∧ ¬ Arena.LiveId a2 x := by
  obtain ⟨g, r⟩ := w
  have hg := r.remove_gone x hx hcond hlt hrm
  have w1 : Arena.Wf a1 := ((Arena.Call.remove x a1 hx hcond hrm).rep r).1
  have hg2 := hg.mono (hist.wf w1).2
  exact ⟨hg2.isRemoved, hg2.not_liveId⟩

/-- The same for `remove_subtree` (what `Xot::remove` calls): every id of the removed subtree. -/
theorem C04_arena_is_removed_forever_subtree (a a1 a2 : Arena) (g : Arena.Shape) (r : Arena.Rep a g)
    (x : Arena.NodeId) (hx : Arena.LiveId a x) (hrm : Arena.removeSubtree a x = .done a1 ()) (u : Nat)
    (hu : Arena.Reach g.par u x.index0) (hlt : (a.idAt u).stamp < 32767) (hist : Arena.Steps a1 a2) :
    Arena.isRemoved a2 (a.idAt u) = .done a2 true ∧ ¬ Arena.LiveId a2 (a.idAt u) := by
  have hg := r.removeSubtree_gone x hx hrm u hu hlt
  have w1 : Arena.Wf a1 := ((Arena.Call.removeSubtree x a1 hx hrm).rep r).1
  have hg2 := hg.mono (hist.wf w1).2
  exact ⟨hg2.isRemoved, hg2.not_liveId⟩

/-- The bound is sharp: a slot whose stamp has reached 32767 hands out the same id again. -/
theorem C04_arena_stamp_saturates :
    let a : Arena := { nodes := [{ stamp := 32767, data := .data 0 }] }
    ∃ a1 a2, Arena.remove a ⟨1, 32767⟩ = .done a1 () ∧ Arena.isRemoved a1 ⟨1, 32767⟩ = .done a1 true ∧
      Arena.newNode a1 7 = .done a2 ⟨1, 32767⟩ ∧ Arena.isRemoved a2 ⟨1, 32767⟩ = .done a2 false :=
  ⟨_, _, rfl, rfl, rfl, rfl⟩

/-- Refinement to list semantics, `detach`: the node leaves its parent's child list. -/
theorem C04_arena_refines_detach (a : Arena) (g : Arena.Shape) (r : Arena.Rep a g) (x : Arena.NodeId)
    (hx : Arena.LiveId a x) :
    ∃ a', Arena.detach a x = .done a' () ∧ Arena.Rep a' (g.detach x.index0) ∧ Arena.MetaEq a a' :=
  r.detach x hx

/-- Refinement, `checked_append` (`p`, `i` live slots): refused exactly for `p = i` (`AppendSelf`)
    and for `i` an ancestor of `p` (`AppendAncestor`); otherwise `i` is detached and becomes the last
    child of `p`. -/
theorem C04_arena_refines_append (a : Arena) (g : Arena.Shape) (r : Arena.Rep a g) (p i : Nat)
    (hp : Arena.Live a p) (hi : Arena.Live a i) :
    (p = i → Arena.checkedAppend a (a.idAt p) (a.idAt i) = .done a (.error .appendSelf)) ∧
    (p ≠ i → Arena.Reach g.par p i →
      Arena.checkedAppend a (a.idAt p) (a.idAt i) = .done a (.error .appendAncestor)) ∧
    (p ≠ i → ¬ Arena.Reach g.par p i → ∃ a', Arena.checkedAppend a (a.idAt p) (a.idAt i) = .done a' (.ok ()) ∧
      Arena.Rep a' (g.append p i) ∧ Arena.MetaEq a a') :=
  ⟨fun e => by rw [e]; exact Arena.checkedAppend_self a _,
   fun hne h => r.checkedAppend_ancestor p i hp hi hne h,
   fun hne h => r.checkedAppend_ok p i hp hi hne h⟩

/-- Refinement, `checked_prepend`: as `checked_append`, except that prepending the node that already
    is the first child panics (`insert_with_neighbors` reports `SiblingsLoop` to an `expect`)
    before anything is written. -/
theorem C04_arena_refines_prepend (a : Arena) (g : Arena.Shape) (r : Arena.Rep a g) (p i : Nat)
    (hp : Arena.Live a p) (hi : Arena.Live a i) (hne : p ≠ i) :
    (Arena.Reach g.par p i → Arena.checkedPrepend a (a.idAt p) (a.idAt i) = .done a (.error .prependAncestor)) ∧
    (¬ Arena.Reach g.par p i → (g.kids p).head? = some i →
      Arena.checkedPrepend a (a.idAt p) (a.idAt i) = .panic a) ∧
    (¬ Arena.Reach g.par p i → (g.kids p).head? ≠ some i →
      ∃ a', Arena.checkedPrepend a (a.idAt p) (a.idAt i) = .done a' (.ok ()) ∧
        Arena.Rep a' (g.prepend p i) ∧ Arena.MetaEq a a') :=
  ⟨fun h => r.checkedPrepend_ancestor p i hp hi hne h,
   fun h hf => r.checkedPrepend_first_panics p i hp hi hne h hf,
   fun h hf => r.checkedPrepend_ok p i hp hi hne h hf⟩

/-- Refinement, `checked_insert_after` / `checked_insert_before` next to a node `ref` with parent `p`
    that is not below the inserted node `i`: `i` is detached and lands right after / before `ref`. -/
theorem C04_arena_refines_insert_after (a : Arena) (g : Arena.Shape) (r : Arena.Rep a g) (ref i p : Nat)
    (hr : Arena.Live a ref) (hi : Arena.Live a i) (hne : ref ≠ i) (hpar : g.par ref = some p)
    (hanc : ¬ Arena.Reach g.par ref i) :
    ∃ a' A B, Arena.checkedInsertAfter a (a.idAt ref) (a.idAt i) = .done a' (.ok ()) ∧
      (g.detach i).kids p = A ++ ref :: B ∧ Arena.Rep a' ((g.detach i).link p (A ++ [ref]) i B) ∧
      Arena.MetaEq a a' :=
  r.checkedInsertAfter_ok ref i p hr hi hne hpar hanc

theorem C04_arena_refines_insert_before (a : Arena) (g : Arena.Shape) (r : Arena.Rep a g) (ref i p : Nat)
    (hr : Arena.Live a ref) (hi : Arena.Live a i) (hne : ref ≠ i) (hpar : g.par ref = some p)
    (hanc : ¬ Arena.Reach g.par ref i) :
    ∃ a' A B, Arena.checkedInsertBefore a (a.idAt ref) (a.idAt i) = .done a' (.ok ()) ∧
      (g.detach i).kids p = A ++ ref :: B ∧ Arena.Rep a' ((g.detach i).link p A i (ref :: B)) ∧
      Arena.MetaEq a a' :=
  r.checkedInsertBefore_ok ref i p hr hi hne hpar hanc

/-- Refinement, `remove`: a childless node is detached and freed; a node with parent `p`
    (`kids p = L ++ i :: R`) and children is replaced by its children in `p`'s child list
    (`kids' p = L ++ kids i ++ R`, each child's parent becomes `p`) and freed; the slot joins the end
    of the free list. -/
theorem C04_arena_refines_remove (a : Arena) (g : Arena.Shape) (r : Arena.Rep a g) (i : Nat) (hi : Arena.Live a i) :
    (g.kids i = [] → ∃ a', Arena.remove a (a.idAt i) = .done a' () ∧ Arena.Rep a' (g.removeLeaf i)) ∧
    (∀ p L R, g.par i = some p → g.kids p = L ++ i :: R → g.kids i ≠ [] →
      ∃ a', Arena.remove a (a.idAt i) = .done a' () ∧ Arena.Rep a' (g.removeInner i p L R)) := by
  refine ⟨fun hk => ?_, fun p L R hp hkp hk => ?_⟩
  · obtain ⟨_, a', _, _, _, h, _, r'⟩ := r.remove_leaf i hi hk
    exact ⟨a', h, r'⟩
  · cases hh : (g.kids i).head? with
    | none => exact absurd (List.head?_eq_none_iff.mp hh) hk
    | some c1 =>
      cases hl : (g.kids i).getLast? with
      | none => exact absurd (List.getLast?_eq_none_iff.mp hl) hk
      | some ck =>
        obtain ⟨_, a', _, _, h, _, r'⟩ := r.remove_inner i p L R c1 ck hi hp hkp hh hl
        exact ⟨a', h, r'⟩

/-- Refinement, `remove` of a PARENTLESS node `i` with exactly one child `c` (the case the forest model
    sends to its `corrupt` sink, and the only parentless-with-children case in which indextree stays
    inside the invariant): no panic; the child becomes a parentless node (its sibling pointers were
    and stay empty), `i` loses its child, is freed and joins the end of the free list; the resulting
    arena is well-formed and stores `g.removeRootOne i c`; nothing else changes at list level.  (With
    two or more children the invariant is lost: closed example below.) -/
theorem C04_arena_refines_remove_root_one (a : Arena) (g : Arena.Shape) (r : Arena.Rep a g) (i c : Nat)
    (hi : Arena.Live a i) (hpar : g.par i = none) (hk : g.kids i = [c]) :
    ∃ a', Arena.remove a (a.idAt i) = .done a' () ∧ Arena.Rep a' (g.removeRootOne i c) ∧
      (g.removeRootOne i c).par c = none ∧ (g.removeRootOne i c).kids i = [] ∧
      (∀ j, j ≠ c → (g.removeRootOne i c).par j = g.par j) ∧
      (∀ q, q ≠ i → (g.removeRootOne i c).kids q = g.kids q) ∧
      (g.removeRootOne i c).free = g.free ++ [i] ∧
      (∀ j, Arena.Live a' j ↔ (Arena.Live a j ∧ j ≠ i)) := by
  obtain ⟨a2, a', hM, _, h, hok, r'⟩ := r.remove_root_one i c hi hpar hk
  refine ⟨a', h, r', by simp [Arena.Shape.removeRootOne], by simp [Arena.Shape.removeRootOne],
    fun j hj => by simp [Arena.Shape.removeRootOne, hj], fun q hq => by simp [Arena.Shape.removeRootOne, hq], rfl,
    fun j => (hok.live j).trans (and_congr_left fun _ => hM.live j)⟩

/-- Refinement, `remove_subtree`: never panics, both loops end; the node is detached and exactly its
    descendants-or-self `l` are freed, in the order `l` (document order), which is the order in which
    `new_node` will reuse the slots. -/
theorem C04_arena_refines_remove_subtree (a : Arena) (g : Arena.Shape) (r : Arena.Rep a g) (i : Nat)
    (hi : Arena.Live a i) :
    ∃ a' l, Arena.removeSubtree a (a.idAt i) = .done a' () ∧ Arena.Rep a' ((g.detach i).prune l) ∧ l.Nodup ∧
      (∀ u, u ∈ l ↔ Arena.Reach g.par u i) ∧ Arena.StampMono a a' := by
  obtain ⟨a', l, h, ok⟩ := r.removeSubtree i hi
  exact ⟨a', l, h, ok.rep, ok.nodup, fun u => (ok.mem u).trans (r.reach_detach_iff i u), ok.mono⟩

/-- Refinement to the forest model: the primitives of `Model/Forest.lean` ARE indextree's
    operations, read through the abstraction.  Every call of `Arena.Call` from an arena that
    abstracts to the forest `f` leads to an arena that abstracts to the result of the corresponding
    forest primitive (`newNode`, `detachRaw`, `checkedAppend`, `checkedPrepend`,
    `checkedInsertAfter`, `checkedInsertBefore`, `spliceOut`, `dropSubtree`), with the handle
    numbering extended at `new_node` by the fresh handle `f.next` — also when the slot is a reused
    one. -/
theorem C04_arena_refines_forest_step (a a' : Arena) (g : Arena.Shape) (w : Arena.View) (rs : List Nat) (f : Forest)
    (h : Arena.Abs a g w rs f) (c : Arena.Call a a') :
    ∃ g' w' rs' f', Arena.Abs a' g' w' rs' f' ∧ Arena.FCall f f' :=
  h.call c

/-- Hence every history of arena calls from the empty arena is simulated by a history of forest
    primitives from the empty forest: the forest model's contract for indextree is a theorem about
    the pointer-level model. -/
theorem C04_arena_refines_forest (a : Arena) (s : Arena.Steps {} a) :
    ∃ g w rs f, Arena.Abs a g w rs f ∧ Arena.FSteps {} f :=
  Arena.Abs.empty.steps s

/-- The single calls, with the forest model's answer next to indextree's: `detach` = `detachRaw`;
    an accepted `checked_append` = `checkedAppend` answering `true`; a refused one (self, ancestor) is
    refused by the forest model too, which then stays as it is. -/
theorem C04_arena_refines_forest_calls (a : Arena) (g : Arena.Shape) (w : Arena.View) (rs : List Nat) (f : Forest)
    (h : Arena.Abs a g w rs f) :
    (∀ x, Arena.LiveId a x → ∃ a', Arena.detach a x = .done a' () ∧
      Arena.Abs a' (g.detach x.index0) w (rs.filter (· ≠ x.index0) ++ [x.index0]) (f.detachRaw (w.rho x.index0))) ∧
    (∀ p c, Arena.Live a p → Arena.Live a c → p ≠ c → ¬ Arena.Reach g.par p c →
      ∃ a', Arena.checkedAppend a (a.idAt p) (a.idAt c) = .done a' (.ok ()) ∧
        (f.checkedAppend (w.rho p) (w.rho c)).2 = true ∧
        Arena.Abs a' (g.append p c) w (rs.filter (· ≠ c)) (f.checkedAppend (w.rho p) (w.rho c)).1) ∧
    (∀ p c, Arena.Live a p → Arena.Live a c → (p = c ∨ Arena.Reach g.par p c) →
      f.checkedAppend (w.rho p) (w.rho c) = (f, false)) ∧
    (∀ i, Arena.Live a i → ∃ a' l, Arena.removeSubtree a (a.idAt i) = .done a' () ∧
      (∀ u, u ∈ l ↔ Arena.Reach g.par u i) ∧
      Arena.Abs a' ((g.detach i).prune l) w (rs.filter (· ≠ i)) (f.dropSubtree (w.rho i))) :=
  ⟨fun x hx => h.detach x hx, fun p c hp hc hne hanc => h.checkedAppend_ok p c hp hc hne hanc,
   fun p c hp hc hr => (h.checkedAppend_refused p c hp hc hr).1, fun i hi => h.removeSubtree i hi⟩

/-- Non-vacuity: closed arenas reached by histories (three nodes `1:0 [2:0, 3:0]`; a grandchild;
    after `remove(2:0)` and a `new_node` that reuses the slot with stamp 1), their invariant, what the
    stale id `2:0` answers, and what indextree does outside the list semantics: `remove` of a
    parentless node with two children leaves two parentless nodes that are still each other's
    siblings; `checked_insert_after` of the parent of the reference node panics after the parent has
    already been detached; `checked_insert_after` of a grandparent builds a parent cycle (the
    `ancestors` iterator then never ends: here cut off by the limit). -/
example : Arena.Wf Arena.sampleA ∧ Arena.Wf Arena.sampleB ∧ Arena.Wf Arena.sampleC :=
  ⟨C04_arena_wf_reachable _ Arena.sampleA_steps, C04_arena_wf_reachable _ Arena.sampleB_steps,
   C04_arena_wf_reachable _ Arena.sampleC_steps⟩

example : ∃ g w rs f, Arena.Abs Arena.sampleC g w rs f ∧ Arena.FSteps {} f :=
  C04_arena_refines_forest _ Arena.sampleC_steps

example : Arena.sampleA.wf = true ∧ Arena.sampleC.wf = true ∧
    Arena.isRemoved Arena.sampleC ⟨2, 0⟩ = .done Arena.sampleC true ∧
    Arena.isRemoved Arena.sampleC ⟨2, 1⟩ = .done Arena.sampleC false ∧
    Arena.children Arena.sampleC ⟨1, 0⟩ 9 = .done Arena.sampleC [⟨4, 0⟩, ⟨3, 0⟩] ∧
    Arena.sampleC.firstFree = none ∧
    (match Arena.removeSubtree Arena.sampleB ⟨2, 0⟩ with
     | .done a' () => a'.wf && a'.firstFree == some 1 && a'.lastFree == some 3 &&
         Arena.isRemoved a' ⟨4, 0⟩ == .done a' true && Arena.children a' ⟨1, 0⟩ 9 == .done a' [⟨3, 0⟩]
     | _ => false) = true := by decide

/-- Non-vacuity of `C04_arena_refines_remove_root_one`: `sampleD` (`1:0 [2:0]`) is reachable, hence
    well-formed, and every shape it stores has slot 0 parentless with the only child 1; after
    `remove(1:0)` the arena is well-formed, `2:0` is a parentless node without siblings and with its
    payload, `1:0` is removed and slot 0 is the free list. -/
example : ∃ g, Arena.Rep Arena.sampleD g ∧ Arena.Live Arena.sampleD 0 ∧ g.par 0 = none ∧ g.kids 0 = [1] := by
  obtain ⟨g, r⟩ := C04_arena_wf_reachable _ Arena.sampleD_steps
  have h := r.root_one_of_ptrs (i := 0) (x := ⟨2, 0⟩) (s := { first := some ⟨2, 0⟩, last := some ⟨2, 0⟩, data := .data 10 })
    (by decide) (by decide) rfl rfl rfl
  exact ⟨g, r, ⟨_, rfl, by decide⟩, h.1, h.2⟩

example : (match Arena.remove Arena.sampleD ⟨1, 0⟩ with
     | .done a' () => a'.wf && a'.get ⟨2, 0⟩ == some { data := .data 20 } &&
         Arena.isRemoved a' ⟨1, 0⟩ == .done a' true && a'.firstFree == some 0 && a'.lastFree == some 0
     | _ => false) = true := by decide

example : (Arena.sampleA.after (Arena.remove · ⟨1, 0⟩)).wf = false ∧
    (Arena.sampleA.after (Arena.remove · ⟨1, 0⟩)).get ⟨2, 0⟩ =
      some { next := some ⟨3, 0⟩, data := .data 20 } ∧
    (match Arena.checkedInsertAfter Arena.sampleA ⟨2, 0⟩ ⟨1, 0⟩ with | .panic _ => true | _ => false) = true ∧
    (match Arena.checkedInsertAfter Arena.sampleB ⟨4, 0⟩ ⟨1, 0⟩ with
     | .done a' (.ok ()) => !a'.wf && (Arena.ancestors a' ⟨4, 0⟩ 7).arena == a' &&
         (match Arena.ancestors a' ⟨4, 0⟩ 7 with | .done _ l => l.length == 7 | _ => false)
     | _ => false) = true := by decide

end XotModel.Props

/-! # ================================================================================================
    # TRAVERSALS (branch wt-misc): the iterators of Model/Axes.lean hand out live nodes
    # ================================================================================================

  The axes model names a node by `(Tree, Path)`, the forest model by handle.  Model/FtravSpec.lean
  has `HTree.at?`; `HTree.handleAt r p` (the handle the path `p` denotes in the tree `r`),
  `HTree.pathOf h r` (the path of the handle `h`), `Forest.rootOf? f h` (the parentless tree `h` lives
  in) are those of Model/FatomSpec2.lean.  `Axes.Trav` (Lemmas/AxesValid.lean) enumerates every node-returning entry point of access.rs /
  levelorder.rs — parent, first/last_child, next/previous_sibling, ancestors, children, all_children,
  abnormal_children, namespace nodes, attribute_nodes, reverse_children, descendants, all_descendants,
  following_/preceding_siblings, following, all_following, preceding, reverse_preorder (both),
  traverse / all_traverse / reverse_traverse / reverse_all_traverse (node parts of the edges),
  NodeEdge::next / previous, level_order (node parts), root, top_element, document_element, axis(a) for
  all 12 axes — and `Trav.result t q` lists the node paths in the answer at `q`. -/

namespace XotModel.Props
open XotModel

/-- The bridge is consistent: a live handle has a root tree and a path in it, and the path denotes the
    handle. -/
theorem C04_live_has_path (f : Forest) (h : Nat) (hl : f.isLive h = true) :
    ∃ r q, f.rootOf? h = some r ∧ r ∈ f.roots ∧ HTree.pathOf h r = some q ∧ HTree.handleAt r q = some h := by
  obtain ⟨r, h1, h2, q, h3⟩ := Forest.rootOf?_of_live hl
  obtain ⟨s, hs, rfl⟩ := HTree.ftrav_pathOf_at? _ r q h3
  exact ⟨r, q, h1, h2, h3, by simp [HTree.ftrav_handleAt_eq, hs]⟩

/-- **No traversal hands out a removed node.**  In a forest satisfying the invariant, for a tree `r`
    of the forest and the path `q` of a handle `h` in it: every path `p` that any traversal entry point
    returns for `(r.erase, q)` exists in `r.erase`, denotes a handle `x = HTree.handleAt r p` (whose
    path is `p` again, so distinct paths are distinct nodes), and `x` is live and not removed. -/
theorem C04_traversals_live (f : Forest) (hi : f.Inv) (r : HTree) (hr : r ∈ f.roots) (h : Nat) (q : Path)
    (hq : HTree.pathOf h r = some q) (tr : Axes.Trav) (p : Path) (hp : p ∈ tr.result r.erase q) :
    (r.erase.at? p).isSome = true ∧
    ∃ x, HTree.handleAt r p = some x ∧ HTree.pathOf x r = some p ∧
      f.isLive x = true ∧ f.isRemoved x = false := by
  obtain ⟨s, _, h2, h3, h4, h5, h6⟩ := Forest.traversals_live hi hr hq tr hp
  exact ⟨by rw [h2]; rfl, s.handle, h3, h4, h5, h6⟩

/-- The same from a live handle alone: its root tree and path exist (`C04_live_has_path`) and every
    traversal from there hands out live nodes only. -/
theorem C04_traversals_live_of_live (f : Forest) (hi : f.Inv) (h : Nat) (hl : f.isLive h = true) :
    ∃ r q, f.rootOf? h = some r ∧ HTree.pathOf h r = some q ∧
      ∀ (tr : Axes.Trav) (p : Path), p ∈ tr.result r.erase q →
        ∃ x, HTree.handleAt r p = some x ∧ f.isLive x = true ∧ f.isRemoved x = false := by
  obtain ⟨r, h1, h2, q, h3⟩ := Forest.rootOf?_of_live hl
  refine ⟨r, q, h1, h3, fun tr p hp => ?_⟩
  obtain ⟨_, x, hx, _, h5, h6⟩ := C04_traversals_live f hi r h2 h q h3 tr p hp
  exact ⟨x, hx, h5, h6⟩

/-- The generic fact behind it (tree level, C07's vocabulary): from a valid start path of a well-formed
    tree every traversal returns valid paths of the same tree. -/
theorem C04_traversal_paths_valid {t : Tree} {q : Path} (hw : Axes.wf t = true) (h : Axes.Valid t q)
    (tr : Axes.Trav) : ∀ p ∈ tr.result t q, Axes.Valid t p := Axes.trav_valid hw h tr

/-- Non-vacuity on `gapForest` (`<a>x<b/>y</a>`, text `z`, element): handle 2 (`b`) has path `[1]` in
    the first tree; `preceding_siblings`, the following axis and `traverse` from the root return paths
    that denote the handles 2 1 / 3 / 0 1 1 2 2 3 3 0. -/
example : (gapForest.rootOf? 2).map HTree.handle = some 0 ∧
    HTree.pathOf 2 gapForest.roots.head! = some [1] := by decide
example : (Axes.Trav.precedingSiblings.result gapForest.roots.head!.erase [1]).map
      (HTree.handleAt gapForest.roots.head!) = [some 2, some 1] ∧
    ((Axes.Trav.axis .following).result gapForest.roots.head!.erase [1]).map
      (HTree.handleAt gapForest.roots.head!) = [some 3] ∧
    (Axes.Trav.traverse.result gapForest.roots.head!.erase []).map
      (HTree.handleAt gapForest.roots.head!) = [some 0, some 1, some 1, some 2, some 2, some 3, some 3, some 0] := by
  decide

end XotModel.Props

/-! # ================================================================================================
    # EXTENDED HISTORIES (branch wt-hist): the composite calls as steps of the histories
    # ================================================================================================

  `Forest.XCall` (Model/FhistSpec.lean) wraps the step type `Forest.HStep` — every call of `Forest.Call`,
  node creation, `set_text_consolidation`, `remove_insignificant_whitespace`; every `Op` is an `XCall`
  through `XCall.ofOp` — and adds the composite public calls that are constructors of none of the older
  history types:

    .createMissingPrefixes node        `create_missing_prefixes`   (`Forest.createMissingPrefixes`)
    .deduplicateNamespaces node        `deduplicate_namespaces`    (`Forest.deduplicateNamespaces`)
    .cloneWithPrefixes node order      `clone_with_prefixes`       (`Forest.cloneWithPrefixes`; `order` = the
                                       iteration order of the hash map `inherited_prefixes(node)`, ANY list)

  A history runs on a `Store` = forest + interning tables (`create_missing_prefixes` extends the tables
  by the prefixes it invents; it and `deduplicate_namespaces` read them): `XCall.run`, `Store.xstep`,
  `Store.xrun`.  The one side condition is the one of `C04_call_inv`: a map insertion given as DATA
  carries an entry of the map's kind (`XCall.wellKinded`, decidable, a condition on the call alone; the
  Rust API builds the entry from key and value, and every `Op` qualifies: `C04_ext_ofOp_wellKinded`).
  Arguments are arbitrary numbers, outcomes are whatever the calls answer (`ok`, `err`, `panic`). -/

namespace XotModel.Props
open XotModel

/-- `clone_with_prefixes(node)` preserves the invariant: for every node argument (live or not), every
    iteration order of the inherited prefixes (any list), every outcome. -/
theorem C04_step_cloneWithPrefixes (f : Forest) (hi : f.Inv) (node : Nat) (order : List (Nat × Nat)) :
    (f.cloneWithPrefixes node order).1.Inv := Forest.cloneWithPrefixes_inv hi node order

/-- ⟦C04_step_ext⟧ One extended call preserves the invariant, whatever its arguments and outcome. -/
theorem C04_step_ext (s : Store) (c : Forest.XCall) (hi : s.forest.Inv) (hw : c.wellKinded) :
    (s.xstep c).forest.Inv := Store.xstep_inv hi c hw

/-- Every extended history from ANY store whose forest has the invariant ends in one. -/
theorem C04_reach_ext_from (s : Store) (hi : s.forest.Inv) (cs : List Forest.XCall)
    (hw : ∀ c ∈ cs, c.wellKinded) : (s.xrun cs).forest.Inv := Store.xrun_inv cs hi hw

/-- ⟦C04_reach_ext⟧ **Every forest reachable from the empty store by any history of extended calls** —
    the calls of `Forest.Call`, node creation, set_text_consolidation, remove_insignificant_whitespace,
    create_missing_prefixes, deduplicate_namespaces, clone_with_prefixes, in any order, with arbitrary
    arguments (live, removed or never created), for every vocabulary `env` the store starts with and
    whatever the calls answer — **satisfies the invariant**. -/
theorem C04_reach_ext (env : Env) (cs : List Forest.XCall) (hw : ∀ c ∈ cs, c.wellKinded) :
    ((⟨Forest.init, env⟩ : Store).xrun cs).forest.Inv :=
  Store.xrun_inv cs ((Forest.inv_iff _).mp C04_init) hw

theorem C04_reach_ext_bool (env : Env) (cs : List Forest.XCall) (hw : ∀ c ∈ cs, c.wellKinded) :
    ((⟨Forest.init, env⟩ : Store).xrun cs).forest.inv = true :=
  (Forest.inv_iff _).mpr (C04_reach_ext env cs hw)

/-- … so the invariant holds at EVERY point of time of an extended history (every prefix of a
    history is a history). -/
theorem C04_reach_ext_prefix (env : Env) (pre post : List Forest.XCall)
    (hw : ∀ c ∈ pre ++ post, c.wellKinded) :
    ((⟨Forest.init, env⟩ : Store).xrun pre).forest.Inv ∧
    ((⟨Forest.init, env⟩ : Store).xrun (pre ++ post)).forest.Inv :=
  ⟨C04_reach_ext env pre (fun c h => hw c (List.mem_append_left _ h)), C04_reach_ext env _ hw⟩

/-- The older history types are sub-languages: every `Op` is a well-kinded extended call, running its
    image is `Forest.step` (the interning tables are not touched), and a history of `Op`s run as an
    extended history is `Forest.run` — `C04_reach_all` is `C04_reach_ext` on such histories. -/
theorem C04_ext_ofOp_wellKinded (o : Op) : (Forest.XCall.ofOp o).wellKinded := Store.ofOp_wellKinded o

theorem C04_ext_run_ofOp (s : Store) (ops : List Op) :
    s.xrun (ops.map Forest.XCall.ofOp) = ⟨s.forest.run ops, s.env⟩ := Store.xrun_ofOp ops s

theorem C04_ext_run_ofStep (s : Store) (ss : List Forest.HStep) :
    s.xrun (ss.map Forest.XCall.ofStep) = ⟨s.forest.runAll ss, s.env⟩ := Store.xrun_ofStep ss s

/-- Histories that interleave `Op`s (all 33 constructors) with the three composites need no side
    condition at all. -/
theorem C04_reach_ext_ops (env : Env) (cs : List Forest.XCall)
    (hcs : ∀ c ∈ cs, (∃ o, c = Forest.XCall.ofOp o) ∨ (∃ n, c = .createMissingPrefixes n) ∨
      (∃ n, c = .deduplicateNamespaces n) ∨ (∃ n order, c = .cloneWithPrefixes n order)) :
    ((⟨Forest.init, env⟩ : Store).xrun cs).forest.Inv := by
  refine C04_reach_ext env cs (fun c hc => ?_)
  rcases hcs c hc with ⟨o, rfl⟩ | ⟨n, rfl⟩ | ⟨n, rfl⟩ | ⟨n, order, rfl⟩
  · exact C04_ext_ofOp_wellKinded o
  all_goals trivial

/-- Handles are never re-used along extended histories: for every extended call, all stores and all
    arguments, WITHOUT any invariant or side condition, `next` does not decrease and every handle
    afterwards is an old handle or a fresh one (`Forest.Le`) … -/
theorem C04_step_le_ext (s : Store) (c : Forest.XCall) : Forest.Le s.forest (s.xstep c).forest :=
  Forest.le_xcall s c

/-- … hence a removed handle stays removed along every extended history. -/
theorem C04_isRemoved_history_ext (s : Store) (cs : List Forest.XCall) (h : Nat)
    (hr : s.forest.isRemoved h = true) : (s.xrun cs).forest.isRemoved h = true :=
  Forest.isRemoved_mono (Store.le_xrun cs s) hr

/-- Non-vacuity: a history from the empty store that creates `<a:e><a:e>x</a:e></a:e>` (name 1 in
    namespace 3, no prefix for it), declares `p` twice (`namespaces_mut` insert), REPAIRS
    (`create_missing_prefixes`: invents the prefix `n0`, interned as 3), DEDUPLICATES (the inner `p`, node
    4, goes), CLONES WITH PREFIXES the inner element (the clone 7 gets `n0`; the order handed over is
    the model's `inherited_prefixes`: the call is `faithful`), is refused a repair on a text node
    (`NotElement`), hits the documented panic of `attributes_mut` on a text node, then MOVES the clone
    in front of its source, strips whitespace, removes the source and deduplicates on the removed
    handle.  Evaluated: the outcomes, the invariant at the end, the final handles, the extended tables. -/
def xhEnv : Env :=
  { namespaces := [[], ['x'], ['u'], ['w']], prefixes := [[], ['x','m','l'], ['p']],
    names := [(['s'], 1), (['e'], 3)] }
def xhCalls : List Forest.XCall :=
  [.newNode (.element 1), .newNode (.element 1), .newNode (.text ['x']),
   .call (.append 0 1), .call (.append 1 2),
   .call (.mapInsert .namespaces 0 (.namespace 2 2)), .call (.mapInsert .namespaces 1 (.namespace 2 2)),
   .createMissingPrefixes 0, .deduplicateNamespaces 0,
   .cloneWithPrefixes 1 [(3, 3)],
   .createMissingPrefixes 2, .call (.mapInsert .attributes 2 (.attribute 1 [])),
   .call (.insertBefore 1 7), .removeInsignificantWhitespace 0, .call (.remove 1), .deduplicateNamespaces 1]
def xhStore : Store := ⟨Forest.init, xhEnv⟩
example : ∀ c ∈ xhCalls, c.wellKinded := by decide
example : (xhStore.xrun xhCalls).forest.inv = true ∧
    xhStore.xouts xhCalls = [.ok, .ok, .ok, .ok, .ok, .ok, .ok, .ok, .ok, .ok, .err .notElement, .panic,
      .ok, .ok, .ok, .ok] ∧
    (xhStore.xrun xhCalls).forest.allHandles = [0, 3, 5, 7, 9, 8] ∧
    (xhStore.xrun xhCalls).forest.isRemoved 4 = true ∧ (xhStore.xrun xhCalls).forest.isRemoved 1 = true ∧
    (xhStore.xrun xhCalls).env.prefixes = [[], ['x','m','l'], ['p'], ['n', '0']] := by decide +kernel
example : (xhStore.xrun (xhCalls.take 9)).forest.inheritedPrefixes (xhStore.xrun (xhCalls.take 9)).env 1 = [(3, 3)] ∧
    (xhStore.xrun (xhCalls.take 9)).forest.allHandles = [0, 3, 5, 1, 2] ∧
    ((xhStore.xrun (xhCalls.take 10)).forest.get? 7).map (fun t => t.kids.map (·.value)) =
      some [.namespace 3 3, .text ['x']] := by decide +kernel
example : (Forest.XCall.cloneWithPrefixes 1 [(3, 3)]).faithful (xhStore.xrun (xhCalls.take 9)) := by
  have h : (xhStore.xrun (xhCalls.take 9)).forest.inheritedPrefixes (xhStore.xrun (xhCalls.take 9)).env 1 =
      [(3, 3)] := by decide +kernel
  refine ⟨fun b => by rw [h], fun a ha b hb _ => ?_⟩
  rw [List.mem_singleton] at ha hb
  rw [ha, hb]

end XotModel.Props

/-! # ================================================================================================
    # STALE IDS (branch wt-stale): calls with removed / stale / foreign ids at the arena level
    # ================================================================================================

  `Arena.classify a x` (Lemmas/ArenaStale.lean) sorts every id into exactly one class with respect to
  the arena: `live` (the current id of a slot that holds a node), `freed` (removed: the slot is on the
  free list and has handed out the id's stamp before), `stale` (removed: the slot holds a node again,
  under a later stamp), `foreign` (never issued: out of range, index 0, negative stamp, or a stamp the
  slot has not reached).  `Arena.Removed` = `freed` or `stale`.  Decidable (a computable function).

  What indextree 4.7.2 DOES with such ids — proved from the definitions of the pointer-level model,
  for all arenas (the correspondence suite `arena` compares the same calls with the crate):

    reads         `NodeId::is_removed`: `true` for every removed id, index panic beyond the slot vector;
                  `Arena::get`: no stamp check — the freed slot itself (`Node::is_removed()` true) resp.
                  the NEW occupant; `arena[id].get()`: `unreachable!` on a freed slot; no accessor and
                  no iterator ever writes (`C04_arena_stale_reads`, `_read_only`);
    `checked_*`   a FREED id in either position: `Err(Removed)`; beyond the slot vector: index panic;
                  the same id twice: the `…Self` error — all before the first write
                  (`C04_arena_stale_checked`).  A STALE id is NOT refused: `Removed` is decided by the
                  sign of the SLOT's stamp, the call goes on with the new occupant
                  (`C04_arena_stale_passes_removed_check`; closed examples in `Props/C06`);
    `detach`      no stamp is looked at.  On a slot without parent / sibling pointers (every slot freed
                  by `remove`, the root freed by `remove_subtree`): `Ok`, arena unchanged
                  (`C04_arena_stale_detach_partial`).  In general pointers only are written
                  (`C04_arena_stale_detach_meta`: stamps, payloads, free list, the class of every id are
                  as before) — but with the stale pointers of a slot freed INSIDE a removed subtree these
                  are the pointers of the former neighbours' slots, whoever occupies them now: the full
                  statement is false (`C04_arena_stale_detach_Statement_false`: a live node loses its
                  children);
    `remove`, `remove_subtree`
                  no stamp is looked at: `free_node` runs again (DOUBLE FREE).  On a freed slot whose
                  five pointers are `None`: `Ok`; the stamp `c < 0` becomes `-c - 1 ≥ 0` over a `NextFree`
                  payload, the slot is linked into the free list a second time; the arena reached is
                  NOT well-formed and the id removed last from that slot is reported NOT removed again
                  (`C04_arena_stale_remove_double_free`; so `C04_arena_stale_remove_Statement` is false);
    one-argument calls with a STALE id
                  `detach`, `remove`, `remove_subtree` use the slot index only: the NEW OCCUPANT of the slot
                  is detached / removed / removed with its subtree, as the refinement theorems say for its
                  current id; the arena stays well-formed (`C04_arena_stale_acts_on_new_occupant`);
    iterators     from a removed id: no refusal; they follow whatever pointers the slot keeps; on a
                  slot whose five pointers are `None` they yield the removed id ITSELF and no children
                  (`C04_arena_stale_iterators`).

  The headline, `C04_arena_never_hands_out_removed`: in every well-formed (hence every reachable)
  arena, every pointer read from a live node and every id yielded by ANY iterator started at a live
  id — for every limit — is a live id; `get_node_id_at` answers live ids only.
-/

namespace XotModel.Props
open XotModel

/-- The classification of ids: `live` is `LiveId`; `freed` / `stale` are the two ways of being
    removed (slot free / slot reused) and exclude `LiveId`; `Removed` is decidable; below saturation
    `Removed` is the `Gone` of the removed-for-ever theorems. -/
theorem C04_arena_id_classes (a : Arena) (x : Arena.NodeId) :
    (a.classify x = .live ↔ Arena.LiveId a x) ∧
    (a.classify x = .freed → Arena.Freed a x ∧ 1 ≤ x.index1 ∧ 0 ≤ x.stamp) ∧
    (a.classify x = .stale → Arena.Stale a x ∧ 1 ≤ x.index1 ∧ 0 ≤ x.stamp) ∧
    (Arena.Removed a x ↔ (a.classify x = .freed ∨ a.classify x = .stale)) ∧
    (Arena.Removed a x → ¬ Arena.LiveId a x) ∧
    (Arena.Gone a x → 1 ≤ x.index1 → Arena.Removed a x) ∧
    (Arena.Removed a x → x.stamp < 32767 → Arena.Gone a x) :=
  ⟨Arena.classify_live_iff a x,
   fun h => ⟨(Arena.classify_freed h).1, (Arena.classify_freed h).2.1, (Arena.classify_freed h).2.2.1⟩,
   fun h => ⟨(Arena.classify_stale h).1, (Arena.classify_stale h).2.1, (Arena.classify_stale h).2.2.1⟩,
   Iff.rfl, Arena.Removed.not_liveId, Arena.Gone.removed,
   fun h hlt => by rcases h.gone with hg | ⟨h32, _⟩; exact hg; omega⟩

/-- Removed is for ever, in terms of the classes: a removed id (slot free or reused) with stamp below
    32767 is a removed id after every further history of calls — whatever happens to its slot. -/
theorem C04_arena_removed_stays_removed (a a' : Arena) (x : Arena.NodeId) (w : Arena.Wf a)
    (h : Arena.Removed a x) (hlt : x.stamp < 32767) (hist : Arena.Steps a a') :
    Arena.Removed a' x ∧ Arena.isRemoved a' x = .done a' true :=
  ⟨h.forever w hlt hist, (h.forever w hlt hist).isRemoved⟩

/-- The read accessors on removed and foreign ids. -/
theorem C04_arena_stale_reads (a : Arena) (x : Arena.NodeId) :
    (Arena.Removed a x → Arena.isRemoved a x = .done a true) ∧
    (a.slot x.index0 = none → Arena.isRemoved a x = .panic a ∧ a.get x = none) ∧
    (Arena.Freed a x → ∃ s, a.get x = some s ∧ s.isRemoved = true) ∧
    (Arena.Stale a x → ∃ s, a.get x = some s ∧ s.isRemoved = false ∧ s.stamp ≠ x.stamp ∧
      Arena.LiveId a ⟨x.index0 + 1, s.stamp⟩) ∧
    (Arena.Wf a → Arena.Freed a x → Arena.value a x = .panic a) ∧
    (Arena.Wf a → Arena.Stale a x → ∃ v, Arena.value a x = .done a v) :=
  ⟨Arena.Removed.isRemoved, fun h => ⟨Arena.isRemoved_out_of_range h, h⟩, Arena.Freed.get, Arena.Stale.get,
   fun ⟨_, r⟩ h => h.value_panics r, fun ⟨_, r⟩ h => h.value r⟩

/-- No read accessor and no iterator writes: for EVERY arena and EVERY id (live, removed, foreign) and
    every limit, the arena reached — also when the call panics — is the arena given. -/
theorem C04_arena_stale_read_only (a : Arena) (x : Arena.NodeId) (limit : Nat) :
    (Arena.isRemoved a x).arena = a ∧ (Arena.value a x).arena = a ∧
    (Arena.ancestors a x limit).arena = a ∧ (Arena.predecessors a x limit).arena = a ∧
    (Arena.children a x limit).arena = a ∧ (Arena.childrenRev a x limit).arena = a ∧
    (Arena.reverseChildren a x limit).arena = a ∧ (Arena.followingSiblings a x limit).arena = a ∧
    (Arena.precedingSiblings a x limit).arena = a ∧ (Arena.traverse a x limit).arena = a ∧
    (Arena.reverseTraverse a x limit).arena = a ∧ (Arena.descendants a x limit).arena = a :=
  ⟨Arena.isRemoved_arena a x, Arena.value_arena a x, Arena.iterators_arena a x limit⟩

/-- `checked_append` / `checked_prepend` / `checked_insert_after` / `checked_insert_before` with a
    FREED id (`FreedArg`: `self`'s slot is free — the other id is then not even looked at — or `self`'s
    slot holds a node and the other id's slot is free): `Err(Removed)`; with an id beyond the slot vector
    (`OutOfRangeArg`): `arena[..]` panics; both with the arena literally unchanged, on EVERY arena. -/
theorem C04_arena_stale_checked (a : Arena) (x y : Arena.NodeId) (hne : y ≠ x) :
    (Arena.FreedArg a x y →
      Arena.checkedAppend a x y = .done a (.error .removed) ∧ Arena.checkedPrepend a x y = .done a (.error .removed) ∧
      Arena.checkedInsertAfter a x y = .done a (.error .removed) ∧
      Arena.checkedInsertBefore a x y = .done a (.error .removed)) ∧
    (Arena.OutOfRangeArg a x y →
      Arena.checkedAppend a x y = .panic a ∧ Arena.checkedPrepend a x y = .panic a ∧
      Arena.checkedInsertAfter a x y = .panic a ∧ Arena.checkedInsertBefore a x y = .panic a) :=
  ⟨fun h => ⟨Arena.checkedAppend_freed hne h, Arena.checkedPrepend_freed hne h, Arena.checkedInsertAfter_freed hne h,
     Arena.checkedInsertBefore_freed hne h⟩,
   fun h => ⟨Arena.checkedAppend_out_of_range hne h, Arena.checkedPrepend_out_of_range hne h,
     Arena.checkedInsertAfter_out_of_range hne h, Arena.checkedInsertBefore_out_of_range hne h⟩⟩

/-- The same in terms of the classes: a `freed` id as `self` with ANY other id, or as the other id with a
    `live` or `stale` `self`; and the unchecked wrappers (`append`, …) then panic on their `expect`. -/
theorem C04_arena_stale_checked_classes (a : Arena) (x y : Arena.NodeId) (hne : y ≠ x)
    (h : a.classify x = .freed ∨ ((a.classify x = .live ∨ a.classify x = .stale) ∧ a.classify y = .freed)) :
    Arena.checkedAppend a x y = .done a (.error .removed) ∧ Arena.checkedPrepend a x y = .done a (.error .removed) ∧
    Arena.checkedInsertAfter a x y = .done a (.error .removed) ∧
    Arena.checkedInsertBefore a x y = .done a (.error .removed) ∧
    Arena.append a x y = .panic a ∧ Arena.prepend a x y = .panic a ∧ Arena.insertAfter a x y = .panic a ∧
    Arena.insertBefore a x y = .panic a :=
  have hf := Arena.freedArg_of_classes h
  ⟨Arena.checkedAppend_freed hne hf, Arena.checkedPrepend_freed hne hf, Arena.checkedInsertAfter_freed hne hf,
   Arena.checkedInsertBefore_freed hne hf, Arena.append_freed hne hf, Arena.prepend_freed hne hf,
   Arena.insertAfter_freed hne hf, Arena.insertBefore_freed hne hf⟩

/-- A STALE id is not refused: the test `arena[self].is_removed() || arena[other].is_removed()` looks at
    the slots, and both slots hold nodes. -/
theorem C04_arena_stale_passes_removed_check (a : Arena) (x y : Arena.NodeId)
    (hx : Arena.LiveId a x ∨ Arena.Stale a x) (hy : Arena.LiveId a y ∨ Arena.Stale a y) :
    Arena.eitherRemoved a x y = .done a false :=
  Arena.eitherRemoved_occupied (hx.elim Arena.LiveId.occupied Arena.Stale.occupied)
    (hy.elim Arena.LiveId.occupied Arena.Stale.occupied)

/-- A FOREIGN id beyond the slot vector: every call panics on its first `arena[id]` (index out of bounds;
    `following_siblings` / `preceding_siblings`: `arena.get(id).unwrap()`), before any write.  (An
    in-range foreign id is treated like a removed one: no function can tell them apart.) -/
theorem C04_arena_foreign_out_of_range (a : Arena) (x : Arena.NodeId) (h : a.slot x.index0 = none) (n : Nat) :
    Arena.detach a x = .panic a ∧ Arena.remove a x = .panic a ∧ Arena.removeSubtree a x = .panic a ∧
    Arena.isRemoved a x = .panic a ∧ Arena.value a x = .panic a ∧
    Arena.children a x n = .panic a ∧ Arena.reverseChildren a x n = .panic a ∧
    Arena.ancestors a x (n + 1) = .panic a ∧ Arena.followingSiblings a x n = .panic a ∧
    Arena.precedingSiblings a x n = .panic a ∧ Arena.traverse a x (n + 1) = .panic a ∧
    Arena.reverseTraverse a x (n + 1) = .panic a ∧ Arena.descendants a x (n + 1) = .panic a :=
  Arena.out_of_range_panics a x h n

/-- Full-strength statement for `detach` (FALSE, see below): a removed id leaves the arena alone. -/
def C04_arena_stale_detach_Statement : Prop :=
  ∀ (a : Arena) (x : Arena.NodeId), Arena.Wf a → Arena.Removed a x → Arena.detach a x = .done a ()

/-- `detach` of an id whose slot has no `parent`, `previous_sibling`, `next_sibling` (every slot freed
    by `remove`; the root freed by `remove_subtree`): `Ok`, arena literally unchanged — every arena. -/
theorem C04_arena_stale_detach_partial (a : Arena) (x : Arena.NodeId) (s : Arena.Slot)
    (hs : a.slot x.index0 = some s) (hu : s.Unlinked) : Arena.detach a x = .done a () :=
  Arena.detach_unlinked a x s hs hu

/-- `detach` of ANY id whose slot exists and whose three neighbour pointers are in range and name other
    slots: `Ok`; only pointers are written: stamps, payloads, the free list and the class of every id
    are as before. -/
theorem C04_arena_stale_detach_meta (a : Arena) (x : Arena.NodeId) (s : Arena.Slot) (hs : a.slot x.index0 = some s)
    (hp : Arena.InRange a s.parent) (hv : Arena.InRange a s.prev) (hn : Arena.InRange a s.next)
    (h1 : ∀ id, s.parent = some id → id.index0 ≠ x.index0) (h2 : ∀ id, s.prev = some id → id.index0 ≠ x.index0)
    (h3 : ∀ id, s.next = some id → id.index0 ≠ x.index0) :
    ∃ a', Arena.detach a x = .done a' () ∧ Arena.MetaEq a a' ∧ ∀ y, a'.classify y = a.classify y := by
  obtain ⟨a', h, m⟩ := Arena.detach_metaEq a x s hs hp hv hn h1 h2 h3
  exact ⟨a', h, m, m.classify⟩

/-- The full statement is false: in `sampleH` (reachable: `1:0`, `2:1 [3:0]`, slot 3 freed inside a
    removed subtree and still naming its former parent `2:0`, whose slot now holds `2:1`), `detach(4:0)`
    clears `first_child` / `last_child` of the live node `2:1`, whose child `3:0` still names it as parent:
    the arena reached is not well-formed. -/
theorem C04_arena_stale_detach_Statement_false : ¬ C04_arena_stale_detach_Statement := by
  intro h
  have := h Arena.sampleH ⟨4, 0⟩ Arena.sampleH_wf (by decide)
  revert this
  decide

theorem C04_arena_stale_detach_breaks_wf :
    Arena.Wf Arena.sampleH ∧ Arena.Removed Arena.sampleH ⟨4, 0⟩ ∧
    ∃ a', Arena.detach Arena.sampleH ⟨4, 0⟩ = .done a' () ∧ ¬ Arena.Wf a' := by
  refine ⟨Arena.sampleH_wf, by decide, _, rfl, ?_⟩
  exact Arena.not_wf_of_orphan (c := 2) (y := ⟨2, 1⟩) rfl (by decide) rfl rfl (by decide) rfl

/-- Full-strength statement for `remove` / `remove_subtree` (FALSE): a removed id is refused or at
    least leaves a well-formed arena. -/
def C04_arena_stale_remove_Statement : Prop :=
  ∀ (a : Arena) (x : Arena.NodeId), Arena.Wf a → Arena.Removed a x →
    Arena.Wf (Arena.remove a x).arena ∧ Arena.Wf (Arena.removeSubtree a x).arena

/-- DOUBLE FREE: `remove` and `remove_subtree` of an id whose slot is free with all five pointers `None`
    (what `remove` leaves), on a well-formed arena: both answer `Ok` with the same arena; the slot's
    stamp `c < 0` becomes `-c - 1 ≥ 0`; the arena reached is NOT well-formed; `is_removed` of the id is now
    `false` exactly for the id that was removed last from the slot (stamp `-c - 1`): a removed node is
    handed back as not removed.  No other slot's stamp changes. -/
theorem C04_arena_stale_remove_double_free (a : Arena) (w : Arena.Wf a) (x : Arena.NodeId) (s : Arena.Slot)
    (hs : a.slot x.index0 = some s) (hn : s.stamp < 0) (hc : s.Cleared) :
    ∃ a', Arena.remove a x = .done a' () ∧ Arena.removeSubtree a x = .done a' () ∧ ¬ Arena.Wf a' ∧
      Arena.isRemoved a' x = .done a' (decide (x.stamp ≠ -s.stamp - 1)) ∧
      (∀ j, j ≠ x.index0 → (a'.slot j).map (·.stamp) = (a.slot j).map (·.stamp)) := by
  obtain ⟨g, r⟩ := w
  exact r.remove_freed_cleared x s hs hn hc

theorem C04_arena_stale_remove_Statement_false : ¬ C04_arena_stale_remove_Statement := by
  intro h
  obtain ⟨a', h1, _, h3, _⟩ := C04_arena_stale_remove_double_free Arena.sampleF Arena.sampleF_wf ⟨3, 0⟩
    { stamp := -1, data := .nextFree none } rfl (by decide) (by decide)
  have := (h Arena.sampleF ⟨3, 0⟩ Arena.sampleF_wf (by decide)).1
  rw [h1] at this
  exact h3 this

/-- **A stale id acts on the new occupant.**  `detach`, `remove`, `remove_subtree` (and `children`,
    `reverse_children`) use nothing of their id but the slot index — on EVERY arena the call with any id
    is the call with the current id of that slot.  For a STALE id that current id is a live id of
    ANOTHER node: it is that node which is detached / removed / removed with its whole subtree, exactly
    as the refinement theorems say (`C04_arena_refines_detach`, `_remove`, `_remove_subtree`); the arena
    stays well-formed, nothing is refused. -/
theorem C04_arena_stale_acts_on_new_occupant (a : Arena) (g : Arena.Shape) (r : Arena.Rep a g) (x : Arena.NodeId)
    (hx : Arena.Stale a x) :
    Arena.LiveId a (a.idAt x.index0) ∧ a.idAt x.index0 ≠ x ∧
    Arena.detach a x = Arena.detach a (a.idAt x.index0) ∧ Arena.remove a x = Arena.remove a (a.idAt x.index0) ∧
    Arena.removeSubtree a x = Arena.removeSubtree a (a.idAt x.index0) ∧
    (∀ n, Arena.children a x n = Arena.children a (a.idAt x.index0) n ∧
      Arena.reverseChildren a x n = Arena.reverseChildren a (a.idAt x.index0) n) ∧
    (∃ a', Arena.detach a x = .done a' () ∧ Arena.Rep a' (g.detach x.index0)) ∧
    (∃ a' l, Arena.removeSubtree a x = .done a' () ∧ Arena.Rep a' ((g.detach x.index0).prune l) ∧
      (∀ u, u ∈ l ↔ Arena.Reach g.par u x.index0)) := by
  obtain ⟨hl, hne⟩ := hx.current
  obtain ⟨e1, e2, e3⟩ := Arena.one_arg_current a x
  refine ⟨hl, hne, e1, e2, e3, fun n => Arena.children_index0 a x _ (by simp) n, ?_, ?_⟩
  · obtain ⟨a', h, r', _⟩ := C04_arena_refines_detach a g r _ hl
    rw [Arena.idAt_index0] at r'
    exact ⟨a', e1.trans h, r'⟩
  · obtain ⟨a', l, h, r', _, hm, _⟩ := C04_arena_refines_remove_subtree a g r x.index0 hl.2.1
    exact ⟨a', l, e3.trans h, r', hm⟩

/-- The index-only fact by itself, for every arena and every id. -/
theorem C04_arena_one_arg_calls_index_only (a : Arena) (x y : Arena.NodeId) (h : x.index0 = y.index0) :
    Arena.detach a x = Arena.detach a y ∧ Arena.remove a x = Arena.remove a y ∧
    Arena.removeSubtree a x = Arena.removeSubtree a y :=
  ⟨Arena.detach_index0 a x y h, Arena.remove_index0 a x y h, Arena.removeSubtree_index0 a x y h⟩

/-- The iterators from an id whose slot has all five pointers `None` (a slot freed by `remove`): no
    refusal and no panic; they yield the id ITSELF — a removed id when the slot is free — and no
    children; the arena is unchanged. -/
theorem C04_arena_stale_iterators (a : Arena) (x : Arena.NodeId) (s : Arena.Slot) (hs : a.slot x.index0 = some s)
    (hc : s.Cleared) (n : Nat) :
    Arena.children a x n = .done a [] ∧ Arena.reverseChildren a x n = .done a [] ∧
    Arena.ancestors a x (n + 1) = .done a [x] ∧ Arena.followingSiblings a x (n + 1) = .done a [x] ∧
    Arena.precedingSiblings a x (n + 1) = .done a [x] ∧
    Arena.traverse a x (n + 2) = .done a [.start x, .end x] ∧
    Arena.reverseTraverse a x (n + 2) = .done a [.end x, .start x] ∧
    Arena.descendants a x (n + 2) = .done a [x] :=
  Arena.iterators_cleared a x s hs hc n

/-- **No accessor and no iterator hands out a removed node.**  In a well-formed arena, for a LIVE id `x`:
    every pointer of its slot (`parent`, `previous_sibling`, `next_sibling`, `first_child`,
    `last_child`) is `None` or a live id; every id yielded by `ancestors`, `predecessors`, `children`,
    `children().rev()`, `reverse_children`, `following_siblings`, `preceding_siblings`, `descendants`
    and the node of every edge yielded by `traverse`, `reverse_traverse` is a live id — for EVERY limit,
    also one that cuts the iteration short (with a sufficient limit the results are the list-level
    lists: `C07_arena_iterators`, `C07_arena_traverse`, `C07_arena_reverse_traverse`); a live id is not
    removed and `is_removed` says so. -/
theorem C04_arena_never_hands_out_removed (a : Arena) (w : Arena.Wf a) (x : Arena.NodeId) (hx : Arena.LiveId a x)
    (limit : Nat) :
    (∃ s, a.get x = some s ∧ s.isRemoved = false ∧
      (∀ y, s.parent = some y → Arena.LiveId a y) ∧ (∀ y, s.prev = some y → Arena.LiveId a y) ∧
      (∀ y, s.next = some y → Arena.LiveId a y) ∧ (∀ y, s.first = some y → Arena.LiveId a y) ∧
      (∀ y, s.last = some y → Arena.LiveId a y)) ∧
    (∀ a' l, Arena.ancestors a x limit = .done a' l → ∀ y ∈ l, Arena.LiveId a y) ∧
    (∀ a' l, Arena.predecessors a x limit = .done a' l → ∀ y ∈ l, Arena.LiveId a y) ∧
    (∀ a' l, Arena.children a x limit = .done a' l → ∀ y ∈ l, Arena.LiveId a y) ∧
    (∀ a' l, Arena.childrenRev a x limit = .done a' l → ∀ y ∈ l, Arena.LiveId a y) ∧
    (∀ a' l, Arena.reverseChildren a x limit = .done a' l → ∀ y ∈ l, Arena.LiveId a y) ∧
    (∀ a' l, Arena.followingSiblings a x limit = .done a' l → ∀ y ∈ l, Arena.LiveId a y) ∧
    (∀ a' l, Arena.precedingSiblings a x limit = .done a' l → ∀ y ∈ l, Arena.LiveId a y) ∧
    (∀ a' l, Arena.traverse a x limit = .done a' l → ∀ e ∈ l, Arena.LiveId a e.node) ∧
    (∀ a' l, Arena.reverseTraverse a x limit = .done a' l → ∀ e ∈ l, Arena.LiveId a e.node) ∧
    (∀ a' l, Arena.descendants a x limit = .done a' l → ∀ y ∈ l, Arena.LiveId a y) ∧
    (∀ y, Arena.LiveId a y → ¬ Arena.Removed a y ∧ Arena.isRemoved a y = .done a false) := by
  obtain ⟨g, r⟩ := w
  obtain ⟨s, hs, h0, hp⟩ := r.liveId_ptrs hx
  refine ⟨⟨s, hs, ?_, hp⟩, ?_⟩
  · simp [Arena.Slot.isRemoved, Arena.Stamp.isRemoved]; omega
  · obtain ⟨h1, h2, h3, h4, h5, h6, h7, h8, h9, h10⟩ := r.iterators_live hx limit
    exact ⟨h1, h2, h3, h4, h5, h6, h7, h8, h9, h10, fun y hy => ⟨fun hr => hr.not_liveId hy, hy.isRemoved⟩⟩

/-- The same in every REACHABLE arena (histories of calls with live arguments from the empty arena),
    with what the iterators return: nothing they yield is a removed id. -/
theorem C04_arena_never_hands_out_removed_reachable (a : Arena) (h : Arena.Steps {} a) (x : Arena.NodeId)
    (hx : Arena.LiveId a x) (limit : Nat) :
    (∀ a' l, Arena.ancestors a x limit = .done a' l → ∀ y ∈ l, ¬ Arena.Removed a y) ∧
    (∀ a' l, Arena.children a x limit = .done a' l → ∀ y ∈ l, ¬ Arena.Removed a y) ∧
    (∀ a' l, Arena.reverseChildren a x limit = .done a' l → ∀ y ∈ l, ¬ Arena.Removed a y) ∧
    (∀ a' l, Arena.followingSiblings a x limit = .done a' l → ∀ y ∈ l, ¬ Arena.Removed a y) ∧
    (∀ a' l, Arena.precedingSiblings a x limit = .done a' l → ∀ y ∈ l, ¬ Arena.Removed a y) ∧
    (∀ a' l, Arena.descendants a x limit = .done a' l → ∀ y ∈ l, ¬ Arena.Removed a y) ∧
    (∀ a' l, Arena.traverse a x limit = .done a' l → ∀ e ∈ l, ¬ Arena.Removed a e.node) ∧
    (∀ a' l, Arena.reverseTraverse a x limit = .done a' l → ∀ e ∈ l, ¬ Arena.Removed a e.node) := by
  obtain ⟨_, h1, _, h3, _, h5, h6, h7, h8, h9, h10, _⟩ :=
    C04_arena_never_hands_out_removed a (C04_arena_wf_reachable a h) x hx limit
  exact ⟨fun a' l e y hy hr => hr.not_liveId (h1 a' l e y hy), fun a' l e y hy hr => hr.not_liveId (h3 a' l e y hy),
    fun a' l e y hy hr => hr.not_liveId (h5 a' l e y hy), fun a' l e y hy hr => hr.not_liveId (h6 a' l e y hy),
    fun a' l e y hy hr => hr.not_liveId (h7 a' l e y hy), fun a' l e y hy hr => hr.not_liveId (h10 a' l e y hy),
    fun a' l e y hy hr => hr.not_liveId (h8 a' l e y hy), fun a' l e y hy hr => hr.not_liveId (h9 a' l e y hy)⟩

/-- `Arena::get_node_id_at` (no stamp to compare: it builds the id from the slot) answers live ids only. -/
theorem C04_arena_get_node_id_at_live (a : Arena) (i : Nat) (x : Arena.NodeId) (h1 : 1 ≤ i)
    (h : a.getNodeIdAt i = some x) : Arena.LiveId a x :=
  Arena.getNodeIdAt_live h1 h

/-- Non-vacuity and the examples by evaluation.  `sampleC` (slot 1 reused once): the old id `2:0` is
    stale, the new id `2:1` is live, `2:2` / `5:0` / `2:-1` are foreign; `is_removed`, `get`, `value` on
    them.  `sampleF` (`3:0` removed by `remove`: slot free, pointers cleared), `sampleG` (`2:0`, `4:0`
    removed by `remove_subtree`: stale pointers kept), `sampleH` (slot 1 reused as `2:1` with child `3:0`):
    the classes; `checked_*` refuse the freed id in both positions and panic beyond the slot vector;
    `detach(3:0)` on the cleared slot changes nothing; `detach(4:0)` on `sampleG` rewrites the freed
    slot 1 (the arena changes, still well-formed), on `sampleH` it breaks the live node `2:1`; `remove(3:0)`
    a second time revives `3:0` and leaves an arena that is not well-formed; iterators from removed ids
    yield removed ids (`ancestors(4:0)` = `[4:0, 2:0]` in `sampleG`). -/
example : Arena.sampleC.classify ⟨2, 0⟩ = .stale ∧ Arena.sampleC.classify ⟨2, 1⟩ = .live ∧
    Arena.sampleC.classify ⟨2, 2⟩ = .foreign ∧ Arena.sampleC.classify ⟨5, 0⟩ = .foreign ∧
    Arena.sampleC.classify ⟨2, -1⟩ = .foreign ∧ Arena.sampleC.classify ⟨0, 0⟩ = .foreign ∧
    Arena.Removed Arena.sampleC ⟨2, 0⟩ ∧ ¬ Arena.Removed Arena.sampleC ⟨2, 1⟩ ∧
    Arena.isRemoved Arena.sampleC ⟨2, 0⟩ = .done Arena.sampleC true ∧
    Arena.isRemoved Arena.sampleC ⟨2, 1⟩ = .done Arena.sampleC false ∧
    Arena.isRemoved Arena.sampleC ⟨5, 0⟩ = .panic Arena.sampleC ∧
    Arena.value Arena.sampleC ⟨2, 0⟩ = .done Arena.sampleC 50 ∧
    Arena.sampleC.getNodeIdAt 2 = some ⟨2, 1⟩ := by decide

example : Arena.sampleF.classify ⟨3, 0⟩ = .freed ∧ Arena.sampleF.classify ⟨3, 1⟩ = .foreign ∧
    Arena.sampleG.classify ⟨2, 0⟩ = .freed ∧ Arena.sampleG.classify ⟨4, 0⟩ = .freed ∧
    Arena.sampleH.classify ⟨2, 0⟩ = .stale ∧ Arena.sampleH.classify ⟨2, 1⟩ = .live ∧
    Arena.sampleH.classify ⟨4, 0⟩ = .freed ∧
    Arena.isRemoved Arena.sampleF ⟨3, 0⟩ = .done Arena.sampleF true ∧
    Arena.value Arena.sampleF ⟨3, 0⟩ = .panic Arena.sampleF ∧
    (Arena.sampleF.get ⟨3, 0⟩).map (·.isRemoved) = some true ∧ Arena.sampleF.getNodeIdAt 3 = none := by decide

example : Arena.checkedAppend Arena.sampleF ⟨1, 0⟩ ⟨3, 0⟩ = .done Arena.sampleF (.error .removed) ∧
    Arena.checkedAppend Arena.sampleF ⟨3, 0⟩ ⟨1, 0⟩ = .done Arena.sampleF (.error .removed) ∧
    Arena.checkedAppend Arena.sampleF ⟨3, 0⟩ ⟨9, 0⟩ = .done Arena.sampleF (.error .removed) ∧
    Arena.checkedPrepend Arena.sampleF ⟨2, 0⟩ ⟨3, 0⟩ = .done Arena.sampleF (.error .removed) ∧
    Arena.checkedInsertAfter Arena.sampleF ⟨4, 0⟩ ⟨3, 0⟩ = .done Arena.sampleF (.error .removed) ∧
    Arena.checkedInsertBefore Arena.sampleF ⟨3, 0⟩ ⟨4, 0⟩ = .done Arena.sampleF (.error .removed) ∧
    Arena.checkedAppend Arena.sampleF ⟨3, 0⟩ ⟨3, 0⟩ = .done Arena.sampleF (.error .appendSelf) ∧
    Arena.checkedAppend Arena.sampleF ⟨1, 0⟩ ⟨9, 0⟩ = .panic Arena.sampleF ∧
    Arena.checkedAppend Arena.sampleF ⟨9, 0⟩ ⟨3, 0⟩ = .panic Arena.sampleF ∧
    Arena.append Arena.sampleF ⟨1, 0⟩ ⟨3, 0⟩ = .panic Arena.sampleF := by decide

example : Arena.detach Arena.sampleF ⟨3, 0⟩ = .done Arena.sampleF () ∧
    (match Arena.detach Arena.sampleG ⟨4, 0⟩ with
     | .done a' () => a' != Arena.sampleG && a'.wf && (a'.get ⟨2, 0⟩).map (·.first) == some none
     | _ => false) = true ∧
    (match Arena.detach Arena.sampleH ⟨4, 0⟩ with
     | .done a' () => !a'.wf && (a'.get ⟨2, 1⟩).map (·.first) == some none &&
         (a'.get ⟨3, 0⟩).map (·.parent) == some (some ⟨2, 1⟩)
     | _ => false) = true ∧
    (match Arena.remove Arena.sampleF ⟨3, 0⟩ with
     | .done a' () => !a'.wf && Arena.isRemoved a' ⟨3, 0⟩ == .done a' false &&
         Arena.removeSubtree Arena.sampleF ⟨3, 0⟩ == .done a' ()
     | _ => false) = true ∧
    (match Arena.removeSubtree Arena.sampleG ⟨2, 0⟩ with
     | .done a' () => !a'.wf && Arena.isRemoved a' ⟨2, 0⟩ == .done a' false && Arena.isRemoved a' ⟨4, 0⟩ == .done a' false
     | _ => false) = true := by decide

example : Arena.children Arena.sampleF ⟨3, 0⟩ 9 = .done Arena.sampleF [] ∧
    Arena.ancestors Arena.sampleF ⟨3, 0⟩ 9 = .done Arena.sampleF [⟨3, 0⟩] ∧
    Arena.descendants Arena.sampleF ⟨3, 0⟩ 9 = .done Arena.sampleF [⟨3, 0⟩] ∧
    Arena.ancestors Arena.sampleG ⟨4, 0⟩ 9 = .done Arena.sampleG [⟨4, 0⟩, ⟨2, 0⟩] ∧
    Arena.children Arena.sampleG ⟨2, 0⟩ 9 = .done Arena.sampleG [⟨4, 0⟩] ∧
    Arena.descendants Arena.sampleG ⟨2, 0⟩ 9 = .done Arena.sampleG [⟨2, 0⟩, ⟨4, 0⟩] ∧
    Arena.children Arena.sampleH ⟨2, 0⟩ 9 = .done Arena.sampleH [⟨3, 0⟩] ∧
    Arena.descendants Arena.sampleH ⟨1, 0⟩ 9 = .done Arena.sampleH [⟨1, 0⟩] ∧
    Arena.descendants Arena.sampleH ⟨2, 1⟩ 9 = .done Arena.sampleH [⟨2, 1⟩, ⟨3, 0⟩] := by decide

/-- The stale id `2:0` in `sampleH` (`1:0`, `2:1 [3:0]`): `detach`, `remove`, `remove_subtree` with it are the
    calls with `2:1`; `remove_subtree(2:0)` removes the live nodes `2:1` and `3:0`. -/
example : Arena.Stale Arena.sampleH ⟨2, 0⟩ ∧ Arena.sampleH.idAt 1 = ⟨2, 1⟩ :=
  ⟨⟨_, rfl, by decide, by decide⟩, rfl⟩
example : Arena.detach Arena.sampleH ⟨2, 0⟩ = Arena.detach Arena.sampleH ⟨2, 1⟩ ∧
    Arena.removeSubtree Arena.sampleH ⟨2, 0⟩ = Arena.removeSubtree Arena.sampleH ⟨2, 1⟩ ∧
    (match Arena.removeSubtree Arena.sampleH ⟨2, 0⟩ with
     | .done a' () => a'.wf && Arena.isRemoved a' ⟨2, 1⟩ == .done a' true && Arena.isRemoved a' ⟨3, 0⟩ == .done a' true
     | _ => false) = true := by decide

/-- Non-vacuity of the hypotheses: `sampleF`, `sampleG`, `sampleH` are reachable, hence well-formed; the
    freed slot of `sampleF` is `Cleared`, the freed root slot of `sampleG` is `Unlinked` but not
    `Cleared`, the freed inner slot of `sampleG` is not even `Unlinked`; `FreedArg` / `OutOfRangeArg`
    hold for the calls above. -/
example : Arena.Wf Arena.sampleF ∧ Arena.Wf Arena.sampleG ∧ Arena.Wf Arena.sampleH :=
  ⟨Arena.sampleF_wf, Arena.sampleG_wf, Arena.sampleH_wf⟩

example : (∃ s, Arena.sampleF.slot 2 = some s ∧ s.stamp < 0 ∧ s.Cleared) ∧
    (∃ s, Arena.sampleG.slot 1 = some s ∧ s.stamp < 0 ∧ s.Unlinked ∧ ¬ s.Cleared) ∧
    (∃ s, Arena.sampleG.slot 3 = some s ∧ s.stamp < 0 ∧ ¬ s.Unlinked) :=
  ⟨⟨_, rfl, by decide, by decide⟩, ⟨_, rfl, by decide, by decide, by decide⟩, ⟨_, rfl, by decide, by decide⟩⟩

example : Arena.FreedArg Arena.sampleF ⟨3, 0⟩ ⟨9, 0⟩ ∧ Arena.FreedArg Arena.sampleF ⟨1, 0⟩ ⟨3, 0⟩ ∧
    Arena.OutOfRangeArg Arena.sampleF ⟨1, 0⟩ ⟨9, 0⟩ ∧ Arena.LiveId Arena.sampleH ⟨2, 1⟩ ∧
    Arena.Stale Arena.sampleH ⟨2, 0⟩ :=
  ⟨Or.inl ⟨_, rfl, by decide⟩, Or.inr ⟨⟨_, rfl, by decide⟩, ⟨_, rfl, by decide⟩⟩,
   Or.inr ⟨⟨_, rfl, by decide⟩, rfl⟩, Arena.liveId_of_isLiveId (by decide), ⟨_, rfl, by decide, by decide⟩⟩

end XotModel.Props

/-! # ================================================================================================
    # REACHABLE TREES (branch wt-reach): the invariant gives the structural hypotheses of the
    # tree-level theorems (C01, C07, C09, C10, C13, C15)
    # ================================================================================================

  Many property theorems are about a plain `Tree` (+ `Path`) and assume structural hypotheses: `wf` /
  `kidsSorted` (C07), `Tree.valid` / `contentLeaves` / `noInnerDocument` (C13), `UniqueDeclsBelow` (C09, C15),
  `UniqueBelow` (C10), `OnlyElementsDeclare` (C15), `StructValid` (C10), the structural part of
  `Representable` (C01).  This section is the BRIDGE: `Forest.Inv f` implies every one of them for the
  erasure `r.erase` of every parentless tree `r` of `f`, at every node (Lemmas/ReachNode.lean: one mutual
  structural induction over `HTree`, `Reach.forall_erase`, turns each local clause of `validTree` into a
  `Tree.Forall` fact; ReachAxes / ReachCompare / ReachScope / ReachRepresentable derive the predicates of
  the single properties from those at the tree level).  With `C04_reach_ext` they hold for every forest
  reachable from the empty store by an extended history, with no hypothesis on the tree at all.

  The restated headline theorems live with their properties: `C07_reachable_*` in Props/C07.lean,
  `C13_reachable_*` in Props/C13.lean, `C09_reachable_*` in Props/C09.lean.  The HYPOTHESES of the C01 / C10 /
  C15 theorems are derived here (`C04_reachable_hypotheses`, `C01_reachable_representable`) next to the
  `C10_forest_*` / `C15_forest_*` refinement theorems; their CONCLUSIONS for reachable forests — the
  end-to-end theorems history ∘ serialise ∘ parse, `C01_reachable_roundtrip`,
  `C10_reachable_repair_roundtrip`, `C15_reachable_dedup` — are in the last sections of Props/C01.lean,
  Props/C10.lean, Props/C15.lean, which import this file.  (Until the helper lemma names of the forest
  families and of the tokenizer / builder / round-trip families were made unique — `ZipFrame` of
  Lemmas/FinvZip.lean was a second `XotModel.Frame`, `mem_of_lookup`, `replaceKids_of_not_mem`, … were declared
  twice — the two halves could not be imported into one module.)  C16 (token / event streams) has no
  structural hypothesis to discharge: its theorems hold for every tree and every start path as they stand. -/

namespace XotModel.Props
open XotModel

/-- ⟦C04_inv_structure⟧ **The bridge.**  In a forest with the invariant, at EVERY node (path `p`, value `v`,
    children `ks`) of the erasure of EVERY parentless tree: the children come as namespace nodes,
    then attribute nodes, then normal nodes; text / comment / PI / attribute / namespace nodes are
    leaves; only elements carry attribute and namespace nodes; a document node is never a child
    (documents only at the root); attribute names and declared prefixes are unique per node; and —
    while consolidation has never been switched off — no two adjacent children are text nodes. -/
theorem C04_inv_structure (f : Forest) (hi : f.Inv) :
    ∀ r ∈ f.roots, ∀ (p : Path) (v : Value) (ks : List Tree), r.erase.at? p = some (.node v ks) →
      OrderedKids ks ∧
      (v.isLeafKind = true → ks = []) ∧
      (v.isElement = false → ∀ k ∈ ks, k.value.isNormal = true) ∧
      (∀ k ∈ ks, k.value.isDocument = false) ∧
      (attrNames ks).Nodup ∧ (nsPrefixes ks).Nodup ∧
      (f.everOff = false → noAdjText ks = true) := by
  intro r hr p v ks hat
  have hs := Reach.structural_root hi hr
  have h1 := Reach.forall_at _ p _ hs.ordered v ks hat
  have h2 := Reach.forall_at _ p _ hs.kinds v ks hat
  have h3 := Reach.forall_at _ p _ hs.unique v ks hat
  exact ⟨h1, h2.1, h2.2.1, h2.2.2, h3.1, h3.2,
    fun hoff => Reach.forall_at _ p _ (Reach.noAdjacentText_root hi hoff hr) v ks hat⟩

/-- The same as `Tree.Forall` facts (Model/Valid.lean), `StructValid` for a document root. -/
theorem C04_inv_structValid (f : Forest) (hi : f.Inv) :
    ∀ r ∈ f.roots,
      r.erase.Forall (fun _ ks => OrderedKids ks) ∧ r.erase.Forall KindsOk ∧
      r.erase.Forall (fun _ ks => UniqueKids ks) ∧
      (r.value.isDocument = true → StructValid r.erase) ∧
      (f.everOff = false → NoAdjacentText r.erase) := by
  intro r hr
  have hs := Reach.structural_root hi hr
  exact ⟨hs.ordered, hs.kinds, hs.unique, fun hd => Reach.structValid_root hi hr hd,
    fun hoff => Reach.noAdjacentText_root hi hoff hr⟩

/-- ⟦C04_reachable_structure⟧ **Every tree the API can build is structurally valid**: for every extended
    history from the empty store (`C04_reach_ext`), every parentless tree of the result, every path. -/
theorem C04_reachable_structure (env : Env) (cs : List Forest.XCall) (hw : ∀ c ∈ cs, c.wellKinded) :
    ∀ r ∈ ((⟨Forest.init, env⟩ : Store).xrun cs).forest.roots,
      (∀ (p : Path) (v : Value) (ks : List Tree), r.erase.at? p = some (.node v ks) →
        OrderedKids ks ∧
        (v.isLeafKind = true → ks = []) ∧
        (v.isElement = false → ∀ k ∈ ks, k.value.isNormal = true) ∧
        (∀ k ∈ ks, k.value.isDocument = false) ∧
        (attrNames ks).Nodup ∧ (nsPrefixes ks).Nodup ∧
        (((⟨Forest.init, env⟩ : Store).xrun cs).forest.everOff = false → noAdjText ks = true)) ∧
      (r.value.isDocument = true → StructValid r.erase) ∧
      (((⟨Forest.init, env⟩ : Store).xrun cs).forest.everOff = false → NoAdjacentText r.erase) := by
  intro r hr
  have hi := C04_reach_ext env cs hw
  exact ⟨C04_inv_structure _ hi r hr, (C04_inv_structValid _ hi r hr).2.2.2.1, (C04_inv_structValid _ hi r hr).2.2.2.2⟩

/-- ⟦C04_inv_hypotheses⟧ The structural hypotheses of the tree-level property theorems, from the invariant
    alone (any forest, however it was reached): `wf` and `kidsSorted` at every node (C07), `UniqueBelow`
    (C10), `UniqueDeclsBelow` of every subtree (C09, C15), `OnlyElementsDeclare` (C15). -/
theorem C04_inv_hypotheses (f : Forest) (hi : f.Inv) :
    ∀ r ∈ f.roots,
      Axes.wf r.erase = true ∧
      (∀ p : Path, Axes.kidsSorted (Axes.subAt r.erase p).kids) ∧
      UniqueBelow r.erase ∧
      (∀ (path : Path) (sub : Tree), r.erase.at? path = some sub → UniqueDeclsBelow sub) ∧
      OnlyElementsDeclare r.erase :=
  fun _ hr => ⟨Reach.wf_root hi hr, Reach.kidsSorted_root hi hr, Reach.uniqueBelow_root hi hr,
    fun _ _ hs => Reach.uniqueDeclsBelow_root hi hr hs, Reach.onlyElementsDeclare_root hi hr⟩

/-- ⟦C04_reachable_hypotheses⟧ **The structural hypotheses of the tree-level property theorems hold of
    every reachable tree**: `wf` and `kidsSorted` at every node (C07), `UniqueBelow` (C10),
    `UniqueDeclsBelow` of every subtree (C09, C15), `OnlyElementsDeclare` (C15).  (`Tree.valid`,
    `contentLeaves`, `noInnerDocument`: `C13_reachable_valid` in Props/C13.lean.) -/
theorem C04_reachable_hypotheses (env : Env) (cs : List Forest.XCall) (hw : ∀ c ∈ cs, c.wellKinded) :
    ∀ r ∈ ((⟨Forest.init, env⟩ : Store).xrun cs).forest.roots,
      Axes.wf r.erase = true ∧
      (∀ p : Path, Axes.kidsSorted (Axes.subAt r.erase p).kids) ∧
      UniqueBelow r.erase ∧
      (∀ (path : Path) (sub : Tree), r.erase.at? path = some sub → UniqueDeclsBelow sub) ∧
      OnlyElementsDeclare r.erase :=
  C04_inv_hypotheses _ (C04_reach_ext env cs hw)

/-- ⟦C04_reachable_parse⟧ The same for the histories that PARSE (`IdOp`: the calls of `Op` and
    `Xot::parse` of a tree the parser builds, `C04_reach_parse`): every parentless tree of the store —
    the parsed documents included — is structurally valid at every node, `StructValid` when its root
    is a document node, and satisfies the hypotheses of the tree-level theorems. -/
theorem C04_reachable_parse (ops : List IdOp) (hok : IdStore.init.runOK ops) :
    ∀ r ∈ (IdStore.init.run ops).forest.roots,
      (∀ (p : Path) (v : Value) (ks : List Tree), r.erase.at? p = some (.node v ks) →
        OrderedKids ks ∧
        (v.isLeafKind = true → ks = []) ∧
        (v.isElement = false → ∀ k ∈ ks, k.value.isNormal = true) ∧
        (∀ k ∈ ks, k.value.isDocument = false) ∧
        (attrNames ks).Nodup ∧ (nsPrefixes ks).Nodup ∧
        ((IdStore.init.run ops).forest.everOff = false → noAdjText ks = true)) ∧
      (r.value.isDocument = true → StructValid r.erase) ∧
      Axes.wf r.erase = true ∧
      (∀ p : Path, Axes.kidsSorted (Axes.subAt r.erase p).kids) ∧
      UniqueBelow r.erase ∧
      (∀ (path : Path) (sub : Tree), r.erase.at? path = some sub → UniqueDeclsBelow sub) ∧
      OnlyElementsDeclare r.erase := by
  intro r hr
  have hi := C04_reach_parse ops hok
  exact ⟨C04_inv_structure _ hi r hr, (C04_inv_structValid _ hi r hr).2.2.2.1, C04_inv_hypotheses _ hi r hr⟩

/-- ⟦C01_reachable_representable⟧ **The C01 domain of a reachable tree is a condition on its VALUES only.**
    While consolidation has never been switched off, for every parentless tree of every reachable
    forest and every interning table `env'`: `RepresentableFragment` / `Representable` (Model/SerTokens.lean)
    hold exactly when the tables are well formed (`envOK`), the root is a document node, every node's
    own value is writable (`valueOK`: names are NCNames, text is non-empty XML characters, …), the
    `xml:id` values are distinct and (for `Representable`) there is exactly one top-level element and no
    top-level text — the structural clauses of `nodeOK` (`OrderedKids`, `KindsOk`, `UniqueKids`, `noAdjText`)
    are discharged by the invariant. -/
theorem C01_reachable_representable (env : Env) (cs : List Forest.XCall) (hw : ∀ c ∈ cs, c.wellKinded)
    (hoff : ((⟨Forest.init, env⟩ : Store).xrun cs).forest.everOff = false) :
    ∀ r ∈ ((⟨Forest.init, env⟩ : Store).xrun cs).forest.roots, ∀ env' : Env,
      RepresentableFragment env' r.erase =
        (envOK env' && r.value.isDocument && r.erase.allNodes (fun v _ => valueOK env' v) &&
          decide (xmlIdValues env' r.erase).Nodup) ∧
      Representable env' r.erase =
        (envOK env' && r.value.isDocument && r.erase.allNodes (fun v _ => valueOK env' v) &&
          decide (xmlIdValues env' r.erase).Nodup && singleRoot r.erase) :=
  fun _ hr env' => Reach.representable_root (C04_reach_ext env cs hw) hoff hr env'

/-- Conversely the trees of the C01 domain are among those the bridge describes: a tree satisfying
    `nodeOK` everywhere (in particular a `RepresentableFragment` tree) is structurally valid and has no
    adjacent text nodes. -/
theorem C01_representable_structural (env' : Env) (t : Tree) (h : RepresentableFragment env' t = true) :
    t.Forall (fun _ ks => OrderedKids ks) ∧ t.Forall KindsOk ∧ t.Forall (fun _ ks => UniqueKids ks) ∧
      NoAdjacentText t := by
  simp only [RepresentableFragment, Bool.and_eq_true] at h
  obtain ⟨hs, ha⟩ := Reach.structural_of_allNodes_nodeOK env' t h.1.2
  exact ⟨hs.ordered, hs.kinds, hs.unique, ha⟩

/-! ### Non-vacuity: the 16-step history `xhCalls` above

  It IS the closed history of Lemmas/ReachHist.lean (`Reach.exCalls`, whose final forest is the one tree
  `Reach.exRoot` = `<e xmlns:p=".." xmlns:n0=".."><e xmlns:n0="..">x</e></e>`; consolidation never off).  The
  theorems instantiated at it, and their conclusions evaluated. -/

example : xhCalls = Reach.exCalls ∧ xhEnv = Reach.exEnv ∧ xhStore = ⟨Forest.init, Reach.exEnv⟩ := ⟨rfl, rfl, rfl⟩
example : (xhStore.xrun xhCalls).forest.roots = [Reach.exRoot] ∧ (xhStore.xrun xhCalls).forest.everOff = false := by
  rw [show xhCalls = Reach.exCalls from rfl, show xhStore = ⟨Forest.init, Reach.exEnv⟩ from rfl]
  exact ⟨Reach.exRoots, by decide +kernel⟩
example : Reach.exRoot.erase.at? [2] =
    some (.node (.element 1) [.node (.namespace 3 3) [], .node (.text ['x']) []]) := by decide
example : OrderedKids [Tree.node (.namespace 3 3) [], .node (.text ['x']) []] ∧
    (nsPrefixes [Tree.node (.namespace 3 3) [], .node (.text ['x']) []]).Nodup :=
  let h := (C04_reachable_structure Reach.exEnv Reach.exCalls Reach.exCalls_wellKinded Reach.exRoot Reach.exRoot_mem).1
    [2] (.element 1) _ (by decide)
  ⟨h.1, h.2.2.2.2.2.1⟩
example : Axes.wf Reach.exRoot.erase = true ∧ UniqueBelow Reach.exRoot.erase ∧ OnlyElementsDeclare Reach.exRoot.erase :=
  let h := C04_reachable_hypotheses Reach.exEnv Reach.exCalls Reach.exCalls_wellKinded Reach.exRoot Reach.exRoot_mem
  ⟨h.1, h.2.2.1, h.2.2.2.2⟩
/-- The parsing history `idOps` above (`new_element`, then `parse` of a document with two `xml:id`s): its
    parsed document is `StructValid`, by `C04_reachable_parse`. -/
example : ∀ r ∈ (IdStore.init.run idOps).forest.roots, r.value.isDocument = true → StructValid r.erase :=
  fun r hr => (C04_reachable_parse idOps ⟨trivial, (by show validTree _ _ = true; decide), trivial⟩ r hr).2.1
example : ((IdStore.init.run idOps).forest.roots.map (fun r => r.value.isDocument)) = [false, true] := by
  decide +kernel
/-- The root of `Reach.exRoot` is an element, not a document: it is outside the C01 domain for that reason
    alone (`C01_reachable_representable` evaluates the right-hand side). -/
example : RepresentableFragment Reach.exEnv Reach.exRoot.erase = false := by
  rw [(C01_reachable_representable Reach.exEnv Reach.exCalls Reach.exCalls_wellKinded (by decide +kernel)
    Reach.exRoot Reach.exRoot_mem Reach.exEnv).1]
  decide
/-- A history that builds a document: `<!--c--><e a="v">x</e>` under a document node; the tree is
    `StructValid`, and inside the C01 domain exactly when the values are (here: the tables are `envOK`,
    every value is writable). -/
def reachDocCalls : List Forest.XCall :=
  [.newNode .document, .newNode (.element 0), .newNode (.text ['x']), .newNode (.comment ['c']),
   .call (.append 0 3), .call (.append 0 1), .call (.append 1 2),
   .call (.mapInsert .attributes 1 (.attribute 2 ['v']))]
def reachDocEnv : Env :=
  { namespaces := [[], xmlNamespaceUri], prefixes := [[], ['x','m','l']],
    names := [(['e'], 0), (['i','d'], 1), (['a'], 0)] }
def reachDocRoot : HTree :=
  .node 0 .document [.node 3 (.comment ['c']) [],
    .node 1 (.element 0) [.node 4 (.attribute 2 ['v']) [], .node 2 (.text ['x']) []]]
theorem reachDocRoot_mem :
    reachDocRoot ∈ ((⟨Forest.init, reachDocEnv⟩ : Store).xrun reachDocCalls).forest.roots := by
  have : ((⟨Forest.init, reachDocEnv⟩ : Store).xrun reachDocCalls).forest.roots = [reachDocRoot] := by
    decide +kernel
  rw [this]; exact List.mem_singleton.mpr rfl
example : StructValid reachDocRoot.erase :=
  (C04_reachable_structure reachDocEnv reachDocCalls (by decide) reachDocRoot reachDocRoot_mem).2.1 rfl
example : Representable reachDocEnv reachDocRoot.erase = true := by
  rw [(C01_reachable_representable reachDocEnv reachDocCalls (by decide) (by decide +kernel)
    reachDocRoot reachDocRoot_mem reachDocEnv).2]
  decide +kernel
/-- … its names are writable and it serialises to the text below; that `parse` gives the tree back is
    `C01_reachable_roundtrip` (Props/C01.lean, last section) instantiated at this history. -/
example : namesWritable reachDocEnv reachDocRoot.erase [] = some true ∧
    toXmlString reachDocEnv reachDocRoot.erase [] = .ok "<!--c--><e a=\"v\">x</e>".toList := by decide +kernel

end XotModel.Props

/-! # ================================================================================================
    # FULL HISTORIES (branch wt-parsehist): ONE history type for `parse` and every API call
    # ================================================================================================

  The commonest use of the crate is: parse a text, edit the tree through the API, serialise.  Until here
  the development had the extended API histories (`Forest.XCall` on a `Store`: `C04_reach_ext`) and,
  separately, the parser histories (`IdOp` on an `IdStore`: `C04_reach_parse`, whose parse step names the
  TREE the builder would return and ASSUMES it valid, `IdStore.parseOK`).  Model/FparseHist.lean has one type
  for both: `PCall` = an extended API call, or `parse mode text` — the text goes through the reference
  tokenizer and the builder (`parseString`) on the interning tables of the store, an accepted tree is
  installed with `IdStore.parseInto` (fresh handles in creation order, the xml:id index of the new document
  node), a rejected one installs nothing (forest and index as they were; the tables keep what the builder
  interned before the error).  The state `PStore` = forest + interning tables + xml:id index.

  `IdStore.parseOK` is now a THEOREM (`C04_parsed_valid`): `C03_sound`'s node-by-node facts about every
  accepted tree (`SoundAt`, Lemmas/ParseSound.lean) are exactly the local clauses of `validTree` — the
  converse of the bridge of Lemmas/ReachNode.lean (Lemmas/FparseHistValid.lean).  Hence `C04_reach_full`:
  the invariant after EVERY history of parses (of any text, accepted or not, in either mode) and
  well-kinded API calls, and with it every structural hypothesis of the tree-level theorems for every
  parentless tree of every such store — parsed documents, edited documents, fragments built by hand. -/

namespace XotModel.Props
open XotModel

/-- ⟦C04_parsed_valid⟧ **The hypothesis `IdStore.parseOK` of `C04_parse_inv` / `C04_reach_parse` holds of
    every tree the parser returns**, for every text, both modes, every vocabulary, every store it is
    parsed into: numbered in creation order from the store's next handle it is `validTree`, strictly (no
    adjacent text nodes, whatever `everOff` says). -/
theorem C04_parsed_valid (s : IdStore) (m : Mode) (env : Env) (text : Str) (p : Parsed)
    (h : parseString m env text = .ok p) : s.parseOK p.tree := fph_parseOK s h

/-- … from any token list, not only the reference tokenizer's. -/
theorem C04_built_valid (s : IdStore) (m : Mode) (len : Nat) (env : Env) (ts : List Token) (lexErr : Option Nat)
    (p : Parsed) (h : build m len env ts lexErr = .ok p) : s.parseOK p.tree := fph_parseOK_build s h

/-- The converse of the bridge `C04_inv_structValid`: a handle tree whose ERASURE is ordered, respects the
    kind rules, has unique attribute names and prefixes per node and no adjacent text nodes is valid. -/
theorem C04_valid_of_structure (b : Bool) (r : HTree)
    (h : r.erase.Forall (fun v ks => OrderedKids ks ∧ KindsOk v ks ∧ noAdjText ks = true ∧ UniqueKids ks)) :
    validTree b r = true := fph_validTree_of_erase b r h

/-- ⟦C04_step_full⟧ One step — an extended API call with arbitrary arguments, or the parse of ANY text —
    preserves the invariant, whatever it answers. -/
theorem C04_step_full (s : PStore) (c : PCall) (hi : s.forest.Inv) (hw : c.wellKinded) :
    (s.step c).forest.Inv := PStore.fph_step_inv hi c hw

theorem C04_reach_full_from (s : PStore) (hi : s.forest.Inv) (cs : List PCall) (hw : ∀ c ∈ cs, c.wellKinded) :
    (s.run cs).forest.Inv := PStore.fph_run_inv cs hi hw

/-- ⟦C04_reach_full⟧ **Every store reachable from `Xot::new()` by any history of parses and API calls** —
    `parse` / `parse_fragment` of arbitrary texts (accepted or rejected), the calls of `Forest.Call`, node
    creation, set_text_consolidation, remove_insignificant_whitespace, create_missing_prefixes,
    deduplicate_namespaces, clone_with_prefixes, in any order, with arbitrary arguments, for every
    vocabulary `env` the store starts with and whatever the steps answer — **satisfies the invariant**;
    and keys and entries of its xml:id index are handles that were handed out (no dangling key can
    appear later: handles are never re-used, `C04_step_le_full`). -/
theorem C04_reach_full (env : Env) (cs : List PCall) (hw : ∀ c ∈ cs, c.wellKinded) :
    ((PStore.init env).run cs).forest.Inv ∧
    (∀ e ∈ ((PStore.init env).run cs).index,
      e.1.1 < ((PStore.init env).run cs).forest.next ∧ e.2 < ((PStore.init env).run cs).forest.next) :=
  ⟨PStore.fph_run_inv cs (PStore.fph_init_inv env) hw, PStore.fph_indexBelow_run cs (PStore.fph_indexBelow_init env)⟩

theorem C04_reach_full_bool (env : Env) (cs : List PCall) (hw : ∀ c ∈ cs, c.wellKinded) :
    ((PStore.init env).run cs).forest.inv = true := (Forest.inv_iff _).mpr (C04_reach_full env cs hw).1

/-- ⟦C04_reach_full_index⟧ The index invariant of `C04_xml_id_wf` — moreover the KEYS (document, ID value)
    are unique — along every history whose parses run on well-formed interning tables (`envOK`: true of
    `Xot::new()`, kept by every accepted parse, `C04_parse_keeps_tables`).  The test
    `(Tree.idValues t).Nodup` that `IdStore.parse` carries as a stand-in for the builder's `DuplicateId` is
    a theorem there (`C04_parse_no_duplicate_id`). -/
theorem C04_reach_full_index (env : Env) (cs : List PCall) (hok : (PStore.init env).parsesOnOKTables cs) :
    ((PStore.init env).run cs).idStore.Wf := PStore.fph_wf_run cs (PStore.fph_wf_init env) hok

theorem C04_parse_no_duplicate_id (m : Mode) (env : Env) (text : Str) (p : Parsed) (henv : envOK env = true)
    (h : parseString m env text = .ok p) : (Tree.idValues p.tree).Nodup := fph_accepted_idValues_nodup henv h

theorem C04_parse_keeps_tables (m : Mode) (env : Env) (text : Str) (p : Parsed) (henv : envOK env = true)
    (h : parseString m env text = .ok p) : envOK p.env = true := fph_accepted_envOK henv h

/-- "Parse one text, then edit": only the tables of the start state matter. -/
theorem C04_parse_then_edit_tables (env : Env) (henv : envOK env = true) (m : Mode) (text : Str)
    (cs : List Forest.XCall) : (PStore.init env).parsesOnOKTables (.parse m text :: cs.map .api) :=
  PStore.fph_parsesOnOKTables_parse_then_api (PStore.init env) henv m text cs

/-- An extended API call only appends to the PREFIX table (`create_missing_prefixes`; every other call
    leaves the tables alone), for all stores and arguments: well-formed tables stay well formed. -/
theorem C04_api_keeps_tables (s : Store) (c : Forest.XCall) :
    Repair.PrefixExt s.env (c.run s).1.env ∧ (envOK s.env = true → envOK (c.run s).1.env = true) :=
  ⟨Forest.fpht_xcall_ext s c, fun h => Repair.envOK_ext (Forest.fpht_xcall_ext s c) h⟩

/-- ⟦C04_reach_full_index_accepted⟧ From well-formed tables (`Xot::new()`), along every history in which no
    parse is REJECTED (`PStore.noRejected`; any API calls, `create_missing_prefixes` included): the index
    invariant with unique keys, and the tables are well formed at the end. -/
theorem C04_reach_full_index_accepted (env : Env) (henv : envOK env = true) (cs : List PCall)
    (hacc : (PStore.init env).noRejected cs) :
    ((PStore.init env).run cs).idStore.Wf ∧ envOK ((PStore.init env).run cs).env = true := by
  have h := PStore.fpht_parsesOnOKTables_of_noRejected cs (PStore.init env) henv hacc
  exact ⟨C04_reach_full_index env cs h.1, h.2⟩

/-- ⟦C04_full_embeds⟧ The two older history types are sub-histories: a history of API calls only is the
    extended history of `Store.xrun` (index untouched); a call of `IdOp` is the step `PCall.ofOp`; the parse
    of a text accepted on well-formed tables is the step `IdOp.parse` of its tree (`IdStore.parseInto`), and
    leaves the builder's tables. -/
theorem C04_full_embeds (s : PStore) :
    (∀ cs : List Forest.XCall, (s.run (cs.map .api)).store = s.store.xrun cs ∧ (s.run (cs.map .api)).index = s.index) ∧
    (∀ o : Op, (s.step (.ofOp o)).idStore = s.idStore.step (.call o)) ∧
    (∀ m text p, envOK s.env = true → parseString m s.env text = .ok p →
      (s.step (.parse m text)).idStore = s.idStore.step (.parse p.tree) ∧ (s.step (.parse m text)).env = p.env ∧
      ((PCall.parse m text).run s).2 = .parsed s.forest.next) :=
  ⟨fun cs => PStore.fph_run_api cs s, fun o => PStore.fph_idStore_step_ofOp s o,
   fun m text p henv h => ⟨PStore.fph_idStore_step_parse_ok s henv h, by rw [PStore.fph_step_parse_ok s h],
     by rw [PStore.fph_run_parse_ok s h]; rfl⟩⟩

/-- Handles are never re-used along full histories, hence a removed handle stays removed. -/
theorem C04_step_le_full (s : PStore) (c : PCall) : Forest.Le s.forest (s.step c).forest := PStore.fph_step_le s c

theorem C04_isRemoved_history_full (s : PStore) (cs : List PCall) (h : Nat)
    (hr : s.forest.isRemoved h = true) : (s.run cs).forest.isRemoved h = true :=
  Forest.isRemoved_mono (PStore.fph_run_le cs s) hr

/-- ⟦C04_xml_id_full⟧ `xml_id_node` along full histories ("no accessor ever hands out a removed node"): what
    it answers is live; the entry of an existing document is never rewritten; as long as the element is
    not removed the answer stays, whatever is called or parsed; once it is removed the answer is `none`
    for ever. -/
theorem C04_xml_id_full (env : Env) (pre : List PCall) (doc h : Nat) (v : Str)
    (hx : ((PStore.init env).run pre).xmlIdNode doc v = some h) :
    ((PStore.init env).run pre).forest.isLive h = true ∧
    ∀ cs : List PCall,
      (((PStore.init env).run pre).run cs).idStore.lookup doc v = ((PStore.init env).run pre).idStore.lookup doc v ∧
      ((((PStore.init env).run pre).run cs).forest.isRemoved h = false →
        (((PStore.init env).run pre).run cs).xmlIdNode doc v = some h) ∧
      ((((PStore.init env).run pre).run cs).forest.isRemoved h = true →
        ∀ more : List PCall, ((((PStore.init env).run pre).run cs).run more).xmlIdNode doc v = none) := by
  have hw := PStore.fph_indexBelow_run pre (PStore.fph_indexBelow_init env)
  have hl := (IdStore.xmlIdNode_eq_some_iff _ doc v h).mp hx
  refine ⟨hl.2, fun cs => ⟨?_, PStore.fph_xmlIdNode_stable _ hw cs doc h v hx⟩⟩
  exact PStore.fph_lookup_run cs _ doc v (hw _ (fi_mem_of_lookup hl.1)).1

/-- ⟦C04_reachable_structure_full⟧ **Every tree of every store a full history reaches is structurally
    valid**, at every node — the parsed documents, whatever was done to them afterwards, included. -/
theorem C04_reachable_structure_full (env : Env) (cs : List PCall) (hw : ∀ c ∈ cs, c.wellKinded) :
    ∀ r ∈ ((PStore.init env).run cs).forest.roots,
      (∀ (p : Path) (v : Value) (ks : List Tree), r.erase.at? p = some (.node v ks) →
        OrderedKids ks ∧
        (v.isLeafKind = true → ks = []) ∧
        (v.isElement = false → ∀ k ∈ ks, k.value.isNormal = true) ∧
        (∀ k ∈ ks, k.value.isDocument = false) ∧
        (attrNames ks).Nodup ∧ (nsPrefixes ks).Nodup ∧
        (((PStore.init env).run cs).forest.everOff = false → noAdjText ks = true)) ∧
      (r.value.isDocument = true → StructValid r.erase) ∧
      (((PStore.init env).run cs).forest.everOff = false → NoAdjacentText r.erase) := by
  intro r hr
  have hi := (C04_reach_full env cs hw).1
  exact ⟨C04_inv_structure _ hi r hr, (C04_inv_structValid _ hi r hr).2.2.2.1, (C04_inv_structValid _ hi r hr).2.2.2.2⟩

/-- ⟦C04_reachable_hypotheses_full⟧ **The structural hypotheses of the tree-level property theorems hold of
    every root of every store a full history reaches**: `wf` and `kidsSorted` at every node (C07),
    `UniqueBelow` (C10), `UniqueDeclsBelow` of every subtree (C09, C15), `OnlyElementsDeclare` (C15). -/
theorem C04_reachable_hypotheses_full (env : Env) (cs : List PCall) (hw : ∀ c ∈ cs, c.wellKinded) :
    ∀ r ∈ ((PStore.init env).run cs).forest.roots,
      Axes.wf r.erase = true ∧
      (∀ p : Path, Axes.kidsSorted (Axes.subAt r.erase p).kids) ∧
      UniqueBelow r.erase ∧
      (∀ (path : Path) (sub : Tree), r.erase.at? path = some sub → UniqueDeclsBelow sub) ∧
      OnlyElementsDeclare r.erase :=
  C04_inv_hypotheses _ (C04_reach_full env cs hw).1

/-- ⟦C01_reachable_representable_full⟧ The C01 domain of a tree of such a store is a condition on its
    VALUES only (while consolidation has never been switched off). -/
theorem C01_reachable_representable_full (env : Env) (cs : List PCall) (hw : ∀ c ∈ cs, c.wellKinded)
    (hoff : ((PStore.init env).run cs).forest.everOff = false) :
    ∀ r ∈ ((PStore.init env).run cs).forest.roots, ∀ env' : Env,
      RepresentableFragment env' r.erase =
        (envOK env' && r.value.isDocument && r.erase.allNodes (fun v _ => valueOK env' v) &&
          decide (xmlIdValues env' r.erase).Nodup) ∧
      Representable env' r.erase =
        (envOK env' && r.value.isDocument && r.erase.allNodes (fun v _ => valueOK env' v) &&
          decide (xmlIdValues env' r.erase).Nodup && singleRoot r.erase) :=
  fun _ hr env' => Reach.representable_root (C04_reach_full env cs hw).1 hoff hr env'

/-! ### Non-vacuity: parse `<r xmlns:p="urn:a"><p:a>t</p:a></r>` into `Xot::new()`, then edit

  `fullText` is accepted from the tables of `Xot::new()` (`Env.fresh`): document 0, `r` = 1 (name 2), its
  declaration `xmlns:p` = 2, `p:a` = 3 (name 3 in namespace 2), the text 4.  `fullCalls` then creates a new
  element `{urn:a}a` (handle 5), appends it to `r`, gives it the attribute `p:a="v"` (handle 6) and calls
  `create_missing_prefixes` on the document; `fullCallsB` first REMOVES the declaration of `p`
  (`namespaces_mut(r).remove(p)`), so that the repair has to invent `n0` (handle 7, prefix id 3).  A rejected
  text in between (`<a><b></a>`) changes neither forest nor index, but leaves the names `a`, `b` in the
  tables. -/

def fullText : Str := "<r xmlns:p=\"urn:a\"><p:a>t</p:a></r>".toList
def fullCalls : List PCall :=
  [.parse .document fullText, .api (.newNode (.element 3)), .api (.call (.append 1 5)),
   .api (.call (.mapInsert .attributes 5 (.attribute 3 ['v']))), .api (.createMissingPrefixes 0)]
def fullCallsB : List PCall :=
  [.parse .document fullText, .api (.call (.mapRemove .namespaces 1 2)), .api (.newNode (.element 3)),
   .api (.call (.append 1 5)), .api (.call (.mapInsert .attributes 5 (.attribute 3 ['v']))),
   .parse .document "<a><b></a>".toList, .api (.createMissingPrefixes 0)]
def fullRoot : HTree :=
  .node 0 .document [.node 1 (.element 2) [.node 2 (.namespace 2 2) [],
    .node 3 (.element 3) [.node 4 (.text ['t']) []],
    .node 5 (.element 3) [.node 6 (.attribute 3 ['v']) []]]]
def fullRootB : HTree :=
  .node 0 .document [.node 1 (.element 2) [.node 7 (.namespace 3 2) [],
    .node 3 (.element 3) [.node 4 (.text ['t']) []],
    .node 5 (.element 3) [.node 6 (.attribute 3 ['v']) []]]]

theorem fullCalls_wellKinded : ∀ c ∈ fullCalls, c.wellKinded := by decide
theorem fullCallsB_wellKinded : ∀ c ∈ fullCallsB, c.wellKinded := by decide

theorem fullRoots : ((PStore.init Env.fresh).run fullCalls).forest.roots = [fullRoot] := by decide +kernel
theorem fullRootsB : ((PStore.init Env.fresh).run fullCallsB).forest.roots = [fullRootB] := by decide +kernel
theorem fullRoot_mem : fullRoot ∈ ((PStore.init Env.fresh).run fullCalls).forest.roots := by
  rw [fullRoots]; exact List.mem_singleton.mpr rfl
theorem fullRootB_mem : fullRootB ∈ ((PStore.init Env.fresh).run fullCallsB).forest.roots := by
  rw [fullRootsB]; exact List.mem_singleton.mpr rfl

example : ((PStore.init Env.fresh).run fullCalls).forest.inv = true := C04_reach_full_bool _ _ fullCalls_wellKinded
example : ((PStore.init Env.fresh).run fullCallsB).forest.inv = true ∧
    ((PStore.init Env.fresh).run fullCallsB).env.prefixes = [[], ['x', 'm', 'l'], ['p'], ['n', '0']] ∧
    ((PStore.init Env.fresh).run fullCallsB).env.names =
      [(['s', 'p', 'a', 'c', 'e'], 1), (['i', 'd'], 1), (['r'], 0), (['a'], 2), (['a'], 0), (['b'], 0)] := by
  decide +kernel
example : StructValid fullRootB.erase :=
  (C04_reachable_structure_full Env.fresh fullCallsB fullCallsB_wellKinded fullRootB fullRootB_mem).2.1 rfl
example : Axes.wf fullRootB.erase = true ∧ UniqueBelow fullRootB.erase ∧ OnlyElementsDeclare fullRootB.erase :=
  let h := C04_reachable_hypotheses_full Env.fresh fullCallsB fullCallsB_wellKinded fullRootB fullRootB_mem
  ⟨h.1, h.2.2.1, h.2.2.2.2⟩
example : (PStore.init Env.fresh).parsesOnOKTables fullCalls := by
  have h : fullCalls = .parse .document fullText :: ([.newNode (.element 3), .call (.append 1 5),
    .call (.mapInsert .attributes 5 (.attribute 3 ['v'])), .createMissingPrefixes 0] : List Forest.XCall).map .api := rfl
  rw [h]
  exact C04_parse_then_edit_tables Env.fresh (by decide +kernel) .document fullText _
/-- A parsed document with an ID: `xml_id_node` finds the element, and no longer after its removal. -/
example :
    let s := (PStore.init Env.fresh).run [.parse .document "<r><e xml:id=\"i\"/></r>".toList]
    s.xmlIdNode 0 ['i'] = some 2 ∧ (s.run [.api (.call (.remove 2)), .api (.newNode (.element 2))]).xmlIdNode 0 ['i'] = none := by
  decide +kernel

end XotModel.Props


/-! # ================================================================================================
    # WHICH TEXT NODES A COMPOSITE CALL EXTENDS (branch wt-comp04)
    # ================================================================================================

  `C04_value_call` says of every call: a node that is not a target keeps its value, except that a text node may
  have been extended.  For the moves `C04_value_exact_*` name the handles this can happen to.  The same for the
  composite calls (Lemmas/FinvComposite.lean: the relation `Forest.VStep` with `T` = membership in an explicit
  list, threaded through the steps the call consists of; every forest with the invariant, every argument, every
  outcome):

    replace(a, b)                     `Forest.replaceSites f a b`: `b` next to `a` - the call is `remove(a)` -: the previous
                                      sibling of `a`.  Otherwise, with the subtree `a` taken out, the sites of the move of
                                      `b` into the hole (`insert_after` the previous sibling `p` of `a`: the previous sibling
                                      of `b`, the node `b` arrives behind, the node behind that, read after `b`'s old-site
                                      merge; `prepend` when `a` was the first child), and the node standing before `a`'s
                                      former next sibling after that move (the final `remove_consolidate_text_nodes`);
    element_unwrap(n)                 `Forest.unwrapSites f n`: the node standing before the wrapper (it absorbs the
                                      wrapper's first normal child, and the wrapper's right neighbour as well when that
                                      child was the only one) and the wrapper's last child (it absorbs the right neighbour);
                                      a wrapper without children: the call is `remove(n)`, the previous sibling of `n`;
    remove_insignificant_whitespace   none: it only removes (consolidation is off around the loop);
    map insert                        none: only the existing entry node of the key (the target) is rewritten.

  What a site changes to is the value it has in the forest the C05 pair specification gives for the call
  (`C05_pair_replace`: `specReplaceP a b f`, `C05_pair_unwrap`: `specUnwrapP n f`, Props/C05.lean): `mergeAdj` /
  `mergeNew3` write `old ++ absorbed` into the surviving earlier node; here: the old content is a contiguous part
  of the new one (`C04_replace_site_extended`, `C04_unwrap_site_extended`). -/

namespace XotModel.Props
open XotModel

/-- ⟦C04_replace_extended_texts⟧ `replace(a, b)`, any arguments, any outcome: a handle live before and after that is
    not in `replaceSites f a b` has exactly its old value - text nodes included. -/
theorem C04_replace_extended_texts (f : Forest) (hi : f.Inv) (a b x : Nat) (v v' : Value)
    (hv : f.value? x = some v) (hv' : (f.replace a b).1.value? x = some v')
    (hx : x ∉ f.replaceSites a b) : v' = v := Forest.replace_value_exact hi a b hv hv' hx

/-- … and a site is extended, not overwritten: same value, or text whose old content is a contiguous part of the
    new one. -/
theorem C04_replace_site_extended (f : Forest) (hi : f.Inv) (a b x : Nat) (v v' : Value)
    (hv : f.value? x = some v) (hv' : (f.replace a b).1.value? x = some v') :
    v' = v ∨ (x ∈ f.replaceSites a b ∧ Forest.TextExt v v') :=
  (Forest.vstep_replace_sites (S := fun _ => False) f a b).site hi hv hv'

/-- ⟦C04_unwrap_extended_texts⟧ `element_unwrap(n)`: only the node before the wrapper and the wrapper's last child
    (`unwrapSites f n`) can change; every other surviving handle has exactly its old value. -/
theorem C04_unwrap_extended_texts (f : Forest) (hi : f.Inv) (n x : Nat) (v v' : Value)
    (hv : f.value? x = some v) (hv' : (f.elementUnwrap n).1.value? x = some v')
    (hx : x ∉ f.unwrapSites n) : v' = v := Forest.elementUnwrap_value_exact hi n hv hv' hx

theorem C04_unwrap_site_extended (f : Forest) (hi : f.Inv) (n x : Nat) (v v' : Value)
    (hv : f.value? x = some v) (hv' : (f.elementUnwrap n).1.value? x = some v') :
    v' = v ∨ (x ∈ f.unwrapSites n ∧ Forest.TextExt v v') :=
  (Forest.vstep_elementUnwrap_sites (S := fun _ => False) f n).site hi hv hv'

/-- ⟦C04_strip_extended_texts⟧ `remove_insignificant_whitespace` extends NO text node: every surviving handle has
    exactly its old value. -/
theorem C04_strip_extended_texts (f : Forest) (hi : f.Inv) (node x : Nat) (v v' : Value)
    (hv : f.value? x = some v) (hv' : (f.removeInsignificantWhitespace node).value? x = some v') : v' = v :=
  Forest.strip_value_exact hi node hv hv'

/-- ⟦C04_mapInsert_extended_texts⟧ A map insertion (attribute or namespace view) extends no text node: every handle
    other than the existing entry node of the key has exactly its old value. -/
theorem C04_mapInsert_extended_texts (f : Forest) (hi : f.Inv) (k : Forest.MapKind) (e : Nat) (entry : Value)
    (x : Nat) (v v' : Value) (hv : f.value? x = some v) (hv' : (f.mapInsert k e entry).1.value? x = some v')
    (hx : ∀ n, f.mapGetNode k e (Forest.entryKey entry) = some n → n.handle ≠ x) : v' = v :=
  Forest.mapInsert_value_exact hi k e entry hv hv' hx

/-- Non-vacuity on `<e>w x <u>i j<k/>m</u> y z <v/></e>` (handles 0; 1, 2; 3; 4, 5, 6, 7; 8, 9; 10; adjacent text
    nodes present), a parentless text `r` (11): `element_unwrap(u)` has the sites `x` (2) and `m` (7), which become
    `xi` and `my`; `w`, `j`, `z` keep their content.  `replace(u, r)`: the site `x` becomes `xry` (three-way), `w` and
    `z` stay; `replace(v, r)`: the site `z` becomes `zr`. -/
def compWitness : Forest :=
  { roots := [.node 0 (.element 2) [.node 1 (.text ['w']) [], .node 2 (.text ['x']) [],
        .node 3 (.element 3) [.node 4 (.text ['i']) [], .node 5 (.text ['j']) [], .node 6 (.element 6) [],
          .node 7 (.text ['m']) []],
        .node 8 (.text ['y']) [], .node 9 (.text ['z']) [], .node 10 (.element 6) []], .node 11 (.text ['r']) []],
    next := 12, consolidation := true, everOff := true }
example : compWitness.Inv := (Forest.inv_iff _).mp (by decide)
example : compWitness.unwrapSites 3 = [2, 7] ∧
    (compWitness.elementUnwrap 3).1.value? 2 = some (.text ['x', 'i']) ∧
    (compWitness.elementUnwrap 3).1.value? 7 = some (.text ['m', 'y']) ∧
    (compWitness.elementUnwrap 3).1.value? 1 = some (.text ['w']) ∧
    (compWitness.elementUnwrap 3).1.value? 5 = some (.text ['j']) ∧
    (compWitness.elementUnwrap 3).1.value? 9 = some (.text ['z']) := by decide +kernel
example : compWitness.replaceSites 3 11 = [2, 8, 2] ∧
    (compWitness.replace 3 11).1.value? 2 = some (.text ['x', 'r', 'y']) ∧
    (compWitness.replace 3 11).1.isLive 8 = false ∧
    (compWitness.replace 3 11).1.value? 1 = some (.text ['w']) ∧
    (compWitness.replace 3 11).1.value? 9 = some (.text ['z']) ∧
    compWitness.replaceSites 10 11 = [9] ∧
    (compWitness.replace 10 11).1.value? 9 = some (.text ['z', 'r']) ∧
    (compWitness.replace 10 11).1.value? 8 = some (.text ['y']) := by decide +kernel
example : (compWitness.removeInsignificantWhitespace 0).value? 2 = some (.text ['x']) ∧
    ((compWitness.mapInsert .attributes 0 (.attribute 7 ['v'])).1.value? 2 = some (.text ['x'])) := by
  decide +kernel

end XotModel.Props

/-! # ================================================================================================
    # ... AND THE CALLS THAT EXTEND NONE: element_wrap, map remove, map clear (branch wt-wrap04)
    # ================================================================================================

  `element_wrap`, map `remove` and map `clear` extend no text node (the wrapper and the entry nodes are not text, so
  nothing is merged), but the `VStep` route cannot show it (`vstep_insertAfter` demands the site of the reference
  node whatever the inserted node is; `vstep_remove` the previous sibling of the removed node).  Route taken
  (Lemmas/FinvEditHV.lean): a predicate-valued containment lemma for the (handle, value) pairs under the one-site
  edit `Forest.editAt` (`Forest.hvList_editAt_sub`: if the list function adds only pairs satisfying `P`, so does the
  edit), then "every pair afterwards is an old pair, or carries the fresh handle" is read off the C05 specifications
  (`specWrap`: `C05_pair_wrap`; `specMapRemove`: `C05_map_remove`) and off the map step of C11 (`clear`: the child
  list of the element without the view's entries). -/

namespace XotModel.Props
open XotModel

/-- ⟦C04_wrap_extended_texts⟧ An ACCEPTED `element_wrap(n, name)` extends no text node: every handle live before
    and after has exactly its old value (the one new pair is the wrapper, handle `f.next`).  (A call refused by one
    of the three guards returns the forest unchanged.) -/
theorem C04_wrap_extended_texts (f : Forest) (hi : f.Inv) (n name x : Nat) (v v' : Value)
    (hok : (f.elementWrap n name).2.1 = .ok)
    (hv : f.value? x = some v) (hv' : (f.elementWrap n name).1.value? x = some v') : v' = v :=
  Forest.elementWrap_value_exact hi n name hok hv hv'

/-- ⟦C04_mapRemove_extended_texts⟧ Map `remove(key)` (attribute or namespace view), any arguments, any outcome:
    every surviving handle has exactly its old value. -/
theorem C04_mapRemove_extended_texts (f : Forest) (hi : f.Inv) (k : Forest.MapKind) (e key x : Nat) (v v' : Value)
    (hv : f.value? x = some v) (hv' : (f.mapRemove k e key).1.value? x = some v') : v' = v :=
  Forest.mapRemove_value_exact hi k e key hv hv'

/-- ⟦C04_mapClear_extended_texts⟧ Map `clear()`, any arguments, any outcome: every surviving handle has exactly
    its old value. -/
theorem C04_mapClear_extended_texts (f : Forest) (hi : f.Inv) (k : Forest.MapKind) (e x : Nat) (v v' : Value)
    (hv : f.value? x = some v) (hv' : (f.mapClear k e).1.value? x = some v') : v' = v :=
  Forest.mapClear_value_exact hi k e hv hv'

/-- The containment lemma the three rest on, as a statement of its own: an edit of one site (`s = none`: the list
    of parentless trees) whose list function adds only pairs satisfying `P` adds only such pairs. -/
theorem C04_editAt_pairs (P : Nat × Value → Prop) (f : Forest) (s : Option Nat) (g : List HTree → List HTree)
    (hg : ∀ L, ∀ p ∈ hvList (g L), p ∈ hvList L ∨ P p) :
    ∀ p ∈ hvList (f.editAt s g).roots, p ∈ hvList f.roots ∨ P p :=
  Forest.hvList_editAt_sub P f s g hg

/-- Non-vacuity on `<e xmlns:p=".." a=".." b="..">x y<u/>z</e>` (handles 0; 1; 2, 3; 4, 5; 6; 7; adjacent text
    nodes `x`, `y`): wrapping `y` (between two text nodes and an element) is accepted and returns handle 8, `x`, `y`,
    `z` keep their content; removing the attribute `b` (the node before the text `x`) and clearing either view leave
    `x` as it is. -/
def wrapWitness : Forest :=
  { roots := [.node 0 (.element 2) [.node 1 (.namespace 3 4) [], .node 2 (.attribute 6 ['v']) [],
        .node 3 (.attribute 7 ['w']) [], .node 4 (.text ['x']) [], .node 5 (.text ['y']) [],
        .node 6 (.element 3) [], .node 7 (.text ['z']) []]],
    next := 8, consolidation := true, everOff := true }
example : wrapWitness.Inv := (Forest.inv_iff _).mp (by decide)
example : (wrapWitness.elementWrap 5 3).2 = (.ok, 8) ∧
    (wrapWitness.elementWrap 5 3).1.value? 4 = some (.text ['x']) ∧
    (wrapWitness.elementWrap 5 3).1.value? 5 = some (.text ['y']) ∧
    (wrapWitness.elementWrap 5 3).1.value? 7 = some (.text ['z']) ∧
    (wrapWitness.elementWrap 5 3).1.parent? 5 = some 8 := by decide +kernel
example : (wrapWitness.mapRemove .attributes 0 7).2 = .ok ∧
    (wrapWitness.mapRemove .attributes 0 7).1.isLive 3 = false ∧
    (wrapWitness.mapRemove .attributes 0 7).1.value? 4 = some (.text ['x']) ∧
    (wrapWitness.mapClear .attributes 0).1.isLive 2 = false ∧
    (wrapWitness.mapClear .attributes 0).1.value? 4 = some (.text ['x']) ∧
    (wrapWitness.mapClear .namespaces 0).1.isLive 1 = false ∧
    (wrapWitness.mapClear .namespaces 0).1.value? 2 = some (.attribute 6 ['v']) := by decide +kernel

/-- ⟦C04_unwrapSites_simpl⟧ `unwrapSites` reads the node before the wrapper on an intermediate state (the previous
    sibling of the wrapper's first child once the wrapper is spliced out); under the invariant that is the previous
    sibling of the wrapper in the forest BEFORE the call (wrapper with or without a parent) ... -/
theorem C04_unwrapSites_simpl (f : Forest) (hi : f.Inv) (n first : Nat) (hfc : f.firstChild n = some first) :
    (f.removeElement n).prevSibling first = f.prevSibling n :=
  Forest.removeElement_prevSibling_firstChild hi hfc

/-- ... so the sites of `element_unwrap(n)` are: the previous sibling of `n` and the last child of `n`, both read
    before the call. -/
theorem C04_unwrapSites_eq (f : Forest) (hi : f.Inv) (n : Nat) :
    f.unwrapSites n = (f.prevSibling n).toList ++ (f.lastChild n).toList :=
  Forest.unwrapSites_simpl hi n

/-- `C04_unwrap_extended_texts` without the intermediate state: a surviving handle that is neither the previous
    sibling nor the last child of the wrapper has exactly its old value. -/
theorem C04_unwrap_extended_texts_simpl (f : Forest) (hi : f.Inv) (n x : Nat) (v v' : Value)
    (hv : f.value? x = some v) (hv' : (f.elementUnwrap n).1.value? x = some v')
    (h1 : f.prevSibling n ≠ some x) (h2 : f.lastChild n ≠ some x) : v' = v := by
  apply Forest.elementUnwrap_value_exact hi n hv hv'
  rw [Forest.unwrapSites_simpl hi n]
  intro hx
  rcases List.mem_append.1 hx with h | h
  · exact h1 (by simpa [Option.mem_toList] using h)
  · exact h2 (by simpa [Option.mem_toList] using h)

example : compWitness.firstChild 3 = some 4 ∧ (compWitness.removeElement 3).prevSibling 4 = some 2 ∧
    compWitness.prevSibling 3 = some 2 ∧ compWitness.lastChild 3 = some 7 := by decide +kernel

/-- ⟦C04_replaceSites_simpl⟧ The extra guard site of `replaceSites` (the previous sibling of `b`, listed once more when
    the reference node of the `insert_after` is `b` itself) is empty under the invariant: with the subtree `a` taken out
    the forest still has distinct handles (`Forest.W` of `f.dropSubtree a`), so no node is its own previous sibling.
    `Forest.replaceSites0` is `replaceSites` with the plain `insertAfterSites`. -/
theorem C04_replaceSites_simpl (f : Forest) (hi : f.Inv) (a b : Nat) : f.replaceSites a b = f.replaceSites0 a b :=
  Forest.replaceSites_simpl hi a b

/-- `C04_replace_extended_texts` over the shorter list. -/
theorem C04_replace_extended_texts_simpl (f : Forest) (hi : f.Inv) (a b x : Nat) (v v' : Value)
    (hv : f.value? x = some v) (hv' : (f.replace a b).1.value? x = some v')
    (hx : x ∉ f.replaceSites0 a b) : v' = v :=
  Forest.replace_value_exact hi a b hv hv' (by rw [Forest.replaceSites_simpl hi a b]; exact hx)

example : compWitness.replaceSites0 3 11 = [2, 8, 2] ∧ compWitness.replaceSites0 10 11 = [9] := by decide +kernel

/-! ## `any_append` hands out a live node (repair /repo b250b94)

  Found in the last hour of the fourth session by the forest session's oracle "no removed node is handed out": with consolidation
  on, `any_append(parent, text)` behind a text node merged the given node away and still answered `Ok(child)`.  The repaired code
  answers the last child of `parent`; `Forest.anyAppendRet` mirrors it.  Closed witness on the minimal history of the finding
  (`<e>a</e>` and the parentless text node `b`): the call answers the surviving node 1, which is live, node 2 is gone. -/

/-- the state of the minimal history: `new E; new T a; any_append 0 1; new T b` -/
def anyAppendWitness : Forest :=
  { roots := [.node 0 (.element 2) [.node 1 (.text ['a']) []], .node 2 (.text ['b']) []], next := 3 }

theorem C04_any_append_returns_live_witness :
    anyAppendWitness.inv = true ∧ (anyAppendWitness.anyAppend 0 2).2 = (.ok, 1) ∧
    (anyAppendWitness.anyAppend 0 2).1.isLive 1 = true ∧ (anyAppendWitness.anyAppend 0 2).1.isLive 2 = false ∧
    (anyAppendWitness.anyAppend 0 2).1.inv = true := by decide +kernel

/-! ## The bridge for histories with the convenience calls

  `C04_reach_creation` gives the invariant for histories mixing the calls of `Op` and the convenience calls
  (`Forest.COp`: `append_text`, `append_element`, `new_document_with_element`, `set_attribute`, …); the
  corollaries below write down what it means for the trees reached: the structure at every node and the
  structural hypotheses of the tree-level theorems, as `C04_reachable_structure` / `C04_reachable_hypotheses`
  do for `Forest.XCall` histories. -/

/-- the forest reached by a history mixing the calls of `Op` and the convenience calls -/
def creationRun (ops : List (Op ⊕ Forest.COp)) : Forest :=
  ops.foldl (fun f o => match o with | .inl o => f.step o | .inr c => (c.run f).1) Forest.init

/-- ⟦C04_reachable_creation_structure⟧ Every tree reached by a history of `Op` calls and convenience calls is
    structurally valid at every node, `StructValid` when its root is a document node, and free of adjacent
    text nodes while consolidation has never been switched off. -/
theorem C04_reachable_creation_structure (ops : List (Op ⊕ Forest.COp)) :
    ∀ r ∈ (creationRun ops).roots,
      (∀ (p : Path) (v : Value) (ks : List Tree), r.erase.at? p = some (.node v ks) →
        OrderedKids ks ∧
        (v.isLeafKind = true → ks = []) ∧
        (v.isElement = false → ∀ k ∈ ks, k.value.isNormal = true) ∧
        (∀ k ∈ ks, k.value.isDocument = false) ∧
        (attrNames ks).Nodup ∧ (nsPrefixes ks).Nodup ∧
        ((creationRun ops).everOff = false → noAdjText ks = true)) ∧
      (r.value.isDocument = true → StructValid r.erase) ∧
      ((creationRun ops).everOff = false → NoAdjacentText r.erase) := by
  intro r hr
  have hi : (creationRun ops).Inv := C04_reach_creation ops
  exact ⟨C04_inv_structure _ hi r hr, (C04_inv_structValid _ hi r hr).2.2.2.1, (C04_inv_structValid _ hi r hr).2.2.2.2⟩

/-- ⟦C04_reachable_creation_hypotheses⟧ … and satisfies the structural hypotheses of the tree-level property
    theorems (`wf`, `kidsSorted`: C07; `UniqueBelow`: C10; `UniqueDeclsBelow`, `OnlyElementsDeclare`: C09, C15). -/
theorem C04_reachable_creation_hypotheses (ops : List (Op ⊕ Forest.COp)) :
    ∀ r ∈ (creationRun ops).roots,
      Axes.wf r.erase = true ∧
      (∀ p : Path, Axes.kidsSorted (Axes.subAt r.erase p).kids) ∧
      UniqueBelow r.erase ∧
      (∀ (path : Path) (sub : Tree), r.erase.at? path = some sub → UniqueDeclsBelow sub) ∧
      OnlyElementsDeclare r.erase :=
  C04_inv_hypotheses _ (C04_reach_creation ops)

/-- Non-vacuity: `new_element; append_text "a"; append_element; append_text "b"` (all convenience calls but the
    first) reaches one tree `<e>a<e/>b</e>`; its element node has three ordered children. -/
example : (creationRun [.inl (.newElement 2), .inr (.appendNew 0 (.text ['a'])), .inr (.appendNew 0 (.element 2)),
    .inr (.appendNew 0 (.text ['b']))]).roots.map (fun r => r.erase.kids.length) = [3] := by decide +kernel

/-- ⟦C01_reachable_creation_representable⟧ For a tree reached by a history of `Op` calls and convenience calls, the
    C01 domain is a condition on its VALUES only (while consolidation has never been switched off): the
    structural clauses are discharged by the invariant (`C01_reachable_representable` for these histories). -/
theorem C01_reachable_creation_representable (ops : List (Op ⊕ Forest.COp))
    (hoff : (creationRun ops).everOff = false) :
    ∀ r ∈ (creationRun ops).roots, ∀ env' : Env,
      RepresentableFragment env' r.erase =
        (envOK env' && r.value.isDocument && r.erase.allNodes (fun v _ => valueOK env' v) &&
          decide (xmlIdValues env' r.erase).Nodup) ∧
      Representable env' r.erase =
        (envOK env' && r.value.isDocument && r.erase.allNodes (fun v _ => valueOK env' v) &&
          decide (xmlIdValues env' r.erase).Nodup && singleRoot r.erase) :=
  fun _ hr env' => Reach.representable_root (C04_reach_creation ops) hoff hr env'

end XotModel.Props
