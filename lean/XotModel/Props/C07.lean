/-
  C07 — Axes and traversals obey the XPath document-order laws.  Property theorems only.
-/
import XotModel.Model.Axes

namespace XotModel.Props
open XotModel XotModel.Axes

theorem C07_root (p : Path) : root p = .ok [] := by
  have h : ∀ r : List Nat, (ancestorsR r).getLast? = some [] := by
    intro r; induction r with
    | nil => rfl
    | cons i r ih =>
      cases r with
      | nil => rfl
      | cons j r => simpa [ancestorsR, List.getLast?_cons_cons] using ih
  simp [root, ancestors, h]

end XotModel.Props
