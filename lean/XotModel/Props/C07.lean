/-
  C07 — Axes and traversals obey the XPath document-order laws.  Property theorems only.

  Nodes are paths of raw child indices (`Path`); `Valid t p` says `p` names a node of `t`.
  Specification vocabulary (Lemmas/AxesSpec.lean, AxesPre.lean):
    `allPre t`   all nodes of `t` in document order (pre-order of the raw child lists)
    `pre t`      the normal nodes in document order  (`allPre t` filtered by `is_normal`)
    `docLt p q`  document order on paths (= the lexicographic `<`, a proper prefix first)
    `p.isPrefixOf q`   `p` is an ancestor-or-self of `q`
    `wf t`       non-normal nodes are leaves and no normal child precedes a non-normal one
  All theorems hold for every tree and every node, without bounds.
-/
import XotModel.Lemmas.AxesPartition

namespace XotModel.Props
open XotModel XotModel.Axes

/-! ## Document order -/

/-- `docLt` is the lexicographic order on index paths. -/
theorem C07_docLt_iff_lt (p q : Path) : docLt p q = true ↔ p < q := docLt_iff_lt p q

/-- `allPre t` lists exactly the nodes of `t`, strictly increasing in document order. -/
theorem C07_allPre (t : Tree) :
    (∀ p, p ∈ allPre t ↔ Valid t p) ∧ (allPre t).Pairwise (fun a b => docLt a b = true) :=
  ⟨mem_allPre_iff t, allPre_sorted t⟩

/-- `pre t` lists exactly the normal nodes, strictly increasing in document order. -/
theorem C07_pre (t : Tree) :
    (∀ p, p ∈ pre t ↔ Valid t p ∧ isNormalAt t p = true) ∧
    (pre t).Pairwise (fun a b => docLt a b = true) ∧ (pre t).Nodup :=
  ⟨mem_pre_iff t, pre_sorted t, pre_nodup t⟩

/-! ## The big axes equal their document-order specifications -/

/-- `descendants` (= `axis(DescendantOrSelf)`): normal nodes at or below `p`, document order.
    Any tree, any node (also attribute / namespace nodes). -/
theorem C07_descendants {t : Tree} {p : Path} (h : Valid t p) :
    descendants t p = (pre t).filter (fun q => p.isPrefixOf q) ∧
    axis t .descendantOrSelf p = descendants t p ∧
    allDescendants t p = (allPre t).filter (fun q => p.isPrefixOf q) :=
  ⟨descendants_eq h, rfl, arenaDescendants_eq h⟩

/-- `axis(Descendant)` at a normal node: normal nodes strictly below `p`, document order. -/
theorem C07_axis_descendant {t : Tree} {p : Path} (h : Valid t p) (hn : isNormalAt t p = true) :
    axis t .descendant p = (pre t).filter (fun q => p.isPrefixOf q && q != p) :=
  axis_descendant_spec h hn

/-- `axis(Descendant)` at an attribute / namespace node of a well-formed tree: nothing. -/
theorem C07_axis_descendant_abnormal {t : Tree} {p : Path} (hw : wf t = true) (h : Valid t p)
    (hn : isNormalAt t p = false) : axis t .descendant p = [] :=
  (axis_descendant_abnormal hw h hn).1

/-- The `Following` iterator: `following` (= `axis(Following)`) yields the normal nodes after `p`
    in document order that are not below `p`, in document order; `all_following` the same over
    all nodes. Any tree, any start node (also attribute / namespace nodes); the fuel (node
    count) the model gives the machine is adequate. -/
theorem C07_following {t : Tree} {p : Path} (h : Valid t p) :
    following t p = (pre t).filter (fun q => docLt p q && !p.isPrefixOf q) ∧
    axis t .following p = following t p ∧
    allFollowing t p = (allPre t).filter (fun q => docLt p q && !p.isPrefixOf q) :=
  ⟨following_eq h, rfl, allFollowing_eq h⟩

/-- `preceding` (= `axis(Preceding)`): the normal nodes before `p` that are not ancestors of
    `p`, in reverse document order. Well-formed trees, any node. -/
theorem C07_preceding {t : Tree} {p : Path} (hw : wf t = true) (h : Valid t p) :
    preceding t p = ((pre t).filter (fun q => docLt q p && !q.isPrefixOf p)).reverse ∧
    axis t .preceding p = preceding t p :=
  ⟨preceding_eq hw h, rfl⟩

/-- `axis(Ancestor)`: the proper prefixes of `p`, nearest first — for every node, attribute and
    namespace nodes included (they have a parent and ancestors); in a well-formed tree these
    are the normal nodes that are proper ancestors, in reverse document order. -/
theorem C07_axis_ancestor {t : Tree} {p : Path} (hw : wf t = true) (h : Valid t p) :
    axis t .ancestor p = ((pre t).filter (fun q => q.isPrefixOf p && q != p)).reverse ∧
    axis t .ancestorOrSelf p = p :: axis t .ancestor p ∧ ancestors p = axis t .ancestorOrSelf p := by
  refine ⟨axis_ancestor_spec hw h, ?_, rfl⟩
  rw [axis_ancestor_eq]; exact ancestors_eq p

/-! ## Partition law -/

/-- For a normal node `n`: ancestors, `n`, descendants, preceding and following together are
    exactly the normal nodes of the tree, each once. -/
theorem C07_partition {t : Tree} {p : Path} (hw : wf t = true) (h : Valid t p)
    (hn : isNormalAt t p = true) :
    (axis t .ancestor p ++ (p :: axis t .descendant p) ++ axis t .preceding p ++
      axis t .following p).Perm (pre t) :=
  partition_normal hw h hn

/-- Pairwise disjointness (and no repetition inside a part): the concatenation has no duplicates. -/
theorem C07_partition_disjoint {t : Tree} {p : Path} (hw : wf t = true) (h : Valid t p)
    (hn : isNormalAt t p = true) :
    (axis t .ancestor p ++ (p :: axis t .descendant p) ++ axis t .preceding p ++
      axis t .following p).Nodup :=
  (partition_normal hw h hn).nodup_iff.mpr (pre_nodup t)

/-- For an attribute or namespace node the four axes alone partition the normal nodes. -/
theorem C07_partition_abnormal {t : Tree} {p : Path} (hw : wf t = true) (h : Valid t p)
    (hn : isNormalAt t p = false) :
    (axis t .ancestor p ++ axis t .descendant p ++ axis t .preceding p ++ axis t .following p).Perm (pre t) ∧
    (axis t .ancestor p ++ axis t .descendant p ++ axis t .preceding p ++ axis t .following p).Nodup :=
  ⟨partition_abnormal hw h hn, (partition_abnormal hw h hn).nodup_iff.mpr (pre_nodup t)⟩

/-- Descendants and following come in document order, ancestors and preceding in reverse. -/
theorem C07_order {t : Tree} {p : Path} (hw : wf t = true) (h : Valid t p) :
    (axis t .descendantOrSelf p).Pairwise (fun a b => docLt a b = true) ∧
    (axis t .following p).Pairwise (fun a b => docLt a b = true) ∧
    (axis t .ancestor p).Pairwise (fun a b => docLt b a = true) ∧
    (axis t .preceding p).Pairwise (fun a b => docLt b a = true) := by
  refine ⟨?_, ?_, ?_, ?_⟩
  · show (descendants t p).Pairwise _
    rw [descendants_eq h]; exact (pre_sorted t).filter _
  · show (following t p).Pairwise _
    rw [following_eq h]; exact (pre_sorted t).filter _
  · rw [axis_ancestor_spec hw h, List.pairwise_reverse]; exact (pre_sorted t).filter _
  · show (preceding t p).Pairwise _
    rw [preceding_eq hw h, List.pairwise_reverse]; exact (pre_sorted t).filter _

/-! ## Misc -/

theorem C07_root (p : Path) : root p = .ok [] := by
  have : (ancestors p).getLast? = some [] := by
    rw [ancestors_eq]
    cases p with
    | nil => simp [ancRel]
    | cons i p =>
      simp only [ancRel, List.reverse_cons]
      rw [← List.cons_append, List.getLast?_concat]
  simp [root, this]

/-! ## Non-vacuity -/

/-- `<a xmlns:p=".." x=".."><b><c/></b>text<d/></a>` in a document, with a comment after. -/
def exTree : Tree :=
  .node .document [
    .node (.element 2) [
      .node (.namespace 2 2) [], .node (.attribute 3 ['v']) [],
      .node (.element 3) [.node (.element 4) []],
      .node (.text ['t']) [],
      .node (.element 5) []],
    .node (.comment ['c']) []]

example : wf exTree = true := by decide
example : Valid exTree [0, 2] ∧ isNormalAt exTree [0, 2] = true := by decide
example : Valid exTree [0, 1] ∧ isNormalAt exTree [0, 1] = false := by decide
example : axis exTree .following [0, 2] = [[0, 3], [0, 4], [1]] := by decide
example : axis exTree .preceding [0, 4] = [[0, 3], [0, 2, 0], [0, 2]] := by decide
example : axis exTree .following [0, 1] = [[0, 2], [0, 2, 0], [0, 3], [0, 4], [1]] := by decide

end XotModel.Props
