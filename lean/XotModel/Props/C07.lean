/-
  C07 — Axes and traversals obey the XPath document-order laws.  Property theorems only.

  Nodes are paths of raw child indices (`Path`); `Valid t p` says `p` names a node of `t`.
  Specification vocabulary (Lemmas/AxesSpec.lean, AxesPre.lean):
    `allPre t`   all nodes of `t` in document order (pre-order of the raw child lists)
    `pre t`      the normal nodes in document order  (`allPre t` filtered by `is_normal`)
    `docLt p q`  document order on paths (= the lexicographic `<`, a proper prefix first)
    `p.isPrefixOf q`   `p` is an ancestor-or-self of `q`
    `wf t`       non-normal nodes are leaves and no normal child precedes a non-normal one
  All theorems hold for every tree and every node, without bounds.
-/
import XotModel.Lemmas.Axes
import XotModel.Lemmas.ArenaExamples
import XotModel.Lemmas.ArenaTraverse
import XotModel.Lemmas.ArenaRevTraverse
import XotModel.Lemmas.ArenaPred
import XotModel.Model.ValueAccess
import XotModel.Lemmas.AxesChildLists
import XotModel.Lemmas.FparseHistStep
import XotModel.Lemmas.ReachAxes
import XotModel.Lemmas.ReachHist
import XotModel.Lemmas.FinvTrav

namespace XotModel.Props
open XotModel XotModel.Axes

/-! ## Document order -/

/-- `docLt` is the lexicographic order on index paths. -/
theorem C07_docLt_iff_lt (p q : Path) : docLt p q = true ↔ p < q := docLt_iff_lt p q

/-- `allPre t` lists exactly the nodes of `t`, strictly increasing in document order. -/
theorem C07_allPre (t : Tree) :
    (∀ p, p ∈ allPre t ↔ Valid t p) ∧ (allPre t).Pairwise (fun a b => docLt a b = true) :=
  ⟨mem_allPre_iff t, allPre_sorted t⟩

/-- `pre t` lists exactly the normal nodes, strictly increasing in document order. -/
theorem C07_pre (t : Tree) :
    (∀ p, p ∈ pre t ↔ Valid t p ∧ isNormalAt t p = true) ∧
    (pre t).Pairwise (fun a b => docLt a b = true) ∧ (pre t).Nodup :=
  ⟨mem_pre_iff t, pre_sorted t, pre_nodup t⟩

/-! ## The big axes equal their document-order specifications -/

/-- `descendants` (= `axis(DescendantOrSelf)`): normal nodes at or below `p`, document order.
    Any tree, any node (also attribute / namespace nodes). -/
theorem C07_descendants {t : Tree} {p : Path} (h : Valid t p) :
    descendants t p = (pre t).filter (fun q => p.isPrefixOf q) ∧
    axis t .descendantOrSelf p = descendants t p ∧
    allDescendants t p = (allPre t).filter (fun q => p.isPrefixOf q) :=
  ⟨descendants_eq h, rfl, arenaDescendants_eq h⟩

/-- `axis(Descendant)` at a normal node: normal nodes strictly below `p`, document order. -/
theorem C07_axis_descendant {t : Tree} {p : Path} (h : Valid t p) (hn : isNormalAt t p = true) :
    axis t .descendant p = (pre t).filter (fun q => p.isPrefixOf q && q != p) :=
  axis_descendant_spec h hn

/-- `axis(Descendant)` at an attribute / namespace node of a well-formed tree: nothing. -/
theorem C07_axis_descendant_abnormal {t : Tree} {p : Path} (hw : wf t = true) (h : Valid t p)
    (hn : isNormalAt t p = false) : axis t .descendant p = [] :=
  (axis_descendant_abnormal hw h hn).1

/-- The `Following` iterator: `following` (= `axis(Following)`) yields the normal nodes after `p`
    in document order that are not below `p`, in document order; `all_following` the same over
    all nodes. Any tree, any start node (also attribute / namespace nodes); the fuel (node
    count) the model gives the machine is adequate. -/
theorem C07_following {t : Tree} {p : Path} (h : Valid t p) :
    following t p = (pre t).filter (fun q => docLt p q && !p.isPrefixOf q) ∧
    axis t .following p = following t p ∧
    allFollowing t p = (allPre t).filter (fun q => docLt p q && !p.isPrefixOf q) :=
  ⟨following_eq h, rfl, allFollowing_eq h⟩

/-- `preceding` (= `axis(Preceding)`): the normal nodes before `p` that are not ancestors of
    `p`, in reverse document order. Well-formed trees, any node. -/
theorem C07_preceding {t : Tree} {p : Path} (hw : wf t = true) (h : Valid t p) :
    preceding t p = ((pre t).filter (fun q => docLt q p && !q.isPrefixOf p)).reverse ∧
    axis t .preceding p = preceding t p :=
  ⟨preceding_eq hw h, rfl⟩

/-- `axis(Ancestor)`: the proper prefixes of `p`, nearest first — for every node, attribute and
    namespace nodes included (they have a parent and ancestors); in a well-formed tree these
    are the normal nodes that are proper ancestors, in reverse document order. -/
theorem C07_axis_ancestor {t : Tree} {p : Path} (hw : wf t = true) (h : Valid t p) :
    axis t .ancestor p = ((pre t).filter (fun q => q.isPrefixOf p && q != p)).reverse ∧
    axis t .ancestorOrSelf p = p :: axis t .ancestor p ∧ ancestors p = axis t .ancestorOrSelf p := by
  refine ⟨axis_ancestor_spec hw h, ?_, rfl⟩
  rw [axis_ancestor_eq]; exact ancestors_eq p

/-! ## Partition law -/

/-- For a normal node `n`: ancestors, `n`, descendants, preceding and following together are
    exactly the normal nodes of the tree, each once. -/
theorem C07_partition {t : Tree} {p : Path} (hw : wf t = true) (h : Valid t p)
    (hn : isNormalAt t p = true) :
    (axis t .ancestor p ++ (p :: axis t .descendant p) ++ axis t .preceding p ++
      axis t .following p).Perm (pre t) :=
  partition_normal hw h hn

/-- Pairwise disjointness (and no repetition inside a part): the concatenation has no duplicates. -/
theorem C07_partition_disjoint {t : Tree} {p : Path} (hw : wf t = true) (h : Valid t p)
    (hn : isNormalAt t p = true) :
    (axis t .ancestor p ++ (p :: axis t .descendant p) ++ axis t .preceding p ++
      axis t .following p).Nodup :=
  (partition_normal hw h hn).nodup_iff.mpr (pre_nodup t)

/-- For an attribute or namespace node the four axes alone partition the normal nodes. -/
theorem C07_partition_abnormal {t : Tree} {p : Path} (hw : wf t = true) (h : Valid t p)
    (hn : isNormalAt t p = false) :
    (axis t .ancestor p ++ axis t .descendant p ++ axis t .preceding p ++ axis t .following p).Perm (pre t) ∧
    (axis t .ancestor p ++ axis t .descendant p ++ axis t .preceding p ++ axis t .following p).Nodup :=
  ⟨partition_abnormal hw h hn, (partition_abnormal hw h hn).nodup_iff.mpr (pre_nodup t)⟩

/-- Descendants and following come in document order, ancestors and preceding in reverse. -/
theorem C07_order {t : Tree} {p : Path} (hw : wf t = true) (h : Valid t p) :
    (axis t .descendantOrSelf p).Pairwise (fun a b => docLt a b = true) ∧
    (axis t .following p).Pairwise (fun a b => docLt a b = true) ∧
    (axis t .ancestor p).Pairwise (fun a b => docLt b a = true) ∧
    (axis t .preceding p).Pairwise (fun a b => docLt b a = true) := by
  refine ⟨?_, ?_, ?_, ?_⟩
  · show (descendants t p).Pairwise _
    rw [descendants_eq h]; exact (pre_sorted t).filter _
  · show (following t p).Pairwise _
    rw [following_eq h]; exact (pre_sorted t).filter _
  · rw [axis_ancestor_spec hw h, List.pairwise_reverse]; exact (pre_sorted t).filter _
  · show (preceding t p).Pairwise _
    rw [preceding_eq hw h, List.pairwise_reverse]; exact (pre_sorted t).filter _

/-! ## The other machines equal their specifications -/

/-- The `ReversePreorder` iterator: `reverse_preorder` yields the normal nodes up to and
    including `p`, last first; `all_reverse_preorder` the same over all nodes. Any tree, any
    start node; the fuel is adequate. -/
theorem C07_revpre {t : Tree} {p : Path} (h : Valid t p) :
    reversePreorder t p = ((pre t).filter (fun q => docLt q p || q == p)).reverse ∧
    allReversePreorder t p = ((allPre t).filter (fun q => docLt q p || q == p)).reverse :=
  ⟨reversePreorder_eq h, allReversePreorder_eq h⟩

/-- `NodeEdge::next` from `Start(n)`, n a normal node of a well-formed tree, enumerates
    `traverse(n)` and then continues with the successor of `End(n)`; from the root it is
    exactly `traverse(root)` however long one goes on calling `next`. -/
theorem C07_edges_next {t : Tree} {p : Path} (hw : wf t = true) (h : Valid t p)
    (hn : isNormalAt t p = true) (m : Nat) :
    edgeWalk (Edge.next t) ((traverse t p).length + m) (.start p) =
      traverse t p ++ contN t m (Edge.next t (.stop p)) ∧
    (isNormalAt t [] = true →
      edgeWalk (Edge.next t) ((traverse t []).length + m) (.start []) = traverse t []) :=
  ⟨edgeWalk_next_eq hw h hn m, fun h0 => edgeWalk_next_root hw h0 m⟩

/-- `NodeEdge::previous` from `End(n)` enumerates `reverse_traverse(n)` (= `traverse(n)`
    reversed) and then continues with the predecessor of `Start(n)`. -/
theorem C07_edges_previous {t : Tree} {p : Path} (hw : wf t = true) (h : Valid t p)
    (hn : isNormalAt t p = true) (m : Nat) :
    edgeWalk (Edge.previous t) ((reverseTraverse t p).length + m) (.stop p) =
      reverseTraverse t p ++ contP t m (Edge.previous t (.start p)) ∧
    reverseTraverse t p = (traverse t p).reverse ∧
    reverseAllTraverse t p = (allTraverse t p).reverse ∧
    (isNormalAt t [] = true →
      edgeWalk (Edge.previous t) ((reverseTraverse t []).length + m) (.stop []) = reverseTraverse t []) :=
  ⟨edgeWalk_previous_eq hw h hn m, reverseTraverse_eq t p, rfl, fun h0 => edgeWalk_previous_root hw h0 m⟩

/-- `traverse` / `all_traverse` (indextree's `traverse`, by contract the Start/End edge list of the
    subtree): the nodes whose `Start` edge is yielded are `descendants` / `all_descendants`, in
    the same order. Any tree, any node. -/
theorem C07_traverse_starts (t : Tree) (p : Path) :
    (traverse t p).filterMap Edge.start? = descendants t p ∧
    (allTraverse t p).filterMap Edge.start? = allDescendants t p := traverse_starts t p

/-- `level_order`: the levels below `p` (`p`; its children; their children; …) one after the
    other, with `End` before every node whose parent differs from that of the node before it
    and at the very end. Any tree, any start node; levels from the node count on are empty and
    the fuel the model gives the queue loop is adequate. -/
theorem C07_level {t : Tree} {p : Path} (h : Valid t p) :
    levelOrder t p = withEnds p (bfsOrder t p) ∧ (∀ k, t.size ≤ k → levelAt t p k = []) :=
  ⟨levelOrder_eq h, levelAt_size h⟩

/-! ## Children, siblings, child_index -/

/-- `children` (= `axis(Child)`): the normal nodes whose parent is `p`, in document order;
    `first_child` / `last_child` are its first / last. Well-formed trees. -/
theorem C07_children {t : Tree} {p : Path} (hw : wf t = true) (h : Valid t p) :
    children t p = (pre t).filter (fun q => parent q == some p) ∧
    axis t .child p = children t p ∧
    firstChild t p = (children t p).head? ∧
    lastChild t p = (children t p).getLast? :=
  ⟨children_spec hw h, rfl, firstChild_eq t p, lastChild_eq hw h⟩

/-- `reverse_children` (walks `previous_sibling` from the raw last child, `take_while(is_normal)`):
    the raw children of `p` last first up to the first non-normal one (any tree; the fuel is
    adequate), i.e. `children` reversed in a well-formed tree. -/
theorem C07_reverse_children {t : Tree} {p : Path} (h : Valid t p) :
    reverseChildren t p = (rawChildPaths t p).reverse.takeWhile (isNormalAt t) ∧
    (wf t = true → reverseChildren t p = (children t p).reverse) :=
  ⟨reverseChildren_eq_spec h, fun hw => reverseChildren_eq hw h⟩

/-- Siblings of a non-root node `π ++ [i]`, of any category: `following_siblings` /
    `preceding_siblings` are the node followed by its later / earlier raw siblings of the same
    category (nearest first); the sibling axes drop the node. Attribute and namespace nodes
    have same-kind siblings. Any tree. -/
theorem C07_siblings {t : Tree} {π : Path} {i : Nat} (h : Valid t (π ++ [i])) :
    followingSiblings t (π ++ [i]) = (π ++ [i]) ::
      ((rawChildPaths t π).drop (i + 1)).filter (fun s => categoryAt t s == categoryAt t (π ++ [i])) ∧
    axis t .followingSibling (π ++ [i]) =
      ((rawChildPaths t π).drop (i + 1)).filter (fun s => categoryAt t s == categoryAt t (π ++ [i])) ∧
    precedingSiblings t (π ++ [i]) = (π ++ [i]) ::
      (((rawChildPaths t π).take i).filter (fun s => categoryAt t s == categoryAt t (π ++ [i]))).reverse ∧
    axis t .precedingSibling (π ++ [i]) =
      (((rawChildPaths t π).take i).filter (fun s => categoryAt t s == categoryAt t (π ++ [i]))).reverse :=
  ⟨(followingSiblings_snoc h).1, (followingSiblings_snoc h).2, (precedingSiblings_snoc h).1,
    (precedingSiblings_snoc h).2⟩

/-- The root has no siblings. -/
theorem C07_siblings_root (t : Tree) :
    followingSiblings t [] = [[]] ∧ precedingSiblings t [] = [[]] ∧
    axis t .followingSibling [] = [] ∧ axis t .precedingSibling [] = [] ∧
    nextSibling t [] = none ∧ previousSibling t [] = none := siblings_root t

/-- `next_sibling` of a normal node of a well-formed tree: the first of its following
    siblings, i.e. the next raw sibling if there is one. `previous_sibling` of any node: the
    previous raw sibling if it has the node's category. -/
theorem C07_next_previous_sibling {t : Tree} {π : Path} {i : Nat} (hw : wf t = true)
    (h : Valid t (π ++ [i])) (hn : isNormalAt t (π ++ [i]) = true) :
    nextSibling t (π ++ [i]) = (axis t .followingSibling (π ++ [i])).head? ∧
    (nextSibling t (π ++ [i]) = if i + 1 < (subAt t π).kids.length then some (π ++ [i + 1]) else none) ∧
    previousSibling t (π ++ [i]) =
      (if i = 0 then none
       else if categoryAt t (π ++ [i - 1]) == categoryAt t (π ++ [i]) then some (π ++ [i - 1]) else none) :=
  ⟨(nextSibling_normal hw h hn).1, (nextSibling_normal hw h hn).2, previousSibling_snoc t π i⟩

/-- Under the `StructValid` ordering of the children (namespaces, attributes, normal):
    `next_sibling` / `previous_sibling` of ANY node, attribute and namespace nodes included, is
    the nearest following / preceding sibling of the node's category. -/
theorem C07_next_previous_sibling_any {t : Tree} {π : Path} {i : Nat} (h : Valid t (π ++ [i]))
    (hs : kidsSorted (subAt t π).kids) :
    nextSibling t (π ++ [i]) = (axis t .followingSibling (π ++ [i])).head? ∧
    previousSibling t (π ++ [i]) = (axis t .precedingSibling (π ++ [i])).head? :=
  ⟨nextSibling_sorted h hs, previousSibling_sorted h hs⟩

/-- `child_index(parent, child) = Some(i)` iff `child` is the `i`-th of `children(parent)`;
    `None` when `parent` is not the parent of `child`. -/
theorem C07_child_index {t : Tree} {par child : Path} (hw : wf t = true) (h : Valid t par) :
    (∀ i, childIndex t par child = some i ↔ (children t par)[i]? = some child) ∧
    (parent child ≠ some par → childIndex t par child = none) :=
  ⟨childIndex_iff hw h, childIndex_none_of_not_child⟩

/-! ## Plain variants, `all_*` variants, the attribute axis -/

/-- The plain variants never yield a namespace or attribute node: everything they yield is a
    normal node of the tree. (`descendants`, `following`, `reverse_preorder`, `traverse`,
    `reverse_traverse`: any tree; `preceding`, `children`, the ancestor axis, `level_order` below
    its start node: well-formed trees. The start node itself is yielded by `ancestors`,
    `axis(Self)`, `level_order`, the `*_siblings` whatever its category.) -/
theorem C07_plain_normal {t : Tree} {p : Path} (hw : wf t = true) (h : Valid t p) :
    (∀ q ∈ descendants t p, Valid t q ∧ isNormalAt t q = true) ∧
    (∀ q ∈ following t p, Valid t q ∧ isNormalAt t q = true) ∧
    (∀ q ∈ preceding t p, Valid t q ∧ isNormalAt t q = true) ∧
    (∀ q ∈ reversePreorder t p, Valid t q ∧ isNormalAt t q = true) ∧
    (∀ q ∈ children t p, Valid t q ∧ isNormalAt t q = true) ∧
    (∀ q ∈ axis t .ancestor p, Valid t q ∧ isNormalAt t q = true) ∧
    (∀ e ∈ traverse t p, isNormalAt t e.node = true) ∧
    (∀ e ∈ reverseTraverse t p, isNormalAt t e.node = true) ∧
    (∀ k, ∀ q ∈ levelAt t p (k + 1), Valid t q ∧ isNormalAt t q = true) :=
  ⟨descendants_normal_only h, following_normal_only h, preceding_normal_only hw h,
    reversePreorder_normal_only h, children_normal_only hw h, ancestor_normal_only hw h,
    (traverse_normal_only t p).1, (traverse_normal_only t p).2, levelAt_normal_only hw h⟩

/-- Sibling stepping never leaves the category of the node: attribute and namespace nodes have
    same-kind siblings only, normal nodes normal siblings only. Any tree, any node. -/
theorem C07_sibling_category (t : Tree) (p : Path) :
    (∀ s, nextSibling t p = some s → categoryAt t s = categoryAt t p) ∧
    (∀ s, previousSibling t p = some s → categoryAt t s = categoryAt t p) ∧
    (∀ s ∈ followingSiblings t p, categoryAt t s = categoryAt t p) ∧
    (∀ s ∈ precedingSiblings t p, categoryAt t s = categoryAt t p) := sibling_same_category t p

/-- The `all_*` variants: under the `StructValid` ordering of the children (namespaces,
    attributes, normal) `all_descendants` is the node, then the subtrees of its namespace
    nodes, its attribute nodes, its children, in this order; `all_traverse` likewise between
    `Start` and `End`; and the raw child list is the concatenation of the three views. -/
theorem C07_all {t : Tree} {p : Path} (hs : kidsSorted (subAt t p).kids) :
    (subAt t p).kids = (subAt t p).namespaceNodes ++ (subAt t p).attributeNodes ++ (subAt t p).normalKids ∧
    allDescendants t p = p :: (allPreList 0
      ((subAt t p).namespaceNodes ++ (subAt t p).attributeNodes ++ (subAt t p).normalKids)).map (p ++ ·) ∧
    allTraverse t p = .start p :: ((rawEdgesList 0
      ((subAt t p).namespaceNodes ++ (subAt t p).attributeNodes ++ (subAt t p).normalKids)).map
        (Edge.mapPath (p ++ ·)) ++ [.stop p]) :=
  ⟨kids_eq_ns_attr_normal _ hs, allDescendants_order hs, allTraverse_order hs⟩

/-- `attribute_nodes` (= `axis(Attribute)`): only attribute children of `p` (any tree); under the
    `StructValid` ordering exactly the attribute children, in order. -/
theorem C07_attribute_axis {t : Tree} {p : Path} (h : Valid t p) :
    axis t .attribute p = attributeNodes t p ∧
    (∀ q ∈ attributeNodes t p, categoryAt t q = .attribute ∧ parent q = some p ∧ Valid t q) ∧
    (kidsSorted (subAt t p).kids →
      attributeNodes t p = (rawChildPaths t p).filter (fun q => categoryAt t q == .attribute)) :=
  ⟨rfl, fun _ hq => attributeNodes_sound h hq, attributeNodes_eq h⟩

/-! ## root, document_element, top_element, parent, self -/

theorem C07_root (p : Path) : root p = .ok [] := by
  have : (ancestors p).getLast? = some [] := by
    rw [ancestors_eq]
    cases p with
    | nil => simp [ancRel]
    | cons i p =>
      simp only [ancRel, List.reverse_cons]
      rw [← List.cons_append, List.getLast?_concat]
  simp [root, this]

/-- `parent`, `axis(Parent)`, `axis(Self)`: every node but the root has a parent, attribute and
    namespace nodes included. -/
theorem C07_parent_self (t : Tree) (π : Path) (i : Nat) :
    parent (π ++ [i]) = some π ∧ parent [] = none ∧
    axis t .parent (π ++ [i]) = [π] ∧ axis t .parent [] = [] ∧ axis t .self π = [π] := by
  simp [axis]

/-- `document_element(p) = Ok(c)`: `p` is a document node and `c` is its first element child;
    the two errors; it never panics. -/
theorem C07_document_element {t : Tree} {p : Path} (hw : wf t = true) (h : Valid t p) :
    (∀ c, documentElement t p = .ok c →
      (valueAt t p).isDocument = true ∧ c ∈ children t p ∧ (valueAt t c).isElement = true ∧
      ∀ c' ∈ children t p, docLt c' c = true → (valueAt t c').isElement = false) ∧
    (documentElement t p = .err .notDocument ↔ (valueAt t p).isDocument = false) ∧
    (documentElement t p = .err .noElementAtTopLevel ↔
      (valueAt t p).isDocument = true ∧ ∀ c ∈ children t p, (valueAt t c).isElement = false) ∧
    documentElement t p ≠ .panic :=
  ⟨fun _ hc => documentElement_ok hw h hc, (documentElement_err t p).1, (documentElement_err t p).2.1,
    (documentElement_err t p).2.2⟩

/-- `top_element` is total: it never panics. On a document node it is the first element child
    (what `document_element` returns), the document node itself if there is none; on any other
    node it is the first element on the way from the root down to the node, the node itself
    if there is none. Any tree, any node. -/
theorem C07_top_element (t : Tree) (p : Path) :
    topElement t p ≠ .panic ∧
    ((valueAt t p).isDocument = true →
      topElement t p = .ok (((children t p).find? (fun c => (valueAt t c).isElement)).getD p)) ∧
    ((valueAt t p).isDocument = true → ∀ c, documentElement t p = .ok c → topElement t p = .ok c) ∧
    ((valueAt t p).isDocument = false →
      topElement t p = .ok (((ancRel p ++ [p]).find? (fun a => (valueAt t a).isElement)).getD p)) :=
  topElement_eq t p

/-! ## The per-node read accessors of valueaccess.rs (Model/ValueAccess.lean) -/

/-- `has_document_parent(n)`: the parent of `n` is a document node.  `is_document_element(n)` ⇔ `n` is
    an element and one of the (normal) children of a document node — the document's element child
    in a well-formed document.  The root of a tree has no parent: both are `false`. -/
theorem C07_is_document_element {t : Tree} {π : Path} {i : Nat} (hw : wf t = true)
    (h : Valid t (π ++ [i])) :
    hasDocumentParent t (π ++ [i]) = (valueAt t π).isDocument ∧
    (isDocumentElement t (π ++ [i]) = true ↔
      (valueAt t π).isDocument = true ∧ (π ++ [i]) ∈ children t π ∧
      (valueAt t (π ++ [i])).isElement = true) ∧
    hasDocumentParent t [] = false ∧ isDocumentElement t [] = false := by
  refine ⟨by simp [hasDocumentParent], ?_, by simp [hasDocumentParent], by simp [isDocumentElement]⟩
  simp only [isDocumentElement, parent_snoc, Bool.and_eq_true]
  constructor
  · rintro ⟨hd, he⟩
    refine ⟨hd, ?_, he⟩
    rw [children_spec hw (valid_prefix h), List.mem_filter]
    refine ⟨(mem_pre_iff t _).mpr ⟨h, ?_⟩, by simp⟩
    unfold isNormalAt
    cases hv : valueAt t (π ++ [i]) <;> simp_all [Value.isElement, Value.isNormal, Value.category]
  · rintro ⟨hd, _, he⟩
    exact ⟨hd, he⟩

/-- What `document_element(p)` returns is a document element in the sense of `is_document_element`
    (and has a document parent). -/
theorem C07_document_element_is {t : Tree} {p c : Path} (hw : wf t = true) (h : Valid t p)
    (hc : documentElement t p = .ok c) :
    isDocumentElement t c = true ∧ hasDocumentParent t c = true := by
  obtain ⟨hd, hmem, he, _⟩ := documentElement_ok hw h hc
  rw [children_spec hw h, List.mem_filter] at hmem
  have hp : parent c = some p := by simpa using hmem.2
  simp [isDocumentElement, hasDocumentParent, hp, hd, he]

/-- Conversely, an `is_document_element` node that is the ONLY element child of its parent (a
    well-formed document has exactly one) is what `document_element(parent)` returns. -/
theorem C07_is_document_element_unique {t : Tree} {π : Path} {i : Nat} (hw : wf t = true)
    (h : Valid t (π ++ [i])) (hde : isDocumentElement t (π ++ [i]) = true)
    (huniq : ∀ c ∈ children t π, (valueAt t c).isElement = true → c = π ++ [i]) :
    documentElement t π = .ok (π ++ [i]) := by
  obtain ⟨hd, hmem, he⟩ := (C07_is_document_element hw h).2.1.mp hde
  unfold documentElement
  simp only [hd, Bool.not_true, Bool.false_eq_true, if_false]
  cases hf : (children t π).find? (fun c => (valueAt t c).isElement) with
  | none =>
    have := List.find?_eq_none.mp hf _ hmem
    simp [he] at this
  | some c =>
    have hc := huniq c (List.mem_of_find?_eq_some hf) (by simpa using List.find?_some hf)
    simp [hc]

/-- `get_element_name` panics exactly on a non-element; the typed value accessors (`comment_str`,
    `processing_instruction`, `namespace_node`, `attribute_node`) are `Some` exactly on a value of
    their kind and then return its fields. -/
theorem C07_value_accessors (t : Tree) (p : Path) :
    (∀ n, getElementName t p = .ok n ↔ valueAt t p = .element n) ∧
    (getElementName t p = .panic ↔ (valueAt t p).isElement = false) ∧
    (∀ s, commentStr t p = some s ↔ valueAt t p = .comment s) ∧
    (∀ tg d, processingInstruction t p = some (tg, d) ↔ valueAt t p = .pi tg d) ∧
    (∀ pf ns, namespaceNode t p = some (pf, ns) ↔ valueAt t p = .namespace pf ns) ∧
    (∀ n v, attributeNode t p = some (n, v) ↔ valueAt t p = .attribute n v) := by
  unfold getElementName commentStr processingInstruction namespaceNode attributeNode
  cases valueAt t p <;> simp [Value.isElement]

/-! ## Non-vacuity -/

/-- `<a xmlns:p=".." x=".."><b><c/></b>text<d/></a>` in a document, with a comment after. -/
def exTree : Tree :=
  .node .document [
    .node (.element 2) [
      .node (.namespace 2 2) [], .node (.attribute 3 ['v']) [],
      .node (.element 3) [.node (.element 4) []],
      .node (.text ['t']) [],
      .node (.element 5) []],
    .node (.comment ['c']) []]

example : wf exTree = true := by decide
example : Valid exTree [0, 2] ∧ isNormalAt exTree [0, 2] = true := by decide
example : Valid exTree [0, 1] ∧ isNormalAt exTree [0, 1] = false := by decide
example : axis exTree .following [0, 2] = [[0, 3], [0, 4], [1]] := by decide
example : axis exTree .preceding [0, 4] = [[0, 3], [0, 2, 0], [0, 2]] := by decide
example : axis exTree .following [0, 1] = [[0, 2], [0, 2, 0], [0, 3], [0, 4], [1]] := by decide
example : kidsSorted (subAt exTree [0]).kids := by decide
example : axis exTree .attribute [0] = [[0, 1]] := by decide
example : levelOrder exTree [] =
    [.node [], .stop, .node [0], .node [1], .stop, .node [0, 2], .node [0, 3], .node [0, 4], .stop,
     .node [0, 2, 0], .stop] := by decide
example : edgeWalk (Edge.next exTree) 20 (.start [0, 2]) =
    [.start [0, 2], .start [0, 2, 0], .stop [0, 2, 0], .stop [0, 2], .start [0, 3], .stop [0, 3],
     .start [0, 4], .stop [0, 4], .stop [0], .start [1], .stop [1], .stop []] := by decide
example : documentElement exTree [] = .ok [0] ∧ topElement exTree [0, 2, 0] = .ok [0] := by decide
example : reverseChildren exTree [0] = [[0, 4], [0, 3], [0, 2]] := by decide
example : topElement (.node .document [.node (.comment []) []]) [] = .ok [] := by decide
example : isDocumentElement exTree [0] = true ∧ hasDocumentParent exTree [1] = true ∧
    isDocumentElement exTree [1] = false ∧ isDocumentElement exTree [0, 2] = false ∧
    getElementName exTree [0] = .ok 2 ∧ getElementName exTree [1] = .panic ∧
    commentStr exTree [1] = some ['c'] ∧ namespaceNode exTree [0, 0] = some (2, 2) ∧
    attributeNode exTree [0, 1] = some (3, ['v']) ∧
    (∀ c ∈ children exTree [], (valueAt exTree c).isElement = true → c = [] ++ [0]) := by decide

/-! =====================================================================================
  ### indextree's iterators on the real data structure (pointer level, `Model/ArenaIter.lean`)

  The theorems above take indextree's iterators "by contract" (`children`, `ancestors`, … = the
  obvious lists).  For a well-formed arena (`Arena.Rep a g`, see `Props/C04`) the pointer walks of
  `traverse.rs` are proved to yield exactly those lists, within their limit, without panic
  (`reverse_traverse` included: `C07_arena_reverse_traverse`; the unused `predecessors`: `C07_arena_predecessors`).
  ===================================================================================== -/

/-- `children`, `reverse_children` (also what xot's own `reverse_children` walks), `ancestors`
    (the node first, the root last), `following_siblings` / `preceding_siblings` (the node first) of a live node are the
    list-level children / reversed children / parent chain / rest of the sibling list, as current
    ids; `count` (resp. any bound on the length) suffices as limit; every id yielded is live. -/
theorem C07_arena_iterators (a : Arena) (g : Arena.Shape) (r : Arena.Rep a g) (p : Nat) (hp : Arena.Live a p)
    (limit : Nat) (hlim : a.count ≤ limit) :
    Arena.children a (a.idAt p) limit = .done a ((g.kids p).map a.idAt) ∧
    Arena.reverseChildren a (a.idAt p) limit = .done a ((g.kids p).reverse.map a.idAt) ∧
    (∃ l, Arena.UpChain g.par p l ∧ Arena.ancestors a (a.idAt p) limit = .done a (l.map a.idAt) ∧
      ∀ q, q ∈ l ↔ Arena.Reach g.par p q) ∧
    (∀ q L R, g.par p = some q → g.kids q = L ++ p :: R →
      Arena.followingSiblings a (a.idAt p) limit = .done a ((p :: R).map a.idAt)) ∧
    (g.par p = none → 1 ≤ limit → Arena.followingSiblings a (a.idAt p) limit = .done a [a.idAt p]) ∧
    (∀ q L R, g.par p = some q → g.kids q = L ++ p :: R →
      Arena.precedingSiblings a (a.idAt p) limit = .done a ((p :: L.reverse).map a.idAt)) ∧
    (∀ c, c ∈ g.kids p → Arena.LiveId a (a.idAt c)) := by
  have hk : (g.kids p).length ≤ limit := Nat.le_trans (r.kids_length_le p) hlim
  refine ⟨r.children_eq p hp limit hk, r.reverseChildren_eq p hp limit hk, ?_, ?_, ?_, ?_, ?_⟩
  · obtain ⟨l, hl, hlen⟩ := r.upChain p hp
    exact ⟨l, hl, r.ancestors_chain p l hl hp limit (Nat.le_trans hlen hlim), fun q => hl.mem_iff q⟩
  · intro q L R hq hkq
    refine r.followingSiblings_eq p q L R hp hq hkq limit ?_
    have h1 := r.kids_length_le q
    rw [hkq] at h1
    simp at h1 ⊢
    have : a.count = a.nodes.length := rfl
    omega
  · intro hq h1
    exact r.followingSiblings_root p hp hq limit h1
  · intro q L R hq hkq
    refine r.precedingSiblings_eq p q L R hp hq hkq limit ?_
    have h1 := r.kids_length_le q
    rw [hkq] at h1
    simp at h1 ⊢
    have : a.count = a.nodes.length := rfl
    omega
  · intro c hc
    exact Arena.LiveId.idAt (r.kidsLive p c hc).2.1

/-- `traverse` from a live node yields exactly the edges of its subtree in document order
    (`Arena.EdgesOf`: `Start(c)`, the edges of the children's subtrees in order, `End(c)`), and
    `descendants` the nodes of its `Start` edges (the subtree in document order), whenever the limit
    is at least the number of edges; no panic. -/
theorem C07_arena_traverse (a : Arena) (g : Arena.Shape) (r : Arena.Rep a g) (c : Nat) (hc : Arena.Live a c) :
    ∃ l, Arena.EdgesOf g c l ∧ ∀ limit, l.length ≤ limit →
      Arena.traverse a (a.idAt c) limit = .done a (l.map (Arena.toEdge a)) ∧
      Arena.descendants a (a.idAt c) limit = .done a ((l.filter (·.1)).map (fun e => a.idAt e.2)) := by
  obtain ⟨l, hl⟩ := r.edges_exists c hc
  exact ⟨l, hl, fun limit hlim => ⟨r.traverse_eq hl hc limit hlim, r.descendants_eq hl hc limit hlim⟩⟩

/-- `reverse_traverse` (`ReverseTraverse::next` over `NodeEdge::prev_traverse`: from `End(c)` to
    `End(last child)` / `Start(node)`, from `Start(n)` to `End(previous sibling)` / `Start(parent)`,
    stopping after `Start(c)`) from a live node yields exactly the edge list of its subtree
    BACKWARDS — the reverse of what `traverse` yields, `Start` / `End` tags unchanged: `End(c)`, …,
    `Start(c)` — whenever the limit is at least the number of edges; arena unchanged, no panic. -/
theorem C07_arena_reverse_traverse (a : Arena) (g : Arena.Shape) (r : Arena.Rep a g) (c : Nat) (hc : Arena.Live a c) :
    ∃ l, Arena.EdgesOf g c l ∧ ∀ limit, l.length ≤ limit →
      Arena.reverseTraverse a (a.idAt c) limit = .done a (l.reverse.map (Arena.toEdge a)) ∧
      ∃ es, Arena.traverse a (a.idAt c) limit = .done a es ∧
        Arena.reverseTraverse a (a.idAt c) limit = .done a es.reverse := by
  obtain ⟨l, hl⟩ := r.edges_exists c hc
  exact ⟨l, hl, fun limit hlim =>
    ⟨r.reverseTraverse_eq hl hc limit hlim, r.reverseTraverse_eq_reverse hl hc limit hlim⟩⟩

/-- ⟦C07_arena_predecessors⟧ indextree's `predecessors` (`Iter` along `previous_sibling.or(parent)`; xot does not call
    it) from a live node of a well-formed arena is its list-level definition `Arena.PredChain g p` (Lemmas/ArenaPred.lean):
    the node, the siblings before it nearest first (`L.reverse` where `kids (parent) = L ++ p :: R`), then the same for
    its parent, … up to the parentless node at the top, which has no siblings.  The chain exists, has no repetition and
    at most `count` members, so `count` suffices as limit (no panic, nothing cut off); its members are exactly the
    siblings-before-or-self of the ancestors-or-self, all live. -/
theorem C07_arena_predecessors (a : Arena) (g : Arena.Shape) (r : Arena.Rep a g) (p : Nat) (hp : Arena.Live a p)
    (limit : Nat) (hlim : a.count ≤ limit) :
    ∃ l, Arena.PredChain g p l ∧ Arena.predecessors a (a.idAt p) limit = .done a (l.map a.idAt) ∧
      l.Nodup ∧ l.length ≤ a.count ∧
      (∀ z ∈ l, Arena.LiveId a (a.idAt z) ∧ ∃ y, Arena.Reach g.par p y ∧ g.par z = g.par y) := by
  obtain ⟨l, hl, hlen⟩ := r.predChain p hp
  exact ⟨l, hl, r.predecessors_chain p l hl hp limit (Nat.le_trans hlen hlim), r.predChain_nodup hl hp, hlen,
    fun z hz => ⟨Arena.LiveId.idAt (r.predChain_mem hl z hz hp).1, (r.predChain_mem hl z hz hp).2⟩⟩

/-- The two cases of the list-level definition, as equations of the walk: a parentless node yields itself; a node
    with parent `q`, `kids q = L ++ p :: R`, yields itself, `L` reversed, then what `q` yields. -/
theorem C07_arena_predecessors_step (a : Arena) (g : Arena.Shape) (r : Arena.Rep a g) (p : Nat) (hp : Arena.Live a p)
    (limit : Nat) (hlim : a.count ≤ limit) :
    (g.par p = none → Arena.predecessors a (a.idAt p) limit = .done a [a.idAt p]) ∧
    (∀ q L R, g.par p = some q → g.kids q = L ++ p :: R →
      ∃ lq, Arena.predecessors a (a.idAt q) limit = .done a (lq.map a.idAt) ∧
        Arena.predecessors a (a.idAt p) limit = .done a ((p :: L.reverse ++ lq).map a.idAt)) := by
  constructor
  · intro hq
    have hl : Arena.PredChain g p [p] := .root hq
    exact r.predecessors_chain p [p] hl hp limit (Nat.le_trans (r.predChain_length hl hp) hlim)
  · intro q L R hq hk
    have hql := (r.live_of_par hq).2
    obtain ⟨lq, hlq, hlen⟩ := r.predChain q hql
    have hl : Arena.PredChain g p (p :: L.reverse ++ lq) := .step hq hk hlq
    exact ⟨lq, r.predecessors_chain q lq hlq hql limit (Nat.le_trans hlen hlim),
      r.predecessors_chain p _ hl hp limit (Nat.le_trans (r.predChain_length hl hp) hlim)⟩

/-- Non-vacuity: in `sampleB` (`1:0 [2:0 [4:0], 3:0]`) `predecessors(3:0)` = `3:0`, its sibling `2:0`, the root;
    `predecessors(4:0)` climbs two levels; in `sampleC` (`1:0 [4:0, 3:0]`) likewise; a limit below the length cuts
    the list off (`Take`). -/
example : Arena.predecessors Arena.sampleB ⟨3, 0⟩ 4 = .done Arena.sampleB [⟨3, 0⟩, ⟨2, 0⟩, ⟨1, 0⟩] ∧
    Arena.predecessors Arena.sampleB ⟨4, 0⟩ 4 = .done Arena.sampleB [⟨4, 0⟩, ⟨2, 0⟩, ⟨1, 0⟩] ∧
    Arena.predecessors Arena.sampleC ⟨3, 0⟩ 4 = .done Arena.sampleC [⟨3, 0⟩, ⟨4, 0⟩, ⟨1, 0⟩] ∧
    Arena.predecessors Arena.sampleB ⟨1, 0⟩ 4 = .done Arena.sampleB [⟨1, 0⟩] ∧
    Arena.predecessors Arena.sampleB ⟨3, 0⟩ 2 = .done Arena.sampleB [⟨3, 0⟩, ⟨2, 0⟩] := by
  decide
example : Arena.Wf Arena.sampleB ∧ Arena.Live Arena.sampleB 2 ∧ Arena.sampleB.count ≤ 4 :=
  ⟨(Arena.Steps.wf Arena.sampleB_steps Arena.Wf.empty).1, ⟨_, rfl, by decide⟩, by decide⟩

/-- Non-vacuity on closed arenas (`sampleC`: `1:0 [4:0, 3:0]`, slot 2 reused as `2:1`): the
    iterators, and the defect of `Children::next_back` in 4.7.2 (`children().rev()` keeps yielding
    the last child — cut off by the limit here; xot does not call it). -/
example : Arena.children Arena.sampleC ⟨1, 0⟩ 4 = .done Arena.sampleC [⟨4, 0⟩, ⟨3, 0⟩] ∧
    Arena.reverseChildren Arena.sampleC ⟨1, 0⟩ 4 = .done Arena.sampleC [⟨3, 0⟩, ⟨4, 0⟩] ∧
    Arena.ancestors Arena.sampleB ⟨4, 0⟩ 4 = .done Arena.sampleB [⟨4, 0⟩, ⟨2, 0⟩, ⟨1, 0⟩] ∧
    Arena.followingSiblings Arena.sampleC ⟨4, 0⟩ 4 = .done Arena.sampleC [⟨4, 0⟩, ⟨3, 0⟩] ∧
    Arena.precedingSiblings Arena.sampleC ⟨3, 0⟩ 4 = .done Arena.sampleC [⟨3, 0⟩, ⟨4, 0⟩] ∧
    Arena.descendants Arena.sampleB ⟨1, 0⟩ 9 = .done Arena.sampleB [⟨1, 0⟩, ⟨2, 0⟩, ⟨4, 0⟩, ⟨3, 0⟩] ∧
    Arena.traverse Arena.sampleB ⟨2, 0⟩ 9 =
      .done Arena.sampleB [.start ⟨2, 0⟩, .start ⟨4, 0⟩, .end ⟨4, 0⟩, .end ⟨2, 0⟩] ∧
    Arena.childrenRev Arena.sampleC ⟨1, 0⟩ 5 = .done Arena.sampleC [⟨3, 0⟩, ⟨3, 0⟩, ⟨3, 0⟩, ⟨3, 0⟩, ⟨3, 0⟩] := by
  decide

/-- Non-vacuity of `C07_arena_reverse_traverse`: `sampleB` (`1:0 [2:0 [4:0], 3:0]`) is a
    well-formed arena with live slots 0 and 1; `reverse_traverse` from `1:0` and from the inner node
    `2:0` (the walk must stop at `Start(2:0)`, not run on to `Start(1:0)`) gives the reversed edge
    lists; with a limit below the number of edges the list is cut off (`Take`). -/
example : Arena.Wf Arena.sampleB ∧ Arena.Live Arena.sampleB 0 ∧ Arena.Live Arena.sampleB 1 :=
  ⟨(Arena.Steps.wf Arena.sampleB_steps Arena.Wf.empty).1, ⟨_, rfl, by decide⟩, ⟨_, rfl, by decide⟩⟩
example : Arena.reverseTraverse Arena.sampleB ⟨1, 0⟩ 9 =
      .done Arena.sampleB [.end ⟨1, 0⟩, .end ⟨3, 0⟩, .start ⟨3, 0⟩, .end ⟨2, 0⟩, .end ⟨4, 0⟩, .start ⟨4, 0⟩,
        .start ⟨2, 0⟩, .start ⟨1, 0⟩] ∧
    Arena.traverse Arena.sampleB ⟨1, 0⟩ 9 =
      .done Arena.sampleB [.start ⟨1, 0⟩, .start ⟨2, 0⟩, .start ⟨4, 0⟩, .end ⟨4, 0⟩, .end ⟨2, 0⟩, .start ⟨3, 0⟩,
        .end ⟨3, 0⟩, .end ⟨1, 0⟩] ∧
    Arena.reverseTraverse Arena.sampleB ⟨2, 0⟩ 9 =
      .done Arena.sampleB [.end ⟨2, 0⟩, .end ⟨4, 0⟩, .start ⟨4, 0⟩, .start ⟨2, 0⟩] ∧
    Arena.reverseTraverse Arena.sampleC ⟨1, 0⟩ 9 =
      .done Arena.sampleC [.end ⟨1, 0⟩, .end ⟨3, 0⟩, .start ⟨3, 0⟩, .end ⟨4, 0⟩, .start ⟨4, 0⟩, .start ⟨1, 0⟩] ∧
    Arena.reverseTraverse Arena.sampleB ⟨2, 0⟩ 3 =
      .done Arena.sampleB [.end ⟨2, 0⟩, .end ⟨4, 0⟩, .start ⟨4, 0⟩] := by
  decide

end XotModel.Props

/-! # ================================================================================================
    # CHILD-LIST ACCESSORS; the remaining restatements for reachable trees; FULL histories (wt-c07gaps)
    # ================================================================================================

  (1) The accessors that hand out the nodes of ONE raw child list — `all_children`, `abnormal_children`
  (access.rs, `pub(crate)`), `namespaces(node).nodes()`, `attributes(node).nodes()` (nodemap/),
  `attribute_nodes`, `children` — as the `take_while` / `skip_while` code the crate has
  (Model/AxesChildLists.lean, Model/Axes.lean; suite `axes` asks for all of them at every node).
  (2) The theorems of this file that take `wf` / `kidsSorted` and had no restatement for reachable trees.
  (3) Every `C07_reachable_*` theorem once more over FULL histories (`PCall`, Model/FparseHist.lean: `parse` /
  `parse_fragment` of ARBITRARY texts — accepted or rejected — interleaved with the extended API calls of
  `Forest.XCall`), suffix `_full`: the trees that enter the store through the parser are covered, whatever is
  done to them afterwards.  All of it rests on one forest-level fact, `C07_inv_wf`: the erasure of every
  parentless tree of a forest with `Forest.Inv` satisfies both structural hypotheses. -/

namespace XotModel.Props
open XotModel XotModel.Axes

/-- Both structural hypotheses of this file hold of every parentless tree of every forest with the
    invariant of C04 (`Forest.Inv`): `wf`, and `kidsSorted` at EVERY node. -/
theorem C07_inv_wf (f : Forest) (hi : f.Inv) :
    ∀ r ∈ f.roots, wf r.erase = true ∧ ∀ p : Path, kidsSorted (subAt r.erase p).kids :=
  fun _ hr => ⟨Reach.wf_root hi hr, Reach.kidsSorted_root hi hr⟩

/-! ## The child-list accessors -/

/-- On EVERY tree (ill-ordered ones included), at every node: `all_children` is the raw child list — the
    nodes whose parent is `p`, in document order, no node twice; it is `abnormal_children` followed by
    `children` (`take_while` / `skip_while` of one predicate); `attributes(node).nodes()` is
    `attribute_nodes(node)`; namespace nodes followed by attribute nodes are a PREFIX of it; and whatever
    `namespaces(node).nodes()` / `attribute_nodes` yield is a namespace / attribute child of `p`. -/
theorem C07_all_children {t : Tree} {p : Path} (h : Valid t p) :
    allChildrenPaths t p = rawChildPaths t p ∧
    allChildrenPaths t p = (allPre t).filter (fun q => parent q == some p) ∧
    (allChildrenPaths t p).Nodup ∧
    (allChildrenPaths t p).Pairwise (fun a b => docLt a b = true) ∧
    allChildrenPaths t p = abnormalChildrenPaths t p ++ children t p ∧
    attributesNodes t p = attributeNodes t p ∧
    namespaceNodes t p ++ attributeNodes t p <+: allChildrenPaths t p ∧
    (∀ q ∈ namespaceNodes t p, categoryAt t q = .namespace ∧ parent q = some p ∧ Valid t q) ∧
    (∀ q ∈ attributeNodes t p, categoryAt t q = .attribute ∧ parent q = some p ∧ Valid t q) := by
  refine ⟨allChildrenPaths_eq t p, allChildrenPaths_spec h, ?_, ?_, allChildrenPaths_split t p,
    attributesNodes_eq t p, nsAttr_prefix t p, fun _ hq => namespaceNodes_sound h hq,
    fun _ hq => attributeNodes_sound h hq⟩
  · rw [allChildrenPaths_eq]; exact rawChildPaths_nodup t p
  · rw [allChildrenPaths_eq]; exact rawChildPaths_sorted h

/-- ⟦C07_all_children_partition⟧ **The partition of the raw child list** under the `StructValid` ordering of
    the children of `p` (namespaces, attributes, normal): `all_children` = namespace nodes ++ attribute
    nodes ++ children, in document order; the three lists are pairwise disjoint and without repetition
    (the concatenation has no duplicates), so every raw child — every normal child in particular — occurs
    in it exactly once; `abnormal_children` = namespace nodes ++ attribute nodes; and each of the three
    is the list of the raw children of its category. -/
theorem C07_all_children_partition {t : Tree} {p : Path} (h : Valid t p) (hs : kidsSorted (subAt t p).kids) :
    allChildrenPaths t p = namespaceNodes t p ++ attributeNodes t p ++ children t p ∧
    (namespaceNodes t p ++ attributeNodes t p ++ children t p).Nodup ∧
    (namespaceNodes t p ++ attributeNodes t p ++ children t p).Pairwise (fun a b => docLt a b = true) ∧
    (∀ q ∈ rawChildPaths t p, (namespaceNodes t p ++ attributeNodes t p ++ children t p).count q = 1) ∧
    abnormalChildrenPaths t p = namespaceNodes t p ++ attributeNodes t p ∧
    namespaceNodes t p = (rawChildPaths t p).filter (fun q => categoryAt t q == .namespace) ∧
    attributeNodes t p = (rawChildPaths t p).filter (fun q => categoryAt t q == .attribute) ∧
    children t p = (rawChildPaths t p).filter (isNormalAt t) := by
  have e := allChildrenPaths_partition hs
  have e' : namespaceNodes t p ++ attributeNodes t p ++ children t p = rawChildPaths t p := by
    rw [← e, allChildrenPaths_eq]
  refine ⟨e, ?_, ?_, ?_, abnormalChildrenPaths_eq hs, namespaceNodes_eq h hs, attributeNodes_eq h hs,
    children_eq_sorted h hs⟩
  · rw [e']; exact rawChildPaths_nodup t p
  · rw [e']; exact rawChildPaths_sorted h
  · intro q hq
    rw [e']
    have h1 := List.nodup_iff_count.mp (rawChildPaths_nodup t p) q
    have h2 := List.count_pos_iff.mpr hq
    omega

/-- Non-vacuity on `exTree` (`<a xmlns:p=".." x=".."><b><c/></b>text<d/></a>`): the lists at the element `[0]`;
    and an ILL-ordered node (a text before an attribute before a namespace node) where the partition fails
    but `C07_all_children` still holds: the adapters stop at the first child of another category. -/
example : allChildrenPaths exTree [0] = [[0, 0], [0, 1], [0, 2], [0, 3], [0, 4]] ∧
    namespaceNodes exTree [0] = [[0, 0]] ∧ attributesNodes exTree [0] = [[0, 1]] ∧
    abnormalChildrenPaths exTree [0] = [[0, 0], [0, 1]] ∧ children exTree [0] = [[0, 2], [0, 3], [0, 4]] := by decide
example : let t : Tree := .node (.element 2) [.node (.text ['x']) [], .node (.attribute 3 []) [], .node (.namespace 2 2) []]
    ¬ kidsSorted (subAt t []).kids ∧ namespaceNodes t [] = [] ∧ attributeNodes t [] = [] ∧
    abnormalChildrenPaths t [] = [] ∧ children t [] = [[0], [1], [2]] ∧ allChildrenPaths t [] = [[0], [1], [2]] := by decide

/-! ## The remaining restatements for reachable trees (extended API histories, `Forest.XCall`) -/

/-- ⟦C07_reachable_child_lists⟧ **The child-list accessors, for every node of every reachable tree**:
    `all_children` = `namespaces(node).nodes()` ++ `attribute_nodes(node)` ++ `children(node)`, in document
    order, no node twice — the three lists are disjoint and every raw child occurs exactly once;
    `abnormal_children` is the first two; each list is the list of the raw children of its category. -/
theorem C07_reachable_child_lists (env : Env) (cs : List Forest.XCall) (hw : ∀ c ∈ cs, c.wellKinded) :
    ∀ r ∈ ((⟨Forest.init, env⟩ : Store).xrun cs).forest.roots, ∀ p : Path, Valid r.erase p →
      allChildrenPaths r.erase p = namespaceNodes r.erase p ++ attributeNodes r.erase p ++ children r.erase p ∧
      (namespaceNodes r.erase p ++ attributeNodes r.erase p ++ children r.erase p).Nodup ∧
      (namespaceNodes r.erase p ++ attributeNodes r.erase p ++ children r.erase p).Pairwise
        (fun a b => docLt a b = true) ∧
      (∀ q ∈ rawChildPaths r.erase p,
        (namespaceNodes r.erase p ++ attributeNodes r.erase p ++ children r.erase p).count q = 1) ∧
      abnormalChildrenPaths r.erase p = namespaceNodes r.erase p ++ attributeNodes r.erase p ∧
      attributesNodes r.erase p = attributeNodes r.erase p ∧
      namespaceNodes r.erase p = (rawChildPaths r.erase p).filter (fun q => categoryAt r.erase q == .namespace) ∧
      attributeNodes r.erase p = (rawChildPaths r.erase p).filter (fun q => categoryAt r.erase q == .attribute) ∧
      children r.erase p = (rawChildPaths r.erase p).filter (isNormalAt r.erase) := by
  intro r hr p hp
  obtain ⟨a1, a2, a3, a4, a5, a6, a7, a8⟩ :=
    C07_all_children_partition hp ((C07_inv_wf _ (Reach.inv_reachable env cs hw) r hr).2 p)
  exact ⟨a1, a2, a3, a4, a5, attributesNodes_eq _ _, a6, a7, a8⟩

/-- ⟦C07_reachable_axis_descendant_abnormal⟧ `axis(Descendant)` at an attribute / namespace node of a
    reachable tree: nothing. -/
theorem C07_reachable_axis_descendant_abnormal (env : Env) (cs : List Forest.XCall) (hw : ∀ c ∈ cs, c.wellKinded) :
    ∀ r ∈ ((⟨Forest.init, env⟩ : Store).xrun cs).forest.roots, ∀ p : Path, Valid r.erase p →
      isNormalAt r.erase p = false → axis r.erase .descendant p = [] :=
  fun r hr _ hp hn => C07_axis_descendant_abnormal (C07_inv_wf _ (Reach.inv_reachable env cs hw) r hr).1 hp hn

/-- ⟦C07_reachable_child_index⟧ `child_index(parent, child)` for every node `p` of every reachable
    tree and EVERY `child`: `Some(i)` iff `child` is the `i`-th of `children(p)`, `None` when `p` is
    not the parent of `child`. -/
theorem C07_reachable_child_index (env : Env) (cs : List Forest.XCall) (hw : ∀ c ∈ cs, c.wellKinded) :
    ∀ r ∈ ((⟨Forest.init, env⟩ : Store).xrun cs).forest.roots, ∀ p : Path, Valid r.erase p → ∀ child : Path,
      (∀ i, childIndex r.erase p child = some i ↔ (children r.erase p)[i]? = some child) ∧
      (parent child ≠ some p → childIndex r.erase p child = none) :=
  fun r hr _ hp _ => C07_child_index (C07_inv_wf _ (Reach.inv_reachable env cs hw) r hr).1 hp

/-- ⟦C07_reachable_document_element⟧ `document_element`, for every node of every reachable tree:
    `Ok(c)` means `p` is a document node and `c` its first element child — and then `c` satisfies
    `is_document_element` and `has_document_parent`; the two errors; it never panics. -/
theorem C07_reachable_document_element (env : Env) (cs : List Forest.XCall) (hw : ∀ c ∈ cs, c.wellKinded) :
    ∀ r ∈ ((⟨Forest.init, env⟩ : Store).xrun cs).forest.roots, ∀ p : Path, Valid r.erase p →
      (∀ c, documentElement r.erase p = .ok c →
        (valueAt r.erase p).isDocument = true ∧ c ∈ children r.erase p ∧ (valueAt r.erase c).isElement = true ∧
        (∀ c' ∈ children r.erase p, docLt c' c = true → (valueAt r.erase c').isElement = false) ∧
        isDocumentElement r.erase c = true ∧ hasDocumentParent r.erase c = true) ∧
      (documentElement r.erase p = .err .notDocument ↔ (valueAt r.erase p).isDocument = false) ∧
      (documentElement r.erase p = .err .noElementAtTopLevel ↔
        (valueAt r.erase p).isDocument = true ∧ ∀ c ∈ children r.erase p, (valueAt r.erase c).isElement = false) ∧
      documentElement r.erase p ≠ .panic := by
  intro r hr p hp
  have hwf := (C07_inv_wf _ (Reach.inv_reachable env cs hw) r hr).1
  obtain ⟨d1, d2, d3, d4⟩ := C07_document_element hwf hp
  refine ⟨fun c hc => ?_, d2, d3, d4⟩
  obtain ⟨e1, e2, e3, e4⟩ := d1 c hc
  exact ⟨e1, e2, e3, e4, C07_document_element_is hwf hp hc⟩

/-- ⟦C07_reachable_is_document_element⟧ `has_document_parent` / `is_document_element`, for every non-root
    node `p ++ [i]` of every reachable tree: the parent is a document node; resp. moreover the node is an
    element among the children of that document node — and when it is the ONLY element child, it is what
    `document_element(parent)` returns.  (At a root both are `false`: `C07_is_document_element`.) -/
theorem C07_reachable_is_document_element (env : Env) (cs : List Forest.XCall) (hw : ∀ c ∈ cs, c.wellKinded) :
    ∀ r ∈ ((⟨Forest.init, env⟩ : Store).xrun cs).forest.roots, ∀ (p : Path) (i : Nat), Valid r.erase (p ++ [i]) →
      hasDocumentParent r.erase (p ++ [i]) = (valueAt r.erase p).isDocument ∧
      (isDocumentElement r.erase (p ++ [i]) = true ↔
        (valueAt r.erase p).isDocument = true ∧ (p ++ [i]) ∈ children r.erase p ∧
        (valueAt r.erase (p ++ [i])).isElement = true) ∧
      (isDocumentElement r.erase (p ++ [i]) = true →
        (∀ c ∈ children r.erase p, (valueAt r.erase c).isElement = true → c = p ++ [i]) →
        documentElement r.erase p = .ok (p ++ [i])) := by
  intro r hr p i hp
  have hwf := (C07_inv_wf _ (Reach.inv_reachable env cs hw) r hr).1
  exact ⟨(C07_is_document_element hwf hp).1, (C07_is_document_element hwf hp).2.1,
    fun hde hu => C07_is_document_element_unique hwf hp hde hu⟩

/-- ⟦C07_reachable_edges_root⟧ The root-walk clauses of `C07_edges_next` / `_previous`, for every reachable
    tree whose root is a normal node: from `Start(root)` the `NodeEdge::next` walk is exactly
    `traverse(root)`, from `End(root)` the `previous` walk exactly `reverse_traverse(root)`, however long one
    goes on stepping; and at every node `reverse_traverse` / `reverse_all_traverse` are `traverse` /
    `all_traverse` reversed. -/
theorem C07_reachable_edges_root (env : Env) (cs : List Forest.XCall) (hw : ∀ c ∈ cs, c.wellKinded) :
    ∀ r ∈ ((⟨Forest.init, env⟩ : Store).xrun cs).forest.roots,
      (isNormalAt r.erase [] = true → ∀ m : Nat,
        edgeWalk (Edge.next r.erase) ((traverse r.erase []).length + m) (.start []) = traverse r.erase [] ∧
        edgeWalk (Edge.previous r.erase) ((reverseTraverse r.erase []).length + m) (.stop []) =
          reverseTraverse r.erase []) ∧
      (∀ p : Path, reverseTraverse r.erase p = (traverse r.erase p).reverse ∧
        reverseAllTraverse r.erase p = (allTraverse r.erase p).reverse) := by
  intro r hr
  have hwf := (C07_inv_wf _ (Reach.inv_reachable env cs hw) r hr).1
  exact ⟨fun h0 m => ⟨edgeWalk_next_root hwf h0 m, edgeWalk_previous_root hwf h0 m⟩,
    fun p => ⟨reverseTraverse_eq r.erase p, rfl⟩⟩

/-- ⟦C07_reachable_level⟧ `level_order`, for every node of every reachable tree: the levels below the
    node with their `End` markers (the fuel is adequate, levels from the node count on are empty), and every
    level below the start node holds normal nodes of the tree only. -/
theorem C07_reachable_level (env : Env) (cs : List Forest.XCall) (hw : ∀ c ∈ cs, c.wellKinded) :
    ∀ r ∈ ((⟨Forest.init, env⟩ : Store).xrun cs).forest.roots, ∀ p : Path, Valid r.erase p →
      levelOrder r.erase p = withEnds p (bfsOrder r.erase p) ∧
      (∀ k, r.erase.size ≤ k → levelAt r.erase p k = []) ∧
      (∀ k, ∀ q ∈ levelAt r.erase p (k + 1), Valid r.erase q ∧ isNormalAt r.erase q = true) := by
  intro r hr p hp
  exact ⟨(C07_level hp).1, (C07_level hp).2, levelAt_normal_only (C07_inv_wf _ (Reach.inv_reachable env cs hw) r hr).1 hp⟩

/-! ## FULL histories (`PCall`): parses of arbitrary texts interleaved with extended API calls

  `(PStore.init env).run cs`: the store `Xot::new()` with the vocabulary `env`, after the steps `cs`, each an
  extended API call (`.api c`) or `Xot::parse` / `parse_fragment` of ANY text (`.parse m text`; a rejected text
  leaves the forest alone).  `C04_reach_full` (Props/C04; here `PStore.fph_run_inv`): the forest has `Forest.Inv`.
  First the theorems of the last section of this file (`C07_reachable_wf` … `C07_reachable_edges`), word for
  word, then the restatements above. -/

/-- ⟦C07_reachable_wf_full⟧ Both structural hypotheses of this file hold of every parentless tree of every
    reachable forest: `wf`, and `kidsSorted` at EVERY node. -/
theorem C07_reachable_wf_full (env : Env) (cs : List PCall) (hw : ∀ c ∈ cs, c.wellKinded) :
    ∀ r ∈ ((PStore.init env).run cs).forest.roots,
      wf r.erase = true ∧ ∀ p : Path, kidsSorted (subAt r.erase p).kids :=
  fun _ hr => ⟨Reach.wf_root (PStore.fph_run_inv cs (PStore.fph_init_inv env) hw) hr,
    Reach.kidsSorted_root (PStore.fph_run_inv cs (PStore.fph_init_inv env) hw) hr⟩

/-- ⟦C07_reachable_nodes_full⟧ Every live handle of a reachable forest is a node of one of its trees: it has a path `q` there, the
    path is `Valid` in the erased tree and leads back to the handle.  (So "for all roots `r`, for all
    `Valid` paths" below ranges over every live node of the store — and over nothing else:
    `C04_traversals_live`.) -/
theorem C07_reachable_nodes_full (env : Env) (cs : List PCall) (h : Nat)
    (hl : ((PStore.init env).run cs).forest.isLive h = true) :
    ∃ r ∈ ((PStore.init env).run cs).forest.roots, ∃ q : Path,
      HTree.pathOf h r = some q ∧ Valid r.erase q ∧ HTree.handleAt r q = some h := by
  obtain ⟨r, _, hr, q, hq⟩ := Forest.rootOf?_of_live hl
  obtain ⟨s, hs, rfl⟩ := HTree.ftrav_pathOf_at? _ r q hq
  exact ⟨r, hr, q, hq, (Reach.valid_erase_iff r q).mpr (by rw [hs]; rfl),
    by simp [HTree.ftrav_handleAt_eq, hs]⟩

/-- ⟦C07_reachable_partition_full⟧ **The partition law, for every node of every reachable tree.**  For a
    normal node: ancestors, the node, descendants, preceding and following together are exactly the
    normal nodes of its tree, each once; for an attribute or namespace node the four axes alone. -/
theorem C07_reachable_partition_full (env : Env) (cs : List PCall) (hw : ∀ c ∈ cs, c.wellKinded) :
    ∀ r ∈ ((PStore.init env).run cs).forest.roots, ∀ p : Path, Valid r.erase p →
      (isNormalAt r.erase p = true →
        (axis r.erase .ancestor p ++ (p :: axis r.erase .descendant p) ++ axis r.erase .preceding p ++
          axis r.erase .following p).Perm (pre r.erase) ∧
        (axis r.erase .ancestor p ++ (p :: axis r.erase .descendant p) ++ axis r.erase .preceding p ++
          axis r.erase .following p).Nodup) ∧
      (isNormalAt r.erase p = false →
        (axis r.erase .ancestor p ++ axis r.erase .descendant p ++ axis r.erase .preceding p ++
          axis r.erase .following p).Perm (pre r.erase) ∧
        (axis r.erase .ancestor p ++ axis r.erase .descendant p ++ axis r.erase .preceding p ++
          axis r.erase .following p).Nodup) := by
  intro r hr p hp
  have hwf := (C07_reachable_wf_full env cs hw r hr).1
  exact ⟨fun hn => ⟨C07_partition hwf hp hn, C07_partition_disjoint hwf hp hn⟩,
    fun hn => C07_partition_abnormal hwf hp hn⟩

/-- ⟦C07_reachable_order_full⟧ **Document order, for every node of every reachable tree**: descendants and
    following are the normal nodes below / after the node in document order, ancestors and preceding
    the proper ancestors / the nodes before it that are not ancestors in REVERSE document order — as
    equations with the document-order specifications, and as sortedness. -/
theorem C07_reachable_order_full (env : Env) (cs : List PCall) (hw : ∀ c ∈ cs, c.wellKinded) :
    ∀ r ∈ ((PStore.init env).run cs).forest.roots, ∀ p : Path, Valid r.erase p →
      axis r.erase .descendantOrSelf p = (pre r.erase).filter (fun q => p.isPrefixOf q) ∧
      axis r.erase .following p = (pre r.erase).filter (fun q => docLt p q && !p.isPrefixOf q) ∧
      axis r.erase .preceding p = ((pre r.erase).filter (fun q => docLt q p && !q.isPrefixOf p)).reverse ∧
      axis r.erase .ancestor p = ((pre r.erase).filter (fun q => q.isPrefixOf p && q != p)).reverse ∧
      (axis r.erase .descendantOrSelf p).Pairwise (fun a b => docLt a b = true) ∧
      (axis r.erase .following p).Pairwise (fun a b => docLt a b = true) ∧
      (axis r.erase .ancestor p).Pairwise (fun a b => docLt b a = true) ∧
      (axis r.erase .preceding p).Pairwise (fun a b => docLt b a = true) := by
  intro r hr p hp
  have hwf := (C07_reachable_wf_full env cs hw r hr).1
  obtain ⟨o1, o2, o3, o4⟩ := C07_order hwf hp
  exact ⟨(C07_descendants hp).1, (C07_following hp).1, (C07_preceding hwf hp).1, (C07_axis_ancestor hwf hp).1,
    o1, o2, o3, o4⟩

/-- ⟦C07_reachable_all_full⟧ **The `all_*` variants and the attribute axis, for every node of every reachable
    tree**: the raw child list is namespace nodes ++ attribute nodes ++ children; `all_descendants` is
    the node, then the subtrees of its namespace nodes, its attribute nodes, its children, in this
    order, `all_traverse` likewise between `Start` and `End`; `attribute_nodes` are exactly the
    attribute children in order; `next_sibling` / `previous_sibling` of ANY node (attribute and
    namespace nodes included) is the nearest following / preceding sibling of its category. -/
theorem C07_reachable_all_full (env : Env) (cs : List PCall) (hw : ∀ c ∈ cs, c.wellKinded) :
    ∀ r ∈ ((PStore.init env).run cs).forest.roots, ∀ p : Path, Valid r.erase p →
      (subAt r.erase p).kids =
        (subAt r.erase p).namespaceNodes ++ (subAt r.erase p).attributeNodes ++ (subAt r.erase p).normalKids ∧
      allDescendants r.erase p = p :: (allPreList 0
        ((subAt r.erase p).namespaceNodes ++ (subAt r.erase p).attributeNodes ++
          (subAt r.erase p).normalKids)).map (p ++ ·) ∧
      allTraverse r.erase p = .start p :: ((rawEdgesList 0
        ((subAt r.erase p).namespaceNodes ++ (subAt r.erase p).attributeNodes ++
          (subAt r.erase p).normalKids)).map (Edge.mapPath (p ++ ·)) ++ [.stop p]) ∧
      attributeNodes r.erase p = (rawChildPaths r.erase p).filter (fun q => categoryAt r.erase q == .attribute) ∧
      (∀ i : Nat, Valid r.erase (p ++ [i]) →
        nextSibling r.erase (p ++ [i]) = (axis r.erase .followingSibling (p ++ [i])).head? ∧
        previousSibling r.erase (p ++ [i]) = (axis r.erase .precedingSibling (p ++ [i])).head?) := by
  intro r hr p hp
  have hs := (C07_reachable_wf_full env cs hw r hr).2 p
  obtain ⟨a1, a2, a3⟩ := C07_all hs
  exact ⟨a1, a2, a3, (C07_attribute_axis hp).2.2 hs, fun i hi => C07_next_previous_sibling_any hi hs⟩

/-- ⟦C07_reachable_children_full⟧ **Children, for every node of every reachable tree**: `children` are the normal
    nodes whose parent is the node, in document order, `first_child` / `last_child` its ends,
    `reverse_children` its reverse, `child_index` the position in it; and every plain iterator from
    the node yields normal nodes of the tree only. -/
theorem C07_reachable_children_full (env : Env) (cs : List PCall) (hw : ∀ c ∈ cs, c.wellKinded) :
    ∀ r ∈ ((PStore.init env).run cs).forest.roots, ∀ p : Path, Valid r.erase p →
      children r.erase p = (pre r.erase).filter (fun q => parent q == some p) ∧
      firstChild r.erase p = (children r.erase p).head? ∧
      lastChild r.erase p = (children r.erase p).getLast? ∧
      reverseChildren r.erase p = (children r.erase p).reverse ∧
      (∀ child i, childIndex r.erase p child = some i ↔ (children r.erase p)[i]? = some child) ∧
      (∀ q ∈ preceding r.erase p, Valid r.erase q ∧ isNormalAt r.erase q = true) ∧
      (∀ q ∈ children r.erase p, Valid r.erase q ∧ isNormalAt r.erase q = true) ∧
      (∀ q ∈ axis r.erase .ancestor p, Valid r.erase q ∧ isNormalAt r.erase q = true) := by
  intro r hr p hp
  have hwf := (C07_reachable_wf_full env cs hw r hr).1
  obtain ⟨c1, _, c3, c4⟩ := C07_children hwf hp
  obtain ⟨_, _, n3, _, n5, n6, _⟩ := C07_plain_normal hwf hp
  exact ⟨c1, c3, c4, (C07_reverse_children hp).2 hwf, fun child i => (C07_child_index hwf hp).1 i, n3, n5, n6⟩

/-- ⟦C07_reachable_edges_full⟧ **`NodeEdge::next` / `previous`, for every normal node of every reachable tree**:
    the walks enumerate `traverse` / `reverse_traverse` and continue with the successor of `End` /
    the predecessor of `Start`. -/
theorem C07_reachable_edges_full (env : Env) (cs : List PCall) (hw : ∀ c ∈ cs, c.wellKinded) :
    ∀ r ∈ ((PStore.init env).run cs).forest.roots, ∀ p : Path, Valid r.erase p →
      isNormalAt r.erase p = true → ∀ m : Nat,
      edgeWalk (Edge.next r.erase) ((traverse r.erase p).length + m) (.start p) =
        traverse r.erase p ++ contN r.erase m (Edge.next r.erase (.stop p)) ∧
      edgeWalk (Edge.previous r.erase) ((reverseTraverse r.erase p).length + m) (.stop p) =
        reverseTraverse r.erase p ++ contP r.erase m (Edge.previous r.erase (.start p)) := by
  intro r hr p hp hn m
  have hwf := (C07_reachable_wf_full env cs hw r hr).1
  exact ⟨(C07_edges_next hwf hp hn m).1, (C07_edges_previous hwf hp hn m).1⟩

/-- ⟦C07_reachable_child_lists_full⟧ **The child-list accessors, for every node of every reachable tree** (full histories):
    `all_children` = `namespaces(node).nodes()` ++ `attribute_nodes(node)` ++ `children(node)`, in document
    order, no node twice — the three lists are disjoint and every raw child occurs exactly once;
    `abnormal_children` is the first two; each list is the list of the raw children of its category. -/
theorem C07_reachable_child_lists_full (env : Env) (cs : List PCall) (hw : ∀ c ∈ cs, c.wellKinded) :
    ∀ r ∈ ((PStore.init env).run cs).forest.roots, ∀ p : Path, Valid r.erase p →
      allChildrenPaths r.erase p = namespaceNodes r.erase p ++ attributeNodes r.erase p ++ children r.erase p ∧
      (namespaceNodes r.erase p ++ attributeNodes r.erase p ++ children r.erase p).Nodup ∧
      (namespaceNodes r.erase p ++ attributeNodes r.erase p ++ children r.erase p).Pairwise
        (fun a b => docLt a b = true) ∧
      (∀ q ∈ rawChildPaths r.erase p,
        (namespaceNodes r.erase p ++ attributeNodes r.erase p ++ children r.erase p).count q = 1) ∧
      abnormalChildrenPaths r.erase p = namespaceNodes r.erase p ++ attributeNodes r.erase p ∧
      attributesNodes r.erase p = attributeNodes r.erase p ∧
      namespaceNodes r.erase p = (rawChildPaths r.erase p).filter (fun q => categoryAt r.erase q == .namespace) ∧
      attributeNodes r.erase p = (rawChildPaths r.erase p).filter (fun q => categoryAt r.erase q == .attribute) ∧
      children r.erase p = (rawChildPaths r.erase p).filter (isNormalAt r.erase) := by
  intro r hr p hp
  obtain ⟨a1, a2, a3, a4, a5, a6, a7, a8⟩ :=
    C07_all_children_partition hp ((C07_inv_wf _ (PStore.fph_run_inv cs (PStore.fph_init_inv env) hw) r hr).2 p)
  exact ⟨a1, a2, a3, a4, a5, attributesNodes_eq _ _, a6, a7, a8⟩

/-- ⟦C07_reachable_axis_descendant_abnormal_full⟧ `axis(Descendant)` at an attribute / namespace node of a
    reachable tree (full histories): nothing. -/
theorem C07_reachable_axis_descendant_abnormal_full (env : Env) (cs : List PCall) (hw : ∀ c ∈ cs, c.wellKinded) :
    ∀ r ∈ ((PStore.init env).run cs).forest.roots, ∀ p : Path, Valid r.erase p →
      isNormalAt r.erase p = false → axis r.erase .descendant p = [] :=
  fun r hr _ hp hn => C07_axis_descendant_abnormal (C07_inv_wf _ (PStore.fph_run_inv cs (PStore.fph_init_inv env) hw) r hr).1 hp hn

/-- ⟦C07_reachable_child_index_full⟧ `child_index(parent, child)` for every node `p` of every reachable
    tree (full histories) and EVERY `child`: `Some(i)` iff `child` is the `i`-th of `children(p)`, `None` when `p` is
    not the parent of `child`. -/
theorem C07_reachable_child_index_full (env : Env) (cs : List PCall) (hw : ∀ c ∈ cs, c.wellKinded) :
    ∀ r ∈ ((PStore.init env).run cs).forest.roots, ∀ p : Path, Valid r.erase p → ∀ child : Path,
      (∀ i, childIndex r.erase p child = some i ↔ (children r.erase p)[i]? = some child) ∧
      (parent child ≠ some p → childIndex r.erase p child = none) :=
  fun r hr _ hp _ => C07_child_index (C07_inv_wf _ (PStore.fph_run_inv cs (PStore.fph_init_inv env) hw) r hr).1 hp

/-- ⟦C07_reachable_document_element_full⟧ `document_element`, for every node of every reachable tree (full histories):
    `Ok(c)` means `p` is a document node and `c` its first element child — and then `c` satisfies
    `is_document_element` and `has_document_parent`; the two errors; it never panics. -/
theorem C07_reachable_document_element_full (env : Env) (cs : List PCall) (hw : ∀ c ∈ cs, c.wellKinded) :
    ∀ r ∈ ((PStore.init env).run cs).forest.roots, ∀ p : Path, Valid r.erase p →
      (∀ c, documentElement r.erase p = .ok c →
        (valueAt r.erase p).isDocument = true ∧ c ∈ children r.erase p ∧ (valueAt r.erase c).isElement = true ∧
        (∀ c' ∈ children r.erase p, docLt c' c = true → (valueAt r.erase c').isElement = false) ∧
        isDocumentElement r.erase c = true ∧ hasDocumentParent r.erase c = true) ∧
      (documentElement r.erase p = .err .notDocument ↔ (valueAt r.erase p).isDocument = false) ∧
      (documentElement r.erase p = .err .noElementAtTopLevel ↔
        (valueAt r.erase p).isDocument = true ∧ ∀ c ∈ children r.erase p, (valueAt r.erase c).isElement = false) ∧
      documentElement r.erase p ≠ .panic := by
  intro r hr p hp
  have hwf := (C07_inv_wf _ (PStore.fph_run_inv cs (PStore.fph_init_inv env) hw) r hr).1
  obtain ⟨d1, d2, d3, d4⟩ := C07_document_element hwf hp
  refine ⟨fun c hc => ?_, d2, d3, d4⟩
  obtain ⟨e1, e2, e3, e4⟩ := d1 c hc
  exact ⟨e1, e2, e3, e4, C07_document_element_is hwf hp hc⟩

/-- ⟦C07_reachable_is_document_element_full⟧ `has_document_parent` / `is_document_element`, for every non-root
    node `p ++ [i]` of every reachable tree (full histories): the parent is a document node; resp. moreover the node is an
    element among the children of that document node — and when it is the ONLY element child, it is what
    `document_element(parent)` returns.  (At a root both are `false`: `C07_is_document_element`.) -/
theorem C07_reachable_is_document_element_full (env : Env) (cs : List PCall) (hw : ∀ c ∈ cs, c.wellKinded) :
    ∀ r ∈ ((PStore.init env).run cs).forest.roots, ∀ (p : Path) (i : Nat), Valid r.erase (p ++ [i]) →
      hasDocumentParent r.erase (p ++ [i]) = (valueAt r.erase p).isDocument ∧
      (isDocumentElement r.erase (p ++ [i]) = true ↔
        (valueAt r.erase p).isDocument = true ∧ (p ++ [i]) ∈ children r.erase p ∧
        (valueAt r.erase (p ++ [i])).isElement = true) ∧
      (isDocumentElement r.erase (p ++ [i]) = true →
        (∀ c ∈ children r.erase p, (valueAt r.erase c).isElement = true → c = p ++ [i]) →
        documentElement r.erase p = .ok (p ++ [i])) := by
  intro r hr p i hp
  have hwf := (C07_inv_wf _ (PStore.fph_run_inv cs (PStore.fph_init_inv env) hw) r hr).1
  exact ⟨(C07_is_document_element hwf hp).1, (C07_is_document_element hwf hp).2.1,
    fun hde hu => C07_is_document_element_unique hwf hp hde hu⟩

/-- ⟦C07_reachable_edges_root_full⟧ The root-walk clauses of `C07_edges_next` / `_previous`, for every reachable
    tree (full histories) whose root is a normal node: from `Start(root)` the `NodeEdge::next` walk is exactly
    `traverse(root)`, from `End(root)` the `previous` walk exactly `reverse_traverse(root)`, however long one
    goes on stepping; and at every node `reverse_traverse` / `reverse_all_traverse` are `traverse` /
    `all_traverse` reversed. -/
theorem C07_reachable_edges_root_full (env : Env) (cs : List PCall) (hw : ∀ c ∈ cs, c.wellKinded) :
    ∀ r ∈ ((PStore.init env).run cs).forest.roots,
      (isNormalAt r.erase [] = true → ∀ m : Nat,
        edgeWalk (Edge.next r.erase) ((traverse r.erase []).length + m) (.start []) = traverse r.erase [] ∧
        edgeWalk (Edge.previous r.erase) ((reverseTraverse r.erase []).length + m) (.stop []) =
          reverseTraverse r.erase []) ∧
      (∀ p : Path, reverseTraverse r.erase p = (traverse r.erase p).reverse ∧
        reverseAllTraverse r.erase p = (allTraverse r.erase p).reverse) := by
  intro r hr
  have hwf := (C07_inv_wf _ (PStore.fph_run_inv cs (PStore.fph_init_inv env) hw) r hr).1
  exact ⟨fun h0 m => ⟨edgeWalk_next_root hwf h0 m, edgeWalk_previous_root hwf h0 m⟩,
    fun p => ⟨reverseTraverse_eq r.erase p, rfl⟩⟩

/-- ⟦C07_reachable_level_full⟧ `level_order`, for every node of every reachable tree (full histories): the levels below the
    node with their `End` markers (the fuel is adequate, levels from the node count on are empty), and every
    level below the start node holds normal nodes of the tree only. -/
theorem C07_reachable_level_full (env : Env) (cs : List PCall) (hw : ∀ c ∈ cs, c.wellKinded) :
    ∀ r ∈ ((PStore.init env).run cs).forest.roots, ∀ p : Path, Valid r.erase p →
      levelOrder r.erase p = withEnds p (bfsOrder r.erase p) ∧
      (∀ k, r.erase.size ≤ k → levelAt r.erase p k = []) ∧
      (∀ k, ∀ q ∈ levelAt r.erase p (k + 1), Valid r.erase q ∧ isNormalAt r.erase q = true) := by
  intro r hr p hp
  exact ⟨(C07_level hp).1, (C07_level hp).2, levelAt_normal_only (C07_inv_wf _ (PStore.fph_run_inv cs (PStore.fph_init_inv env) hw) r hr).1 hp⟩

/-! ### Non-vacuity of the `_full` theorems: parse a text, then edit

  `Xot::new()`; `parse("<r xmlns:p=\"urn:a\" a=\"1\" b=\"2\"><p:a>t</p:a><!--c--></r>")`; `new_element`; `append` it to
  `r`.  One tree: the document 0 with `r` = 1 holding the namespace node 2, the attribute nodes 3 and 4, `p:a` = 5
  (text 6), the comment 7 and the appended element 8. -/

def c07FullEnv : Env :=
  { namespaces := [[], xmlNamespaceUri], prefixes := [[], ['x', 'm', 'l']],
    names := [(['s', 'p', 'a', 'c', 'e'], 1), (['i', 'd'], 1)] }
def c07FullCalls : List PCall :=
  [.parse .document "<r xmlns:p=\"urn:a\" a=\"1\" b=\"2\"><p:a>t</p:a><!--c--></r>".toList,
   .api (.newNode (.element 3)), .api (.call (.append 1 8))]
def c07FullRoot : HTree :=
  .node 0 .document [.node 1 (.element 2) [.node 2 (.namespace 2 2) [], .node 3 (.attribute 3 ['1']) [],
    .node 4 (.attribute 4 ['2']) [], .node 5 (.element 5) [.node 6 (.text ['t']) []], .node 7 (.comment ['c']) [],
    .node 8 (.element 3) []]]
theorem c07FullCalls_wellKinded : ∀ c ∈ c07FullCalls, c.wellKinded := by decide
theorem c07FullRoot_mem : c07FullRoot ∈ ((PStore.init c07FullEnv).run c07FullCalls).forest.roots := by
  have : ((PStore.init c07FullEnv).run c07FullCalls).forest.roots = [c07FullRoot] := by decide +kernel
  rw [this]; exact List.mem_singleton.mpr rfl

example : wf c07FullRoot.erase = true ∧ kidsSorted (subAt c07FullRoot.erase [0]).kids :=
  ⟨(C07_reachable_wf_full _ _ c07FullCalls_wellKinded _ c07FullRoot_mem).1,
   (C07_reachable_wf_full _ _ c07FullCalls_wellKinded _ c07FullRoot_mem).2 [0]⟩
example : Valid c07FullRoot.erase [0] ∧ Valid c07FullRoot.erase [0, 3] ∧ isNormalAt c07FullRoot.erase [0, 3] = true ∧
    Valid c07FullRoot.erase [0, 1] ∧ isNormalAt c07FullRoot.erase [0, 1] = false ∧ isNormalAt c07FullRoot.erase [] = true := by
  decide
example : allChildrenPaths c07FullRoot.erase [0] =
    namespaceNodes c07FullRoot.erase [0] ++ attributeNodes c07FullRoot.erase [0] ++ children c07FullRoot.erase [0] :=
  (C07_reachable_child_lists_full _ _ c07FullCalls_wellKinded _ c07FullRoot_mem [0] (by decide)).1
example : namespaceNodes c07FullRoot.erase [0] = [[0, 0]] ∧ attributesNodes c07FullRoot.erase [0] = [[0, 1], [0, 2]] ∧
    children c07FullRoot.erase [0] = [[0, 3], [0, 4], [0, 5]] ∧ abnormalChildrenPaths c07FullRoot.erase [0] = [[0, 0], [0, 1], [0, 2]] ∧
    axis c07FullRoot.erase .descendant [0, 1] = [] ∧ axis c07FullRoot.erase .following [0, 1] = [[0, 3], [0, 3, 0], [0, 4], [0, 5]] ∧
    documentElement c07FullRoot.erase [] = .ok [0] ∧ isDocumentElement c07FullRoot.erase [0] = true ∧
    childIndex c07FullRoot.erase [0] [0, 4] = some 1 ∧ childIndex c07FullRoot.erase [0] [0, 1] = none ∧
    levelOrder c07FullRoot.erase [0] = [.node [0], .stop, .node [0, 3], .node [0, 4], .node [0, 5], .stop, .node [0, 3, 0], .stop] := by
  decide
example : (axis c07FullRoot.erase .ancestor [0, 3] ++ ([0, 3] :: axis c07FullRoot.erase .descendant [0, 3]) ++
    axis c07FullRoot.erase .preceding [0, 3] ++ axis c07FullRoot.erase .following [0, 3]).Perm (pre c07FullRoot.erase) :=
  ((C07_reachable_partition_full _ _ c07FullCalls_wellKinded _ c07FullRoot_mem [0, 3] (by decide)).1 (by decide)).1
/-- The restatements over `Forest.XCall` histories at the 16-step history of Props/C04 (`Reach.exCalls`, its tree
    `<e xmlns:p=".." xmlns:n0=".."><e xmlns:n0="..">x</e></e>`). -/
example : allChildrenPaths Reach.exRoot.erase [] =
    namespaceNodes Reach.exRoot.erase [] ++ attributeNodes Reach.exRoot.erase [] ++ children Reach.exRoot.erase [] :=
  (C07_reachable_child_lists _ _ Reach.exCalls_wellKinded _ Reach.exRoot_mem [] (by decide)).1
example : namespaceNodes Reach.exRoot.erase [] = [[0], [1]] ∧ children Reach.exRoot.erase [] = [[2]] ∧
    axis Reach.exRoot.erase .descendant [1] = [] ∧ isNormalAt Reach.exRoot.erase [] = true := by decide

end XotModel.Props

/-! # ================================================================================================
    # REACHABLE TREES (branch wt-reach): the structural hypotheses `wf` / `kidsSorted` are theorems
    # ================================================================================================

  The theorems above that assume `wf t` (non-normal nodes are leaves, no normal child before a
  non-normal one) or `kidsSorted` (namespaces, attributes, normal nodes) say nothing about ill-ordered
  trees.  The public API cannot build such a tree: every forest reachable from the empty store by an
  extended history (`Store.xrun` over `Forest.XCall`, Model/FhistSpec.lean: the whole mutating API on
  nodes, node creation, set_text_consolidation, remove_insignificant_whitespace,
  create_missing_prefixes, deduplicate_namespaces, clone_with_prefixes; arbitrary arguments, every
  outcome) has the invariant `Forest.Inv` (`C04_reach_ext` = `Reach.inv_reachable`), and the erasure of
  every parentless tree of such a forest satisfies both hypotheses at every node (Lemmas/ReachNode.lean,
  ReachAxes.lean).  The headline theorems restated for reachable trees, with NO structural hypothesis:
  the only side condition left is `XCall.wellKinded` (a map insertion given as DATA carries an entry of
  the map's kind; the Rust API builds the entry itself), and `Valid r.erase p` — `p` names a node. -/

namespace XotModel.Props
open XotModel XotModel.Axes

/-- ⟦C07_reachable_wf⟧ Both structural hypotheses of this file hold of every parentless tree of every
    reachable forest: `wf`, and `kidsSorted` at EVERY node. -/
theorem C07_reachable_wf (env : Env) (cs : List Forest.XCall) (hw : ∀ c ∈ cs, c.wellKinded) :
    ∀ r ∈ ((⟨Forest.init, env⟩ : Store).xrun cs).forest.roots,
      wf r.erase = true ∧ ∀ p : Path, kidsSorted (subAt r.erase p).kids :=
  fun _ hr => ⟨Reach.wf_root (Reach.inv_reachable env cs hw) hr,
    Reach.kidsSorted_root (Reach.inv_reachable env cs hw) hr⟩

/-- Every live handle of a reachable forest is a node of one of its trees: it has a path `q` there, the
    path is `Valid` in the erased tree and leads back to the handle.  (So "for all roots `r`, for all
    `Valid` paths" below ranges over every live node of the store — and over nothing else:
    `C04_traversals_live`.) -/
theorem C07_reachable_nodes (env : Env) (cs : List Forest.XCall) (h : Nat)
    (hl : ((⟨Forest.init, env⟩ : Store).xrun cs).forest.isLive h = true) :
    ∃ r ∈ ((⟨Forest.init, env⟩ : Store).xrun cs).forest.roots, ∃ q : Path,
      HTree.pathOf h r = some q ∧ Valid r.erase q ∧ HTree.handleAt r q = some h := by
  obtain ⟨r, _, hr, q, hq⟩ := Forest.rootOf?_of_live hl
  obtain ⟨s, hs, rfl⟩ := HTree.ftrav_pathOf_at? _ r q hq
  exact ⟨r, hr, q, hq, (Reach.valid_erase_iff r q).mpr (by rw [hs]; rfl),
    by simp [HTree.ftrav_handleAt_eq, hs]⟩

/-- ⟦C07_reachable_partition⟧ **The partition law, for every node of every reachable tree.**  For a
    normal node: ancestors, the node, descendants, preceding and following together are exactly the
    normal nodes of its tree, each once; for an attribute or namespace node the four axes alone. -/
theorem C07_reachable_partition (env : Env) (cs : List Forest.XCall) (hw : ∀ c ∈ cs, c.wellKinded) :
    ∀ r ∈ ((⟨Forest.init, env⟩ : Store).xrun cs).forest.roots, ∀ p : Path, Valid r.erase p →
      (isNormalAt r.erase p = true →
        (axis r.erase .ancestor p ++ (p :: axis r.erase .descendant p) ++ axis r.erase .preceding p ++
          axis r.erase .following p).Perm (pre r.erase) ∧
        (axis r.erase .ancestor p ++ (p :: axis r.erase .descendant p) ++ axis r.erase .preceding p ++
          axis r.erase .following p).Nodup) ∧
      (isNormalAt r.erase p = false →
        (axis r.erase .ancestor p ++ axis r.erase .descendant p ++ axis r.erase .preceding p ++
          axis r.erase .following p).Perm (pre r.erase) ∧
        (axis r.erase .ancestor p ++ axis r.erase .descendant p ++ axis r.erase .preceding p ++
          axis r.erase .following p).Nodup) := by
  intro r hr p hp
  have hwf := (C07_reachable_wf env cs hw r hr).1
  exact ⟨fun hn => ⟨C07_partition hwf hp hn, C07_partition_disjoint hwf hp hn⟩,
    fun hn => C07_partition_abnormal hwf hp hn⟩

/-- ⟦C07_reachable_order⟧ **Document order, for every node of every reachable tree**: descendants and
    following are the normal nodes below / after the node in document order, ancestors and preceding
    the proper ancestors / the nodes before it that are not ancestors in REVERSE document order — as
    equations with the document-order specifications, and as sortedness. -/
theorem C07_reachable_order (env : Env) (cs : List Forest.XCall) (hw : ∀ c ∈ cs, c.wellKinded) :
    ∀ r ∈ ((⟨Forest.init, env⟩ : Store).xrun cs).forest.roots, ∀ p : Path, Valid r.erase p →
      axis r.erase .descendantOrSelf p = (pre r.erase).filter (fun q => p.isPrefixOf q) ∧
      axis r.erase .following p = (pre r.erase).filter (fun q => docLt p q && !p.isPrefixOf q) ∧
      axis r.erase .preceding p = ((pre r.erase).filter (fun q => docLt q p && !q.isPrefixOf p)).reverse ∧
      axis r.erase .ancestor p = ((pre r.erase).filter (fun q => q.isPrefixOf p && q != p)).reverse ∧
      (axis r.erase .descendantOrSelf p).Pairwise (fun a b => docLt a b = true) ∧
      (axis r.erase .following p).Pairwise (fun a b => docLt a b = true) ∧
      (axis r.erase .ancestor p).Pairwise (fun a b => docLt b a = true) ∧
      (axis r.erase .preceding p).Pairwise (fun a b => docLt b a = true) := by
  intro r hr p hp
  have hwf := (C07_reachable_wf env cs hw r hr).1
  obtain ⟨o1, o2, o3, o4⟩ := C07_order hwf hp
  exact ⟨(C07_descendants hp).1, (C07_following hp).1, (C07_preceding hwf hp).1, (C07_axis_ancestor hwf hp).1,
    o1, o2, o3, o4⟩

/-- ⟦C07_reachable_all⟧ **The `all_*` variants and the attribute axis, for every node of every reachable
    tree**: the raw child list is namespace nodes ++ attribute nodes ++ children; `all_descendants` is
    the node, then the subtrees of its namespace nodes, its attribute nodes, its children, in this
    order, `all_traverse` likewise between `Start` and `End`; `attribute_nodes` are exactly the
    attribute children in order; `next_sibling` / `previous_sibling` of ANY node (attribute and
    namespace nodes included) is the nearest following / preceding sibling of its category. -/
theorem C07_reachable_all (env : Env) (cs : List Forest.XCall) (hw : ∀ c ∈ cs, c.wellKinded) :
    ∀ r ∈ ((⟨Forest.init, env⟩ : Store).xrun cs).forest.roots, ∀ p : Path, Valid r.erase p →
      (subAt r.erase p).kids =
        (subAt r.erase p).namespaceNodes ++ (subAt r.erase p).attributeNodes ++ (subAt r.erase p).normalKids ∧
      allDescendants r.erase p = p :: (allPreList 0
        ((subAt r.erase p).namespaceNodes ++ (subAt r.erase p).attributeNodes ++
          (subAt r.erase p).normalKids)).map (p ++ ·) ∧
      allTraverse r.erase p = .start p :: ((rawEdgesList 0
        ((subAt r.erase p).namespaceNodes ++ (subAt r.erase p).attributeNodes ++
          (subAt r.erase p).normalKids)).map (Edge.mapPath (p ++ ·)) ++ [.stop p]) ∧
      attributeNodes r.erase p = (rawChildPaths r.erase p).filter (fun q => categoryAt r.erase q == .attribute) ∧
      (∀ i : Nat, Valid r.erase (p ++ [i]) →
        nextSibling r.erase (p ++ [i]) = (axis r.erase .followingSibling (p ++ [i])).head? ∧
        previousSibling r.erase (p ++ [i]) = (axis r.erase .precedingSibling (p ++ [i])).head?) := by
  intro r hr p hp
  have hs := (C07_reachable_wf env cs hw r hr).2 p
  obtain ⟨a1, a2, a3⟩ := C07_all hs
  exact ⟨a1, a2, a3, (C07_attribute_axis hp).2.2 hs, fun i hi => C07_next_previous_sibling_any hi hs⟩

/-- ⟦C07_reachable_children⟧ **Children, for every node of every reachable tree**: `children` are the normal
    nodes whose parent is the node, in document order, `first_child` / `last_child` its ends,
    `reverse_children` its reverse, `child_index` the position in it; and every plain iterator from
    the node yields normal nodes of the tree only. -/
theorem C07_reachable_children (env : Env) (cs : List Forest.XCall) (hw : ∀ c ∈ cs, c.wellKinded) :
    ∀ r ∈ ((⟨Forest.init, env⟩ : Store).xrun cs).forest.roots, ∀ p : Path, Valid r.erase p →
      children r.erase p = (pre r.erase).filter (fun q => parent q == some p) ∧
      firstChild r.erase p = (children r.erase p).head? ∧
      lastChild r.erase p = (children r.erase p).getLast? ∧
      reverseChildren r.erase p = (children r.erase p).reverse ∧
      (∀ child i, childIndex r.erase p child = some i ↔ (children r.erase p)[i]? = some child) ∧
      (∀ q ∈ preceding r.erase p, Valid r.erase q ∧ isNormalAt r.erase q = true) ∧
      (∀ q ∈ children r.erase p, Valid r.erase q ∧ isNormalAt r.erase q = true) ∧
      (∀ q ∈ axis r.erase .ancestor p, Valid r.erase q ∧ isNormalAt r.erase q = true) := by
  intro r hr p hp
  have hwf := (C07_reachable_wf env cs hw r hr).1
  obtain ⟨c1, _, c3, c4⟩ := C07_children hwf hp
  obtain ⟨_, _, n3, _, n5, n6, _⟩ := C07_plain_normal hwf hp
  exact ⟨c1, c3, c4, (C07_reverse_children hp).2 hwf, fun child i => (C07_child_index hwf hp).1 i, n3, n5, n6⟩

/-- ⟦C07_reachable_edges⟧ **`NodeEdge::next` / `previous`, for every normal node of every reachable tree**:
    the walks enumerate `traverse` / `reverse_traverse` and continue with the successor of `End` /
    the predecessor of `Start`. -/
theorem C07_reachable_edges (env : Env) (cs : List Forest.XCall) (hw : ∀ c ∈ cs, c.wellKinded) :
    ∀ r ∈ ((⟨Forest.init, env⟩ : Store).xrun cs).forest.roots, ∀ p : Path, Valid r.erase p →
      isNormalAt r.erase p = true → ∀ m : Nat,
      edgeWalk (Edge.next r.erase) ((traverse r.erase p).length + m) (.start p) =
        traverse r.erase p ++ contN r.erase m (Edge.next r.erase (.stop p)) ∧
      edgeWalk (Edge.previous r.erase) ((reverseTraverse r.erase p).length + m) (.stop p) =
        reverseTraverse r.erase p ++ contP r.erase m (Edge.previous r.erase (.start p)) := by
  intro r hr p hp hn m
  have hwf := (C07_reachable_wf env cs hw r hr).1
  exact ⟨(C07_edges_next hwf hp hn m).1, (C07_edges_previous hwf hp hn m).1⟩

/-! ### Non-vacuity: the 16-step history of Props/C04 (`Reach.exCalls`)

  Final forest: one tree, `<e xmlns:p=".." xmlns:n0=".."><e xmlns:n0="..">x</e></e>` (`Reach.exRoot`).  The
  reachable-tree theorems instantiated at it: the hypotheses hold, the node `[2]` (the inner element)
  and the namespace node `[1]` are valid, and the conclusions evaluate to the expected lists. -/

example : ∀ c ∈ Reach.exCalls, c.wellKinded := Reach.exCalls_wellKinded
example : Reach.exRoot ∈ ((⟨Forest.init, Reach.exEnv⟩ : Store).xrun Reach.exCalls).forest.roots := Reach.exRoot_mem
example : Valid Reach.exRoot.erase [2] ∧ isNormalAt Reach.exRoot.erase [2] = true ∧
    Valid Reach.exRoot.erase [1] ∧ isNormalAt Reach.exRoot.erase [1] = false := by decide
example : wf Reach.exRoot.erase = true ∧ kidsSorted (subAt Reach.exRoot.erase []).kids :=
  ⟨(C07_reachable_wf _ _ Reach.exCalls_wellKinded _ Reach.exRoot_mem).1,
   (C07_reachable_wf _ _ Reach.exCalls_wellKinded _ Reach.exRoot_mem).2 []⟩
example : (axis Reach.exRoot.erase .ancestor [2] ++ ([2] :: axis Reach.exRoot.erase .descendant [2]) ++
    axis Reach.exRoot.erase .preceding [2] ++ axis Reach.exRoot.erase .following [2]).Perm (pre Reach.exRoot.erase) :=
  ((C07_reachable_partition _ _ Reach.exCalls_wellKinded _ Reach.exRoot_mem [2] (by decide)).1 (by decide)).1
example : pre Reach.exRoot.erase = [[], [2], [2, 1]] ∧ axis Reach.exRoot.erase .ancestor [2, 1] = [[2], []] ∧
    axis Reach.exRoot.erase .following [1] = [[2], [2, 1]] ∧
    allDescendants Reach.exRoot.erase [] = [[], [0], [1], [2], [2, 0], [2, 1]] ∧
    nextSibling Reach.exRoot.erase [0] = some [1] ∧ nextSibling Reach.exRoot.erase [1] = none := by decide
example : HTree.pathOf 8 Reach.exRoot = some [2, 1] ∧ HTree.handleAt Reach.exRoot [2, 1] = some 8 := by decide

/-- ⟦C07_inv_partition⟧ **The partition law from the invariant alone**: in ANY forest with `Forest.Inv` (however it was
    reached), for every node of every parentless tree, ancestors / self / descendants / preceding / following
    partition the normal nodes of its tree (for an attribute or namespace node: the four axes alone). -/
theorem C07_inv_partition (f : Forest) (hi : f.Inv) :
    ∀ r ∈ f.roots, ∀ p : Path, Valid r.erase p →
      (isNormalAt r.erase p = true →
        (axis r.erase .ancestor p ++ (p :: axis r.erase .descendant p) ++ axis r.erase .preceding p ++
          axis r.erase .following p).Perm (pre r.erase) ∧
        (axis r.erase .ancestor p ++ (p :: axis r.erase .descendant p) ++ axis r.erase .preceding p ++
          axis r.erase .following p).Nodup) ∧
      (isNormalAt r.erase p = false →
        (axis r.erase .ancestor p ++ axis r.erase .descendant p ++ axis r.erase .preceding p ++
          axis r.erase .following p).Perm (pre r.erase) ∧
        (axis r.erase .ancestor p ++ axis r.erase .descendant p ++ axis r.erase .preceding p ++
          axis r.erase .following p).Nodup) := by
  intro r hr p hp
  have hwf := Reach.wf_root hi hr
  exact ⟨fun hn => ⟨C07_partition hwf hp hn, C07_partition_disjoint hwf hp hn⟩,
    fun hn => C07_partition_abnormal hwf hp hn⟩

end XotModel.Props
